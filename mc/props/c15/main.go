// C15 — bridge tax and transfer limits are applied exactly as configured.
//
// Part "tax": full product amounts x rates x exemption x funding, every case a
// really signed MsgSendToRemote on a fork of the real application, followed on
// separate forks by MsgCancelSendToRemote and by the executed-claim path (batch
// built by the skyway end-blocker at h%50==0, three MsgBatchSendToRemoteClaim
// votes, tally). Oracle: exact big.Rat arithmetic with an independent parser of
// the rate string.
//
// Part "limit": every sequence of <= D sends (no state merging) over an alphabet
// of senders x amounts x block heights around the window boundaries, against a
// reference tumbling-window counter. Tax and limit are configured through the
// governance proposal handler the application registers
// (keeper.NewSkywayProposalHandler).
package main

import (
	"encoding/json"
	"errors"
	"flag"
	"fmt"
	"math/big"
	"os"
	"runtime/debug"
	"sort"
	"strings"
	"time"

	sdkmath "cosmossdk.io/math"
	sdk "github.com/cosmos/cosmos-sdk/types"
	govv1beta1 "github.com/cosmos/cosmos-sdk/x/gov/types/v1beta1"
	keeperutil "github.com/palomachain/paloma/v2/util/keeper"
	skywaykeeper "github.com/palomachain/paloma/v2/x/skyway/keeper"
	skywaytypes "github.com/palomachain/paloma/v2/x/skyway/types"
	tftypes "github.com/palomachain/paloma/v2/x/tokenfactory/types"
	"github.com/palomachain/paloma/v2/zzverif/explore"
	"github.com/palomachain/paloma/v2/zzverif/report"
	"github.com/palomachain/paloma/v2/zzverif/world"
)

const (
	ref     = "eth-main"
	ethDest = "0x00000000000000000000000000000000000000aa"
	h0      = int64(1000) // first height of the limit scenarios (not a multiple of 50)
)

var erc20s = []string{
	"0x1111111111111111111111111111111111111111",
	"0x2222222222222222222222222222222222222222",
	"0x3333333333333333333333333333333333333333",
}

// Period lengths the property means, as literals: block time 1.5 s => 57,600
// blocks per day; a day / 7 days / 30 days / 365 days. The reference window
// uses these numbers; the code's own BridgeTransferLimit.BlockLimit() is
// compared with them at start-up (verdict period-length:<period>).
const blocksPerDay = int64(57_600)

var periodBlocks = map[string]int64{
	"NONE": 0, "ABSENT": 0,
	"DAILY":   57_600,     // 1 day
	"WEEKLY":  403_200,    // 7 days
	"MONTHLY": 1_728_000,  // 30 days
	"YEARLY":  21_024_000, // 365 days
}

var maxInt = new(big.Int).Sub(new(big.Int).Lsh(big.NewInt(1), 256), big.NewInt(1)) // largest sdk math.Int

type env struct {
	w                        *world.World
	r                        *report.Run
	shard, nshards           int
	adm, u1, u2, ex, poor    *world.Actor
	taxDenom, limDenom       string
	unmDenom, freeDenom      string
	gov                      govv1beta1.Handler
	txCache                  map[string]sdk.Tx
	pend                     map[string][]pending
	deadline                 time.Time
	capped                   bool
	ctr2                     int // running index of depth-2 prefixes (shard key)
	panicsNoChange           float64
	interOverflow            float64
	slidingExceed            float64
	accepted, rejectedLimit  float64
	failedLater, exemptSends float64
	keeperSeam               float64
	reconfCases              float64
	limReconfSends           float64
	listSends                float64
	xs                       []*world.Actor // exemption-list actors with spread first address bytes
}

func must(err error) {
	if err != nil {
		panic(err)
	}
}

func pow2(k uint) *big.Int   { return new(big.Int).Lsh(big.NewInt(1), k) }
func pow10(k int64) *big.Int { return new(big.Int).Exp(big.NewInt(10), big.NewInt(k), nil) }
func bi(s string) *big.Int {
	v, ok := new(big.Int).SetString(s, 10)
	if !ok {
		panic("bad integer " + s)
	}
	return v
}

func main() {
	replay := flag.String("replay", "", "replay file")
	flag.Parse()
	debug.SetGCPercent(400)
	n := report.Workers()
	if *replay != "" {
		n = 1
	}
	report.Main("C15", "exploration", n, func(r *report.Run, shard, nshards int) { run(r, shard, nshards, *replay) })
}

func run(r *report.Run, shard, nshards int, replayFile string) {
	w := world.New(world.Config{Stakes: world.StakesOf(1_000_000, 1_000_000, 1_000_000),
		Users: []string{"adm", "U1", "U2", "EX", "POOR"}, Height: h0})
	ctx := w.Root
	must(w.StdChain(ctx, ref))
	e := &env{w: w, r: r, shard: shard, nshards: nshards, txCache: map[string]sdk.Tx{}, pend: map[string][]pending{},
		adm: w.User("adm"), u1: w.User("U1"), u2: w.User("U2"), ex: w.User("EX"), poor: w.User("POOR")}
	var err error
	e.taxDenom, err = w.BridgeToken(ctx, e.adm, "tax", ref, erc20s[0], 0)
	must(err)
	e.limDenom, err = w.BridgeToken(ctx, e.adm, "lim", ref, erc20s[1], 0)
	must(err)
	e.freeDenom, err = w.BridgeToken(ctx, e.adm, "free", ref, erc20s[2], 0)
	must(err)
	// a factory denom that exists but is not mapped to any ERC20
	if res := w.DeliverTx(ctx, []*world.Actor{e.adm}, &tftypes.MsgCreateDenom{Subdenom: "unm", Metadata: world.Meta(e.adm)}); !res.OK() {
		panic(res.Err)
	}
	e.unmDenom = "factory/" + e.adm.Addr.String() + "/unm"
	e.gov = skywaykeeper.NewSkywayProposalHandler(w.App.SkywayKeeper)
	e.deadline = r.Deadline(240*time.Second, 27*time.Minute)

	r.Rule = "tax: full product amount x rate string x {non-exempt, exempt} x funding {a+tax-1, a+tax, a+tax+5}; each case = signed MsgSendToRemote on a fork, then (fork 1) MsgCancelSendToRemote, (fork 2) batch built by skyway.EndBlocker at h%50==0 + 3 MsgBatchSendToRemoteClaim + tally, (fork 3) batch + timeout release by skyway.EndBlocker (block time +11 min) then cancel / re-batch + execution; a case is distinct by (amount, rate, exempt, funding, outcome). " +
		"reconfig: every ordered pair (S1,S2) of tax settings rate {unset,0,1/3,1/2,1} x exempt {none,sender,other} (S2 never unset), written through {proposal handler, keeper setter} alternately: send by U1 under S1, S2 stored, send by U2 under S2, then {cancel, batch + attested execution, batch + timeout + cancel of both}. " +
		"exempt-lists: all 15 ordered lists of 1..3 of three addresses with first bytes high/low/middle x store path {proposal handler, Keeper.SetBridgeTax/SetBridgeTransferLimit, skyway ExportGenesis -> JSON -> InitGenesis}; every address and an unlisted one sends (taxed token, limited token above and within the limit). " +
		"limit-reconfig: settings (limit {500,1000} x {DAILY,WEEKLY} x U1 exempt?, NONE) S1, send@h0, S2, send x 6 heights, send; " +
		"limit: per scenario (coverage.limit_scenarios: period, limit, kinds, D) every sequence (no merging of states) of <= D signed sends, each step = kind {limited U1/U2, exempt EX, POOR = limited without funds, UNM = unmapped denom, FREE = token without limit}(amount) x height in {h0,h0+1,h0+W-1,h0+W,h0+W+1,h0+2W}, heights non-decreasing; a case is distinct by (period, limit, kind, amount, height index, reference window state, outcome)"
	r.Assumptions = []string{
		"'any one limit window' is read as the code's tumbling window: a window opens at the first ACCEPTED non-exempt transfer after the previous window lapsed (height - start >= W(period)) and lasts W(period) blocks, W = 57,600 blocks per day (1.5 s blocks) x {1, 7, 30, 365} days as literals in the check (DAILY 57,600; WEEKLY 403,200; MONTHLY 1,728,000; YEARLY 21,024,000), independent of the repository's util/blocks constants, which are compared with these numbers at start-up (period-length:<period>); a sliding-window reading is NOT checked (sequences in which more than the limit is accepted within fewer than BlockLimit blocks across a window boundary are counted in coverage.sliding_window_exceeding_sequences, informational)",
		"the limit counts transfer amounts (without tax); the limit scenarios configure no tax; cancelled transfers do not give allowance back (not required by the property)",
		"a send whose total a+floor(a*r) does not fit sdk math.Int (256 bits), or whose intermediate product a*numerator(r) / the rate's numerator or denominator does not fit, may be rejected - also by a panic recovered by baseapp.runTx (harness: res.Stage==\"panic\") - provided nothing changes in the skyway and bank stores; such rejections are counted in coverage.panics_recovered_no_state_change / representable_rejected_intermediate_overflow",
		"a limit of 0 and an unset (nil) limit both mean: no non-exempt transfer is accepted in any window (accepted total <= 0); an unset limit reads back from the store as 0; scenarios with limit 0 / nil exist for every real period and every store path (coverage.limit_scenarios)",
		"every tax / limit record written by the check is read back; a refused or differently stored setting is reported as a violation (…-setting-rejected / …-setting-not-stored-as-configured), exit 2 is reserved for world / chain / token set-up faults",
		"'no state change' = digest of the complete skyway and bank stores (the ante handler's sequence increment in the auth store is outside the property)",
		"heights are jumped with world.At: the send handler reads only ctx.BlockHeight(); block time is irrelevant to it",
		"tax and limit are configured through keeper.NewSkywayProposalHandler (the function app.go registers on the gov v1beta1 router); the gov module's voting is not exercised",
		"after a replacement of a token's transfer limit the stored usage record (window start, total) is kept: the next non-exempt send is judged against the NEW limit and the NEW period's length from the OLD window start (code's behaviour, the documented reading for limit changes); sends while the sender is exempt or the period is NONE are neither restricted nor counted",
		"refunds and burns are owed in the amounts recorded when the transfer was accepted (amount + recorded tax), whatever the token's tax settings are at cancel / execution time",
		"genesis path: the skyway module's ExportGenesis of the forked state is edited (bridge_taxes / bridge_transfer_limits), marshalled to JSON, unmarshalled, ValidateBasic'ed and imported by the module's InitGenesis into the same forked state (not a whole-application InitChain)",
		"rejected-by-limit sends are additionally re-run directly on keeper.UpdateBridgeTransferUsageWithLimit without a transaction cache ('checked before persisting' is the property's named mechanism); this seam check is stricter than the transaction-level statement",
	}

	defer e.flush()
	if replayFile != "" {
		e.replay(replayFile)
		return
	}
	if shard == 0 {
		e.checkPeriodLengths()
	}
	part := os.Getenv("C15_PART") // development switch: run one part only (reported as a cap)
	if part != "" {
		r.Cap("C15_PART=" + part)
	}
	if part == "" || part == "tax" {
		e.partTax()
	}
	if part == "" || part == "reconfig" {
		e.partReconfig()
	}
	if part == "" || part == "lists" {
		e.partExemptLists()
	}
	if part == "" || part == "limit-reconfig" {
		e.partLimitReconfig()
	}
	if part == "" || part == "limit" {
		e.partLimit()
	}
	r.Extra["reconfig_cases"] = e.reconfCases
	r.Extra["limit_reconfig_sends"] = e.limReconfSends
	r.Extra["exempt_list_sends"] = e.listSends
	r.Extra["panics_recovered_no_state_change"] = e.panicsNoChange
	r.Extra["representable_rejected_intermediate_overflow"] = e.interOverflow
	r.Extra["sliding_window_exceeding_sequences"] = e.slidingExceed
	r.Extra["limit_accepted"] = e.accepted
	r.Extra["limit_rejected_by_limit"] = e.rejectedLimit
	r.Extra["limit_failed_later_in_handler"] = e.failedLater
	r.Extra["limit_exempt_or_unlimited_sends"] = e.exemptSends
	r.Extra["keeper_seam_rejections_checked"] = e.keeperSeam
}

// checkPeriodLengths compares the code's window length of every real period
// with the literal number of blocks the property means.
func (e *env) checkPeriodLengths() {
	for _, p := range []string{"DAILY", "WEEKLY", "MONTHLY", "YEARLY"} {
		got := (&skywaytypes.BridgeTransferLimit{LimitPeriod: skywaytypes.LimitPeriod(skywaytypes.LimitPeriod_value[p])}).BlockLimit()
		e.r.Case(fmt.Sprintf("period-length|%s|%d", p, got))
		if got != periodBlocks[p] {
			e.violate(explore.Failf("period-length:"+p, "BridgeTransferLimit.BlockLimit() for %s is %d blocks; %s at 57,600 blocks per day (1.5 s blocks) is %d blocks (difference %d blocks = %.2f days)",
				p, got, p, periodBlocks[p], periodBlocks[p]-got, float64(periodBlocks[p]-got)/float64(blocksPerDay)),
				map[string]interface{}{"part": "period-length", "period": p}, 0)
		}
	}
	if got := (&skywaytypes.BridgeTransferLimit{LimitPeriod: skywaytypes.LimitPeriod_NONE}).BlockLimit(); got != 0 {
		e.violate(explore.Failf("period-length:NONE", "BlockLimit() for NONE is %d", got), map[string]interface{}{"part": "period-length", "period": "NONE"}, 0)
	}
}

type pending struct {
	f      *explore.Fail
	replay interface{}
	size   int
}

// violate buffers a violation; per signature the three smallest inputs are
// reported (flush), so that counterexamples are as short as this shard saw.
func (e *env) violate(f *explore.Fail, replay interface{}, size int) {
	l := append(e.pend[f.Signature], pending{f, replay, size})
	sort.SliceStable(l, func(i, j int) bool { return l[i].size < l[j].size })
	if len(l) > 3 {
		l = l[:3]
	}
	e.pend[f.Signature] = l
}

func (e *env) flush() {
	sigs := make([]string, 0, len(e.pend))
	for s := range e.pend {
		sigs = append(sigs, s)
	}
	sort.Strings(sigs)
	for _, s := range sigs {
		for _, p := range e.pend[s] {
			e.r.Violate(p.f.Signature, p.f.Message, p.replay)
		}
	}
	e.pend = map[string][]pending{}
}

func (e *env) late() bool {
	if e.capped {
		return true
	}
	if time.Now().After(e.deadline) {
		e.capped = true
		e.r.Cap("internal deadline")
	}
	return e.capped
}

// ---------------------------------------------------------------------------
// helpers on the real state

func (e *env) mint(ctx sdk.Context, denom string, to *world.Actor, amt *big.Int) error {
	if amt.Sign() == 0 {
		return nil
	}
	c := sdk.Coin{Denom: denom, Amount: sdkmath.NewIntFromBigInt(amt)}
	if res := e.w.DeliverTx(ctx, []*world.Actor{e.adm}, &tftypes.MsgMint{Amount: c, Metadata: world.Meta(e.adm)}); !res.OK() {
		return fmt.Errorf("mint %s: %w", amt, res.Err)
	}
	return e.w.App.BankKeeper.SendCoins(ctx, e.adm.Addr, to.Addr, sdk.Coins{c})
}

// send delivers a really signed MsgSendToRemote. Signed transactions are
// memoised by (signer, account sequence, denom, amount): the same bytes would be
// produced again (fixed keys, deterministic nonces); the ante chain still
// verifies the signature against the account's current sequence every time.
func (e *env) send(ctx sdk.Context, from *world.Actor, denom string, amt *big.Int) world.TxResult {
	seq := uint64(0)
	if acc := e.w.App.AccountKeeper.GetAccount(ctx, from.Addr); acc != nil {
		seq = acc.GetSequence()
	}
	key := fmt.Sprintf("%s|%d|%s|%s", from.Name, seq, denom, amt)
	tx, ok := e.txCache[key]
	if !ok {
		var err error
		tx, err = e.w.BuildTx(ctx, []*world.Actor{from}, &skywaytypes.MsgSendToRemote{
			EthDest: ethDest, Amount: sdk.Coin{Denom: denom, Amount: sdkmath.NewIntFromBigInt(amt)},
			ChainReferenceId: ref, Metadata: world.Meta(from),
		})
		if err != nil {
			return world.TxResult{Err: err, Stage: "build"}
		}
		if len(e.txCache) < 100_000 {
			e.txCache[key] = tx
		}
	}
	return e.w.DeliverBuiltTx(ctx, tx)
}

func (e *env) digests(ctx sdk.Context) (string, string) {
	return e.w.StoreDigest(ctx, "skyway"), e.w.StoreDigest(ctx, "bank")
}

// ---------------------------------------------------------------------------
// independent rate parser: "p/q", decimal, decimal with exponent.

func parseRate(s string) *big.Rat {
	if i := strings.IndexByte(s, '/'); i >= 0 {
		return new(big.Rat).SetFrac(bi(s[:i]), bi(s[i+1:]))
	}
	exp := int64(0)
	if i := strings.IndexAny(s, "eE"); i >= 0 {
		exp = bi(s[i+1:]).Int64()
		s = s[:i]
	}
	frac := ""
	if i := strings.IndexByte(s, '.'); i >= 0 {
		frac = s[i+1:]
		s = s[:i]
	}
	if s == "" {
		s = "0"
	}
	r := new(big.Rat).SetFrac(bi(s+frac), pow10(int64(len(frac))))
	if exp >= 0 {
		r.Mul(r, new(big.Rat).SetInt(pow10(exp)))
	} else {
		r.Quo(r, new(big.Rat).SetInt(pow10(-exp)))
	}
	return r
}

func floorMul(a *big.Int, r *big.Rat) *big.Int {
	p := new(big.Int).Mul(a, r.Num())
	return p.Quo(p, r.Denom()) // operands non-negative: truncation = floor
}

// ---------------------------------------------------------------------------
// part tax

type taxCase struct {
	Part   string `json:"part"`
	Amount string `json:"amount"`
	Rate   string `json:"rate"` // "unset" = no tax record for the token
	Exempt bool   `json:"exempt"`
	Fund   string `json:"fund"` // short | exact | ample
}

func (e *env) partTax() {
	amounts := []*big.Int{big.NewInt(1), big.NewInt(2), big.NewInt(3), big.NewInt(7), big.NewInt(99), big.NewInt(100), big.NewInt(101),
		pow10(18), pow2(64), pow2(128), pow2(255)}
	rates := []string{"unset", "0", "0.2", "1/3", "7/3", "1", "0.000001", "1e-18"}
	if e.r.Thorough() {
		amounts = nil
		seen := map[string]bool{}
		add := func(v *big.Int) {
			if v.Sign() > 0 && v.Cmp(maxInt) <= 0 && !seen[v.String()] {
				seen[v.String()] = true
				amounts = append(amounts, v)
			}
		}
		for _, v := range []int64{1, 2, 3, 4, 5, 6, 7, 9, 10, 11, 99, 100, 101, 999999, 1000000, 1000001} {
			add(big.NewInt(v))
		}
		for _, k := range []int64{9, 17, 18, 19, 36, 76, 77} {
			add(new(big.Int).Sub(pow10(k), big.NewInt(1)))
			add(pow10(k))
			add(new(big.Int).Add(pow10(k), big.NewInt(1)))
		}
		for _, k := range []uint{31, 32, 53, 63, 64, 65, 127, 128, 129, 191, 192, 253, 254, 255, 256} {
			add(new(big.Int).Sub(pow2(k), big.NewInt(1)))
			add(pow2(k))
			add(new(big.Int).Add(pow2(k), big.NewInt(1)))
		}
		rates = append(rates, "0.5", "1/7", "22/7", "3", "2/1", "0.999999999999999999", "1.000000000000000001", "123456789/1000000007",
			"1E-6", "1e2", "1/340282366920938463463374607431768211456", "1e-77", "1e-78", "1e78", "0.0")
	}
	i := 0
	for _, a := range amounts {
		for _, rate := range rates {
			for _, exempt := range []bool{false, true} {
				for _, fund := range []string{"short", "exact", "ample"} {
					i++
					if i%e.nshards != e.shard {
						continue
					}
					if e.late() {
						return
					}
					c := taxCase{Part: "tax", Amount: a.String(), Rate: rate, Exempt: exempt, Fund: fund}
					outcome, f := e.runTax(c)
					e.r.Case(fmt.Sprintf("tax|%s|%s|%v|%s|%s", c.Amount, c.Rate, c.Exempt, c.Fund, outcome))
					if outcome != "" {
						k := "tax_" + strings.ReplaceAll(outcome, "-", "_")
						v, _ := e.r.Extra[k].(float64)
						e.r.Extra[k] = v + 1
					}
					if f != nil {
						e.violate(f, c, len(c.Amount))
					}
					if i%211 == 0 {
						e.r.Sample(map[string]interface{}{"case": c, "outcome": outcome})
					}
				}
			}
		}
	}
}

func (e *env) runTax(c taxCase) (outcome string, fail *explore.Fail) {
	w := e.w
	k := w.App.SkywayKeeper
	ctx := world.Fork(w.Root)
	a := bi(c.Amount)
	denom := e.taxDenom
	sender := e.u1
	if c.Exempt {
		sender = e.ex
	}
	rate := new(big.Rat)
	if c.Rate != "unset" {
		rate = parseRate(c.Rate)
		if std, ok := new(big.Rat).SetString(c.Rate); !ok || std.Cmp(rate) != 0 {
			panic(fmt.Sprintf("harness: rate parser disagrees with big.Rat on %q", c.Rate))
		}
		if err := e.setTax(ctx, "handler", denom, c.Rate, []sdk.AccAddress{e.u2.Addr, e.ex.Addr}); err != nil {
			return "", explore.Failf("tax-setting-rejected:handler", "proposal handler rejected rate %q: %v", c.Rate, err)
		}
		if f := e.taxStored(ctx, denom, c.Rate, []sdk.AccAddress{e.u2.Addr, e.ex.Addr}, "handler"); f != nil {
			return "", f
		}
	}
	tax := new(big.Int)
	if !c.Exempt {
		tax = floorMul(a, rate)
	}
	total := new(big.Int).Add(a, tax)
	representable := total.Cmp(maxInt) <= 0
	// the implementation's intermediate values: a*num, num, den as 256-bit integers
	interFits := c.Exempt || rate.Sign() == 0 ||
		(new(big.Int).Mul(a, rate.Num()).Cmp(maxInt) <= 0 && rate.Denom().Cmp(maxInt) <= 0)
	bal := new(big.Int).Set(total)
	switch c.Fund {
	case "short":
		bal.Sub(bal, big.NewInt(1))
	case "ample":
		bal.Add(bal, big.NewInt(5))
	}
	if bal.Cmp(maxInt) > 0 {
		bal.Set(maxInt)
	}
	if err := e.mint(ctx, denom, sender, bal); err != nil {
		panic(fmt.Sprintf("harness: %v", err))
	}
	expectOK := representable && bal.Cmp(total) >= 0
	sup0 := w.Supply(ctx, denom)
	dS, dB := e.digests(ctx)

	res := e.send(ctx, sender, denom, a)
	if res.Stage == "ante" || res.Stage == "build" || res.Stage == "validate" {
		return "", explore.Failf("harness", "send did not reach the handler (%s): %v", res.Stage, res.Err)
	}
	if !res.OK() {
		nS, nB := e.digests(ctx)
		if nS != dS || nB != dB {
			return "", explore.Failf("tax-failed-send-changed-state", "send of %s (rate %s, exempt %v, balance %s) failed (%s: %v) but changed state: skyway %v bank %v",
				a, c.Rate, c.Exempt, bal, res.Stage, res.Err, nS != dS, nB != dB)
		}
		if res.Stage == "panic" {
			e.panicsNoChange++
		}
		if expectOK {
			if !interFits {
				e.interOverflow++
				if e.interOverflow == 1 {
					e.r.Sample(map[string]interface{}{"note": "representable and funded send rejected: intermediate value exceeds 256 bits", "case": c, "error": res.Err.Error()})
				}
				return "rejected-intermediate-overflow", nil
			}
			return "", explore.Failf("tax-send-rejected", "send of %s (rate %s, exempt %v) with balance %s >= cost %s was rejected: %v", a, c.Rate, c.Exempt, bal, total, res.Err)
		}
		if res.Stage == "panic" {
			return "rejected-panic", nil
		}
		return "rejected", nil
	}
	if !expectOK {
		return "", explore.Failf("tax-send-accepted-unaffordable", "send of %s (rate %s, exempt %v) accepted although cost %s, balance %s, representable %v", a, c.Rate, c.Exempt, total, bal, representable)
	}
	// accepted: sender delta, recorded tax, escrow, supply
	paid := new(big.Int).Sub(bal, w.Balance(ctx, sender.Addr, denom))
	if paid.Cmp(total) != 0 {
		return "", explore.Failf("tax-sender-delta", "sender paid %s for amount %s at rate %s (exempt %v); a+floor(a*r) = %s", paid, a, c.Rate, c.Exempt, total)
	}
	pool, err := k.GetUnbatchedTransactions(ctx)
	if err != nil || len(pool) != 1 {
		return "", explore.Failf("tax-recorded", "accepted send left %d pool records (%v)", len(pool), err)
	}
	t := pool[0]
	if t.BridgeTaxAmount.IsNil() || t.BridgeTaxAmount.BigInt().Cmp(tax) != 0 || t.Erc20Token.Amount.BigInt().Cmp(a) != 0 || !t.Sender.Equals(sender.Addr) {
		return "", explore.Failf("tax-recorded", "stored transfer has amount %s tax %s; expected amount %s tax %s (rate %s, exempt %v)", t.Erc20Token.Amount, t.BridgeTaxAmount, a, tax, c.Rate, c.Exempt)
	}
	if esc := w.Balance(ctx, w.SkywayModuleAddr(), denom); esc.Cmp(total) != 0 {
		return "", explore.Failf("tax-escrow", "escrow holds %s after a send costing %s", esc, total)
	}
	if s := w.Supply(ctx, denom); s.Cmp(sup0) != 0 {
		return "", explore.Failf("tax-send-supply", "supply changed on send: %s -> %s", sup0, s)
	}

	// fork 1: cancel returns amount + tax in full
	{
		c1 := world.Fork(ctx)
		res := w.DeliverTx(c1, []*world.Actor{sender}, &skywaytypes.MsgCancelSendToRemote{TransactionId: t.Id, Metadata: world.Meta(sender)})
		if !res.OK() {
			return "", explore.Failf("tax-cancel-rejected", "cancel of pooled transfer %d (amount %s tax %s) rejected: %v", t.Id, a, tax, res.Err)
		}
		if b := w.Balance(c1, sender.Addr, denom); b.Cmp(bal) != 0 {
			return "", explore.Failf("tax-cancel-refund", "after cancel the sender holds %s, before the send %s (amount %s, tax %s)", b, bal, a, tax)
		}
		if esc := w.Balance(c1, w.SkywayModuleAddr(), denom); esc.Sign() != 0 {
			return "", explore.Failf("tax-cancel-escrow", "escrow holds %s after cancel", esc)
		}
		if s := w.Supply(c1, denom); s.Cmp(sup0) != 0 {
			return "", explore.Failf("tax-cancel-supply", "supply changed on cancel: %s -> %s", sup0, s)
		}
		if p, _ := k.GetUnbatchedTransactions(c1); len(p) != 0 {
			return "", explore.Failf("tax-cancel-pool", "pool still has %d records after cancel", len(p))
		}
	}
	// fork 2: batch + attested execution burns amount + tax
	{
		c2 := world.Fork(ctx)
		h := (c2.BlockHeight()/50 + 1) * 50
		c2 = world.At(c2, h, c2.BlockTime().Add(time.Second))
		w.SkywayEnd(c2, nil)
		batches, err := k.GetOutgoingTxBatches(c2)
		if err != nil || len(batches) != 1 || len(batches[0].Transactions) != 1 {
			return "", explore.Failf("tax-batch", "end-blocker at height %d did not build one batch with the transfer (amount %s tax %s): %d batches, %v", h, a, tax, len(batches), err)
		}
		b := batches[0]
		bt := b.Transactions[0]
		if bt.BridgeTaxAmount.IsNil() || bt.BridgeTaxAmount.BigInt().Cmp(tax) != 0 || bt.Erc20Token.Amount.BigInt().Cmp(a) != 0 {
			return "", explore.Failf("tax-batch-recorded", "batched transfer has amount %s tax %s; expected %s / %s", bt.Erc20Token.Amount, bt.BridgeTaxAmount, a, tax)
		}
		c2 = world.At(c2, h+1, c2.BlockTime().Add(time.Second))
		for _, v := range w.Vals {
			if res := w.DeliverTx(c2, []*world.Actor{v.Actor}, world.BatchExecutedClaim(v, ref, 1, 1, b.BatchNonce, b.TokenContract.GetAddress().Hex())); !res.OK() {
				return "", explore.Failf("harness-claim", "executed claim rejected: %v", res.Err)
			}
		}
		w.SkywayEnd(c2, nil)
		burned := new(big.Int).Sub(sup0, w.Supply(c2, denom))
		if burned.Cmp(total) != 0 {
			return "", explore.Failf("tax-exec-burn", "attested execution burned %s; amount %s + tax %s = %s (rate %s, exempt %v)", burned, a, tax, total, c.Rate, c.Exempt)
		}
		if esc := w.Balance(c2, w.SkywayModuleAddr(), denom); esc.Sign() != 0 {
			return "", explore.Failf("tax-exec-escrow", "escrow holds %s after execution", esc)
		}
		if got := w.Balance(c2, sender.Addr, denom); got.Cmp(new(big.Int).Sub(bal, total)) != 0 {
			return "", explore.Failf("tax-exec-sender", "sender holds %s after execution, expected %s", got, new(big.Int).Sub(bal, total))
		}
		if bs, _ := k.GetOutgoingTxBatches(c2); len(bs) != 0 {
			return "", explore.Failf("tax-exec-batch", "batch still stored after attested execution")
		}
	}
	// fork 3: the batch times out and is released by the end-blocker
	// (cleanupTimedOutBatches -> CancelOutgoingTXBatch); the transfer returns to
	// the pool with its recorded tax; then (3a) cancel refunds all, (3b) a second
	// batch + attested execution burns all.
	{
		c3 := world.Fork(ctx)
		h := (c3.BlockHeight()/50 + 1) * 50
		c3 = world.At(c3, h, c3.BlockTime().Add(time.Second))
		w.SkywayEnd(c3, nil)
		if bs, _ := k.GetOutgoingTxBatches(c3); len(bs) != 1 {
			return "", explore.Failf("tax-batch", "end-blocker at height %d built %d batches", h, len(bs))
		}
		c3 = world.At(c3, h+1, c3.BlockTime().Add(11*time.Minute))
		w.SkywayEnd(c3, nil)
		if bs, _ := k.GetOutgoingTxBatches(c3); len(bs) != 0 {
			return "", explore.Failf("timeout-release-batch-kept", "batch still stored 11 minutes after it was built")
		}
		pool, err := k.GetUnbatchedTransactions(c3)
		if err != nil || len(pool) != 1 {
			return "", explore.Failf("timeout-release-pool", "after the timeout release the pool holds %d transfers (%v)", len(pool), err)
		}
		rt := pool[0]
		if rt.Id != t.Id || rt.BridgeTaxAmount.IsNil() || rt.BridgeTaxAmount.BigInt().Cmp(tax) != 0 || rt.Erc20Token.Amount.BigInt().Cmp(a) != 0 || !rt.Sender.Equals(sender.Addr) {
			return "", explore.Failf("timeout-release-recorded-tax", "transfer released from a timed-out batch has amount %s tax %s; recorded when sent: amount %s tax %s (rate %s, exempt %v)", rt.Erc20Token.Amount, rt.BridgeTaxAmount, a, tax, c.Rate, c.Exempt)
		}
		if esc := w.Balance(c3, w.SkywayModuleAddr(), denom); esc.Cmp(total) != 0 {
			return "", explore.Failf("timeout-release-escrow", "escrow holds %s after the timeout release, the pending transfer took %s", esc, total)
		}
		{
			c3a := world.Fork(c3)
			res := w.DeliverTx(c3a, []*world.Actor{sender}, &skywaytypes.MsgCancelSendToRemote{TransactionId: t.Id, Metadata: world.Meta(sender)})
			if !res.OK() {
				return "", explore.Failf("timeout-release-cancel-rejected", "cancel after timeout release rejected: %v", res.Err)
			}
			if b := w.Balance(c3a, sender.Addr, denom); b.Cmp(bal) != 0 {
				return "", explore.Failf("timeout-release-cancel-refund", "after timeout release + cancel the sender holds %s, before the send %s (amount %s, tax %s)", b, bal, a, tax)
			}
			if esc := w.Balance(c3a, w.SkywayModuleAddr(), denom); esc.Sign() != 0 {
				return "", explore.Failf("timeout-release-escrow", "escrow holds %s after timeout release + cancel", esc)
			}
		}
		{
			c3b := world.At(world.Fork(c3), h+50, c3.BlockTime().Add(time.Second))
			w.SkywayEnd(c3b, nil)
			bs, _ := k.GetOutgoingTxBatches(c3b)
			if len(bs) != 1 || len(bs[0].Transactions) != 1 {
				return "", explore.Failf("timeout-release-rebatch", "released transfer was not batched again at height %d", h+50)
			}
			c3b = world.At(c3b, h+51, c3b.BlockTime().Add(time.Second))
			for _, v := range w.Vals {
				if res := w.DeliverTx(c3b, []*world.Actor{v.Actor}, world.BatchExecutedClaim(v, ref, 1, 1, bs[0].BatchNonce, bs[0].TokenContract.GetAddress().Hex())); !res.OK() {
					return "", explore.Failf("harness-claim", "executed claim rejected: %v", res.Err)
				}
			}
			w.SkywayEnd(c3b, nil)
			if burned := new(big.Int).Sub(sup0, w.Supply(c3b, denom)); burned.Cmp(total) != 0 {
				return "", explore.Failf("timeout-release-exec-burn", "execution of the re-batched transfer burned %s; amount %s + tax %s = %s", burned, a, tax, total)
			}
			if esc := w.Balance(c3b, w.SkywayModuleAddr(), denom); esc.Sign() != 0 {
				return "", explore.Failf("timeout-release-escrow", "escrow holds %s after execution of the re-batched transfer", esc)
			}
		}
	}
	if tax.Sign() == 0 {
		return "accepted-tax0", nil
	}
	return "accepted-taxed", nil
}

// ---------------------------------------------------------------------------
// part limit

type step struct {
	Kind   string `json:"kind"` // U1 U2 EX POOR UNM FREE
	Amount string `json:"amount"`
	H      int    `json:"h"` // index into the height menu
}

func (s step) String() string { return fmt.Sprintf("%s(%s)@h%d", s.Kind, s.Amount, s.H) }

type limCfg struct {
	Part    string `json:"part"`
	Period  string `json:"period"` // enum name, or "ABSENT" = no limit record
	Limit   string `json:"limit"`
	period  skywaytypes.LimitPeriod
	l       *big.Int
	wlen    int64
	heights []int64
	kinds   []step
	depth   int
	// exemptU1: the limited user U1 is on the exemption list (limit-reconfig part)
	exemptU1 bool
	// Path the limit record is written through (handler | keeper | genesis; "" = handler);
	// NilLimit: the limit field is left unset (nil math.Int) instead of an explicit 0.
	Path     string `json:"path"`
	NilLimit bool   `json:"nil_limit"`
}

func (c *limCfg) path() string {
	if c.Path == "" {
		return "handler"
	}
	return c.Path
}

// limitArg is the configured limit as handed to the code (nil = unset field).
func (c *limCfg) limitArg() *big.Int {
	if c.NilLimit {
		return nil
	}
	return c.l
}

func (c *limCfg) replay(steps []step) map[string]interface{} {
	return map[string]interface{}{"part": "limit", "period": c.Period, "limit": c.Limit, "path": c.path(), "nil_limit": c.NilLimit, "steps": steps}
}

type acc struct {
	h   int64
	amt *big.Int
}

// model = reference tumbling-window counter for limDenom.
type model struct {
	open     bool
	start    int64
	total    *big.Int
	accepted []acc
	sliding  bool // some accepted send made a W-block sliding interval exceed the limit
}

func (m *model) clone() *model {
	n := *m
	n.total = new(big.Int).Set(m.total)
	n.accepted = append([]acc{}, m.accepted...)
	return &n
}

// newCfg builds a scenario. level selects the alphabet of send kinds:
// 0 = U1 x 5 amounts, exempt EX, POOR (7); 1 = + U2, a second POOR amount,
// unmapped denom, token without limit (11); 2 = + EX x 5 amounts, more U2/POOR (17).
func (e *env) newCfg(period string, limit *big.Int, depth int, level int) *limCfg {
	c := &limCfg{Part: "limit", Period: period, Limit: limit.String(), l: limit, depth: depth}
	if period != "ABSENT" {
		v, ok := skywaytypes.LimitPeriod_value[period]
		if !ok {
			panic("unknown period " + period)
		}
		c.period = skywaytypes.LimitPeriod(v)
	}
	c.wlen = periodBlocks[period] // the property's period length, NOT the code's BlockLimit()
	wl := c.wlen
	if wl == 0 { // NONE / ABSENT: no window; use the daily offsets as plain heights
		wl = blocksPerDay
	}
	c.heights = []int64{h0, h0 + 1, h0 + wl - 1, h0 + wl, h0 + wl + 1, h0 + 2*wl}
	if period == "YEARLY" {
		// also 360 days (12 x 30) and 364 days (52 x 7) after the window opened: still inside a 365-day window
		c.heights = []int64{h0, h0 + 1, h0 + 360*blocksPerDay, h0 + 364*blocksPerDay, h0 + wl - 1, h0 + wl, h0 + wl + 1, h0 + 2*wl}
	}
	half := new(big.Int).Quo(limit, big.NewInt(2))
	one := big.NewInt(1)
	lp1 := new(big.Int).Add(limit, one)
	seen := map[string]bool{}
	add := func(kind string, v *big.Int) {
		key := kind + v.String()
		if v.Sign() <= 0 || seen[key] {
			return
		}
		seen[key] = true
		c.kinds = append(c.kinds, step{Kind: kind, Amount: v.String()})
	}
	for _, v := range []*big.Int{one, half, new(big.Int).Add(half, one), limit, lp1} {
		add("U1", v)
	}
	add("EX", lp1)
	add("POOR", half)
	if level >= 1 {
		add("U2", new(big.Int).Add(half, one))
		add("POOR", one)
		add("UNM", one)
		add("FREE", lp1)
	}
	if level >= 2 {
		for _, v := range []*big.Int{one, half, new(big.Int).Add(half, one), limit} {
			add("EX", v)
		}
		add("POOR", limit)
		add("U2", one)
	}
	return c
}

// initLimit prepares the scenario on a fork of the root.
func (e *env) initLimit(c *limCfg) (sdk.Context, []*explore.Fail) {
	ctx := world.Fork(e.w.Root)
	var fails []*explore.Fail
	rich := new(big.Int).Mul(new(big.Int).Add(c.l, big.NewInt(1)), big.NewInt(int64(c.depth+2)))
	for _, u := range []*world.Actor{e.u1, e.u2, e.ex} {
		must(e.mint(ctx, e.limDenom, u, rich))
	}
	must(e.mint(ctx, e.unmDenom, e.u1, big.NewInt(100)))
	must(e.mint(ctx, e.freeDenom, e.u1, rich))
	if c.Period != "ABSENT" {
		exempt := []sdk.AccAddress{e.adm.Addr, e.ex.Addr}
		for _, d := range []string{e.limDenom, e.unmDenom} {
			// a setting the code under test refuses or stores differently is a verdict, not a harness fault
			if err := e.setLimit(ctx, c.path(), d, c.limitArg(), c.period, exempt); err != nil {
				fails = append(fails, explore.Failf("limit-setting-rejected:"+c.path(), "limit %v per %s for %s rejected through %s: %v", c.limitArg(), c.Period, d, c.path(), err))
				continue
			}
			if f := e.limitStored(ctx, d, c.limitArg(), c.period, exempt, c.path()); f != nil {
				fails = append(fails, f)
			}
		}
	}
	return ctx, fails
}

// limitStored reads the token's limit record back and compares it with what
// was configured (an unset limit reads back as 0).
func (e *env) limitStored(ctx sdk.Context, denom string, limit *big.Int, period skywaytypes.LimitPeriod, exempt []sdk.AccAddress, path string) *explore.Fail {
	want := new(big.Int)
	if limit != nil {
		want = limit
	}
	st, err := e.w.App.SkywayKeeper.BridgeTransferLimit(ctx, denom)
	if err != nil {
		return explore.Failf("limit-setting-not-stored-as-configured:"+path, "limit {%v, %s} written through %s cannot be read back: %v", limit, period, path, err)
	}
	got := new(big.Int)
	if !st.Limit.IsNil() {
		got = st.Limit.BigInt()
	}
	if got.Cmp(want) != 0 || st.LimitPeriod != period || !sameSet(st.ExemptAddresses, exempt) || st.Token != denom {
		return explore.Failf("limit-setting-not-stored-as-configured:"+path, "configured through %s: limit %v period %s exempt %v; stored: limit %s period %s exempt %v", path, limit, period, exempt, st.Limit, st.LimitPeriod, st.ExemptAddresses)
	}
	return nil
}

// taxStored is the same read-back for the tax record.
func (e *env) taxStored(ctx sdk.Context, denom, rate string, exempt []sdk.AccAddress, path string) *explore.Fail {
	st, err := e.w.App.SkywayKeeper.BridgeTax(ctx, denom)
	if err != nil || st.Rate != rate || st.Token != denom || !sameSet(st.ExemptAddresses, exempt) {
		return explore.Failf("tax-setting-not-stored-as-configured:"+path, "configured through %s: rate %q exempt %v; stored: %v (%v)", path, rate, exempt, st, err)
	}
	return nil
}

func (e *env) usage(ctx sdk.Context, denom string) (*skywaytypes.BridgeTransferUsage, error) {
	u, err := e.w.App.SkywayKeeper.BridgeTransferUsage(ctx, denom)
	if err != nil {
		if errors.Is(err, keeperutil.ErrNotFound) {
			return nil, nil
		}
		return nil, err
	}
	return u, nil
}

// stepLimit executes one send on *ctx (already forked) and checks it against
// the model (already cloned). dS/dB are the skyway / bank digests of the state
// before the step. It returns the outcome class and whether state changed.
func (e *env) stepLimit(c *limCfg, ctx *sdk.Context, m *model, s step, dS, dB string) (outcome string, changed bool, fail *explore.Fail) {
	w := e.w
	h := c.heights[s.H]
	*ctx = world.At(*ctx, h, ctx.BlockTime())
	amt := bi(s.Amount)
	var sender *world.Actor
	denom := e.limDenom
	switch s.Kind {
	case "U1":
		sender = e.u1
	case "U2":
		sender = e.u2
	case "EX":
		sender = e.ex
	case "POOR":
		sender = e.poor
	case "UNM":
		sender, denom = e.u1, e.unmDenom
	case "FREE":
		sender, denom = e.u1, e.freeDenom
	default:
		panic("kind " + s.Kind)
	}
	limited := c.Period != "ABSENT" && c.period != skywaytypes.LimitPeriod_NONE && denom == e.limDenom && sender != e.ex &&
		!(c.exemptU1 && sender == e.u1)
	// reference decision
	cand := m
	withinLimit := true
	if limited {
		cand = m.clone()
		if !m.open || h-m.start >= c.wlen {
			cand.open, cand.start, cand.total = true, h, new(big.Int).Set(amt)
		} else {
			cand.total = new(big.Int).Add(m.total, amt)
		}
		withinLimit = cand.total.Cmp(c.l) <= 0
	}
	expectOK := withinLimit && s.Kind != "POOR" && s.Kind != "UNM"

	balBefore := w.Balance(*ctx, sender.Addr, denom)
	res := e.send(*ctx, sender, denom, amt)
	if res.Stage == "ante" || res.Stage == "build" || res.Stage == "validate" {
		return "", false, explore.Failf("harness", "send %v did not reach the handler (%s): %v", s, res.Stage, res.Err)
	}
	if res.Stage == "panic" {
		return "", false, explore.Failf("limit-panic", "send %v panicked: %v", s, res.Err)
	}
	if !res.OK() {
		nS, nB := e.digests(*ctx)
		if nS != dS || nB != dB {
			return "", true, explore.Failf("limit-rejected-send-changed-state", "rejected send %v (%v) changed state: skyway %v bank %v", s, res.Err, nS != dS, nB != dB)
		}
		if expectOK {
			return "", false, explore.Failf("limit-rejected-within-limit:"+limitedness(limited), "send %v at height %d rejected (%v); reference window start=%d total=%s open=%v, limit %s per %d blocks", s, h, res.Err, m.start, m.total, m.open, c.l, c.wlen)
		}
		if limited && !withinLimit {
			// seam: the counter is checked before it is persisted (no transaction cache here)
			f := world.Fork(*ctx)
			err, _ := world.Protect(func() error {
				return w.App.SkywayKeeper.UpdateBridgeTransferUsageWithLimit(f, sender.Addr, sdk.Coin{Denom: denom, Amount: sdkmath.NewIntFromBigInt(amt)})
			})
			e.keeperSeam++
			if err == nil {
				return "", false, explore.Failf("limit-keeper-accepted-over-limit", "UpdateBridgeTransferUsageWithLimit accepted %v although the transaction was rejected", s)
			}
			if fs := w.StoreDigest(f, "skyway"); fs != dS {
				return "", false, explore.Failf("limit-keeper-rejected-persisted", "UpdateBridgeTransferUsageWithLimit rejected %v (%v) but changed the skyway store (usage persisted before the check)", s, err)
			}
			if s.Kind != "POOR" {
				e.rejectedLimit++
				return "rejected-limit", false, nil
			}
		}
		e.failedLater++
		return "failed-" + s.Kind, false, nil
	}
	// accepted
	if !expectOK {
		if s.Kind == "POOR" || s.Kind == "UNM" {
			return "", true, explore.Failf("harness", "send %v was expected to fail later in the handler but succeeded", s)
		}
		return "", true, explore.Failf("limit-exceeded", "send %v at height %d accepted; window started at %d (length %d) already holds %s, limit %s", s, h, m.start, c.wlen, m.total, c.l)
	}
	if paid := new(big.Int).Sub(balBefore, w.Balance(*ctx, sender.Addr, denom)); paid.Cmp(amt) != 0 {
		return "", true, explore.Failf("limit-sender-delta", "sender paid %s for %v", paid, s)
	}
	if limited {
		ev := "continue"
		if !m.open {
			ev = "open"
		} else if cand.start != m.start {
			ev = "roll"
		}
		*m = *cand
		m.accepted = append(m.accepted, acc{h, amt})
		// informational: sliding interval (h-W, h]
		sum := new(big.Int)
		for _, a := range m.accepted {
			if a.h > h-c.wlen {
				sum.Add(sum, a.amt)
			}
		}
		if sum.Cmp(c.l) > 0 {
			m.sliding = true
		}
		e.accepted++
		outcome = "accepted-" + ev
	} else {
		e.exemptSends++
		outcome = "accepted-unrestricted"
	}
	// stored usage == model
	u, err := e.usage(*ctx, e.limDenom)
	if err != nil {
		return "", true, explore.Failf("limit-usage-read", "usage unreadable: %v", err)
	}
	switch {
	case !m.open && u != nil:
		return "", true, explore.Failf("limit-usage-mismatch", "after %v usage record {%s,%d} exists, reference has no window", s, u.Total, u.StartBlockHeight)
	case m.open && (u == nil || u.Total.IsNil() || u.Total.BigInt().Cmp(m.total) != 0 || u.StartBlockHeight != m.start):
		return "", true, explore.Failf("limit-usage-mismatch", "after %v usage record is %v, reference window {total %s, start %d}", s, u, m.total, m.start)
	}
	if denom != e.limDenom || !limited {
		if uu, _ := e.usage(*ctx, denom); denom != e.limDenom && uu != nil {
			return "", true, explore.Failf("limit-usage-unlimited-token", "usage recorded for token without limit: %v", uu)
		}
	}
	return outcome, true, nil
}

func limitedness(l bool) string {
	if l {
		return "limited"
	}
	return "unrestricted"
}

func (e *env) runLimit(c *limCfg) {
	ctx, fails := e.initLimit(c)
	if e.shard == 0 {
		for _, f := range fails {
			e.violate(f, c.replay(nil), 0)
		}
	}
	dS, dB := e.digests(ctx)
	m := &model{total: new(big.Int)}
	e.dfs(c, ctx, m, nil, 0, dS, dB)
}

func (e *env) dfs(c *limCfg, ctx sdk.Context, m *model, path []step, hmin int, dS, dB string) {
	depth := len(path)
	if depth == c.depth {
		return
	}
	for j := hmin; j < len(c.heights); j++ {
		for _, k := range c.kinds {
			if depth == 1 {
				e.ctr2++
				if e.ctr2%e.nshards != e.shard {
					continue
				}
			}
			if e.late() {
				return
			}
			s := step{Kind: k.Kind, Amount: k.Amount, H: j}
			cc := world.Fork(ctx)
			mm := m.clone()
			p := append(append([]step{}, path...), s)
			saved := [6]float64{e.accepted, e.rejectedLimit, e.failedLater, e.exemptSends, e.keeperSeam, e.slidingExceed}
			outcome, changed, f := e.stepLimit(c, &cc, mm, s, dS, dB)
			if depth == 0 && e.shard != 0 { // first steps are executed by every shard, counted by shard 0
				e.accepted, e.rejectedLimit, e.failedLater, e.exemptSends, e.keeperSeam, e.slidingExceed = saved[0], saved[1], saved[2], saved[3], saved[4], saved[5]
			}
			if depth > 0 || e.shard == 0 {
				rel := "none"
				if m.open {
					rel = fmt.Sprintf("d%d", indexOf(c.heights, m.start))
				}
				e.r.Case(fmt.Sprintf("limit|%s|%s|%s|%s|%s|h%d|%s|%s|%s", c.Period, c.Limit, c.path(), s.Kind, s.Amount, j, rel, m.total, outcome))
				if mm.sliding && !m.sliding {
					e.slidingExceed++
					if e.slidingExceed <= 1 && e.shard == 0 {
						e.r.Sample(map[string]interface{}{"note": "accepted within fewer than W blocks across a window boundary (tumbling semantics)", "period": c.Period, "limit": c.Limit, "path": labels(p)})
					}
				}
				if e.r.Evaluations%50021 == 0 {
					e.r.Sample(map[string]interface{}{"period": c.Period, "limit": c.Limit, "path": labels(p), "last": outcome})
				}
			}
			if f != nil {
				e.violate(f, c.replay(p), len(p))
				continue
			}
			if depth+1 < c.depth {
				nS, nB := dS, dB
				if changed {
					nS, nB = e.digests(cc)
				}
				e.dfs(c, cc, mm, p, j, nS, nB)
			}
		}
	}
}

func indexOf(hs []int64, h int64) int {
	for i, v := range hs {
		if v == h {
			return i
		}
	}
	return -1
}

func labels(p []step) []string {
	out := make([]string, len(p))
	for i, s := range p {
		out[i] = s.String()
	}
	return out
}

func (e *env) partLimit() {
	k := big.NewInt(1000)
	var cfgs []*limCfg
	if !e.r.Thorough() {
		cfgs = []*limCfg{
			e.newCfg("DAILY", k, 4, 0),
			e.newCfg("DAILY", k, 3, 1),
			e.newCfg("WEEKLY", k, 3, 1),
			e.newCfg("MONTHLY", k, 3, 0),
			e.newCfg("YEARLY", k, 3, 0),
			e.newCfg("NONE", k, 2, 2),
			e.newCfg("ABSENT", k, 2, 2),
			e.newCfg("DAILY", big.NewInt(0), 2, 2),
			e.newCfg("DAILY", big.NewInt(1), 3, 1),
			e.newCfg("WEEKLY", big.NewInt(7), 3, 1),
			e.newCfg("DAILY", pow2(128), 3, 0),
		}
	} else {
		cfgs = []*limCfg{
			e.newCfg("DAILY", k, 5, 0),
			e.newCfg("WEEKLY", k, 4, 1),
			e.newCfg("MONTHLY", k, 4, 0),
			e.newCfg("YEARLY", k, 4, 0),
			e.newCfg("DAILY", k, 3, 2),
			e.newCfg("NONE", k, 3, 2),
			e.newCfg("ABSENT", k, 3, 2),
			e.newCfg("DAILY", big.NewInt(0), 3, 2),
			e.newCfg("DAILY", big.NewInt(1), 4, 1),
			e.newCfg("WEEKLY", big.NewInt(7), 4, 0),
			e.newCfg("DAILY", pow2(128), 4, 0),
			e.newCfg("YEARLY", pow2(200), 3, 1),
		}
	}
	// limit 0 and unset limit: nothing may be bridged by non-exempt senders; every real period x every store path
	zdepth := 2
	if e.r.Thorough() {
		zdepth = 3
	}
	for _, period := range []string{"DAILY", "WEEKLY", "MONTHLY", "YEARLY"} {
		for _, nilLimit := range []bool{false, true} {
			for _, path := range []string{"handler", "keeper", "genesis"} {
				c := e.newCfg(period, big.NewInt(0), zdepth, 1)
				c.Path, c.NilLimit = path, nilLimit
				if nilLimit {
					c.Limit = "nil"
				}
				cfgs = append(cfgs, c)
			}
		}
	}
	if e.shard == 0 {
		var desc []string
		for _, c := range cfgs {
			var ks []string
			for _, k := range c.kinds {
				ks = append(ks, k.Kind+"("+k.Amount+")")
			}
			desc = append(desc, fmt.Sprintf("period=%s W=%d limit=%s path=%s sequences<=%d kinds=[%s]", c.Period, c.wlen, c.Limit, c.path(), c.depth, strings.Join(ks, " ")))
		}
		e.r.Extra["limit_scenarios"] = desc
	}
	for _, c := range cfgs {
		if e.late() {
			return
		}
		e.runLimit(c)
	}
}

// ---------------------------------------------------------------------------
// replay

func (e *env) replay(file string) {
	var v report.Violation
	b, err := os.ReadFile(file)
	if err == nil {
		err = json.Unmarshal(b, &v)
	}
	if err != nil {
		fmt.Fprintln(os.Stderr, err)
		os.Exit(2)
	}
	raw, _ := json.Marshal(v.Replay)
	var head struct {
		Part string `json:"part"`
	}
	must(json.Unmarshal(raw, &head))
	switch head.Part {
	case "tax":
		var c taxCase
		must(json.Unmarshal(raw, &c))
		outcome, f := e.runTax(c)
		e.r.Case("replay|" + outcome)
		e.r.Sample(map[string]interface{}{"case": c, "outcome": outcome})
		if f != nil {
			e.violate(f, c, 0)
		}
	case "limit":
		var in struct {
			Period   string `json:"period"`
			Limit    string `json:"limit"`
			Path     string `json:"path"`
			NilLimit bool   `json:"nil_limit"`
			Steps    []step `json:"steps"`
		}
		must(json.Unmarshal(raw, &in))
		c := e.newCfg(in.Period, limitOf(in.Limit), len(in.Steps), 2)
		c.Path, c.NilLimit, c.Limit = in.Path, in.NilLimit, in.Limit
		ctx, fails := e.initLimit(c)
		for _, f := range fails {
			e.violate(f, v.Replay, 0)
		}
		m := &model{total: new(big.Int)}
		for i, s := range in.Steps {
			dS, dB := e.digests(ctx)
			outcome, _, f := e.stepLimit(c, &ctx, m, s, dS, dB)
			e.r.Case(fmt.Sprintf("replay|%d|%s", i, outcome))
			e.r.Sample(map[string]interface{}{"step": s.String(), "outcome": outcome})
			if f != nil {
				e.violate(f, v.Replay, 0)
				return
			}
		}
	case "period-length":
		e.checkPeriodLengths()
	case "reconfig":
		var c reconfCase
		must(json.Unmarshal(raw, &c))
		outcome, f := e.runReconfig(c)
		e.r.Case("replay|" + outcome)
		e.r.Sample(map[string]interface{}{"case": c, "outcome": outcome})
		if f != nil {
			e.violate(f, c, 0)
		}
	case "exempt-lists":
		var c listCase
		must(json.Unmarshal(raw, &c))
		e.r.Sample(map[string]interface{}{"case": c})
		for _, f := range e.runList(c) {
			e.violate(f, c, 0)
		}
	case "limit-reconfig":
		var in struct {
			Ops []seqOp `json:"ops"`
		}
		must(json.Unmarshal(raw, &in))
		ctx := e.initLimitReconf()
		m := &model{total: new(big.Int)}
		for i, o := range in.Ops {
			if f := e.doSeqOp(&ctx, m, o, in.Ops[:i+1]); f != nil {
				e.violate(f, v.Replay, 0)
				return
			}
			e.r.Sample(o.String())
		}
	default:
		fmt.Fprintln(os.Stderr, "unknown replay part", head.Part)
		os.Exit(2)
	}
}
