// C02, search "token-registry": "its effect is applied ... exactly once whenever
// it can be applied at all, e.g. the token is a registered bridge token".
//
// Governance re-maps two denominations (uold, unew) onto two ERC20 contracts (A, B)
// through the real MsgSetERC20MappingProposal handler, in every order and
// interleaving with really signed deposit votes for A and B and the end-block
// tally. Reference registry = what the unchanged tree defines: the last mapping
// wins per denom (forward index) and per contract (reverse index).
package main

import (
	"crypto/sha256"
	"encoding/json"
	"fmt"
	"math/big"
	"os"
	"sort"
	"strings"

	sdkmath "cosmossdk.io/math"
	sdk "github.com/cosmos/cosmos-sdk/types"
	skywaytypes "github.com/palomachain/paloma/v2/x/skyway/types"
	"github.com/palomachain/paloma/v2/zzverif/explore"
	"github.com/palomachain/paloma/v2/zzverif/report"
	"github.com/palomachain/paloma/v2/zzverif/world"
)

var (
	regDenoms = []string{"uold", "unew"}
	regTokens = []struct{ tag, addr string }{
		{"A", "0xaaaaaaaaaaaaaaaaaaaaaaaaaaaaaaaaaaaaaaaa"},
		{"B", "0xbbbbbbbbbbbbbbbbbbbbbbbbbbbbbbbbbbbbbbbb"},
	}
	maxMappings = 3
)

type rclaim struct {
	Name   string
	Token  int
	Nonce  uint64
	Amount int64
	Body   string
}

type rghost struct {
	Fwd    map[string]string // denom -> contract tag (last mapping of the denom)
	Rev    map[string]string // contract tag -> denom (last mapping of the contract)
	NMap   int
	Voters []uint8
	Obs    []bool
	Cursor uint64
	Bal    map[string]int64 // receiver balance each denom must show
}

func (g *rghost) Clone() explore.Ghost {
	n := &rghost{Fwd: map[string]string{}, Rev: map[string]string{}, NMap: g.NMap, Voters: append([]uint8{}, g.Voters...),
		Obs: append([]bool{}, g.Obs...), Cursor: g.Cursor, Bal: map[string]int64{}}
	for k, v := range g.Fwd {
		n.Fwd[k] = v
	}
	for k, v := range g.Rev {
		n.Rev[k] = v
	}
	for k, v := range g.Bal {
		n.Bal[k] = v
	}
	return n
}

func (g *rghost) Key() string { b, _ := json.Marshal(g); return string(b) }

type renv struct {
	w      *world.World
	r      *report.Run
	d      dist
	claims []*rclaim
	byBody map[string]int
	valIdx map[string]int
	rcv    *world.Actor
	bal0   map[string]*big.Int
	sup0   map[string]*big.Int
	tx     map[string]sdk.Tx
}

func (e *renv) bump(k string) {
	f, _ := e.r.Extra[k].(float64)
	e.r.Extra[k] = f + 1
}

func runRegistry(r *report.Run, sl slot, replayPath []string, rep *report.Violation) {
	d := dists[sl.Dist]
	var stakes []int64
	for _, p := range d.Powers {
		stakes = append(stakes, p*1_000_000)
	}
	w := world.New(world.Config{Stakes: world.StakesOf(stakes...), Users: []string{"R"}, Height: baseH})
	ctx := w.Root
	must(w.StdChain(ctx, ref))
	e := &renv{w: w, r: r, d: d, byBody: map[string]int{}, valIdx: map[string]int{}, rcv: w.User("R"), bal0: map[string]*big.Int{}, sup0: map[string]*big.Int{}, tx: map[string]sdk.Tx{}}
	var total int64
	for i, v := range w.Vals {
		e.valIdx[v.ValAddr.String()] = i
		must(w.App.StakingKeeper.SetLastValidatorPower(ctx, v.ValAddr, d.Powers[i]))
		total += d.Powers[i]
	}
	must(w.App.StakingKeeper.SetLastTotalPower(ctx, sdkmath.NewInt(total)))
	for ti, t := range regTokens {
		for _, n := range []uint64{1, 2} {
			amt := int64(5 + 2*ti + int(n)) // 6,7 / 8,9: all different
			e.claims = append(e.claims, &rclaim{Name: fmt.Sprintf("dep%s%d", t.tag, n), Token: ti, Nonce: n, Amount: amt})
		}
	}
	for i, c := range e.claims {
		c.Body = bodyKey(e.build(w.Vals[0], c))
		e.byBody[c.Body] = i
	}
	for _, dn := range regDenoms {
		e.bal0[dn] = w.Balance(ctx, e.rcv.Addr, dn)
		e.sup0[dn] = w.Supply(ctx, dn)
	}
	g0 := &rghost{Fwd: map[string]string{}, Rev: map[string]string{}, Voters: make([]uint8, len(e.claims)), Obs: make([]bool, len(e.claims)), Bal: map[string]int64{}}
	spec := explore.Spec{
		Name: d.Name, Init: []*explore.Node{{Ctx: ctx, Ghost: g0}}, Ops: e.ops,
		Hash: func(n *explore.Node) string {
			h := sha256.Sum256([]byte(n.Ghost.Key() + "|" + w.StoreDigest(n.Ctx, "skyway")))
			return string(h[:16])
		},
		MaxDepth: sl.Depth, Deadline: deadline(r), ShardDepth: 2, Shard: sl.Sub, NShards: sl.NSub,
	}
	if rep != nil {
		if f := explore.Replay(spec, replayPath); f != nil {
			r.Violate(f.Signature, f.Message, rep.Replay)
		}
		r.States, r.Transitions = int64(len(replayPath))+1, int64(len(replayPath))
		r.Sample(replayPath)
		return
	}
	res := explore.Run(r, spec)
	if os.Getenv("C02_VERBOSE") != "" {
		fmt.Fprintf(os.Stderr, "c02 worker %s %d/%d: depth %d/%d states=%d transitions=%d capped=%v\n", d.Name, sl.Sub, sl.NSub, res.DepthCompleted, sl.Depth, res.States, res.Transitions, res.Capped)
	}
	if sl.Sub == 0 {
		r.Extra["depth_completed:"+d.Name] = float64(res.DepthCompleted)
		r.Extra["depth_bound:"+d.Name] = float64(sl.Depth)
	}
}

func (e *renv) build(v *world.Val, c *rclaim) skywaytypes.EthereumClaim {
	return world.DepositClaim(v, ref, c.Nonce, 1, regTokens[c.Token].addr, c.Amount, ethSender, e.rcv.Addr.String())
}

func (e *renv) ops(n *explore.Node) []explore.Op {
	w := e.w
	g0 := n.Ghost.(*rghost)
	var ops []explore.Op
	add := func(label string, do func(ctx *sdk.Context, g *rghost) *explore.Fail) {
		ops = append(ops, explore.Op{Label: label, Do: func(ctx *sdk.Context, gg explore.Ghost) *explore.Fail {
			g := gg.(*rghost)
			if f := do(ctx, g); f != nil {
				return f
			}
			return e.post(*ctx, g)
		}})
	}
	if g0.NMap < maxMappings {
		for _, dn := range regDenoms {
			for _, t := range regTokens {
				dn, t := dn, t
				add(fmt.Sprintf("GovMap(%s,%s)", dn, t.tag), func(ctx *sdk.Context, g *rghost) *explore.Fail {
					err := w.GovExec(*ctx, &skywaytypes.MsgSetERC20MappingProposal{
						Metadata:  world.MetaFor(w.Gov, &world.Actor{Addr: sdk.MustAccAddressFromBech32(w.Gov)}),
						Authority: w.Gov,
						Mappings:  []skywaytypes.MsgSetERC20MappingProposal_ERC20ToDenomMapping{{ChainReferenceId: ref, Erc20: t.addr, Denom: dn}},
					})
					if err != nil {
						return explore.Failf("harness:govmap", "mapping proposal rejected: %v", err)
					}
					g.Fwd[dn] = t.tag
					g.Rev[t.tag] = dn
					g.NMap++
					e.bump("gov_mappings")
					return nil
				})
			}
		}
	}
	before := ""
	for vi, v := range w.Vals {
		for ci, c := range e.claims {
			vi, v, ci, c := vi, v, ci, c
			add(fmt.Sprintf("Vote(v%d,%s)", vi, c.Name), func(ctx *sdk.Context, g *rghost) *explore.Fail {
				if before == "" {
					before = w.StoreDigest(n.Ctx, "skyway")
				}
				acc := w.App.AccountKeeper.GetAccount(*ctx, v.Addr)
				key := fmt.Sprintf("%d/%d/%d", vi, ci, acc.GetSequence())
				tx, ok := e.tx[key]
				if !ok {
					var err error
					if tx, err = w.BuildTx(*ctx, []*world.Actor{v.Actor}, e.build(v, c).(sdk.Msg)); err != nil {
						return explore.Failf("harness:vote-build", "%v", err)
					}
					e.tx[key] = tx
				}
				res := w.DeliverBuiltTx(*ctx, tx)
				if res.Stage != "" && res.Stage != "msg" {
					return explore.Failf("harness:vote-"+res.Stage, "vote tx failed in %s: %v", res.Stage, res.Err)
				}
				if !res.OK() {
					if w.StoreDigest(*ctx, "skyway") != before {
						return explore.Failf("vote:rejected-vote-changed-state", "rejected vote (%v) changed the skyway store", res.Err)
					}
					e.bump("votes_rejected")
					return nil
				}
				e.bump("votes_accepted")
				g.Voters[ci] |= 1 << vi
				return nil
			})
		}
	}
	add("Tally", func(ctx *sdk.Context, g *rghost) *explore.Fail {
		w.SkywayEnd(*ctx, nil)
		return nil
	})
	return ops
}

func (e *renv) post(ctx sdk.Context, g *rghost) *explore.Fail {
	k := e.w.App.SkywayKeeper
	// 1. registry: forward and reverse index against the reference (last mapping wins per denom / per contract)
	actualRev := map[string]string{}
	for _, dn := range regDenoms {
		got := ""
		if a, err := k.GetERC20OfDenom(ctx, ref, dn); err == nil {
			got = tokenTag(a.GetAddress().Hex())
		}
		if got != g.Fwd[dn] && os.Getenv("C02_NO_INDEX") == "" {
			return explore.Failf("registry:forward-index", "denom %s resolves to contract %q, the last mapping of the denom gave %q", dn, got, g.Fwd[dn])
		}
	}
	for _, t := range regTokens {
		a, _ := skywaytypes.NewEthAddress(t.addr)
		got, err := k.GetDenomOfERC20(ctx, ref, *a)
		if err != nil {
			got = ""
		}
		actualRev[t.tag] = got
		want := g.Rev[t.tag]
		live := want != "" && g.Fwd[want] == t.tag
		if os.Getenv("C02_NO_INDEX") != "" {
			continue
		}
		switch {
		case live && got != want:
			return explore.Failf("registry:live-token-binding-lost-its-reverse-entry", "contract %s is the registered bridge token of %s (denom %s -> %s is in force) but resolves to %q", t.tag, want, want, t.tag, got)
		case !live && got != want && !(want != "" && got == ""):
			// a stale reverse entry (its denom has moved on) may stay, as on this tree, or be cleaned up; nothing else
			return explore.Failf("registry:reverse-index", "contract %s resolves to %q, the last mapping of the contract gave %q", t.tag, got, want)
		}
	}
	// 2. observations
	var newly []int
	var fail *explore.Fail
	ps := make([]int64, len(e.w.Vals))
	var total int64
	for i, v := range e.w.Vals {
		ps[i], _ = e.w.App.StakingKeeper.GetLastValidatorPower(ctx, v.ValAddr)
		total += ps[i]
	}
	err := k.IterateAttestations(ctx, ref, false, func(_ []byte, att skywaytypes.Attestation) bool {
		claim, err := k.UnpackAttestationClaim(&att)
		if err != nil {
			fail = explore.Failf("harness:unpack", "%v", err)
			return true
		}
		ci, ok := e.byBody[bodyKey(claim)]
		if !ok {
			fail = explore.Failf("harness:unknown-attestation", "attestation outside the alphabet")
			return true
		}
		switch {
		case att.Observed && !g.Obs[ci]:
			for _, v := range att.Votes {
				if vi, ok := e.valIdx[v]; !ok || g.Voters[ci]&(1<<vi) == 0 {
					fail = explore.Failf("identity:observed-claim-counts-votes-cast-for-another-claim-body", "claim %s counts a vote of %s, which never submitted it", e.claims[ci].Name, v)
					return true
				}
			}
			newly = append(newly, ci)
		case !att.Observed && g.Obs[ci]:
			fail = explore.Failf("observed:flag-reverted", "attestation %s was Observed and is not any more", e.claims[ci].Name)
			return true
		}
		return false
	})
	if fail != nil {
		return fail
	}
	if err != nil {
		return explore.Failf("harness:iterate", "%v", err)
	}
	sort.Slice(newly, func(i, j int) bool { return e.claims[newly[i]].Nonce < e.claims[newly[j]].Nonce })
	for _, ci := range newly {
		c := e.claims[ci]
		var pw int64
		for i := range e.w.Vals {
			if g.Voters[ci]&(1<<i) != 0 {
				pw += ps[i]
			}
		}
		if !(pw*100 > 66*total) {
			return explore.Failf("quorum:observed-with-distinct-voter-power<=66%", "claim %s observed with %d of %d power", c.Name, pw, total)
		}
		if c.Nonce != g.Cursor+1 {
			return explore.Failf("order:observed-nonce-not-consecutive", "claim %s observed at nonce %d, cursor %d", c.Name, c.Nonce, g.Cursor)
		}
		g.Cursor = c.Nonce
		g.Obs[ci] = true
		tag := regTokens[c.Token].tag
		dn := g.Rev[tag]
		switch {
		case dn != "" && g.Fwd[dn] == tag: // registered bridge token: the deposit can be applied, so it must be
			g.Bal[dn] += c.Amount
			e.bump("observations:registered-token")
		case dn != "": // the contract's last denom has moved to another contract: minted iff the reverse entry is still there
			if actualRev[tag] == dn {
				g.Bal[dn] += c.Amount
			}
			e.bump("observations:stale-binding")
		default:
			e.bump("observations:unregistered-token")
		}
	}
	if got := e.cursorOf(ctx); got != g.Cursor {
		return explore.Failf("order:cursor-moved-without-observation", "last observed nonce %d, reference %d", got, g.Cursor)
	}
	// 3. effects
	for _, dn := range regDenoms {
		bal := new(big.Int).Sub(e.w.Balance(ctx, e.rcv.Addr, dn), e.bal0[dn]).Int64()
		sup := new(big.Int).Sub(e.w.Supply(ctx, dn), e.sup0[dn]).Int64()
		if bal < g.Bal[dn] {
			return explore.Failf("effect:deposit-of-a-registered-bridge-token-not-applied", "receiver holds %d %s; observed deposits of contracts registered for %s total %d (registry: %s)", bal, dn, dn, g.Bal[dn], g.regString())
		}
		if bal > g.Bal[dn] || sup != bal {
			return explore.Failf("effect:deposit-applied-more-than-once-or-without-quorum", "receiver holds %d %s (supply %d); observed deposits of contracts registered for %s total %d (registry: %s)", bal, dn, sup, dn, g.Bal[dn], g.regString())
		}
	}
	return nil
}

func (e *renv) cursorOf(ctx sdk.Context) uint64 {
	last, err := e.w.App.SkywayKeeper.GetLastObservedSkywayNonce(ctx, ref)
	must(err)
	return last
}

func (g *rghost) regString() string {
	var s []string
	for _, dn := range regDenoms {
		s = append(s, dn+"->"+g.Fwd[dn])
	}
	for _, t := range regTokens {
		s = append(s, t.tag+"=>"+g.Rev[t.tag])
	}
	return strings.Join(s, " ")
}

func tokenTag(addr string) string {
	for _, t := range regTokens {
		if strings.EqualFold(t.addr, addr) {
			return t.tag
		}
	}
	return addr
}
