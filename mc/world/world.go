// Package world instantiates the real paloma application on an in-memory
// database and exposes forkable states (sdk.Context copy-on-write overlays) and
// the real transition functions (ante + message router, begin/end block) to the
// explorers under /verif/mc.
package world

import (
	"crypto/ecdsa"
	"crypto/sha256"
	"encoding/binary"
	"encoding/hex"
	"encoding/json"
	"fmt"
	"math/big"
	"math/rand"
	"os"
	"sort"
	"sync"
	"time"

	"cosmossdk.io/log"
	sdkmath "cosmossdk.io/math"
	storetypes "cosmossdk.io/store/types"
	abci "github.com/cometbft/cometbft/abci/types"
	cmtproto "github.com/cometbft/cometbft/proto/tendermint/types"
	dbm "github.com/cosmos/cosmos-db"
	"github.com/cosmos/cosmos-sdk/baseapp"
	codectypes "github.com/cosmos/cosmos-sdk/codec/types"
	"github.com/cosmos/cosmos-sdk/crypto/keys/ed25519"
	"github.com/cosmos/cosmos-sdk/crypto/keys/secp256k1"
	cryptotypes "github.com/cosmos/cosmos-sdk/crypto/types"
	simtestutil "github.com/cosmos/cosmos-sdk/testutil/sims"
	sdk "github.com/cosmos/cosmos-sdk/types"
	"github.com/cosmos/cosmos-sdk/version"
	authtypes "github.com/cosmos/cosmos-sdk/x/auth/types"
	banktypes "github.com/cosmos/cosmos-sdk/x/bank/types"
	govtypes "github.com/cosmos/cosmos-sdk/x/gov/types"
	stakingtypes "github.com/cosmos/cosmos-sdk/x/staking/types"
	ethcrypto "github.com/ethereum/go-ethereum/crypto"
	"github.com/palomachain/paloma/v2/app"
	chainparams "github.com/palomachain/paloma/v2/app/params"
)

const (
	ChainID   = "verif-1"
	BondDenom = "ugrain"
	// ConsensusStore is the store key of paloma's consensus-queue module (NOT "consensus", which is the SDK consensus-params store).
	ConsensusStore = "palomaconsensus"
)

var sealOnce sync.Once

// Actor is an account with a deterministic key.
type Actor struct {
	Name string
	Priv cryptotypes.PrivKey
	Addr sdk.AccAddress
}

func (a *Actor) String() string { return a.Addr.String() }

// NewActor derives an actor from its name only (fixed seed).
func NewActor(name string) *Actor {
	p := secp256k1.GenPrivKeyFromSecret([]byte("verif-actor-" + name))
	return &Actor{Name: name, Priv: p, Addr: sdk.AccAddress(p.PubKey().Address())}
}

// Val is a validator: operator account, consensus key, eth key.
type Val struct {
	*Actor
	Cons    cryptotypes.PrivKey
	ValAddr sdk.ValAddress
	Stake   sdkmath.Int
	Eth     *ecdsa.PrivateKey
}

func (v *Val) EthAddr() string { return ethcrypto.PubkeyToAddress(v.Eth.PublicKey).Hex() }

func NewVal(name string, stake sdkmath.Int) *Val {
	a := NewActor(name)
	c := ed25519.GenPrivKeyFromSecret([]byte("verif-cons-" + name))
	h := sha256.Sum256([]byte("verif-eth-" + name))
	ek, err := ethcrypto.ToECDSA(h[:])
	if err != nil {
		panic(err)
	}
	return &Val{Actor: a, Cons: c, ValAddr: sdk.ValAddress(a.Addr), Stake: stake, Eth: ek}
}

// Config describes the genesis of a world.
type Config struct {
	// Stakes of the validators v0,v1,... in ugrain (bonded tokens).
	Stakes []sdkmath.Int
	// ValNames overrides the default names v0,v1...
	ValNames []string
	// ValActors, when set, overrides operator keys (used by C12 to choose address bytes).
	ValAddrs []sdk.AccAddress
	// Users: funded plain accounts.
	Users []string
	// UserFunds per user (default 10^12 ugrain).
	UserFunds sdk.Coins
	// Unfunded: account names that get an Actor but no genesis account.
	Unfunded []string
	Height   int64
	Time     time.Time
	// DB to run on (default: a fresh MemDB). With Restart the application is
	// re-created over an already initialised DB (no InitChain, no block 1).
	DB      dbm.DB
	Restart bool
	// Logger replaces the default no-op logger.
	Logger log.Logger
}

type World struct {
	App   *app.App
	Vals  []*Val
	Users map[string]*Actor
	Gov   string // governance authority address
	Root  sdk.Context
	rnd   *rand.Rand
}

func StakesOf(vs ...int64) []sdkmath.Int {
	out := make([]sdkmath.Int, len(vs))
	for i, v := range vs {
		out[i] = sdkmath.NewInt(v)
	}
	return out
}

// New builds the application, runs InitChain with the configured genesis and
// returns a world whose Root context sits on the deliver state store.
func New(cfg Config) *World {
	sealOnce.Do(func() {
		chainparams.SetAddressConfig()
		version.Version = "v5.1.6"
	})
	tmp, err := os.MkdirTemp("", "verif-world")
	if err != nil {
		panic(err)
	}
	defer os.RemoveAll(tmp)
	var lg log.Logger = log.NewNopLogger()
	if os.Getenv("VERIF_LOG") != "" {
		lg = log.NewLogger(os.Stderr)
	}
	if cfg.Logger != nil {
		lg = cfg.Logger
	}
	if cfg.DB == nil {
		cfg.DB = dbm.NewMemDB()
	}
	a := app.New(lg, cfg.DB, nil, true,
		simtestutil.NewAppOptionsWithFlagHome(tmp), baseapp.SetChainID(ChainID))
	w := &World{App: a, Users: map[string]*Actor{}, rnd: rand.New(rand.NewSource(1))}
	w.Gov = authtypes.NewModuleAddress(govtypes.ModuleName).String()

	if cfg.Time.IsZero() {
		cfg.Time = time.Unix(1_700_000_000, 0).UTC()
	}
	if cfg.Height == 0 {
		cfg.Height = 1
	}
	funds := cfg.UserFunds
	if funds == nil {
		funds = sdk.NewCoins(sdk.NewCoin(BondDenom, sdkmath.NewInt(1_000_000_000_000)))
	}

	var accs []authtypes.GenesisAccount
	var bals []banktypes.Balance
	supply := sdk.NewCoins()
	var validators []stakingtypes.Validator
	var delegations []stakingtypes.Delegation
	bonded := sdkmath.ZeroInt()
	for i, st := range cfg.Stakes {
		name := fmt.Sprintf("v%d", i)
		if i < len(cfg.ValNames) {
			name = cfg.ValNames[i]
		}
		v := NewVal(name, st)
		if i < len(cfg.ValAddrs) && cfg.ValAddrs[i] != nil {
			// chosen address bytes: no usable key for this operator.
			v.Actor = &Actor{Name: name, Addr: cfg.ValAddrs[i]}
			v.ValAddr = sdk.ValAddress(cfg.ValAddrs[i])
		}
		w.Vals = append(w.Vals, v)
		accs = append(accs, authtypes.NewBaseAccount(v.Addr, nil, 0, 0))
		bals = append(bals, banktypes.Balance{Address: v.Addr.String(), Coins: funds})
		supply = supply.Add(funds...)
		pkAny, err := codectypes.NewAnyWithValue(v.Cons.PubKey())
		if err != nil {
			panic(err)
		}
		validators = append(validators, stakingtypes.Validator{
			OperatorAddress:   v.ValAddr.String(),
			ConsensusPubkey:   pkAny,
			Status:            stakingtypes.Bonded,
			Tokens:            st,
			DelegatorShares:   sdkmath.LegacyNewDecFromInt(st),
			Description:       stakingtypes.Description{Moniker: name},
			UnbondingTime:     time.Unix(0, 0).UTC(),
			Commission:        stakingtypes.NewCommission(sdkmath.LegacyZeroDec(), sdkmath.LegacyZeroDec(), sdkmath.LegacyZeroDec()),
			MinSelfDelegation: sdkmath.ZeroInt(),
		})
		delegations = append(delegations, stakingtypes.NewDelegation(v.Addr.String(), v.ValAddr.String(), sdkmath.LegacyNewDecFromInt(st)))
		bonded = bonded.Add(st)
	}
	for _, u := range cfg.Users {
		act := NewActor(u)
		w.Users[u] = act
		accs = append(accs, authtypes.NewBaseAccount(act.Addr, nil, 0, 0))
		bals = append(bals, banktypes.Balance{Address: act.Addr.String(), Coins: funds})
		supply = supply.Add(funds...)
	}
	for _, u := range cfg.Unfunded {
		w.Users[u] = NewActor(u)
	}
	bals = append(bals, banktypes.Balance{
		Address: authtypes.NewModuleAddress(stakingtypes.BondedPoolName).String(),
		Coins:   sdk.NewCoins(sdk.NewCoin(BondDenom, bonded)),
	})
	supply = supply.Add(sdk.NewCoin(BondDenom, bonded))

	if cfg.Restart {
		return w
	}
	gs := a.DefaultGenesis()
	cdc := a.AppCodec()
	gs[authtypes.ModuleName] = cdc.MustMarshalJSON(authtypes.NewGenesisState(authtypes.DefaultParams(), accs))
	sp := stakingtypes.DefaultParams()
	sp.BondDenom = BondDenom
	gs[stakingtypes.ModuleName] = cdc.MustMarshalJSON(stakingtypes.NewGenesisState(sp, validators, delegations))
	gs[banktypes.ModuleName] = cdc.MustMarshalJSON(banktypes.NewGenesisState(banktypes.DefaultGenesisState().Params, bals, supply, []banktypes.Metadata{}, []banktypes.SendEnabled{}))
	stateBytes, err := json.Marshal(gs)
	if err != nil {
		panic(err)
	}
	_, err = a.InitChain(&abci.RequestInitChain{
		ChainId:         ChainID,
		Validators:      []abci.ValidatorUpdate{},
		ConsensusParams: simtestutil.DefaultConsensusParams,
		AppStateBytes:   stateBytes,
		InitialHeight:   1,
		Time:            cfg.Time,
	})
	if err != nil {
		panic(err)
	}
	_, err = a.FinalizeBlock(&abci.RequestFinalizeBlock{Height: 1, Time: cfg.Time})
	if err != nil {
		panic(err)
	}
	if _, err = a.Commit(); err != nil {
		panic(err)
	}
	h := cfg.Height
	if h < 2 {
		h = 2
	}
	w.Root = a.NewUncachedContext(false, cmtproto.Header{ChainID: ChainID, Height: h, Time: cfg.Time.Add(time.Second)}).
		WithConsensusParams(*simtestutil.DefaultConsensusParams).
		WithBlockGasMeter(storetypes.NewInfiniteGasMeter()).
		WithEventManager(sdk.NewEventManager()).WithLogger(lg)
	// baseapp also fills the header-info service view of the header (x/upgrade reads heights from it)
	w.Root = At(w.Root, w.Root.BlockHeight(), w.Root.BlockTime())
	return w
}

// Fork returns an independent copy-on-write child of ctx.
func Fork(ctx sdk.Context) sdk.Context {
	c, _ := ctx.CacheContext()
	return c.WithEventManager(sdk.NewEventManager())
}

// At returns ctx with a different height / time (same store).
func At(ctx sdk.Context, height int64, t time.Time) sdk.Context {
	hd := ctx.BlockHeader()
	hd.Height = height
	hd.Time = t
	hi := ctx.HeaderInfo()
	hi.Height, hi.Time, hi.ChainID = height, t.UTC(), hd.ChainID
	return ctx.WithBlockHeader(hd).WithHeaderInfo(hi)
}

// Advance moves ctx by dh blocks of 1.5s... block time is dh*dt.
func Advance(ctx sdk.Context, dh int64, dt time.Duration) sdk.Context {
	return At(ctx, ctx.BlockHeight()+dh, ctx.BlockTime().Add(dt))
}

// TxResult describes the outcome of DeliverTx.
type TxResult struct {
	Err      error
	Stage    string // "", "validate", "ante", "msg", "panic"
	Events   []abci.Event
	Response []*codectypes.Any
}

func (r TxResult) OK() bool { return r.Err == nil }

// BuildTx signs msgs with the given signers (account numbers / sequences read from ctx).
func (w *World) BuildTx(ctx sdk.Context, signers []*Actor, msgs ...sdk.Msg) (sdk.Tx, error) {
	var nums, seqs []uint64
	var privs []cryptotypes.PrivKey
	for _, s := range signers {
		acc := w.App.AccountKeeper.GetAccount(ctx, s.Addr)
		if acc == nil {
			nums = append(nums, 0)
			seqs = append(seqs, 0)
		} else {
			nums = append(nums, acc.GetAccountNumber())
			seqs = append(seqs, acc.GetSequence())
		}
		privs = append(privs, s.Priv)
	}
	return simtestutil.GenSignedMockTx(rand.New(rand.NewSource(7)), w.App.TxConfig(), msgs, sdk.NewCoins(),
		50_000_000, ChainID, nums, seqs, privs...)
}

type hasValidateBasic interface{ ValidateBasic() error }

// DeliverTx runs a really signed transaction with baseapp.runTx semantics on
// ctx: ValidateBasic of every message, ante handler on its own cache (written
// on success), messages on a second cache (written only if all succeed), panics
// recovered into transaction errors.
func (w *World) DeliverTx(ctx sdk.Context, signers []*Actor, msgs ...sdk.Msg) (res TxResult) {
	tx, err := w.BuildTx(ctx, signers, msgs...)
	if err != nil {
		return TxResult{Err: err, Stage: "build"}
	}
	return w.DeliverBuiltTx(ctx, tx)
}

func (w *World) DeliverBuiltTx(ctx sdk.Context, tx sdk.Tx) (res TxResult) {
	defer func() {
		if r := recover(); r != nil {
			res = TxResult{Err: fmt.Errorf("panic: %v", r), Stage: "panic"}
		}
	}()
	msgs := tx.GetMsgs()
	if len(msgs) == 0 {
		return TxResult{Err: fmt.Errorf("no msgs"), Stage: "validate"}
	}
	for _, m := range msgs {
		if vb, ok := m.(hasValidateBasic); ok {
			if err := vb.ValidateBasic(); err != nil {
				return TxResult{Err: err, Stage: "validate"}
			}
		}
	}
	ctx = ctx.WithGasMeter(storetypes.NewInfiniteGasMeter())
	anteCtx, writeAnte := ctx.CacheContext()
	anteCtx = anteCtx.WithEventManager(sdk.NewEventManager())
	newCtx, err := w.App.AnteHandler()(anteCtx, tx, false)
	if err != nil {
		return TxResult{Err: err, Stage: "ante"}
	}
	writeAnte()
	gm := newCtx.GasMeter()
	msgCtx, writeMsg := ctx.CacheContext()
	msgCtx = msgCtx.WithEventManager(sdk.NewEventManager()).WithGasMeter(gm)
	var responses []*codectypes.Any
	var events []abci.Event
	for i, m := range msgs {
		h := w.App.MsgServiceRouter().Handler(m)
		if h == nil {
			return TxResult{Err: fmt.Errorf("no handler for %T", m), Stage: "msg"}
		}
		r, err := h(msgCtx, m)
		if err != nil {
			return TxResult{Err: fmt.Errorf("msg %d: %w", i, err), Stage: "msg"}
		}
		responses = append(responses, r.MsgResponses...)
		events = append(events, r.GetEvents().ToABCIEvents()...)
	}
	writeMsg()
	return TxResult{Events: events, Response: responses}
}

// GovExec routes an authority message through the message router without ante,
// as x/gov does when a proposal passes (atomic per message).
func (w *World) GovExec(ctx sdk.Context, msg sdk.Msg) (err error) {
	defer func() {
		if r := recover(); r != nil {
			err = fmt.Errorf("panic: %v", r)
		}
	}()
	h := w.App.MsgServiceRouter().Handler(msg)
	if h == nil {
		return fmt.Errorf("no handler for %T", msg)
	}
	c, write := ctx.CacheContext()
	if _, err := h(c, msg); err != nil {
		return err
	}
	write()
	return nil
}

// EndBlock / BeginBlock run the real module manager (no recover: callers that
// want to observe panics use Protect).
func (w *World) EndBlock(ctx sdk.Context) error {
	_, err := w.App.ModuleManager.EndBlock(ctx)
	return err
}

func (w *World) BeginBlock(ctx sdk.Context) error {
	_, err := w.App.ModuleManager.BeginBlock(ctx)
	return err
}

// Protect runs f and converts a panic into an error carrying the panic value.
func Protect(f func() error) (err error, panicked bool) {
	defer func() {
		if r := recover(); r != nil {
			err = fmt.Errorf("panic: %v", r)
			panicked = true
		}
	}()
	return f(), false
}

// ---------------------------------------------------------------------------
// canonical state digests

// StoreDigest hashes the sorted (key,value) pairs of the named stores,
// optionally restricted to key prefixes.
func (w *World) StoreDigest(ctx sdk.Context, stores ...string) string {
	h := sha256.New()
	for _, s := range stores {
		if s == "consensus" {
			// the SDK consensus-params store: almost certainly not what a check wants
			panic(`store "consensus" is the SDK consensus-params store; paloma's queue store is "palomaconsensus" (world.ConsensusStore); use "consensus-params" if you really mean the SDK one`)
		}
		if s == "consensus-params" {
			s = "consensus"
		}
		k := w.App.GetKey(s)
		if k == nil {
			panic("no store " + s)
		}
		h.Write([]byte(s))
		it := ctx.KVStore(k).Iterator(nil, nil)
		for ; it.Valid(); it.Next() {
			var l [8]byte
			binary.BigEndian.PutUint32(l[:4], uint32(len(it.Key())))
			binary.BigEndian.PutUint32(l[4:], uint32(len(it.Value())))
			h.Write(l[:])
			h.Write(it.Key())
			h.Write(it.Value())
		}
		it.Close()
	}
	return hex.EncodeToString(h.Sum(nil)[:16])
}

// StoreDump returns key->value (hex) of one store, for diffs in reports.
func (w *World) StoreDump(ctx sdk.Context, store string, prefix []byte) map[string]string {
	out := map[string]string{}
	k := w.App.GetKey(store)
	var end []byte
	if prefix != nil {
		end = storetypes.PrefixEndBytes(prefix)
	}
	it := ctx.KVStore(k).Iterator(prefix, end)
	defer it.Close()
	for ; it.Valid(); it.Next() {
		out[hex.EncodeToString(it.Key())] = hex.EncodeToString(it.Value())
	}
	return out
}

// DiffDumps lists keys whose values differ between two dumps.
func DiffDumps(a, b map[string]string) []string {
	seen := map[string]bool{}
	var out []string
	for k, v := range a {
		seen[k] = true
		if bv, ok := b[k]; !ok {
			out = append(out, "-"+k)
		} else if bv != v {
			out = append(out, "~"+k)
		}
	}
	for k := range b {
		if !seen[k] {
			out = append(out, "+"+k)
		}
	}
	sort.Strings(out)
	return out
}

func (w *World) Balance(ctx sdk.Context, addr sdk.AccAddress, denom string) *big.Int {
	return w.App.BankKeeper.GetBalance(ctx, addr, denom).Amount.BigInt()
}

func (w *World) Supply(ctx sdk.Context, denom string) *big.Int {
	return w.App.BankKeeper.GetSupply(ctx, denom).Amount.BigInt()
}

func (w *World) User(name string) *Actor {
	u, ok := w.Users[name]
	if !ok {
		panic("no user " + name)
	}
	return u
}

// BuildTxWith signs msgs with an explicit account number / sequence.
func (w *World) BuildTxWith(signer *Actor, accNum, seq uint64, msgs ...sdk.Msg) (sdk.Tx, error) {
	return simtestutil.GenSignedMockTx(rand.New(rand.NewSource(7)), w.App.TxConfig(), msgs, sdk.NewCoins(),
		50_000_000, ChainID, []uint64{accNum}, []uint64{seq}, signer.Priv)
}
