package main

type caseC struct{}

func (e *env) partC(shard, nshards int) {}
func (e *env) replayC(c caseC)          {}
