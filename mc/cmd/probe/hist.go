package main

import (
	"fmt"
	"os"
	"strings"

	abci "github.com/cometbft/cometbft/abci/types"
	"github.com/palomachain/paloma/v2/zzverif/evmref"
	"github.com/palomachain/paloma/v2/zzverif/hist"
	"github.com/palomachain/paloma/v2/zzverif/world"
)

func init() {
	if len(os.Args) > 1 && os.Args[1] == "hist" {
		histProbe()
		os.Exit(0)
	}
}

// histProbe prints, per block, the failed txs and the turnstone queues of both chains plus the
// snapshot that is live on each chain: a reading aid for the scripted history.
func histProbe() {
	last := ""
	events := map[string]int{}
	h := hist.Hooks{
		OnBlock: func(i int, height int64, resp *abci.ResponseFinalizeBlock) {
			for k, r := range resp.TxResults {
				if r.Code != 0 {
					fmt.Println("blk", i, "tx", k, "code", r.Code, r.Log[:min(len(r.Log), 160)])
				}
				for _, e := range r.Events {
					events[e.Type]++
				}
			}
			for _, e := range resp.Events {
				events[e.Type]++
			}
		},
		BeforeBlock: func(i int, r *hist.Run) {
			ctx0 := r.W.App.NewUncachedContext(false, r.W.Root.BlockHeader())
			var parts []string
			for _, ref := range []string{hist.Ref, hist.Ref2} {
				on, _ := r.W.App.ValsetKeeper.GetLatestSnapshotOnChain(ctx0, ref)
				ci, _ := r.W.App.EvmKeeper.GetChainInfo(ctx0, ref)
				p := fmt.Sprintf("%s live=%d compass=%s/%d:", ref, on.GetId(), ci.GetSmartContractAddr(), ci.GetActiveSmartContractID())
				for _, m := range r.W.Queue(ctx0, world.TurnstoneQueue(ref)) {
					p += fmt.Sprintf(" [%d %s est=%d sig=%d pad=%v err=%v ev=%d]", m.GetId(), evmref.Kind(r.W, m), m.GetGasEstimate(), len(m.GetSignData()), m.GetPublicAccessData() != nil, m.GetErrorData() != nil, len(m.GetEvidence()))
				}
				parts = append(parts, p)
			}
			cur, _ := r.W.App.ValsetKeeper.GetCurrentSnapshot(ctx0)
			line := fmt.Sprintf("cur=%d %s", cur.GetId(), strings.Join(parts, " | "))
			if line != last {
				fmt.Println("before blk", i, line)
				last = line
			}
		},
	}
	out, run := hist.Execute(h)
	fmt.Println("blocks", len(out), "txs", run.TxCount, "ok", run.TxOK, "panic", run.Panic)
	for k, v := range events {
		if strings.Contains(k, "paloma") || strings.Contains(k, "Attest") || strings.Contains(k, "attest") {
			fmt.Println("  event", k, v)
		}
	}
}
