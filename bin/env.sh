# sourced by bin/setup and bin/check
export GOFLAGS=-mod=readonly GOPROXY=off GOSUMDB=off GOTOOLCHAIN=local
export VERIF_DIR="${VERIF_DIR:-$(cd "$(dirname "${BASH_SOURCE[0]}")/.." && pwd)}"
export REPO_DIR="${REPO_DIR:-/repo}"
export VERIF_BUILD_DIR="${VERIF_BUILD_DIR:-$VERIF_DIR/build}"
mkdir -p "$VERIF_BUILD_DIR" "$VERIF_DIR/evidence" "$VERIF_DIR/replays"
# The harness sources under $VERIF_DIR/mc are compiled as packages
# github.com/palomachain/paloma/v2/zzverif/... of the repository's own module by
# means of `go build -overlay` (nothing is written into $REPO_DIR). This builds
# against the current working tree with the repository's own go.mod and gives the
# harness access to the module's internal packages.
genoverlay() {
  local out="$VERIF_BUILD_DIR/overlay.json" first=1
  { printf '{"Replace":{'
    ( cd "$VERIF_DIR/mc" && find . -name '*.go' | sort ) | while read -r f; do
      f="${f#./}"
      [ $first = 1 ] || printf ','
      first=0
      printf '"%s/zzverif/%s":"%s/mc/%s"' "$REPO_DIR" "$f" "$VERIF_DIR" "$f"
    done
    printf '}}\n'; } > "$out.tmp.$$" && mv "$out.tmp.$$" "$out"
  echo "$out"
}
# buildprop <lc-id> [extra go build flags...]
buildprop() {
  local lc="$1"; shift
  local ov; ov=$(genoverlay) || return 1
  ( cd "$REPO_DIR" && go build -overlay "$ov" "$@" -o "$VERIF_BUILD_DIR/$lc" "./zzverif/props/$lc" )
}
