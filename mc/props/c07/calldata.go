package main

// The harness' own bridge-contract encoder. It knows the compass ABI (the
// repository's fixture, as a pigeon would) and what each compass entry point
// expects; it does not call any of the repository's VerifyAgainstTX /
// BuildCompassConsensus / TransformValsetToCompassValset helpers. Inputs are
// chain state a relayer reads (queued message, signatures, snapshot, chain
// info, deployment record).

import (
	"bytes"
	"fmt"
	"math/big"
	"sort"
	"strings"

	sdk "github.com/cosmos/cosmos-sdk/types"
	"github.com/ethereum/go-ethereum/accounts/abi"
	ethcommon "github.com/ethereum/go-ethereum/common"
	ethtypes "github.com/ethereum/go-ethereum/core/types"
	ethcrypto "github.com/ethereum/go-ethereum/crypto"
	"github.com/ethereum/go-ethereum/crypto/kzg4844"
	"github.com/holiman/uint256"
	ctypes "github.com/palomachain/paloma/v2/x/consensus/types"
	valsettypes "github.com/palomachain/paloma/v2/x/valset/types"
	"github.com/palomachain/paloma/v2/zzverif/world"
)

type sigT struct {
	V *big.Int
	R *big.Int
	S *big.Int
}

type valsetT struct {
	Validators []ethcommon.Address
	Powers     []*big.Int
	ValsetId   *big.Int
}

type consT struct {
	Valset     valsetT
	Signatures []sigT
}

type callT struct {
	LogicContractAddress ethcommon.Address
	Payload              []byte
}

type feeT struct {
	RelayerFee            *big.Int
	CommunityFee          *big.Int
	SecurityFee           *big.Int
	FeePayerPalomaAddress [32]byte
}

// model is the argument tree of one compass call (or of the deployment
// transaction) plus byte-level edits applied after packing.
type model struct {
	Kind     string
	Selector []byte // overrides the method id when set
	Cons     consT
	Call     callT
	Fee      feeT
	MsgID    *big.Int
	Deadline *big.Int
	Relayer  ethcommon.Address
	NewVS    valsetT
	Gas      *big.Int
	Deployer ethcommon.Address
	Bytecode []byte
	Fwd      []callT
	// constructor of the deployment
	Unique  [32]byte
	EventID *big.Int
	GravNo  *big.Int
	FeeMgr  ethcommon.Address
	Post    []func([]byte) []byte
}

func bi(x *big.Int) *big.Int { return new(big.Int).Set(x) }

func (v valsetT) clone() valsetT {
	n := valsetT{ValsetId: bi(v.ValsetId)}
	n.Validators = append(n.Validators, v.Validators...)
	for _, p := range v.Powers {
		n.Powers = append(n.Powers, bi(p))
	}
	return n
}

func (m *model) clone() *model {
	n := *m
	n.Selector = append([]byte(nil), m.Selector...)
	n.Cons = consT{Valset: m.Cons.Valset.clone()}
	for _, s := range m.Cons.Signatures {
		n.Cons.Signatures = append(n.Cons.Signatures, sigT{bi(s.V), bi(s.R), bi(s.S)})
	}
	n.Call = callT{m.Call.LogicContractAddress, append([]byte(nil), m.Call.Payload...)}
	n.Fee = feeT{}
	if m.Fee.RelayerFee != nil {
		n.Fee = feeT{bi(m.Fee.RelayerFee), bi(m.Fee.CommunityFee), bi(m.Fee.SecurityFee), m.Fee.FeePayerPalomaAddress}
	}
	cp := func(x *big.Int) *big.Int {
		if x == nil {
			return nil
		}
		return bi(x)
	}
	n.MsgID, n.Deadline, n.Gas, n.EventID, n.GravNo = cp(m.MsgID), cp(m.Deadline), cp(m.Gas), cp(m.EventID), cp(m.GravNo)
	if m.NewVS.ValsetId != nil {
		n.NewVS = m.NewVS.clone()
	}
	n.Bytecode = append([]byte(nil), m.Bytecode...)
	n.Fwd = nil
	for _, f := range m.Fwd {
		n.Fwd = append(n.Fwd, callT{f.LogicContractAddress, append([]byte(nil), f.Payload...)})
	}
	n.Post = append([]func([]byte) []byte(nil), m.Post...)
	return &n
}

var methodOf = map[string]string{
	kSLC:      "submit_logic_call",
	kValset:   "update_valset",
	kUSC:      "deploy_contract",
	kHandover: "compass_update_batch",
}

// pack produces the transaction input of the model.
func (m *model) pack(a *abi.ABI) ([]byte, error) {
	var out []byte
	var err error
	switch m.Kind {
	case kSLC:
		out, err = a.Pack("submit_logic_call", m.Cons, m.Call, m.Fee, m.MsgID, m.Deadline, m.Relayer)
	case kValset:
		out, err = a.Pack("update_valset", m.Cons, m.NewVS, m.Relayer, m.Gas)
	case kUSC:
		out, err = a.Pack("deploy_contract", m.Cons, m.Deployer, m.Bytecode, m.Fee, m.MsgID, m.Deadline, m.Relayer)
	case kHandover:
		fwd := m.Fwd
		if fwd == nil {
			fwd = []callT{}
		}
		out, err = a.Pack("compass_update_batch", m.Cons, fwd, m.Deadline, m.Gas, m.Relayer)
	case kUpload:
		var ctor []byte
		ctor, err = a.Pack("", m.Unique, m.EventID, m.GravNo, m.NewVS, m.FeeMgr)
		out = append(append([]byte(nil), m.Bytecode...), ctor...)
	default:
		err = fmt.Errorf("unknown kind %s", m.Kind)
	}
	if err != nil {
		return nil, err
	}
	if m.Selector != nil && m.Kind != kUpload {
		out = append(append([]byte(nil), m.Selector...), out[4:]...)
	}
	for _, p := range m.Post {
		var ok bool
		if out, ok = tryPost(p, out); !ok {
			return nil, errInapplicable
		}
	}
	return out, nil
}

func tryPost(p func([]byte) []byte, b []byte) (out []byte, ok bool) {
	defer func() {
		if r := recover(); r != nil {
			ok = false
		}
	}()
	return p(b), true
}

// compassValset is what the bridge contract stores for a snapshot: the
// validators with an account on the chain, by descending share (stable),
// power = floor(2^32 * share / total).
func compassValset(snap *valsettypes.Snapshot, chain string) valsetT {
	vals := append([]valsettypes.Validator(nil), snap.Validators...)
	sort.SliceStable(vals, func(i, j int) bool { return vals[i].ShareCount.GT(vals[j].ShareCount) })
	total := new(big.Int)
	for _, v := range vals {
		total.Add(total, v.ShareCount.BigInt())
	}
	out := valsetT{ValsetId: new(big.Int).SetUint64(snap.Id)}
	for _, v := range vals {
		for _, e := range v.ExternalChainInfos {
			if strings.EqualFold(e.ChainType, "evm") && e.ChainReferenceID == chain {
				p := new(big.Int).Lsh(v.ShareCount.BigInt(), 32)
				p.Div(p, total)
				out.Validators = append(out.Validators, ethcommon.HexToAddress(e.Address))
				out.Powers = append(out.Powers, p)
			}
		}
	}
	return out
}

// consensusArg orders the given signatures by the valset's validators; a
// validator without signature gets (0,0,0).
func consensusArg(vs valsetT, sigs []*ctypes.SignData) consT {
	c := consT{Valset: vs.clone()}
	for _, val := range vs.Validators {
		var found *ctypes.SignData
		for _, sd := range sigs {
			if ethcommon.HexToAddress(sd.ExternalAccountAddress) == val {
				found = sd
			}
		}
		if found == nil {
			c.Signatures = append(c.Signatures, sigT{new(big.Int), new(big.Int), new(big.Int)})
			continue
		}
		sg := found.Signature
		c.Signatures = append(c.Signatures, sigT{
			V: big.NewInt(int64(sg[64]) + 27),
			R: new(big.Int).SetBytes(sg[:32]),
			S: new(big.Int).SetBytes(sg[32:64]),
		})
	}
	return c
}

func leftPad32(b []byte) (out [32]byte) {
	copy(out[32-len(b):], b)
	return
}

// reference builds the argument tree the bridge contract expects for target t
// with the given subset of collected signatures.
func (s *scenario) reference(ctx sdk.Context, t *target, sigs []*ctypes.SignData) *model {
	m := &model{Kind: t.Kind}
	if t.Kind != kUpload {
		snap, err := s.w.App.ValsetKeeper.FindSnapshotByID(ctx, t.PubVS)
		must(err)
		m.Cons = consensusArg(compassValset(snap, ref), sigs)
		m.Relayer = ethcommon.HexToAddress(t.Msg.AssigneeRemoteAddress)
	}
	switch t.Kind {
	case kSLC:
		a := t.Msg.GetSubmitLogicCall()
		m.Call = callT{ethcommon.HexToAddress(a.HexContractAddress), append([]byte(nil), a.Payload...)}
		m.Fee = feeT{new(big.Int).SetUint64(a.Fees.RelayerFee), new(big.Int).SetUint64(a.Fees.CommunityFee), new(big.Int).SetUint64(a.Fees.SecurityFee), leftPad32(a.SenderAddress)}
		m.MsgID = new(big.Int).SetUint64(t.ID)
		m.Deadline = big.NewInt(a.Deadline)
	case kValset:
		a := t.Msg.GetUpdateValset()
		nv := valsetT{ValsetId: new(big.Int).SetUint64(a.Valset.ValsetID)}
		for i, v := range a.Valset.Validators {
			nv.Validators = append(nv.Validators, ethcommon.HexToAddress(v))
			nv.Powers = append(nv.Powers, new(big.Int).SetUint64(a.Valset.Powers[i]))
		}
		m.NewVS = nv
		m.Gas = new(big.Int).SetUint64(t.Gas)
	case kUSC:
		a := t.Msg.GetUploadUserSmartContract()
		m.Deployer = ethcommon.HexToAddress(a.DeployerAddress)
		m.Bytecode = append([]byte(nil), a.Bytecode...)
		m.Fee = feeT{new(big.Int).SetUint64(a.Fees.RelayerFee), new(big.Int).SetUint64(a.Fees.CommunityFee), new(big.Int).SetUint64(a.Fees.SecurityFee), leftPad32(a.SenderAddress)}
		m.MsgID = new(big.Int).SetUint64(t.ID)
		m.Deadline = big.NewInt(a.Deadline)
	case kHandover:
		a := t.Msg.GetCompassHandover()
		for _, f := range a.ForwardCallArgs {
			m.Fwd = append(m.Fwd, callT{ethcommon.HexToAddress(f.HexContractAddress), append([]byte(nil), f.Payload...)})
		}
		m.Deadline = big.NewInt(a.Deadline)
		m.Gas = new(big.Int).SetUint64(t.Gas)
	case kUpload:
		a := t.Msg.GetUploadSmartContract()
		m.Bytecode = append([]byte(nil), a.Bytecode...)
		// constructor arguments: the deployment's unique id, event id 0, gravity
		// nonce 0, the current valset, the chain's fee manager
		deps, err := s.w.App.EvmKeeper.AllSmartContractsDeployments(ctx)
		must(err)
		found := false
		for _, d := range deps {
			if d.SmartContractID == a.Id && d.ChainReferenceID == ref {
				copy(m.Unique[:], d.UniqueID)
				found = true
			}
		}
		if !found {
			panic("no deployment record for the UploadSmartContract message")
		}
		m.EventID, m.GravNo = new(big.Int), new(big.Int)
		snap, err := s.w.App.ValsetKeeper.FindSnapshotByID(ctx, s.snapNew)
		must(err)
		m.NewVS = compassValset(snap, ref)
		ci, err := s.w.App.EvmKeeper.GetChainInfo(ctx, ref)
		must(err)
		m.FeeMgr = ethcommon.HexToAddress(ci.FeeManagerAddr)
	}
	return m
}

// handoverForwardCalls is what the harness expects a handover to the new
// compass to carry: new_compass(addr) on every bridged ERC20, update_compass(addr)
// on the fee manager.
func handoverForwardCalls(newCompass ethcommon.Address, erc20s []string, feeMgr string) []callT {
	arg := ethcommon.LeftPadBytes(newCompass.Bytes(), 32)
	var out []callT
	for _, e := range erc20s {
		out = append(out, callT{ethcommon.HexToAddress(e), append(ethcrypto.Keccak256([]byte("new_compass(address)"))[:4], arg...)})
	}
	out = append(out, callT{ethcommon.HexToAddress(feeMgr), append(ethcrypto.Keccak256([]byte("update_compass(address)"))[:4], arg...)})
	return out
}

// ---------------------------------------------------------------------------
// transactions, receipts

type txOpts struct {
	To      *ethcommon.Address // nil = contract creation
	Nonce   uint64
	ChainID int64
	Signer  *world.Val
	Env     string // "" / "dynamic-fee", "legacy", "access-list", "blob", "blob-with-sidecar"
}

// buildTx signs the remote transaction in the requested envelope. "blob" and
// "blob-with-sidecar" are the two encodings go-ethereum's UnmarshalBinary accepts
// for one and the same EIP-4844 transaction (canonical, and the network form
// that carries the blob sidecar): same hash, different bytes.
func buildTx(data []byte, o txOpts) *ethtypes.Transaction {
	cid := big.NewInt(o.ChainID)
	var inner ethtypes.TxData
	signer := ethtypes.NewLondonSigner(cid)
	switch o.Env {
	case "", "dynamic-fee":
		inner = &ethtypes.DynamicFeeTx{ChainID: cid, Nonce: o.Nonce, GasTipCap: big.NewInt(1_000_000_000), GasFeeCap: big.NewInt(30_000_000_000), Gas: 3_000_000, To: o.To, Value: new(big.Int), Data: data}
	case "legacy":
		inner = &ethtypes.LegacyTx{Nonce: o.Nonce, GasPrice: big.NewInt(30_000_000_000), Gas: 3_000_000, To: o.To, Value: new(big.Int), Data: data}
	case "access-list":
		inner = &ethtypes.AccessListTx{ChainID: cid, Nonce: o.Nonce, GasPrice: big.NewInt(30_000_000_000), Gas: 3_000_000, To: o.To, Value: new(big.Int), Data: data,
			AccessList: ethtypes.AccessList{{Address: ethcommon.HexToAddress("0x00000000000000000000000000000000000000a1"), StorageKeys: []ethcommon.Hash{{1}}}}}
	case "blob", "blob-with-sidecar":
		if o.To == nil {
			panic("a blob transaction cannot create a contract")
		}
		signer = ethtypes.NewCancunSigner(cid)
		// one (all-zero) blob; commitment and proof are not checked when a transaction is decoded
		sc := &ethtypes.BlobTxSidecar{Blobs: make([]kzg4844.Blob, 1), Commitments: make([]kzg4844.Commitment, 1), Proofs: make([]kzg4844.Proof, 1)}
		b := &ethtypes.BlobTx{ChainID: uint256.NewInt(uint64(o.ChainID)), Nonce: o.Nonce, GasTipCap: uint256.NewInt(1_000_000_000), GasFeeCap: uint256.NewInt(30_000_000_000), Gas: 3_000_000,
			To: *o.To, Value: uint256.NewInt(0), Data: data, BlobFeeCap: uint256.NewInt(1_000_000_000), BlobHashes: sc.BlobHashes()}
		if o.Env == "blob-with-sidecar" {
			b.Sidecar = sc
		}
		inner = b
	default:
		panic("envelope " + o.Env)
	}
	tx, err := ethtypes.SignNewTx(o.Signer.Eth, signer, inner)
	must(err)
	return tx
}

var contractDeployedTopic = ethcrypto.Keccak256Hash([]byte("ContractDeployed(address,address,uint256)"))

type rcptOpts struct {
	Status uint64
	Logs   []*ethtypes.Log
}

func buildReceipt(tx *ethtypes.Transaction, o rcptOpts) []byte {
	r := &ethtypes.Receipt{Type: tx.Type(), Status: o.Status, CumulativeGasUsed: 1_234_567, Logs: o.Logs}
	if r.Logs == nil {
		r.Logs = []*ethtypes.Log{}
	}
	r.Bloom = ethtypes.CreateBloom(ethtypes.Receipts{r})
	b, err := r.MarshalBinary()
	must(err)
	return b
}

// deployedLog is the ContractDeployed(child, deployer, event_id) event of the compass.
func deployedLog(a *abi.ABI, compass, child, deployer ethcommon.Address, eventID int64) *ethtypes.Log {
	ev, ok := a.Events["ContractDeployed"]
	if !ok {
		panic("compass ABI has no ContractDeployed event")
	}
	data, err := ev.Inputs.NonIndexed().Pack(child, deployer, big.NewInt(eventID))
	must(err)
	if !bytes.Equal(ev.ID.Bytes(), contractDeployedTopic.Bytes()) {
		panic("ContractDeployed topic mismatch")
	}
	return &ethtypes.Log{Address: compass, Topics: []ethcommon.Hash{contractDeployedTopic}, Data: data}
}
