// C10 — validator snapshots are faithful, immutable, correctly projected to chains.
//
// Two parts, both on the real application (one world per worker process):
//
//	(P) exhaustive input product on the projection: 1..4 validators x the stake
//	    alphabet {1,2,3,10^6,2^53-1,2^53+1,10^18,2^62} x every subset of
//	    validators holding an account on a second chain. Stakes are set with real
//	    MsgDelegate transactions, the snapshot is built by the valset end-block,
//	    published by the evm keeper (OnSnapshotBuilt on the first chain, the
//	    just-in-time path on the second chain) and the UpdateValset message found
//	    in the consensus queue is compared with a math/big reference.
//	(B) explicit-state BFS over staking / jailing / account / chain / build /
//	    activation / just-in-time operations against a ghost that remembers the
//	    first-seen bytes of every snapshot.
package main

import (
	"crypto/sha256"
	"encoding/binary"
	"encoding/hex"
	"encoding/json"
	"errors"
	"flag"
	"fmt"
	"math/big"
	"os"
	"runtime/debug"
	"runtime/pprof"
	"sort"
	"strings"
	"time"

	"cosmossdk.io/core/appmodule"
	sdkmath "cosmossdk.io/math"
	storetypes "cosmossdk.io/store/types"
	sdk "github.com/cosmos/cosmos-sdk/types"
	slashingtypes "github.com/cosmos/cosmos-sdk/x/slashing/types"
	stakingtypes "github.com/cosmos/cosmos-sdk/x/staking/types"
	evmtypes "github.com/palomachain/paloma/v2/x/evm/types"
	schedtypes "github.com/palomachain/paloma/v2/x/scheduler/types"
	treasurytypes "github.com/palomachain/paloma/v2/x/treasury/types"
	vtypes "github.com/palomachain/paloma/v2/x/valset/types"
	"github.com/palomachain/paloma/v2/zzverif/explore"
	"github.com/palomachain/paloma/v2/zzverif/report"
	"github.com/palomachain/paloma/v2/zzverif/world"
)

const (
	c1, c2 = "c1", "c2"
	// chain lifecycle scenario: a chain that governance removes, one that it adds
	// later, and an id no chain ever had
	cOld, cNew, cNever = "old", "new", "zz"
	nV                 = 5 // v0..v3 carry the stake vectors; v4 (10^6, never in a scenario) only satisfies InitGenesis
	// the integer constant of the bridge contract: floor(2^33/3)
	threshold = 2_863_311_530
	month     = 31 * 24 * time.Hour
)

var (
	two32    = new(big.Int).Lsh(big.NewInt(1), 32)
	chainIDs = map[string]uint64{c1: 1, c2: 2, cOld: 3, cNew: 4}
)

func p2(n uint) *big.Int { return new(big.Int).Lsh(big.NewInt(1), n) }
func p10(n int64) *big.Int {
	return new(big.Int).Exp(big.NewInt(10), big.NewInt(n), nil)
}

// the stake alphabet of the property design
var alpha = []*big.Int{
	big.NewInt(1), big.NewInt(2), big.NewInt(3), p10(6),
	new(big.Int).Sub(p2(53), big.NewInt(1)), new(big.Int).Add(p2(53), big.NewInt(1)),
	p10(18), p2(62),
}

var alphaName = []string{"1", "2", "3", "1e6", "2^53-1", "2^53+1", "1e18", "2^62"}

// stake vectors of (v0,v1,v2) for the BFS (indices into alpha)
var bfsVectors = [][3]int{
	{3, 3, 3}, // equal, ordinary
	{4, 5, 6}, // around 2^53 and above
	{0, 1, 2}, // tiny
	{7, 6, 5}, // very large
	{0, 3, 7}, // extreme spread
	{6, 6, 6}, // equal, large
	{5, 5, 5}, // equal, just above 2^53
	{2, 4, 3},
}

// ---------------------------------------------------------------------------

type env struct {
	w         *world.World
	r         *report.Run
	valsetEnd appmodule.HasEndBlocker
	valIdx    map[string]int // operator address (bytes as string) -> index
	ethIdx    map[string]int // eth address -> index
	cons      [nV]sdk.ConsAddress
	cnt       map[string]float64
	examples  []interface{}
	shard     int
	phase     string // counter prefix: "P." product, "B." BFS
	seedID    uint64 // id of the seed snapshot built during set-up
}

func (e *env) count(k string) { e.cnt[e.phase+k]++ }

func atomically(ctx sdk.Context, f func(c sdk.Context) error) (err error) {
	defer func() {
		if r := recover(); r != nil {
			err = fmt.Errorf("panic: %v", r)
		}
	}()
	c, write := ctx.CacheContext()
	if err := f(c); err != nil {
		return err
	}
	write()
	return nil
}

func newEnv(r *report.Run, shard int) *env {
	funds := sdk.NewCoins(sdk.NewCoin(world.BondDenom, sdkmath.NewIntFromBigInt(p2(70))))
	w := world.New(world.Config{Stakes: world.StakesOf(1, 1, 1, 1, 1_000_000), Users: []string{"U"}, UserFunds: funds, Height: 50})
	e := &env{w: w, r: r, valIdx: map[string]int{}, ethIdx: map[string]int{}, cnt: map[string]float64{}, shard: shard}
	e.valsetEnd = w.App.ModuleManager.Modules[vtypes.ModuleName].(appmodule.HasEndBlocker)
	root := w.Root
	for i, v := range w.Vals {
		e.valIdx[string(v.ValAddr)] = i
		e.ethIdx[v.EthAddr()] = i
		e.cons[i] = sdk.ConsAddress(v.Cons.PubKey().Address())
		// the hand-built genesis has no signing infos (they are created when a
		// validator bonds through the staking end-blocker)
		must(w.App.SlashingKeeper.SetValidatorSigningInfo(root, e.cons[i],
			slashingtypes.NewValidatorSigningInfo(e.cons[i], 0, 0, time.Unix(0, 0).UTC(), false, 0)))
		must(w.App.TreasuryKeeper.SetRelayerFee(root, v.ValAddr, &treasurytypes.RelayerFeeSetting{
			ValAddress: v.ValAddr.String(),
			Fees: []treasurytypes.RelayerFeeSetting_FeeSetting{
				{Multiplicator: sdkmath.LegacyMustNewDecFromStr("1.0"), ChainReferenceId: c1},
				{Multiplicator: sdkmath.LegacyMustNewDecFromStr("1.0"), ChainReferenceId: c2},
				{Multiplicator: sdkmath.LegacyMustNewDecFromStr("1.0"), ChainReferenceId: cOld},
				{Multiplicator: sdkmath.LegacyMustNewDecFromStr("1.0"), ChainReferenceId: cNew},
			},
		}))
	}
	must(e.addChain(root, c1))
	must(e.activateChain(root, c1))
	// seed snapshot: every validator registered on c1 (with a marker trait so
	// that every later snapshot differs from it); the metrix listener creates
	// the performance records without which no message can be assigned.
	// The oracles already apply here: the block-1 snapshot is recorded as first
	// seen, the seed snapshot is judged like any other.
	g := &ghost{Snaps: map[string]*snapG{}, Acct: map[string]bool{}, Chain: map[string]int{c1: chainActive}}
	f := e.observe(root, g, nil, true)
	if f == nil && g.MaxID != 1 {
		f = explore.Failf("harness:setup", "expected exactly the block-1 snapshot, highest id %d", g.MaxID)
	}
	if f == nil {
		for i, v := range w.Vals {
			must(w.RegisterAccounts(root, v, []string{"seed"}, c1))
			g.Acct[acctKey(i, c1)] = true
		}
		var want []member
		if want, f = e.build(root, g); f == nil {
			f = e.observe(root, g, want, false)
		}
	}
	if f == nil && g.MaxID <= 1 {
		f = explore.Failf("harness:setup", "the seed build stored no snapshot")
	}
	if f != nil {
		r.Violate(f.Signature, "during set-up (block-1 snapshot, then all validators registered on c1 and a build): "+f.Message, map[string]interface{}{"scenario": "setup"})
		return nil
	}
	e.seedID = g.MaxID
	vm, err := w.App.MetrixKeeper.Validators(root, nil)
	must(err)
	if len(vm.GetValMetrics()) != nV {
		panic(fmt.Sprintf("set-up: %d metrix records", len(vm.GetValMetrics())))
	}
	return e
}

func must(err error) {
	if err != nil {
		panic(err)
	}
}

func (e *env) addChain(ctx sdk.Context, ref string) error {
	id := chainIDs[ref]
	return e.w.App.EvmKeeper.AddSupportForNewChain(ctx, ref, id, 100, "0x"+fmt.Sprintf("%064x", id), big.NewInt(0))
}

func (e *env) activateChain(ctx sdk.Context, ref string) error {
	return e.w.App.EvmKeeper.ActivateChainReferenceID(ctx, ref,
		&evmtypes.SmartContract{Id: 1, AbiJSON: world.CompassABI(), Bytecode: []byte{0x60, 0x80}}, world.CompassAddr, []byte(world.CompassID))
}

func (e *env) setAccounts(ctx sdk.Context, v int, chains ...string) error {
	return atomically(ctx, func(c sdk.Context) error { return e.w.RegisterAccounts(c, e.w.Vals[v], nil, chains...) })
}

func (e *env) val(ctx sdk.Context, v int) stakingtypes.Validator {
	x, err := e.w.App.StakingKeeper.GetValidator(ctx, e.w.Vals[v].ValAddr)
	if errors.Is(err, stakingtypes.ErrNoValidatorFound) {
		// fully unbonded validators without delegations are removed by the staking module
		return stakingtypes.Validator{Status: stakingtypes.Unspecified, Tokens: sdkmath.ZeroInt(), DelegatorShares: sdkmath.LegacyZeroDec()}
	}
	must(err)
	return x
}

func (e *env) selfDelegate(ctx sdk.Context, v int, amt *big.Int) error {
	a := e.w.Vals[v]
	res := e.w.DeliverTx(ctx, []*world.Actor{a.Actor}, &stakingtypes.MsgDelegate{DelegatorAddress: a.Addr.String(),
		ValidatorAddress: a.ValAddr.String(), Amount: sdk.NewCoin(world.BondDenom, sdkmath.NewIntFromBigInt(amt))})
	return res.Err
}

func (e *env) stakingEnd(ctx sdk.Context) error {
	_, err := e.w.App.StakingKeeper.EndBlocker(ctx)
	return err
}

// raiseTo sets the tokens of validators 0..len(st)-1 to st by self-delegation
// (genesis stake is 1 each) and runs the staking end-blocker.
func (e *env) raiseTo(ctx sdk.Context, st []*big.Int) error {
	for i, s := range st {
		d := new(big.Int).Sub(s, big.NewInt(1))
		if d.Sign() > 0 {
			if err := e.selfDelegate(ctx, i, d); err != nil {
				return fmt.Errorf("delegate v%d: %w", i, err)
			}
		}
	}
	if err := e.stakingEnd(ctx); err != nil {
		return err
	}
	for i, s := range st {
		v := e.val(ctx, i)
		if v.Tokens.BigInt().Cmp(s) != 0 || v.Status != stakingtypes.Bonded || v.Jailed {
			return fmt.Errorf("v%d: tokens %s status %s, want %s bonded", i, v.Tokens, v.Status, s)
		}
	}
	return nil
}

// ---------------------------------------------------------------------------
// reference model

type member struct {
	V     int
	Share *big.Int
}

// refMembers: oracle (i). Bonded, not jailed (both read from the staking
// module, trusted base) and an account on every ACTIVE chain (accounts and chain
// states from the ghost, i.e. from the operations applied so far).
func (e *env) refMembers(ctx sdk.Context, g *ghost) []member {
	var out []member
	for v := 0; v < nV; v++ {
		x := e.val(ctx, v)
		if x.Status != stakingtypes.Bonded || x.Jailed {
			continue
		}
		ok := true
		for c, st := range g.Chain {
			if st == chainActive && !g.Acct[acctKey(v, c)] {
				ok = false
			}
		}
		if ok {
			out = append(out, member{v, x.Tokens.BigInt()})
		}
	}
	return out
}

type proj struct {
	Addr  string
	Power *big.Int
	Share *big.Int
}

// refProjection: oracle (iv). Validators of the snapshot with an account on
// chain c (as recorded in the snapshot), power = floor(2^32*share/total).
func refProjection(s *vtypes.Snapshot, c string) []proj {
	var out []proj
	total := s.TotalShares.BigInt()
	for _, v := range s.Validators {
		for _, x := range v.ExternalChainInfos {
			if x.ChainReferenceID != c || strings.ToLower(x.ChainType) != "evm" {
				continue
			}
			p := new(big.Int)
			if total.Sign() > 0 {
				p.Mul(two32, v.ShareCount.BigInt()).Quo(p, total)
			}
			out = append(out, proj{x.Address, p, v.ShareCount.BigInt()})
			break
		}
	}
	return out
}

type msgStats struct {
	Sum      uint64
	Mismatch int // number of validators whose power differs from the reference
	Up, Down int
	MaxDiff  int64
	Detail   string
}

// checkValset compares one queued UpdateValset on chain c with the reference.
func (e *env) checkValset(ctx sdk.Context, c string, vs *evmtypes.Valset) (*explore.Fail, msgStats) {
	var st msgStats
	s, err := e.w.App.ValsetKeeper.FindSnapshotByID(ctx, vs.ValsetID)
	if err != nil || s == nil {
		return explore.Failf("projection:unknown-snapshot", "UpdateValset on %s names snapshot %d which is not stored: %v", c, vs.ValsetID, err), st
	}
	ref := refProjection(s, c)
	if !s.TotalShares.IsPositive() {
		// no stake at all: the fraction is undefined; only hand-built validators
		// that never entered the staking module's power index can be bonded with
		// zero tokens after the staking end-blocker.
		e.count("n_queued_valsets_of_zero_total_skipped")
		return nil, st
	}
	if len(vs.Validators) != len(vs.Powers) {
		return explore.Failf("projection:malformed", "UpdateValset on %s: %d validators, %d powers", c, len(vs.Validators), len(vs.Powers)), st
	}
	want := map[string]proj{}
	for _, p := range ref {
		want[p.Addr] = p
	}
	got := map[string]uint64{}
	for i, a := range vs.Validators {
		if _, dup := got[a]; dup {
			return explore.Failf("projection:members", "UpdateValset(snapshot %d) on %s lists %s twice", vs.ValsetID, c, a), st
		}
		got[a] = vs.Powers[i]
		st.Sum += vs.Powers[i]
	}
	describe := func() string {
		var sb strings.Builder
		fmt.Fprintf(&sb, "snapshot %d total %s, chain %s\n", s.Id, s.TotalShares, c)
		for _, p := range ref {
			g, ok := got[p.Addr]
			pub := "absent"
			if ok {
				pub = fmt.Sprint(g)
			}
			fmt.Fprintf(&sb, "  v%d share %s: published %s reference %s\n", e.ethIdx[p.Addr], p.Share, pub, p.Power)
		}
		for a, g := range got {
			if _, ok := want[a]; !ok {
				fmt.Fprintf(&sb, "  %s: published %d, not in the reference projection\n", a, g)
			}
		}
		return sb.String()
	}
	if len(got) != len(want) {
		return explore.Failf("projection:members", "UpdateValset lists %d validators, the snapshot has %d with an account on the chain\n%s", len(got), len(want), describe()), st
	}
	for a := range got {
		if _, ok := want[a]; !ok {
			return explore.Failf("projection:members", "UpdateValset lists a validator without account on the chain in the snapshot\n%s", describe()), st
		}
	}
	for a, g := range got {
		d := new(big.Int).Sub(new(big.Int).SetUint64(g), want[a].Power)
		if d.Sign() != 0 {
			st.Mismatch++
			if d.Sign() > 0 {
				st.Up++
			} else {
				st.Down++
			}
			dd := d.Int64()
			if dd < 0 {
				dd = -dd
			}
			if !d.IsInt64() {
				dd = 1 << 62
			}
			if dd > st.MaxDiff {
				st.MaxDiff = dd
			}
		}
	}
	if st.Mismatch > 0 {
		st.Detail = describe()
		e.count("n_power_mismatch_messages")
		if st.Up > 0 {
			e.count("n_power_mismatch_messages_with_power_above_reference")
		}
		if st.Down > 0 {
			e.count("n_power_mismatch_messages_with_power_below_reference")
		}
		if st.MaxDiff > 1 {
			e.count("n_power_mismatch_messages_off_by_more_than_1")
		}
		if st.Sum > 1<<32 {
			e.count("n_power_mismatch_messages_sum_above_2^32")
		}
		if st.Sum > 1<<32 {
			return explore.Failf("projection:sum-exceeds-2^32", "published powers sum to %d > 2^32 = 4294967296 (largest deviation from floor(2^32*share/total): %d)\n%s", st.Sum, st.MaxDiff, st.Detail), st
		}
		return explore.Failf("projection:power", "published power differs from floor(2^32*share/total) (largest deviation %d, published sum %d)\n%s", st.MaxDiff, st.Sum, st.Detail), st
	}
	// order: the property text is silent; the design oracle asks for shares in
	// non-increasing order, ties unconstrained.
	for i := 1; i < len(vs.Validators); i++ {
		if want[vs.Validators[i-1]].Share.Cmp(want[vs.Validators[i]].Share) < 0 {
			return explore.Failf("projection:order", "UpdateValset is not ordered by share descending at position %d\n%s", i, describe()), st
		}
	}
	if st.Sum > 1<<32 {
		return explore.Failf("projection:sum-exceeds-2^32", "powers sum to %d > 2^32\n%s", st.Sum, describe()), st
	}
	if st.Sum < threshold {
		return explore.Failf("quorum:sent-below-threshold", "UpdateValset sent although its powers sum to %d < %d\n%s", st.Sum, uint64(threshold), describe()), st
	}
	return nil, st
}

type queued struct {
	MsgID uint64
	VS    *evmtypes.Valset
}

func (e *env) updateValsets(ctx sdk.Context, c string) []queued {
	var out []queued
	for _, m := range e.w.Queue(ctx, world.TurnstoneQueue(c)) {
		cm, err := m.ConsensusMsg(e.w.App.AppCodec())
		if err != nil {
			continue
		}
		mm, ok := cm.(*evmtypes.Message)
		if !ok {
			continue
		}
		if uv, ok := mm.Action.(*evmtypes.Message_UpdateValset); ok && uv.UpdateValset != nil && uv.UpdateValset.Valset != nil {
			out = append(out, queued{m.GetId(), uv.UpdateValset.Valset})
		}
	}
	return out
}

// ---------------------------------------------------------------------------
// ghost

const (
	chainInactive = 1
	chainActive   = 2
)

type snapG struct {
	Base   string   // sha256 of the first-seen encoding with Chains cleared
	Chains []string // chains list as last seen (may only grow by appending)
}

type ghost struct {
	Vec   int
	Snaps map[string]*snapG // id (decimal) -> first-seen
	MaxID uint64
	Acct  map[string]bool // "v/chain"
	Chain map[string]int
	Adv   int
	Typ   map[string]string `json:",omitempty"` // "v/chain" -> chain type spelling when it is not "evm"
	key   string
}

func acctKey(v int, c string) string { return fmt.Sprintf("%d/%s", v, c) }

func (g *ghost) Clone() explore.Ghost {
	n := &ghost{Vec: g.Vec, MaxID: g.MaxID, Adv: g.Adv, Snaps: map[string]*snapG{}, Acct: map[string]bool{}, Chain: map[string]int{}}
	for k, v := range g.Snaps {
		n.Snaps[k] = &snapG{Base: v.Base, Chains: append([]string(nil), v.Chains...)}
	}
	for k, v := range g.Acct {
		if v {
			n.Acct[k] = true
		}
	}
	for k, v := range g.Chain {
		n.Chain[k] = v
	}
	if len(g.Typ) > 0 {
		n.Typ = map[string]string{}
		for k, v := range g.Typ {
			n.Typ[k] = v
		}
	}
	return n
}

func (g *ghost) Key() string {
	b, _ := json.Marshal(g)
	return string(b)
}

func (g *ghost) chains() []string {
	var out []string
	for c := range g.Chain {
		out = append(out, c)
	}
	sort.Strings(out)
	return out
}

func (e *env) snapBase(s *vtypes.Snapshot) string {
	c := *s
	c.Chains = nil
	bz, err := c.Marshal()
	must(err)
	h := sha256.Sum256(bz)
	return hex.EncodeToString(h[:12])
}

var snapPrefix = []byte("snapshot")

// storedSnapshots reads the raw snapshot store (id -> bytes).
func (e *env) storedSnapshots(ctx sdk.Context) (ids []uint64, raw map[uint64][]byte) {
	raw = map[uint64][]byte{}
	st := ctx.KVStore(e.w.App.GetKey(vtypes.StoreKey))
	it := st.Iterator(snapPrefix, storetypes.PrefixEndBytes(snapPrefix))
	defer it.Close()
	for ; it.Valid(); it.Next() {
		k := it.Key()[len(snapPrefix):]
		if len(k) != 8 {
			continue
		}
		id := binary.BigEndian.Uint64(k)
		ids = append(ids, id)
		raw[id] = append([]byte(nil), it.Value()...)
	}
	sort.Slice(ids, func(i, j int) bool { return ids[i] < ids[j] })
	return
}

// observe evaluates oracles (i)-(v) in the state after an operation and moves
// the ghost along. want != nil: the operation was a snapshot build and want is
// the reference membership computed from the state before it.
func (e *env) observe(ctx sdk.Context, g *ghost, want []member, initial bool) *explore.Fail {
	ids, raw := e.storedSnapshots(ctx)
	seen := map[string]bool{}
	var fresh []uint64
	for _, id := range ids {
		var s vtypes.Snapshot
		if err := s.Unmarshal(raw[id]); err != nil {
			return explore.Failf("immutable:undecodable", "stored snapshot %d does not decode: %v", id, err)
		}
		if s.Id != id {
			return explore.Failf("ids:key-mismatch", "snapshot stored under id %d carries id %d", id, s.Id)
		}
		k := fmt.Sprint(id)
		seen[k] = true
		old, known := g.Snaps[k]
		if !known {
			if !initial && id <= g.MaxID {
				return explore.Failf("ids:not-increasing", "new snapshot id %d is not above the highest id issued before (%d)", id, g.MaxID)
			}
			fresh = append(fresh, id)
			g.Snaps[k] = &snapG{Base: e.snapBase(&s), Chains: append([]string(nil), s.Chains...)}
			continue
		}
		if b := e.snapBase(&s); b != old.Base {
			return explore.Failf("immutable:changed", "stored snapshot %d changed after it was issued (other than its chains list): now %d validators, total %s, height %d, created %s",
				id, len(s.Validators), s.TotalShares, s.Height, s.CreatedAt)
		}
		if len(s.Chains) < len(old.Chains) {
			return explore.Failf("immutable:chains-not-appended", "chains of snapshot %d went from %v to %v", id, old.Chains, s.Chains)
		}
		for i, c := range old.Chains {
			if s.Chains[i] != c {
				return explore.Failf("immutable:chains-not-appended", "chains of snapshot %d went from %v to %v", id, old.Chains, s.Chains)
			}
		}
		old.Chains = append([]string(nil), s.Chains...)
	}
	for k := range g.Snaps {
		if !seen[k] {
			return explore.Failf("immutable:deleted", "snapshot %s is no longer stored", k)
		}
	}
	if len(ids) > 0 {
		g.MaxID = ids[len(ids)-1]
	}
	cur, err := e.w.App.ValsetKeeper.GetCurrentSnapshot(ctx)
	if err != nil {
		return explore.Failf("current:error", "GetCurrentSnapshot: %v", err)
	}
	if len(ids) > 0 && (cur == nil || cur.Id != g.MaxID) {
		return explore.Failf("current:not-highest", "GetCurrentSnapshot returns id %d, highest stored id is %d", cur.GetId(), g.MaxID)
	}
	if !initial {
		switch {
		case len(fresh) > 0 && want == nil:
			return explore.Failf("harness:unexpected-snapshot", "snapshots %v appeared outside a build", fresh)
		case len(fresh) > 1:
			return explore.Failf("ids:several-per-build", "one build issued snapshots %v", fresh)
		case len(fresh) == 1:
			var s vtypes.Snapshot
			must(s.Unmarshal(raw[fresh[0]]))
			if f := e.checkMembers(&s, want); f != nil {
				return f
			}
			e.count("n_snapshots_checked")
		case want != nil:
			e.count("n_builds_not_worthy")
		}
	}
	// (iv)/(v) every UpdateValset in every turnstone queue
	for _, c := range g.chains() {
		for _, q := range e.updateValsets(ctx, c) {
			f, st := e.checkValset(ctx, c, q.VS)
			if f != nil {
				return f
			}
			e.count("n_queued_valsets_checked")
			if len(q.VS.Validators) < len(cur.GetValidators()) || st.Sum < 1<<32-8 {
				e.count("n_queued_valsets_partial")
			}
		}
	}
	// harness self-check: the ghost's accounts / chains are what the stores hold
	for v := 0; v < nV; v++ {
		infos, err := e.w.App.ValsetKeeper.GetValidatorChainInfos(ctx, e.w.Vals[v].ValAddr)
		must(err)
		n := 0
		for _, x := range infos {
			if !g.Acct[acctKey(v, x.ChainReferenceID)] {
				return explore.Failf("harness:ghost-accounts", "v%d has an account on %s unknown to the ghost", v, x.ChainReferenceID)
			}
			n++
		}
		for k, on := range g.Acct {
			if on && strings.HasPrefix(k, fmt.Sprintf("%d/", v)) {
				n--
			}
		}
		if n != 0 {
			return explore.Failf("harness:ghost-accounts", "v%d: ghost accounts differ from the store", v)
		}
	}
	cis, err := e.w.App.EvmKeeper.GetAllChainInfos(ctx)
	must(err)
	if len(cis) != len(g.Chain) {
		return explore.Failf("harness:ghost-chains", "%d chains stored, ghost has %d", len(cis), len(g.Chain))
	}
	for _, ci := range cis {
		st := chainInactive
		if ci.Status == evmtypes.ChainInfo_ACTIVE {
			st = chainActive
		}
		if g.Chain[ci.ChainReferenceID] != st {
			return explore.Failf("harness:ghost-chains", "chain %s status %v, ghost %d", ci.ChainReferenceID, ci.Status, g.Chain[ci.ChainReferenceID])
		}
	}
	return nil
}

// checkMembers: oracle (i) on a freshly stored snapshot.
func (e *env) checkMembers(s *vtypes.Snapshot, want []member) *explore.Fail {
	describe := func() string {
		var sb strings.Builder
		sb.WriteString("reference (bonded, unjailed, account on every active chain):")
		for _, m := range want {
			fmt.Fprintf(&sb, " v%d=%s", m.V, m.Share)
		}
		sb.WriteString("; snapshot:")
		for _, v := range s.Validators {
			fmt.Fprintf(&sb, " v%d=%s", e.valIdx[string(v.Address)], v.ShareCount)
		}
		fmt.Fprintf(&sb, " total=%s", s.TotalShares)
		return sb.String()
	}
	got := map[int]*big.Int{}
	sum := new(big.Int)
	for _, v := range s.Validators {
		i, ok := e.valIdx[string(v.Address)]
		if !ok {
			return explore.Failf("members:unknown-validator", "snapshot %d lists unknown validator %s", s.Id, v.Address)
		}
		if _, dup := got[i]; dup {
			return explore.Failf("members:duplicate", "snapshot %d lists v%d twice; %s", s.Id, i, describe())
		}
		got[i] = v.ShareCount.BigInt()
		sum.Add(sum, v.ShareCount.BigInt())
	}
	for _, m := range want {
		if _, ok := got[m.V]; !ok {
			return explore.Failf("members:missing", "snapshot %d omits v%d; %s", s.Id, m.V, describe())
		}
	}
	if len(got) != len(want) {
		return explore.Failf("members:extra", "snapshot %d lists a validator that is not bonded, is jailed or lacks an account on an active chain; %s", s.Id, describe())
	}
	for _, m := range want {
		if got[m.V].Cmp(m.Share) != 0 {
			return explore.Failf("members:share", "snapshot %d: share of v%d is not its bonded tokens; %s", s.Id, m.V, describe())
		}
	}
	if s.TotalShares.BigInt().Cmp(sum) != 0 {
		return explore.Failf("members:total", "snapshot %d: total is not the sum of shares; %s", s.Id, describe())
	}
	return nil
}

// build runs the valset end-block at height 50 (h % 50 == 0 => TriggerSnapshotBuild).
func (e *env) build(ctx sdk.Context, g *ghost) ([]member, *explore.Fail) {
	want := e.refMembers(ctx, g)
	if want == nil {
		want = []member{}
	}
	err, panicked := world.Protect(func() error { return e.valsetEnd.EndBlock(ctx) })
	if panicked {
		var sb strings.Builder
		for _, m := range want {
			fmt.Fprintf(&sb, " v%d=%s", m.V, m.Share)
		}
		return nil, explore.Failf("publish-panic:end-block", "the valset end-block panics while building / publishing the snapshot of%s: %v", sb.String(), err)
	}
	if err != nil {
		return nil, explore.Failf("harness:valset-endblock", "valset end-block: %v", err)
	}
	return want, nil
}

func (e *env) jit(ctx sdk.Context, c string) *explore.Fail {
	err := atomically(ctx, func(cc sdk.Context) error {
		return e.w.App.EvmKeeper.PreJobExecution(cc, &schedtypes.Job{ID: "j", Routing: schedtypes.Routing{ChainType: "evm", ChainReferenceID: c}})
	})
	if err != nil && strings.HasPrefix(err.Error(), "panic:") {
		return explore.Failf("publish-panic:just-in-time", "the just-in-time valset update for %s panics: %v", c, err)
	}
	if err != nil {
		e.count("n_jit_refused")
	}
	return nil
}

// ---------------------------------------------------------------------------
// state hash

var valsetSkip = [][]byte{[]byte("grace-period"), []byte("unjailed-snapshot")}

func (e *env) hash(n *explore.Node) string {
	h := sha256.New()
	h.Write([]byte(n.Ghost.Key()))
	h.Write([]byte(e.w.StoreDigest(n.Ctx, "staking", "slashing", "evm", world.ConsensusStore, "metrix")))
	// valset store without the keep-alive book-keeping of UpdateGracePeriod
	// (only read by JailInactiveValidators, which never runs at height 50)
	it := n.Ctx.KVStore(e.w.App.GetKey(vtypes.StoreKey)).Iterator(nil, nil)
	defer it.Close()
outer:
	for ; it.Valid(); it.Next() {
		for _, p := range valsetSkip {
			if strings.HasPrefix(string(it.Key()), string(p)) {
				continue outer
			}
		}
		var l [8]byte
		binary.BigEndian.PutUint32(l[:4], uint32(len(it.Key())))
		binary.BigEndian.PutUint32(l[4:], uint32(len(it.Value())))
		h.Write(l[:])
		h.Write(it.Key())
		h.Write(it.Value())
	}
	return hex.EncodeToString(h.Sum(nil)[:16])
}

// ---------------------------------------------------------------------------
// BFS operations

func (e *env) ops(rich bool) func(n *explore.Node) []explore.Op {
	w := e.w
	U := w.User("U")
	return func(n *explore.Node) []explore.Op {
		g0 := n.Ghost.(*ghost)
		rot := g0.Vec % 3
		role := func(i int) int { return (i + rot) % 3 }
		var ops []explore.Op
		add := func(label string, do func(ctx *sdk.Context, g *ghost) (want []member, f *explore.Fail)) {
			ops = append(ops, explore.Op{Label: label, Do: func(ctx *sdk.Context, gg explore.Ghost) *explore.Fail {
				g := gg.(*ghost)
				want, f := do(ctx, g)
				if f != nil {
					return f
				}
				return e.observe(*ctx, g, want, false)
			}})
		}
		// a staking transaction, then the staking end-blocker of its block: in the
		// application the staking end-blocker runs after the transactions and
		// before the valset end-block, so a build never sees a delegation change
		// whose status update is still pending. (Jail is different: the consensus
		// end-blocker, which runs between the two, jails through the valset keeper.)
		tx := func(ctx sdk.Context, a *world.Actor, m sdk.Msg) (bool, *explore.Fail) {
			res := w.DeliverTx(ctx, []*world.Actor{a}, m)
			if res.Stage == "ante" || res.Stage == "build" {
				return false, explore.Failf("harness:tx", "tx of %s failed in %s: %v", a.Name, res.Stage, res.Err)
			}
			if res.OK() {
				if err := e.stakingEnd(ctx); err != nil {
					return false, explore.Failf("harness:staking-endblock", "%v", err)
				}
			}
			return res.OK(), nil
		}
		delegate := func(v int, kind string) {
			add(fmt.Sprintf("Delegate(v%d,%s)", v, kind), func(ctx *sdk.Context, g *ghost) ([]member, *explore.Fail) {
				amt := sdkmath.OneInt()
				if kind == "x2" {
					amt = e.val(*ctx, v).Tokens
				}
				if !amt.IsPositive() {
					return nil, nil
				}
				ok, f := tx(*ctx, U, &stakingtypes.MsgDelegate{DelegatorAddress: U.Addr.String(), ValidatorAddress: w.Vals[v].ValAddr.String(), Amount: sdk.NewCoin(world.BondDenom, amt)})
				if ok {
					e.count("n_delegate_ok")
				}
				return nil, f
			})
		}
		undelegate := func(v int, all bool) {
			label := fmt.Sprintf("Undelegate(v%d,1)", v)
			if all {
				label = fmt.Sprintf("Unbond(v%d)", v)
			}
			add(label, func(ctx *sdk.Context, g *ghost) ([]member, *explore.Fail) {
				a := w.Vals[v]
				del, err := w.App.StakingKeeper.GetDelegation(*ctx, a.Addr, a.ValAddr)
				if err != nil {
					return nil, nil // nothing self-delegated any more
				}
				val := e.val(*ctx, v)
				amt := sdkmath.OneInt()
				if all {
					amt = val.TokensFromShares(del.Shares).TruncateInt()
				}
				if !amt.IsPositive() {
					return nil, nil
				}
				// A validator of the hand-built genesis that holds less than one unit
				// of consensus power (10^6) is Bonded without ever having entered the
				// staking module's power index; the end-blocker would never unbond it,
				// so emptying it leaves a Bonded validator with zero tokens for good —
				// a state the real staking module cannot be in at a valset end-block.
				if val.Tokens.LT(sdk.DefaultPowerReduction) && !val.Tokens.Sub(amt).IsPositive() {
					e.count("n_undelegate_to_zero_of_subunit_validator_skipped")
					return nil, nil
				}
				ok, f := tx(*ctx, a.Actor, &stakingtypes.MsgUndelegate{DelegatorAddress: a.Addr.String(), ValidatorAddress: a.ValAddr.String(), Amount: sdk.NewCoin(world.BondDenom, amt)})
				if ok {
					e.count("n_undelegate_ok")
				}
				return nil, f
			})
		}
		jailOps := func(v int) {
			cur := e.val(n.Ctx, v)
			if cur.Status == stakingtypes.Unspecified {
				return // removed from the staking module
			}
			if cur.Jailed {
				add(fmt.Sprintf("Unjail(v%d)", v), func(ctx *sdk.Context, g *ghost) ([]member, *explore.Fail) {
					ok, f := tx(*ctx, w.Vals[v].Actor, &slashingtypes.MsgUnjail{ValidatorAddr: w.Vals[v].ValAddr.String()})
					if ok {
						e.count("n_unjail_ok")
					} else {
						e.count("n_unjail_refused")
					}
					return nil, f
				})
				return
			}
			add(fmt.Sprintf("Jail(v%d)", v), func(ctx *sdk.Context, g *ghost) ([]member, *explore.Fail) {
				// the valset keeper's Jail (used by the Paloma modules); when its
				// protection rule refuses, the slashing keeper's Jail (downtime,
				// bridge evidence), which has no such rule.
				if err := atomically(*ctx, func(c sdk.Context) error { return w.App.ValsetKeeper.Jail(c, w.Vals[v].ValAddr, "verif") }); err == nil {
					e.count("n_jail_valset")
				} else if err := atomically(*ctx, func(c sdk.Context) error { return w.App.SlashingKeeper.Jail(c, e.cons[v]) }); err == nil {
					e.count("n_jail_slashing")
				} else {
					return nil, explore.Failf("harness:jail", "Jail(v%d): %v", v, err)
				}
				if !e.val(*ctx, v).Jailed {
					return nil, explore.Failf("harness:jail", "Jail(v%d) had no effect", v)
				}
				return nil, nil
			})
		}
		toggle := func(v int, c string) {
			if g0.Chain[c] == 0 {
				return
			}
			on := !g0.Acct[acctKey(v, c)]
			label := fmt.Sprintf("RemoveAccount(v%d,%s)", v, c)
			if on {
				label = fmt.Sprintf("AddAccount(v%d,%s)", v, c)
			}
			add(label, func(ctx *sdk.Context, g *ghost) ([]member, *explore.Fail) {
				var cs []string
				for _, x := range []string{c1, c2} {
					if (x == c && on) || (x != c && g.Acct[acctKey(v, x)]) {
						cs = append(cs, x)
					}
				}
				if err := e.setAccounts(*ctx, v, cs...); err != nil {
					e.count("n_account_refused") // jailed / not bonded validators cannot register
					return nil, nil
				}
				e.count("n_account_ok")
				if on {
					g.Acct[acctKey(v, c)] = true
				} else {
					delete(g.Acct, acctKey(v, c))
				}
				return nil, nil
			})
		}

		// --- the alphabet (by role, rotated per stake vector) ---
		delegate(role(0), "+1")
		delegate(role(1), "x2")
		undelegate(role(0), false)
		undelegate(role(2), true)
		jailOps(role(1))
		jailOps(role(2))
		toggle(role(0), c2)
		toggle(role(1), c2)
		toggle(role(2), c2)
		toggle(role(2), c1)
		if rich {
			delegate(role(1), "+1")
			delegate(role(2), "+1")
			delegate(role(0), "x2")
			delegate(role(2), "x2")
			undelegate(role(1), true)
			jailOps(role(0))
			toggle(role(0), c1)
			toggle(role(1), c1)
		}
		add("StakingEnd", func(ctx *sdk.Context, g *ghost) ([]member, *explore.Fail) {
			if err := e.stakingEnd(*ctx); err != nil {
				return nil, explore.Failf("harness:staking-endblock", "%v", err)
			}
			return nil, nil
		})
		switch g0.Chain[c2] {
		case 0:
			add("AddChain(c2)", func(ctx *sdk.Context, g *ghost) ([]member, *explore.Fail) {
				if err := atomically(*ctx, func(c sdk.Context) error { return e.addChain(c, c2) }); err != nil {
					return nil, explore.Failf("harness:add-chain", "%v", err)
				}
				g.Chain[c2] = chainInactive
				return nil, nil
			})
		case chainInactive:
			add("ActivateChain(c2)", func(ctx *sdk.Context, g *ghost) ([]member, *explore.Fail) {
				if err := atomically(*ctx, func(c sdk.Context) error { return e.activateChain(c, c2) }); err != nil {
					return nil, explore.Failf("harness:activate-chain", "%v", err)
				}
				g.Chain[c2] = chainActive
				return nil, nil
			})
		}
		add("Build", func(ctx *sdk.Context, g *ghost) ([]member, *explore.Fail) { return e.build(*ctx, g) })
		// Activate(id,c): the snapshot becomes live on c (attested UpdateValset /
		// first deployment); the two most recent ids, every chain it is not live on.
		for id := g0.MaxID; id+1 >= g0.MaxID && id >= 1; id-- {
			sg := g0.Snaps[fmt.Sprint(id)]
			if sg == nil {
				continue
			}
			for _, c := range g0.chains() {
				live := false
				for _, x := range sg.Chains {
					if x == c {
						live = true
					}
				}
				if live {
					continue
				}
				id, c := id, c
				add(fmt.Sprintf("Activate(%d,%s)", id, c), func(ctx *sdk.Context, g *ghost) ([]member, *explore.Fail) {
					if err := atomically(*ctx, func(cc sdk.Context) error { return w.App.ValsetKeeper.SetSnapshotOnChain(cc, id, c) }); err != nil {
						return nil, explore.Failf("harness:activate", "SetSnapshotOnChain(%d,%s): %v", id, c, err)
					}
					// as after attestation: the attested message and older valset updates leave the queue
					for _, q := range e.updateValsets(*ctx, c) {
						if q.VS.ValsetID <= id {
							_ = w.App.ConsensusKeeper.DeleteJob(*ctx, world.TurnstoneQueue(c), q.MsgID)
						}
					}
					e.count("n_activate")
					return nil, nil
				})
			}
		}
		for _, c := range g0.chains() {
			c := c
			add(fmt.Sprintf("JustInTime(%s)", c), func(ctx *sdk.Context, g *ghost) ([]member, *explore.Fail) { return nil, e.jit(*ctx, c) })
		}
		if g0.Adv < 2 {
			add("Advance31d", func(ctx *sdk.Context, g *ghost) ([]member, *explore.Fail) {
				*ctx = world.Advance(*ctx, 0, month)
				g.Adv++
				return nil, nil
			})
		}
		return ops
	}
}

// bfsInit builds the initial node for stake vector j: v0..v2 registered on c1,
// v3, v4 without account, stakes raised by self-delegation, snapshot built.
func (e *env) bfsInit(root sdk.Context, j int) *explore.Node {
	ctx := world.Fork(root)
	g := &ghost{Vec: j, Snaps: map[string]*snapG{}, Acct: map[string]bool{}, Chain: map[string]int{c1: chainActive}}
	for v := 0; v < nV; v++ {
		g.Acct[acctKey(v, c1)] = true
	}
	if f := e.observe(ctx, g, nil, true); f != nil {
		panic("init: " + f.Message)
	}
	st := make([]*big.Int, 3)
	for i := range st {
		st[i] = alpha[bfsVectors[j][i]]
		must(e.setAccounts(ctx, i, c1))
	}
	for v := 3; v < nV; v++ {
		must(e.setAccounts(ctx, v))
		delete(g.Acct, acctKey(v, c1))
	}
	must(e.raiseTo(ctx, st))
	want, f := e.build(ctx, g)
	if f == nil {
		f = e.observe(ctx, g, want, false)
	}
	label := fmt.Sprintf("init(%s,%s,%s)", alphaName[bfsVectors[j][0]], alphaName[bfsVectors[j][1]], alphaName[bfsVectors[j][2]])
	if f != nil {
		e.r.Violate(f.Signature, f.Message, map[string]interface{}{"scenario": "bfs", "path": []string{label}})
		return nil
	}
	if g.MaxID <= e.seedID {
		panic(fmt.Sprintf("init %s: no snapshot stored (highest id %d)", label, g.MaxID))
	}
	return &explore.Node{Ctx: ctx, Ghost: g, Path: []string{label}}
}

// ---------------------------------------------------------------------------
// product

type pcase struct {
	Stakes []int // indices into alpha
	Mask   int
}

func (p pcase) String() string {
	var s []string
	for _, i := range p.Stakes {
		s = append(s, alphaName[i])
	}
	return fmt.Sprintf("stakes=(%s) c2-accounts=%0*b", strings.Join(s, ","), len(p.Stakes), p.Mask)
}

func (p pcase) replay() map[string]interface{} {
	return map[string]interface{}{"scenario": "product", "stakes": p.Stakes, "mask": p.Mask}
}

// productBase: fork of the product root with the stakes raised.
func (e *env) productBase(rootP sdk.Context, stakes []int) (sdk.Context, error) {
	ctx := world.Fork(rootP)
	st := make([]*big.Int, len(stakes))
	for i, a := range stakes {
		st[i] = alpha[a]
	}
	return ctx, e.raiseTo(ctx, st)
}

// productCase runs one (stake vector, c2 account subset) on a fork of base.
func (e *env) productCase(base sdk.Context, p pcase) *explore.Fail {
	w := e.w
	k := len(p.Stakes)
	ctx := world.Fork(base)
	g := &ghost{Snaps: map[string]*snapG{}, Acct: map[string]bool{}, Chain: map[string]int{c1: chainActive, c2: chainInactive}}
	for v := 0; v < nV; v++ {
		g.Acct[acctKey(v, c1)] = true
	}
	if f := e.observe(ctx, g, nil, true); f != nil {
		return explore.Failf("harness:product-init", "%s", f.Message)
	}
	for v := 0; v < nV; v++ {
		var cs []string
		if v < k {
			cs = append(cs, c1)
			if p.Mask>>v&1 == 1 {
				cs = append(cs, c2)
				g.Acct[acctKey(v, c2)] = true
			}
		} else {
			delete(g.Acct, acctKey(v, c1))
		}
		if err := e.setAccounts(ctx, v, cs...); err != nil {
			return explore.Failf("harness:product-accounts", "v%d: %v", v, err)
		}
	}
	// 1. build: snapshot of exactly the k validators, published on c1 (no snapshot live there yet)
	want, f := e.build(ctx, g)
	if f != nil {
		return f
	}
	if f := e.observe(ctx, g, want, false); f != nil {
		return f
	}
	if g.MaxID <= e.seedID || len(want) != k {
		return explore.Failf("harness:product-build", "expected a new snapshot with %d validators, highest id %d, reference %d", k, g.MaxID, len(want))
	}
	newID := g.MaxID
	q1 := e.updateValsets(ctx, c1)
	if len(q1) != 1 || q1[0].VS.ValsetID != newID || len(q1[0].VS.Validators) != k {
		// the full set always sums to more than the threshold (at most k is lost to rounding)
		return explore.Failf("harness:product-c1", "expected one UpdateValset for snapshot %d with %d validators on c1, found %d messages", newID, k, len(q1))
	}
	e.count("n_product_c1_valsets")
	// 2. c2 becomes active with the seed snapshot live on it; the just-in-time
	// path publishes snapshot 3 restricted to the validators with a c2 account.
	must(e.activateChain(ctx, c2))
	g.Chain[c2] = chainActive
	must(w.App.ValsetKeeper.SetSnapshotOnChain(ctx, e.seedID, c2))
	if f := e.jit(ctx, c2); f != nil {
		return f
	}
	if f := e.observe(ctx, g, nil, false); f != nil {
		return f
	}
	s3, err := w.App.ValsetKeeper.FindSnapshotByID(ctx, newID)
	must(err)
	refSum := new(big.Int)
	for _, pr := range refProjection(s3, c2) {
		refSum.Add(refSum, pr.Power)
	}
	q2 := e.updateValsets(ctx, c2)
	above := refSum.Cmp(big.NewInt(threshold)) >= 0
	switch {
	case len(q2) > 1:
		return explore.Failf("harness:product-c2", "%d UpdateValset messages on c2", len(q2))
	case len(q2) == 1 && above:
		e.count("n_product_c2_sent")
	case len(q2) == 1: // cannot happen: observe has already flagged it
		return explore.Failf("quorum:sent-below-threshold", "sent on c2 with reference sum %s", refSum)
	case above:
		// not demanded by the property ("only sent when"); counted for the record
		e.count("n_product_c2_unsent_above_threshold")
		if len(e.examples) < 4 {
			e.examples = append(e.examples, map[string]interface{}{"unsent_above_threshold": p.String(), "reference_sum": refSum.String()})
		}
	default:
		e.count("n_product_c2_withheld_below_threshold")
	}
	return nil
}

func (e *env) product(rootP sdk.Context, deadline time.Time, shard, nshards int, maxK int) {
	r := e.r
	idx := 0
	for k := 1; k <= maxK; k++ {
		st := make([]int, k)
		for {
			if idx%nshards == shard {
				if time.Now().After(deadline) {
					r.Cap(fmt.Sprintf("product: deadline reached within k=%d", k))
					return
				}
				e.productVector(rootP, append([]int(nil), st...), true)
			} else if k <= 2 {
				// the 72 smallest vectors are evaluated by every worker (counted by
				// their owner only) so that the violations that survive the merge
				// (three per signature, shard 0 first) are the smallest ones
				e.productVector(rootP, append([]int(nil), st...), false)
			}
			idx++
			i := k - 1
			for i >= 0 {
				st[i]++
				if st[i] < len(alpha) {
					break
				}
				st[i] = 0
				i--
			}
			if i < 0 {
				break
			}
		}
	}
}

func (e *env) productVector(rootP sdk.Context, st []int, mine bool) {
	r := e.r
	k := len(st)
	if !mine {
		saved := e.cnt
		e.cnt = map[string]float64{}
		defer func() { e.cnt = saved }()
	}
	base, err := e.productBase(rootP, st)
	if err != nil {
		r.Violate("harness:product-stakes", fmt.Sprintf("%v: %v", st, err), pcase{st, 0}.replay())
		return
	}
	failed := map[string]bool{}
	// full subset first: it is the one shown when the defect does not depend on the subset
	for i := 0; i < 1<<k; i++ {
		mask := 1<<k - 1 - i
		p := pcase{st, mask}
		f := e.productCase(base, p)
		e.count("n_product_cases")
		if f == nil {
			if mine {
				r.Case(p.String())
				if e.shard == 0 && int(e.cnt["P.n_product_cases"])%997 == 1 {
					r.Sample(map[string]interface{}{"scenario": "product", "case": p.String(), "result": "queued UpdateValset messages equal the reference"})
				}
			}
			continue
		}
		if mine {
			r.Case("")
		}
		e.count("n_product_fail:" + f.Signature)
		if failed[f.Signature] {
			continue // one report per stake vector and defect class
		}
		failed[f.Signature] = true
		e.count(fmt.Sprintf("n_product_vectors_fail:%s:k=%d", f.Signature, k))
		if os.Getenv("VERIF_C10_LIST") != "" {
			fmt.Fprintf(os.Stderr, "FAIL %s %s\n%s\n", f.Signature, p.String(), f.Message)
		}
		r.Violate(f.Signature, p.String()+"\n"+f.Message, p.replay())
	}
}

// ---------------------------------------------------------------------------

func main() {
	replay := flag.String("replay", "", "replay file")
	flag.Parse()
	n := report.Workers()
	if *replay != "" {
		n = 1
	}
	report.Main("C10", "model_checking", n, func(r *report.Run, shard, nshards int) {
		run(r, shard, nshards, *replay)
	})
}

func run(r *report.Run, shard, nshards int, replayFile string) {
	t0 := time.Now()
	debug.SetGCPercent(400)
	if f := os.Getenv("VERIF_C10_PROF"); f != "" && shard == 0 {
		fh, _ := os.Create(f)
		pprof.StartCPUProfile(fh)
		defer pprof.StopCPUProfile()
	}
	e := newEnv(r, shard)
	if e == nil {
		return // violation during set-up, already recorded
	}
	w := e.w
	rootB := world.Fork(w.Root)
	rootP := world.Fork(w.Root)
	must(e.addChain(rootP, c2))

	nvec, depth, maxK := 4, 5, 4
	if r.Thorough() {
		nvec, depth = len(bfsVectors), 7
	}
	if s := os.Getenv("VERIF_C10_DEPTH"); s != "" {
		fmt.Sscan(s, &depth)
	}
	if s := os.Getenv("VERIF_C10_NVEC"); s != "" {
		fmt.Sscan(s, &nvec)
	}
	if s := os.Getenv("VERIF_C10_MAXK"); s != "" {
		fmt.Sscan(s, &maxK)
	}
	richNote := ""
	if r.Thorough() {
		richNote = " The same search is first run to depth 4 with the full alphabet (every operation kind for every one of v0..v2)."
	}
	r.Rule = fmt.Sprintf("(P) product: 1..%d validators x stake alphabet {1,2,3,1e6,2^53-1,2^53+1,1e18,2^62} (every vector) x every subset of them with an account on a second chain; stakes set by real MsgDelegate txs + staking end-blocker, snapshot built by the valset end-block at height 50, published by the evm keeper on c1 (OnSnapshotBuilt) and on c2 (chain activated afterwards, older snapshot live there, just-in-time path); every queued UpdateValset compared with floor(2^32*share/total) in math/big, order, sum <= 2^32, quorum gate. "+
		"(B) BFS to depth %d from %d initial states (stake vectors of v0..v2 from the same alphabet, all registered on the active chain c1, snapshot built and published) over Delegate(+1 | x2)/Undelegate(1)/Unbond (real staking txs + staking end-blocker), Jail (valset keeper, else slashing keeper)/Unjail (MsgUnjail), StakingEnd, Add/RemoveAccount(v,c1|c2), AddChain(c2), ActivateChain(c2), Build (valset end-block, h %% 50 == 0), Activate(id,c) for the two latest ids (SetSnapshotOnChain), JustInTime(c) (evm PreJobExecution), Advance31d (<=2); validators take the roles of the alphabet in a rotation that depends on the stake vector (+1/Undelegate: one validator, x2: one, Unbond: one, Jail/Unjail: two, accounts: three on c2 and one on c1).%s (L) chain lifecycle BFS (quick depth 4, thorough depth 5) from two initial states per stake vector (chains c1,c2,old active with v0..v2 registered on all three and a snapshot built; the same after governance removed 'old', added and activated 'new' and v0,v1 re-registered on {c1,c2,new} while v2 still holds {c1,c2,old}) over GovRemoveChain(x)/GovAddChain(old|new) (x/evm governance proposal handler; removal does not purge accounts), ActivateChain(x), SetAccounts(v,list) (real MsgAddExternalChainInfoForValidator replacing the whole list; lists {c1,c2,old},{c1,c2,new},{c1,c2,old,new} for every validator and {c1,c2},{c1,c2,zz},{c1,old,zz},{c1:EVM,c2,old},{c1:Evm,c2:EVM,old,new:EVM},{c1:solana,c2,old} for v2, zz = id no chain ever had, ref:TYPE = chain type spelled TYPE instead of evm), Jail/Unjail(v2), StakingEnd, Build, Activate(latest id, c) for every known chain the latest snapshot is not live on (SetSnapshotOnChain; in the migrated initial states the first snapshot is already live on c1, c2 and old, so chains lists grow to three and four entries). After every transition: every stored snapshot against its first-seen bytes, ids, current snapshot, membership/shares/total of a new snapshot against the staking module, every queued UpdateValset against the reference", maxK, depth, nvec, richNote)
	r.Assumptions = []string{
		"quorum threshold read as the integer 2863311530 = floor(2^33/3) used by the bridge contract; demanding 2863311531 (ceil) would alarm on correct code",
		"'account on every active chain': an external chain info with that chain reference id (ValidatorSupportsAllChains compares reference ids of chains whose status is ACTIVE); only evm-typed accounts are registered, so the reading does not depend on the chain type",
		"membership reference is computed from the ghost's own record of the operations: per validator the set of chain reference ids it last registered, per chain whether it currently exists and is ACTIVE; a validator qualifies iff every existing ACTIVE chain id is in its set (id equality; accounts for removed or unknown ids neither help nor hurt)",
		"chain type spelling: the unchanged tree counts an account for membership by its chain reference id whatever its (free-text) chain type is (ValidatorSupportsAllChains ignores the type: 'evm', 'EVM', 'Evm' and even 'solana' all count), while the projection gives power to accounts whose type is 'evm' case-insensitively (transformSnapshotToCompass lower-cases it). The references follow exactly that: membership by id for any type, projection for case-insensitive 'evm'. Consequence checked by (i): every validator that would receive power on every active chain is a member. The converse does not hold on the unchanged tree for a 'solana'-typed account (member, no power on that chain); the text does not say which accounts count, so this is recorded, not reported",
		"projection uses the accounts recorded in the snapshot (not the accounts at publication time)",
		"order of the published set: the property text is silent; shares must be non-increasing, ties unconstrained; order of validators inside a snapshot unconstrained",
		"'only sent when': one direction; a set that reaches the threshold but is not sent (keep-warm period, no assignable relayer) is not a violation",
		"skipped snapshot ids are not a violation (ids must strictly increase); snapshots that are not 'worthy' are not stored and not judged",
		"staking module (status, jailed, tokens), bank and the consensus queue store are trusted; tx atomicity as in baseapp.runTx",
		"a panic of the valset end-block / just-in-time update while building or publishing is reported under its own signature publish-panic:* (no set is sent at all; in the end-block it would halt the chain)",
		"validators holding less than one unit of consensus power (stakes 1,2,3 of the alphabet) are Bonded only because the genesis says so; undelegations that would leave such a validator Bonded with zero tokens are not generated (the staking end-blocker would never unbond it; with a total of zero isNewSnapshotWorthy divides by zero and the projection is undefined)",
		"a snapshot whose total is zero is outside the property (stake fractions undefined); messages for it are skipped and counted",
		"operations: Delegate/Undelegate/Unbond/Unjail are transactions followed by the staking end-blocker of their block (application order: txs, staking end-block, ..., consensus end-block, ..., valset end-block); Jail is not (the consensus end-blocker jails after the staking end-blocker), StakingEnd is a separate operation",
		"state hash drops bank/auth (funds 2^70 per account never run out within the bounds) and the valset keep-alive book-keeping (grace-period, unjailed-snapshot: only read by JailInactiveValidators, not run at height 50)",
	}
	deadline := r.Deadline(150*time.Second, 24*time.Minute)

	if replayFile != "" {
		e.replay(rootB, rootP, replayFile, depth)
		return
	}

	// (P) at most half of the time budget, so that (B) always runs
	start := time.Now()
	timing := func(what string) {
		if os.Getenv("VERIF_C10_TIMING") != "" {
			fmt.Fprintf(os.Stderr, "[shard %d] %s at %.1fs (deadline in %.1fs)\n", shard, what, time.Since(t0).Seconds(), time.Until(deadline).Seconds())
		}
	}
	timing("set-up done")
	pdl := start.Add(deadline.Sub(start) / 2)
	if os.Getenv("VERIF_C10_SKIP_PRODUCT") == "" {
		e.phase = "P."
		e.product(rootP, pdl, shard, nshards, maxK)
		timing("product done")
	}

	if os.Getenv("VERIF_C10_SKIP_LIFE") == "" {
		// (L) chain lifecycle: remove / add / activate chains through the
		// governance handler, validators replace their whole account list.
		e.phase = "L."
		ld, lvec := 4, 1
		if r.Thorough() {
			ld, lvec = 5, 2
		}
		if s := os.Getenv("VERIF_C10_LIFE_DEPTH"); s != "" {
			fmt.Sscan(s, &ld)
		}
		spec := e.lifeSpec(rootB, lvec, ld, deadline, shard, nshards)
		res := search(r, spec)
		if shard == 0 {
			r.Extra["lifecycle_depth_completed"] = float64(res.DepthCompleted)
		}
		r.Extra["L.reexecuted_for_lazy_nodes"] = float64(res.Reexec)
		r.Extra[fmt.Sprintf("L.workers_that_completed_depth_%d", res.DepthCompleted)] = 1.0
	}

	// (B)
	if os.Getenv("VERIF_C10_SKIP_BFS") == "" {
		if r.Thorough() {
			// the rich alphabet (every role for every validator) to a smaller depth first
			e.phase = "R."
			rd := 4
			if depth < rd {
				rd = depth
			}
			spec := e.spec(rootB, nvec, rd, true, deadline, shard, nshards)
			spec.Name = "bfs-rich"
			res := search(r, spec)
			if shard == 0 {
				r.Extra["bfs_rich_depth_completed"] = float64(res.DepthCompleted)
			}
			r.Extra["R.reexecuted_for_lazy_nodes"] = float64(res.Reexec)
		}
		e.phase = "B."
		spec := e.spec(rootB, nvec, depth, false, deadline, shard, nshards)
		res := search(r, spec)
		if shard == 0 {
			r.Extra["bfs_depth_completed"] = float64(res.DepthCompleted)
		}
		r.Extra[fmt.Sprintf("B.workers_that_completed_depth_%d", res.DepthCompleted)] = 1.0
		r.Extra["B.reexecuted_for_lazy_nodes"] = float64(res.Reexec)
	}
	timing("bfs done")
	for k, v := range e.cnt {
		r.Extra[k] = v
	}
	if shard == 0 && len(e.examples) > 0 {
		r.Extra["examples"] = e.examples
	}
}

func (e *env) spec(rootB sdk.Context, nvec, depth int, rich bool, deadline time.Time, shard, nshards int) explore.Spec {
	var init []*explore.Node
	for j := 0; j < nvec && j < len(bfsVectors); j++ {
		if n := e.bfsInit(rootB, j); n != nil {
			init = append(init, n)
		}
	}
	return explore.Spec{
		Name: "bfs", Init: init, Ops: e.ops(rich), Hash: e.hash, MaxDepth: depth, Deadline: deadline,
		ShardDepth: 2, Shard: shard, NShards: nshards,
	}
}

func (e *env) replay(rootB, rootP sdk.Context, file string, depth int) {
	r := e.r
	var v report.Violation
	b, err := os.ReadFile(file)
	if err == nil {
		err = json.Unmarshal(b, &v)
	}
	if err != nil {
		fmt.Fprintln(os.Stderr, err)
		os.Exit(2)
	}
	m := v.Replay.(map[string]interface{})
	if m["scenario"] == "product" {
		var p pcase
		for _, x := range m["stakes"].([]interface{}) {
			p.Stakes = append(p.Stakes, int(x.(float64)))
		}
		p.Mask = int(m["mask"].(float64))
		base, err := e.productBase(rootP, p.Stakes)
		must(err)
		if f := e.productCase(base, p); f != nil {
			r.Violate(f.Signature, p.String()+"\n"+f.Message, p.replay())
		}
		r.Case(p.String())
		r.States, r.Transitions = 1, 1
		r.Sample(p.String())
		return
	}
	var path []string
	for _, p := range m["path"].([]interface{}) {
		path = append(path, p.(string))
	}
	var spec explore.Spec
	if m["scenario"] == "lifecycle" {
		spec = e.lifeSpec(rootB, 2, depth, time.Time{}, 0, 1)
	} else {
		spec = e.spec(rootB, len(bfsVectors), depth, true, time.Time{}, 0, 1)
	}
	if f := explore.Replay(spec, path); f != nil {
		r.Violate(f.Signature, f.Message, v.Replay)
	}
	r.States, r.Transitions = 1, int64(len(path))
	r.Sample(path)
}
