package main

// Governance-set values as deviation points: the proposal types of treasury and
// evm validate next to nothing (ValidateAbstract only), so every value below is
// reachable through an accepted governance action. Each is written with the
// keeper setter the proposal handler calls, right after the scenario set-up.

import (
	"math/big"

	evmtypes "github.com/palomachain/paloma/v2/x/evm/types"
	"github.com/palomachain/paloma/v2/zzverif/hist"
)

type govDev struct {
	Name   string
	Values []string
}

var hostileDecStrings = []string{"-1", "0", "abc", "", "1000000000000000000000000000000", "0.000000000000000001"}

func govMenu() []govDev {
	return []govDev{
		{"treasury.community_fund_fee", hostileDecStrings},
		{"treasury.security_fee", hostileDecStrings},
		{"evm.relay_weights.all", hostileDecStrings},
		{"evm.relay_weights.fee", hostileDecStrings},
		{"evm.min_on_chain_balance", []string{"-1", "0", "100000000000000000000000000000000000000000000000000000000000000000000000000000000"}},
	}
}

func applyGov(r *hist.Run, name, val string) bool {
	w, ctx := r.W, r.W.Root
	var err error
	switch name {
	case "treasury.community_fund_fee":
		err = w.App.TreasuryKeeper.SetCommunityFundFee(ctx, val)
	case "treasury.security_fee":
		err = w.App.TreasuryKeeper.SetSecurityFee(ctx, val)
	case "evm.relay_weights.all":
		err = w.App.EvmKeeper.SetRelayWeights(ctx, hist.Ref, &evmtypes.RelayWeights{Fee: val, Uptime: val, SuccessRate: val, ExecutionTime: val, FeatureSet: val})
	case "evm.relay_weights.fee":
		err = w.App.EvmKeeper.SetRelayWeights(ctx, hist.Ref, &evmtypes.RelayWeights{Fee: val, Uptime: "1.0", SuccessRate: "1.0", ExecutionTime: "1.0", FeatureSet: "1.0"})
	case "evm.min_on_chain_balance":
		b, ok := new(big.Int).SetString(val, 10)
		if !ok {
			return false
		}
		err = w.App.EvmKeeper.ChangeMinOnChainBalance(ctx, hist.Ref, b)
	default:
		return false
	}
	return err == nil
}
