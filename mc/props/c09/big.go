package main

import "math/big"

type bigInt = big.Int

var bigOne = big.NewInt(1)
