//go:build verifrt

package main

import (
	"fmt"
	"runtime"
	"strings"
	"sync"
	"time"

	"github.com/palomachain/paloma/v2/zzverif/hist"
)

// Build against the patched runtime: the harness owns map iteration order, map
// hash seeds and the wall clock.

var (
	mu        sync.Mutex
	inHook    bool
	active    bool
	recording bool
	count     int
	target    int
	rot       uint64
	sites     []mapSite
	seed      uint32
	pcCache   = map[uintptr]string{} // "" = not paloma
)

func init() {
	runtime.VerifMapIterHook = iterHook
	runtime.VerifMapSeedHook = func() uint32 { return seed }
}

func mapHookAvailable() bool { return true }

// classify finds the first caller outside package runtime and returns its
// file:line when it belongs to the repository's own packages.
func classify() string {
	var pcs [12]uintptr
	n := runtime.Callers(3, pcs[:])
	for _, pc := range pcs[:n] {
		if s, ok := pcCache[pc]; ok {
			if s == "-" {
				continue
			}
			return s
		}
		f := runtime.FuncForPC(pc - 1)
		if f == nil {
			continue
		}
		name := f.Name()
		if strings.HasPrefix(name, "runtime.") || strings.HasPrefix(name, "reflect.") {
			pcCache[pc] = "-"
			continue
		}
		s := ""
		if strings.HasPrefix(name, "github.com/palomachain/paloma/v2/") && !strings.Contains(name, "/zzverif/") {
			file, line := f.FileLine(pc - 1)
			for _, marker := range []string{"/x/", "/util/", "/app/", "/internal/"} {
				if i := strings.LastIndex(file, marker); i >= 0 {
					file = file[i+1:]
					break
				}
			}
			s = fmt.Sprintf("%s:%d", file, line)
		}
		pcCache[pc] = s
		return s
	}
	return ""
}

func iterHook(n int) uint64 {
	if !active || n < 2 {
		return 0 // a map with fewer than two entries has one iteration order
	}
	mu.Lock()
	defer mu.Unlock()
	if inHook {
		return 0
	}
	inHook = true
	defer func() { inHook = false }()
	site := classify()
	if site == "" {
		return 0
	}
	count++
	if recording {
		sites = append(sites, mapSite{Index: count, Site: site, Count: n})
	}
	if count == target {
		return rot
	}
	return 0
}

func mapBegin(d dev, h *history) {
	mu.Lock()
	defer mu.Unlock()
	count, target, rot, seed = 0, 0, 0, 0
	recording = d.Kind == "none" && h.mapSites == nil
	sites = nil
	if d.Kind == "map" {
		target, rot = d.MapIndex, d.MapRot
	}
	if d.Kind == "seed" {
		seed = d.Seed
	}
	active = true
}

func mapEnd(d dev, h *history) {
	mu.Lock()
	defer mu.Unlock()
	active = false
	if recording {
		h.mapSites = sites
		recording = false
	}
	h.lastMapCount = count
}

// The default wall clock of an execution sits at chain time (as on a node that
// executes blocks live); baseSkew moves the real clock there.
var baseSkew = func() int64 { return hist.Genesis.Unix() - time.Now().Unix() }()

func setClockSkew(sec int64) { time.VerifSkewSeconds = baseSkew + sec }
