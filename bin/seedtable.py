#!/usr/bin/env python3
"""Prints the markdown table of seeded changes (seeded/<id>/{meta,result,result_before_strengthening}.json)."""
import json, os, glob
root = os.path.dirname(os.path.dirname(os.path.abspath(__file__)))
rows = []
for d in sorted(glob.glob(os.path.join(root, 'seeded', '*'))):
    name = os.path.basename(d)
    try:
        meta = json.load(open(os.path.join(d, 'meta.json')))
    except Exception:
        continue
    res = None
    if os.path.exists(os.path.join(d, 'result.json')):
        res = json.load(open(os.path.join(d, 'result.json')))
    before = os.path.exists(os.path.join(d, 'result_before_strengthening.json'))
    def short(s, n=150):
        s = ' '.join(str(s).split())
        return s if len(s) <= n else s[:n - 1] + '…'
    verdict = 'not run yet'
    sig = ''
    if res:
        cs = res['checks']
        caught = [k for k, v in cs.items() if v['exit'] == 1]
        verdict = ('caught by ' + ','.join(caught)) if caught else 'MISSED'
        for k in caught:
            sig = ' / '.join(x.strip().split(' ', 1)[-1] for x in cs[k]['violation_signatures'].split(';') if x.strip())[:160]
        if before:
            verdict += ' (missed first; check strengthened)'
        ok = res.get('repo_test_suite_with_change', '')
        demo = '%s/%s' % (res.get('demo_with_change'), res.get('demo_without_change'))
    else:
        ok = demo = '?'
    rows.append('| %s | %s | %s | %s | %s | %s | %s |' % (name, meta.get('property', ''), short(meta.get('summary', '')), short(meta.get('needs_to_manifest', ''), 110), ok, demo, verdict + ((': `' + sig + '`') if sig else '')))
print('| seed | property | change | needs to manifest | repo suite with change | demo with/without | verdict (quick tier) |')
print('|---|---|---|---|---|---|---|')
print('\n'.join(rows))
