// C17 — jobs are immutable; each run enqueues the stored call plus caller identity.
//
// Explicit-state BFS over the REAL scheduler handlers on forked application
// state: MsgCreateJob / MsgExecuteJob as signed, wire-encoded transactions
// through ante + router, contract-originated requests through the real wasm
// custom-message router (libwasm router -> schedulerbindings.NewMessenger /
// NewLegacyMessenger .DispatchMsg), relayer-fee removal, snapshot rotation.
// Oracle: ghost map id -> first stored record + per-queue list of expected
// SubmitLogicCall messages.
package main

import (
	"bytes"
	"crypto/sha256"
	"encoding/hex"
	"encoding/json"
	"flag"
	"fmt"
	"os"
	"runtime"
	"runtime/debug"
	"runtime/pprof"
	"sort"
	"strings"
	"time"

	"cosmossdk.io/log"
	sdkmath "cosmossdk.io/math"
	"cosmossdk.io/x/feegrant"
	wasmkeeper "github.com/CosmWasm/wasmd/x/wasm/keeper"
	wasmvmtypes "github.com/CosmWasm/wasmvm/v2/types"
	sdk "github.com/cosmos/cosmos-sdk/types"
	ethcommon "github.com/ethereum/go-ethereum/common"
	"github.com/palomachain/paloma/v2/util/libwasm"
	ctypes "github.com/palomachain/paloma/v2/x/consensus/types"
	evmtypes "github.com/palomachain/paloma/v2/x/evm/types"
	schedbindings "github.com/palomachain/paloma/v2/x/scheduler/bindings"
	bindingstypes "github.com/palomachain/paloma/v2/x/scheduler/bindings/types"
	schedkeeper "github.com/palomachain/paloma/v2/x/scheduler/keeper"
	schedtypes "github.com/palomachain/paloma/v2/x/scheduler/types"
	treasurytypes "github.com/palomachain/paloma/v2/x/treasury/types"
	vtypes "github.com/palomachain/paloma/v2/x/valset/types"
	"github.com/palomachain/paloma/v2/zzverif/explore"
	"github.com/palomachain/paloma/v2/zzverif/report"
	"github.com/palomachain/paloma/v2/zzverif/world"
)

const (
	refA = "eth-main" // chain of variant P1; NoRelayer removes the fee records of this chain only
	refB = "bnb-main" // chain of variant P2
)

// hashed stores: everything an operation of the alphabet can write or read
// besides auth sequences (which only feed tx signing).
var hashedStores = []string{"scheduler", "palomaconsensus", "treasury", "valset"}

// ---------------------------------------------------------------------------
// alphabet values

type variant struct {
	Name    string
	Chain   string
	Addr    string // contract address inside the definition
	Def     []byte // job definition JSON
	Payload []byte // job payload JSON
	Bytes   []byte // the call data the payload denotes
	Abi     []byte // SubmitLogicCall.Abi as the implementation derives it from the stored ABI string (common.FromHex)
}

func mustHex(s string) []byte {
	b, err := hex.DecodeString(s)
	if err != nil {
		panic(err)
	}
	return b
}

var variants = func() []variant {
	d1, _ := json.Marshal(evmtypes.JobDefinition{Address: "0x00000000000000000000000000000000000000C1", ABI: "[]"})
	p1hex := "a1b2c3d4000000000000000000000000000000000000000000000000000000000000002a"
	p1, _ := json.Marshal(evmtypes.JobPayload{HexPayload: p1hex})
	return []variant{
		{Name: "P1", Chain: refA, Addr: "0x00000000000000000000000000000000000000C1", Def: d1, Payload: p1, Bytes: mustHex(p1hex), Abi: ethcommon.FromHex("[]")},
		// hand-written JSON with the lower-case field names, a 0x-prefixed payload, an ABI string
		// that survives the implementation's hex decoding, and a STORED payload document that
		// also carries keys named like definition fields (they must not leak into the definition)
		{Name: "P2", Chain: refB, Addr: "0x00000000000000000000000000000000000000d2",
			Def:     []byte(`{"address":"0x00000000000000000000000000000000000000d2","abi":"0xabcdef01"}`),
			Payload: []byte(`{"hexPayload":"0xdeadbeef00","address":"0x00000000000000000000000000000000000000F3","abi":"0x7777"}`),
			Bytes:   mustHex("deadbeef00"), Abi: ethcommon.FromHex("0xabcdef01")},
	}
}()

// payload supplied with an execution request
var (
	qBytes = mustHex("00c0ffee00")
	qJSON  = []byte(`{"hexPayload":"00c0ffee00"}`)
	// the same call data in a document that also carries keys named like definition fields
	qxJSON = []byte(`{"hexPayload":"00c0ffee00","address":"0x00000000000000000000000000000000000000EE","abi":"0x1234"}`)
)

type supplied struct {
	Name  string
	Bytes []byte // as put into MsgExecuteJob.Payload / the contract message
	Data  []byte // the call data it denotes
}

// ---------------------------------------------------------------------------
// ghost

type jobRec struct {
	Raw     string // hex of the stored value as first written
	Owner   string // hex of owner address
	Chain   string
	Addr    string
	Payload string // hex of the call data the stored payload denotes
	Abi     string // hex of the Abi bytes the stored definition denotes
	Mod     bool
	MEV     bool
}

type call struct {
	ID        uint64
	Chain     string
	Turnstone string
	Contract  string
	Abi       string // hex
	Payload   string // hex
	Sender    string // hex of SenderAddress
	CAddr     string // hex of ContractAddress
	MEV       bool
	Deadline  int64
	Retries   uint32
}

type ghost struct {
	Jobs    map[string]*jobRec
	Calls   map[string][]call // queue -> expected SubmitLogicCall messages, in id order
	MaxID   map[string]uint64 // queue -> highest message id ever seen
	Snaps   int               // snapshot rotations so far
	NoRelay bool
	depth   int
	// caches (never part of the key; disabled by env.nocache): observation and
	// store digest of this node's state / of the parent's state
	obsHere, parentObs *obs
	dropped            bool // store overlay released (last level)
	digHere, parentDig string
}

func (g *ghost) Clone() explore.Ghost {
	n := &ghost{Jobs: map[string]*jobRec{}, Calls: map[string][]call{}, MaxID: map[string]uint64{}, Snaps: g.Snaps, NoRelay: g.NoRelay, depth: g.depth + 1,
		parentObs: g.obsHere, parentDig: g.digHere}
	for k, v := range g.Jobs {
		n.Jobs[k] = v // records are never mutated
	}
	for k, v := range g.Calls {
		n.Calls[k] = append([]call{}, v...)
	}
	for k, v := range g.MaxID {
		n.MaxID[k] = v
	}
	return n
}

func (g *ghost) Key() string { b, _ := json.Marshal(g); return string(b) }

// ---------------------------------------------------------------------------
// observation of the consensus queues

type qmsg struct {
	ID   uint64
	Kind string // slc | uv | other:<type>
	C    call   // for slc
	Raw  string // digest of the queued message's consensus payload
}

// obs is what the oracle sees of the consensus module: the messages of the two
// turnstone queues (read through the keeper) and a digest of every other entry
// of the consensus store except the global id counter.
type obs struct {
	Q     map[string][]qmsg // turnstone queue name -> messages in queue order
	Other string
}

type env struct {
	w         *world.World
	r         *report.Run
	users     []*world.Actor
	contracts []contract
	queues    []string
	router    wasmkeeper.Messenger
	shard     int
	nshards   int
	feesFull  map[string]*treasurytypes.RelayerFeeSetting
	feesNoA   map[string]*treasurytypes.RelayerFeeSetting
	maxSnaps  int
	nocache   bool
	dropAt    int // depth of the level that is never expanded in the current scenario
	other0    string
}

type contract struct {
	Name   string
	Addr   sdk.AccAddress
	Legacy bool // speaks the legacy custom message
}

func (e *env) observe(ctx sdk.Context) (*obs, *explore.Fail) {
	o := &obs{Q: map[string][]qmsg{}}
	cdc := e.w.App.AppCodec()
	{
		h := sha256.New()
		it := ctx.KVStore(e.w.App.GetKey("palomaconsensus")).Iterator(nil, nil)
		for ; it.Valid(); it.Next() {
			k := string(it.Key())
			if strings.Contains(k, "consensus-queue-counter-") || strings.Contains(k, e.queues[0]) || strings.Contains(k, e.queues[1]) {
				continue
			}
			fmt.Fprintf(h, "%d:%d:", len(k), len(it.Value()))
			h.Write(it.Key())
			h.Write(it.Value())
		}
		it.Close()
		o.Other = hex.EncodeToString(h.Sum(nil)[:12])
	}
	for _, q := range e.queues {
		msgs, err := e.w.App.ConsensusKeeper.GetMessagesFromQueue(ctx, q, 0)
		if err != nil {
			return nil, explore.Failf("harness:queue-read", "queue %s: %v", q, err)
		}
		for _, m := range msgs {
			cm, err := m.ConsensusMsg(cdc)
			if err != nil {
				return nil, explore.Failf("harness:queue-decode", "queue %s id %d: %v", q, m.GetId(), err)
			}
			bz, _ := cdc.MarshalInterface(cm)
			h := sha256.Sum256(bz)
			x := qmsg{ID: m.GetId(), Kind: fmt.Sprintf("other:%T", cm), Raw: hex.EncodeToString(h[:8])}
			if em, ok := cm.(*evmtypes.Message); ok {
				switch a := em.GetAction().(type) {
				case *evmtypes.Message_SubmitLogicCall:
					s := a.SubmitLogicCall
					x.Kind = "slc"
					x.C = call{ID: m.GetId(), Chain: em.GetChainReferenceID(), Turnstone: em.GetTurnstoneID(), Contract: s.GetHexContractAddress(), Abi: hex.EncodeToString(s.GetAbi()),
						Payload: hex.EncodeToString(s.GetPayload()), Sender: hex.EncodeToString(s.GetSenderAddress()), CAddr: hex.EncodeToString(s.GetContractAddress()),
						MEV: s.GetExecutionRequirements().EnforceMEVRelay, Deadline: s.GetDeadline(), Retries: s.GetRetries()}
				case *evmtypes.Message_UpdateValset:
					x.Kind = "uv"
				default:
					x.Kind = fmt.Sprintf("other:%T", a)
				}
			}
			o.Q[q] = append(o.Q[q], x)
		}
	}
	return o, nil
}

func sameObs(a, b *obs) bool {
	if a.Other != b.Other || len(a.Q) != len(b.Q) {
		return false
	}
	for q, ms := range a.Q {
		if len(ms) != len(b.Q[q]) {
			return false
		}
		for i := range ms {
			if ms[i] != b.Q[q][i] {
				return false
			}
		}
	}
	return true
}

func slcOnly(o *obs) string {
	var sb strings.Builder
	qs := make([]string, 0, len(o.Q))
	for q := range o.Q {
		qs = append(qs, q)
	}
	sort.Strings(qs)
	sb.WriteString("other=" + o.Other + ";")
	for _, q := range qs {
		for _, m := range o.Q[q] {
			if m.Kind == "slc" {
				fmt.Fprintf(&sb, "%s#%d:%s;", q, m.ID, m.Raw)
			}
		}
	}
	return sb.String()
}

func (e *env) digest(ctx sdk.Context) string { return e.w.StoreDigest(ctx, hashedStores...) }

// before / digBefore: observation and digest of the state an operation starts from
// (the parent's cached values unless caching is off).
func (e *env) before(ctx sdk.Context, g *ghost) (*obs, *explore.Fail) {
	if !e.nocache && g.parentObs != nil {
		return g.parentObs, nil
	}
	return e.observe(ctx)
}

func (e *env) digBefore(ctx sdk.Context, g *ghost) string {
	if !e.nocache && g.parentDig != "" {
		return g.parentDig
	}
	return e.digest(ctx)
}

func leftPad32(b []byte) []byte {
	out := make([]byte, 32)
	copy(out[32-len(b):], b)
	return out
}

// count adds to a summed counter exactly once per transition over all shards.
func (e *env) count(g *ghost, key string) {
	parentDepth := g.depth - 1
	if e.nshards <= 1 || e.shard == 0 || parentDepth >= 2 {
		f, _ := e.r.Extra["n:"+key].(float64)
		e.r.Extra["n:"+key] = f + 1
	}
}

func errClass(err error) string {
	s := err.Error()
	for _, c := range [][2]string{
		{"already exists", "duplicate-id"},
		{"job not found", "unknown-job"},
		{"not found", "unknown-job"},
		{"payload is not modifiable", "fixed-payload"},
		{"cannot modify", "fixed-payload"},
		{"no validators eligible", "no-relayer"},
		{"no assignable validators", "no-assignable-relayer"},
		{"invalid sender", "invalid-sender-claim"},
		{"must be all in lowercase", "id-not-lowercase"},
		{"invalid character", "id-invalid-character"},
		{"missing payload", "contract-empty-payload"},
		{"payload bytes is empty", "contract-empty-payload"},
		{"unexpected end of JSON", "empty-json-payload"},
	} {
		if strings.Contains(s, c[0]) {
			return c[1]
		}
	}
	if len(s) > 60 {
		s = s[:60]
	}
	return "other:" + s
}

// ---------------------------------------------------------------------------

func main() {
	replay := flag.String("replay", "", "replay file")
	flag.Parse()
	n := 8
	if report.Tier() == "thorough" {
		n = report.Workers()
	}
	if v := os.Getenv("VERIF_WORKERS"); v != "" {
		n = report.Workers()
	}
	report.Main("C17", "model_checking", n, func(r *report.Run, shard, nshards int) { run(r, shard, nshards, *replay) })
}

func must(err error) {
	if err != nil {
		panic(err)
	}
}

func (e *env) setFees(ctx sdk.Context, m map[string]*treasurytypes.RelayerFeeSetting) error {
	for _, v := range e.w.Vals {
		if err := e.w.App.TreasuryKeeper.SetRelayerFee(ctx, v.ValAddr, m[v.Name]); err != nil {
			return err
		}
	}
	return nil
}

func run(r *report.Run, shard, nshards int, replayFile string) {
	if pf := os.Getenv("VERIF_PROF"); pf != "" && shard == 0 {
		f, err := os.Create(pf)
		must(err)
		must(pprof.StartCPUProfile(f))
		defer pprof.StopCPUProfile()
	}
	debug.SetGCPercent(200)       // most allocations are short-lived forks; trade some memory for collector time
	debug.SetMemoryLimit(3 << 30) // soft limit per worker: the collector works harder instead of growing further
	w := world.New(world.Config{Stakes: world.StakesOf(1_000_000, 1_000_000, 1_000_000), Users: []string{"U1", "U2"}, Height: 101})
	ctx := w.Root
	e := &env{w: w, r: r, users: []*world.Actor{w.User("U1"), w.User("U2")}, shard: shard, nshards: nshards, maxSnaps: 1}
	if r.Thorough() {
		e.maxSnaps = 2
	}
	// two active chains, every validator registered on both, fee records for both
	must(w.StdChain(ctx, refA))
	must(w.AddChain(ctx, refB, 56, 2))
	e.feesFull, e.feesNoA = map[string]*treasurytypes.RelayerFeeSetting{}, map[string]*treasurytypes.RelayerFeeSetting{}
	one := sdkmath.LegacyMustNewDecFromStr("1.0")
	for _, v := range w.Vals {
		must(w.RegisterAccounts(ctx, v, nil, refA, refB))
		fa := treasurytypes.RelayerFeeSetting_FeeSetting{Multiplicator: one, ChainReferenceId: refA}
		fb := treasurytypes.RelayerFeeSetting_FeeSetting{Multiplicator: one, ChainReferenceId: refB}
		e.feesFull[v.Name] = &treasurytypes.RelayerFeeSetting{ValAddress: v.ValAddr.String(), Fees: []treasurytypes.RelayerFeeSetting_FeeSetting{fa, fb}}
		e.feesNoA[v.Name] = &treasurytypes.RelayerFeeSetting{ValAddress: v.ValAddr.String(), Fees: []treasurytypes.RelayerFeeSetting_FeeSetting{fb}}
	}
	must(e.setFees(ctx, e.feesFull))
	s, err := w.Snapshot(ctx)
	must(err)
	if s == nil {
		panic("second snapshot not built")
	}
	must(w.App.ValsetKeeper.SetSnapshotOnChain(ctx, s.Id, refA))
	must(w.App.ValsetKeeper.SetSnapshotOnChain(ctx, s.Id, refB))

	// U1 lets U2 sign on its behalf (fee grant on record; the paloma ante decorator accepts
	// messages of creator U1 signed by U2 alone)
	must(w.App.FeeGrantKeeper.GrantAllowance(ctx, e.users[0].Addr, e.users[1].Addr, &feegrant.BasicAllowance{}))

	qn, err := w.App.ConsensusKeeper.GetAllQueueNames(ctx, &ctypes.QueryGetAllQueueNamesRequest{})
	must(err)
	for _, ref := range []string{refA, refB} {
		found := false
		for _, q := range qn.Queues {
			found = found || q == world.TurnstoneQueue(ref)
		}
		if !found {
			panic("turnstone queue of " + ref + " not registered: " + strings.Join(qn.Queues, ","))
		}
		e.queues = append(e.queues, world.TurnstoneQueue(ref))
	}
	r.Extra["consensus_queues_registered"] = float64(len(qn.Queues))

	// contract identities: a 32-byte (instantiate2-style) and a 20-byte (classic) address
	c32 := make([]byte, 32)
	for i := range c32 {
		c32[i] = byte(0xA0 + i)
	}
	c20 := make([]byte, 20)
	for i := range c20 {
		c20[i] = byte(0x11 + i)
	}
	e.contracts = []contract{{Name: "C32", Addr: c32}, {Name: "C20", Addr: c20, Legacy: true}}

	// the wasm custom-message router exactly as app.go's buildWasmMessageDecorator builds it
	// (skyway / tokenfactory messengers are never reached by scheduler messages)
	sk := &w.App.SchedulerKeeper
	srv := schedkeeper.NewMsgServerImpl(sk)
	e.router = libwasm.NewRouterMessageDecorator(log.NewNopLogger(), schedbindings.NewLegacyMessenger(sk), schedbindings.NewMessenger(sk, srv), nil, nil)(nil)

	r.Rule = "BFS over Create(owner in {U1,U2}, id in {j1,j2}, modifiable?, variant in {P1 on eth-main, P2 on bnb-main — its stored payload document also carries address/abi keys}) incl. duplicates, near-collision ids (J1/J2, leading/trailing space) by another creator with other content, owner-field spoof, MEV-flagged and contract-created jobs (also J1/J2); " +
		"Exec(account in {U1,U2}, id in {j1,j2,unknown}, payload in {nil, empty, Q, QX = Q plus address/abi keys}) plus requests and creations of U1 signed by its fee-grant grantee U2 alone and by [U2,U1] (creator not first); ExecContract(contract in {32-byte via scheduler_msg, 20-byte via legacy message}, id, payload in {empty, Q}) plus, for payload Q on j1/j2, the message's `sender` claim in {absent, contract's own address, U1's address, garbage} for both message forms — the requester stays the dispatching contract; " +
		"NoRelayer / RestoreRelayer (fee records of eth-main); NewSnapshot (valset rotation => just-in-time UpdateValset, toggles the MEV trait). " +
		"Transactions are signed, wire-encoded, decoded and run through the real ante chain and MsgServiceRouter; contract requests run through the real libwasm router and scheduler bindings inside a sub-context as wasmd does. " +
		"A state is distinct by (scheduler, consensus, treasury, valset stores, ghost)."
	r.Assumptions = []string{
		"tx atomicity re-implemented as in baseapp.runTx (world.DeliverTx); contract dispatch runs in a cache context that is committed only on success, as wasmd's DispatchSubmessages does",
		"weaker reading of 'caller-supplied payload': a nil payload is 'none supplied'; for a present-but-empty payload (in-memory MsgExecuteJob, contract message with empty bytes) on a modifiable job both the stored call data and empty call data are accepted; a request on a fixed-payload job that carries a payload may either fail or run the STORED payload — only using the supplied payload is a violation",
		"'failed request enqueues no contract call' is checked twice: on the state after the (rolled back) transaction, and on the handler's own context before the roll-back (signature suffix ':handler-level') — the second is stronger than what an on-chain observer sees",
		"the account that 'requested the execution' (and the owner of a created job) is Metadata.Creator — the account on whose behalf the transaction is authorised — also when the only signer is the creator's fee-grant grantee or when the creator is not the first signer; this is what the unchanged tree does",
		"payloads in the alphabet are well-formed hex (one with 0x prefix); what a malformed hex payload 'denotes' is not defined by the property and is not explored",
		"SubmitLogicCall.HexContractAddress must equal the stored definition's address; SubmitLogicCall.Abi must equal common.FromHex(stored ABI string) — the encoding the implementation uses, the property does not define one — so that neither can be influenced by the request; Deadline, Fees and the relayer assignment are not constrained; Deadline/Retries of already queued calls must not change",
		"near-collision ids (upper case, leading/trailing space; the ids j1/j2 have one letter, so mixed case coincides with upper case): a creation that is accepted and stored under a canonicalised id is not by itself a violation — it is one when an existing record changes or the store does not grow by exactly one record",
		"no EndBlock / relay / attestation in the alphabet: messages are never consumed, so the queue must equal the ghost list of expected calls in every state",
		"evm and metrix stores are read but not written by the alphabet; they are not part of the state hash",
	}

	g0 := &ghost{Jobs: map[string]*jobRec{}, Calls: map[string][]call{}, MaxID: map[string]uint64{}}
	// set-up leaves valset updates in the queues (snapshot listener); they are the baseline
	o0, f0 := e.observe(ctx)
	if f0 != nil {
		panic(f0.Message)
	}
	e.other0 = o0.Other
	e.nocache = os.Getenv("VERIF_PARANOID") != "" || replayFile != ""
	for q, ms := range o0.Q {
		for _, m := range ms {
			if m.Kind == "slc" {
				panic("contract call queued by set-up")
			}
			if m.ID > g0.MaxID[q] {
				g0.MaxID[q] = m.ID
			}
		}
	}
	fresh := explore.Spec{
		Name: "fresh", Init: []*explore.Node{{Ctx: ctx, Ghost: g0}}, Ops: e.ops,
		Hash: e.hash, Invariant: e.invariant,
		MaxDepth: 4, Deadline: r.Deadline(100*time.Second, 8*time.Minute),
		ShardDepth: 2, Shard: shard, NShards: nshards, MaxStates: 400_000,
	}
	// seeded: j1 fixed/P1 owned by U1, j2 modifiable/P2 owned by U2 — created by the real handlers
	sctx := world.Fork(ctx)
	sg := g0.Clone().(*ghost)
	sg.depth = 0
	nc := e.nocache
	e.nocache = true
	for _, lbl := range []string{"Create(U1,j1,fixed,P1)", "Create(U2,j2,modifiable,P2)"} {
		done := false
		for _, op := range e.ops(&explore.Node{Ctx: sctx, Ghost: sg}) {
			if op.Label == lbl {
				if f := op.Do(&sctx, sg); f != nil {
					panic("seed " + lbl + ": " + f.Message)
				}
				done = true
			}
		}
		if !done {
			panic("seed op missing: " + lbl)
		}
	}
	if len(sg.Jobs) != 2 {
		panic("seeding did not create two jobs")
	}
	sg.depth = 0
	sg.obsHere, sg.parentObs, sg.digHere, sg.parentDig = nil, nil, "", ""
	e.nocache = nc
	seeded := explore.Spec{
		Name: "seeded", Init: []*explore.Node{{Ctx: sctx, Ghost: sg}}, Ops: e.ops,
		Hash: e.hash, Invariant: e.invariant,
		MaxDepth: 4, Deadline: r.Deadline(150*time.Second, 24*time.Minute),
		ShardDepth: 2, Shard: shard, NShards: nshards, MaxStates: 400_000,
	}
	if r.Thorough() {
		fresh.MaxDepth = 5  // + deadline: ~1.4e6 transitions
		seeded.MaxDepth = 6 // two jobs already exist: depth 6 here = depth 8 from the empty chain
	}
	if v := os.Getenv("VERIF_C17_DEPTHS"); v != "" { // experiments only
		fmt.Sscanf(v, "%d,%d", &fresh.MaxDepth, &seeded.MaxDepth)
	}
	specs := []explore.Spec{fresh, seeded}
	if replayFile != "" {
		if shard == 0 {
			replay(r, specs, replayFile)
		}
		return
	}
	for _, spec := range specs {
		e.dropAt = spec.MaxDepth
		res := explore.Run(r, spec)
		runtime.GC()
		if shard == 0 {
			r.Extra["depth_completed:"+spec.Name] = float64(res.DepthCompleted)
		}
	}
	r.Evaluations = r.Transitions
	r.DistinctN = r.States
	var ms runtime.MemStats
	runtime.ReadMemStats(&ms)
	r.Extra["heap_sys_mb_sum"] = float64(ms.HeapSys >> 20)
	if os.Getenv("VERIF_C17_MEM") != "" { // experiments only
		r.Extra["heap_inuse_before_gc_mb_sum"] = float64(ms.HeapInuse >> 20)
		runtime.GC()
		runtime.ReadMemStats(&ms)
		r.Extra["heap_live_after_gc_mb_sum"] = float64(ms.HeapAlloc >> 20)
		runtime.KeepAlive(specs)
	}
}

func replay(r *report.Run, specs []explore.Spec, file string) {
	var v report.Violation
	b, err := os.ReadFile(file)
	if err == nil {
		err = json.Unmarshal(b, &v)
	}
	if err != nil {
		fmt.Fprintln(os.Stderr, err)
		os.Exit(2)
	}
	m := v.Replay.(map[string]interface{})
	var path []string
	for _, p := range m["path"].([]interface{}) {
		path = append(path, p.(string))
	}
	name, _ := m["scenario"].(string)
	for _, spec := range specs {
		if spec.Name != name && name != "" {
			continue
		}
		if f := explore.Replay(spec, path); f != nil {
			fmt.Printf("replay %s %v:\n  %s: %s\n", spec.Name, path, f.Signature, f.Message)
			r.Violate(f.Signature, f.Message, v.Replay)
		} else {
			fmt.Printf("replay %s %v: no violation\n", spec.Name, path)
		}
	}
	r.States, r.Transitions = 1, int64(len(path))
	r.Evaluations, r.DistinctN = int64(len(path)), 2
	r.Sample(path)
}

func (e *env) hash(n *explore.Node) string {
	g := n.Ghost.(*ghost)
	if !g.dropped && (e.nocache || g.digHere == "") {
		g.digHere = e.digest(n.Ctx)
	}
	h := sha256.Sum256([]byte(g.Key() + "|" + g.digHere))
	return string(h[:20])
}

// ---------------------------------------------------------------------------
// invariant: store == ghost, queues == ghost

func (e *env) invariant(n *explore.Node) *explore.Fail {
	g := n.Ghost.(*ghost)
	// (1) the scheduler store holds exactly the ghost's records, byte-identical to their first version
	dump := e.w.StoreDump(n.Ctx, "scheduler", nil)
	if len(dump) != len(g.Jobs) {
		return explore.Failf("job-store:key-set", "scheduler store has %d keys, %d jobs were created: %v", len(dump), len(g.Jobs), keysOf(dump))
	}
	for id, rec := range g.Jobs {
		k := hex.EncodeToString(append([]byte("jobs"), []byte(id)...))
		got, ok := dump[k]
		if !ok {
			return explore.Failf("job-store:record-lost", "job %s is no longer stored", id)
		}
		if got != rec.Raw {
			return explore.Failf("job-store:record-changed", "stored record of job %s changed after creation:\n first %s\n now   %s", id, describe(e, rec.Raw), describe(e, got))
		}
	}
	// (2) the SubmitLogicCall messages of every queue are exactly the expected calls
	o := g.obsHere
	if e.nocache || o == nil {
		var f *explore.Fail
		if o, f = e.observe(n.Ctx); f != nil {
			return f
		}
		g.obsHere = o
	}
	if o.Other != e.other0 {
		return explore.Failf("queue:foreign-queue-changed", "consensus state outside the two turnstone queues changed (digest %s, baseline %s)", o.Other, e.other0)
	}
	for _, q := range e.queues {
		var got []call
		last := uint64(0)
		for i, m := range o.Q[q] {
			if i > 0 && m.ID <= last {
				return explore.Failf("queue:ids-not-increasing", "queue %s: id %d follows id %d", q, m.ID, last)
			}
			last = m.ID
			if m.ID > g.MaxID[q] {
				return explore.Failf("queue:unaccounted-message", "queue %s holds message %d (%s) beyond the highest id %d any request produced", q, m.ID, m.Kind, g.MaxID[q])
			}
			switch m.Kind {
			case "slc":
				got = append(got, m.C)
			case "uv":
			default:
				return explore.Failf("queue:foreign-message", "queue %s holds a message of kind %s (id %d)", q, m.Kind, m.ID)
			}
		}
		want := g.Calls[q]
		if len(got) != len(want) {
			return explore.Failf("queue:call-count", "queue %s holds %d contract calls, %d successful requests were made for it", q, len(got), len(want))
		}
		for i := range got {
			if got[i] != want[i] {
				return explore.Failf("queue:call-changed", "queue %s call #%d differs from the call enqueued by its request:\n want %+v\n got  %+v", q, i, want[i], got[i])
			}
		}
	}
	// A state of the last level is never expanded: once checked and digested it only needs its
	// hash, so its store overlay (the bulk of a state's memory) and observations are released.
	if e.dropAt > 0 && g.depth >= e.dropAt && !e.nocache {
		if g.digHere == "" {
			g.digHere = e.digest(n.Ctx)
		}
		g.obsHere, g.parentObs, g.dropped = nil, nil, true
		n.Ctx = sdk.Context{}
	}
	return nil
}

func keysOf(m map[string]string) []string {
	var ks []string
	for k := range m {
		b, _ := hex.DecodeString(k)
		ks = append(ks, string(b))
	}
	sort.Strings(ks)
	return ks
}

func describe(e *env, rawHex string) string {
	b, _ := hex.DecodeString(rawHex)
	var j schedtypes.Job
	if err := e.w.App.AppCodec().Unmarshal(b, &j); err != nil {
		return rawHex
	}
	return fmt.Sprintf("{id=%s owner=%s chain=%s/%s def=%s payload=%s modifiable=%v mev=%v}", j.ID, e.short(j.Owner), j.Routing.ChainType, j.Routing.ChainReferenceID, j.Definition, j.Payload, j.IsPayloadModifiable, j.EnforceMEVRelay)
}

func (e *env) short(a sdk.AccAddress) string {
	for _, u := range e.users {
		if u.Addr.Equals(a) {
			return u.Name
		}
	}
	for _, c := range e.contracts {
		if c.Addr.Equals(a) {
			return c.Name
		}
	}
	return hex.EncodeToString(a)
}

// ---------------------------------------------------------------------------
// operations

// deliverWire signs msg, encodes the tx, decodes it again (what a node receives)
// and runs it with runTx semantics.
func (e *env) deliverWire(ctx sdk.Context, signers []*world.Actor, msg sdk.Msg, wire bool) (world.TxResult, *explore.Fail) {
	tx, err := e.w.BuildTx(ctx, signers, msg)
	if err != nil {
		return world.TxResult{}, explore.Failf("harness:build", "build tx: %v", err)
	}
	if wire {
		bz, err := e.w.App.TxConfig().TxEncoder()(tx)
		if err != nil {
			return world.TxResult{}, explore.Failf("harness:encode", "encode tx: %v", err)
		}
		tx, err = e.w.App.TxConfig().TxDecoder()(bz)
		if err != nil {
			return world.TxResult{}, explore.Failf("harness:decode", "decode tx: %v", err)
		}
	}
	res := e.w.DeliverBuiltTx(ctx, tx)
	if res.Stage == "ante" || res.Stage == "build" {
		return res, explore.Failf("harness:ante", "tx signed by %s failed in %s: %v", signers[0].Name, res.Stage, res.Err)
	}
	return res, nil
}

// created checks what a successful creation did to the job store and enters the
// new record into the ghost: no existing record may change, exactly one record
// must be new, and it must carry the creator and the requested content.
func (e *env) created(ctx sdk.Context, g *ghost, id string, creator sdk.AccAddress, v variant, mod, mev bool, via string) *explore.Fail {
	if _, dup := g.Jobs[id]; dup {
		return explore.Failf("create:duplicate-id-accepted"+via, "a second creation with the existing id %q succeeded", id)
	}
	dump := e.w.StoreDump(ctx, "scheduler", nil)
	key := func(id string) string { return hex.EncodeToString(append([]byte("jobs"), []byte(id)...)) }
	known := map[string]bool{}
	for old, rec := range g.Jobs {
		known[key(old)] = true
		got, ok := dump[key(old)]
		if !ok {
			return explore.Failf("create:existing-job-removed"+via, "creation of %q removed the stored job %q", id, old)
		}
		if got != rec.Raw {
			return explore.Failf("create:existing-job-overwritten"+via, "creation of %q by %s succeeded and changed the stored job %q:\n first %s\n now   %s", id, e.short(creator), old, describe(e, rec.Raw), describe(e, got))
		}
	}
	var fresh []string
	for k := range dump {
		if !known[k] {
			fresh = append(fresh, k)
		}
	}
	if len(fresh) != 1 {
		return explore.Failf("create:store-count"+via, "creation of %q succeeded; the store now holds %d jobs after %d successful creations (new keys %v)", id, len(dump), len(g.Jobs)+1, keysOf(dump))
	}
	raw := dump[fresh[0]]
	sid := id
	if fresh[0] != key(id) {
		// stored under another key than the submitted id: a canonicalised id is not by
		// itself a violation (weaker reading); the record is tracked under the stored id
		kb, _ := hex.DecodeString(fresh[0])
		sid = strings.TrimPrefix(string(kb), "jobs")
		e.count(g, "create:id-canonicalised")
	}
	b, _ := hex.DecodeString(raw)
	var j schedtypes.Job
	if err := e.w.App.AppCodec().Unmarshal(b, &j); err != nil {
		return explore.Failf("create:undecodable"+via, "stored record of %q: %v", id, err)
	}
	switch {
	case !j.Owner.Equals(creator):
		return explore.Failf("create:owner-not-creator"+via, "job %q stored with owner %s, creator is %s", id, e.short(j.Owner), e.short(creator))
	case j.ID != sid || j.Routing.ChainType != "evm" || j.Routing.ChainReferenceID != v.Chain:
		return explore.Failf("create:routing-differs"+via, "job %q stored under %q as id=%q routing=%s/%s, requested evm/%s", id, sid, j.ID, j.Routing.ChainType, j.Routing.ChainReferenceID, v.Chain)
	case !bytes.Equal(j.Definition, v.Def) || !bytes.Equal(j.Payload, v.Payload):
		return explore.Failf("create:content-differs"+via, "job %q stored with definition %s payload %s, requested %s %s", id, j.Definition, j.Payload, v.Def, v.Payload)
	case j.IsPayloadModifiable != mod || j.EnforceMEVRelay != mev:
		return explore.Failf("create:flags-differ"+via, "job %q stored with modifiable=%v mev=%v, requested %v %v", id, j.IsPayloadModifiable, j.EnforceMEVRelay, mod, mev)
	}
	g.Jobs[sid] = &jobRec{Raw: raw, Owner: hex.EncodeToString(creator), Chain: v.Chain, Addr: v.Addr, Payload: hex.EncodeToString(v.Bytes), Abi: hex.EncodeToString(v.Abi), Mod: mod, MEV: mev}
	return nil
}

// requestDone is the step oracle of an execution request.
//
//	ok       the request reported success
//	before   queues before, after queues after (same context)
func (e *env) requestDone(ctx sdk.Context, g *ghost, kind, id string, requester, senderField, contractField sdk.AccAddress, sup supplied, ok bool, before *obs, dBefore string) *explore.Fail {
	rec := g.Jobs[id]
	turnstone, deadline := world.CompassID, ctx.BlockTime().Add(10*time.Minute).Unix()
	if !ok {
		g.digHere = e.digest(ctx)
		if dBefore != g.digHere {
			return explore.Failf(kind+":failed-request-changed-state", "a failed request on %s changed scheduler/consensus/treasury/valset state", id)
		}
		g.obsHere = before // byte-identical stores: identical observation
		return nil
	}
	after, f := e.observe(ctx)
	if f != nil {
		return f
	}
	g.obsHere = after
	if rec == nil {
		return explore.Failf(kind+":unknown-job-ran", "request on job %s, which was never created, succeeded", id)
	}
	target := world.TurnstoneQueue(rec.Chain)
	payload := rec.Payload
	if rec.Mod && len(sup.Bytes) > 0 {
		payload = hex.EncodeToString(sup.Data)
	}
	emptyAlt := ""
	if rec.Mod && sup.Bytes != nil && len(sup.Bytes) == 0 {
		emptyAlt = hex.EncodeToString(leftPad32(requester))
	}
	want := call{Chain: rec.Chain, Turnstone: turnstone, Contract: rec.Addr, Abi: rec.Abi, Payload: payload + hex.EncodeToString(leftPad32(requester)),
		Sender: hex.EncodeToString(senderField), CAddr: hex.EncodeToString(contractField), MEV: rec.MEV, Deadline: deadline}
	for _, q := range e.queues {
		bm := map[uint64]qmsg{}
		for _, m := range before.Q[q] {
			bm[m.ID] = m
		}
		var added []qmsg
		for _, m := range after.Q[q] {
			if old, was := bm[m.ID]; was {
				if old != m {
					return explore.Failf(kind+":queued-message-mutated", "queue %s message %d (%s) changed during a request on %s", q, m.ID, m.Kind, id)
				}
				delete(bm, m.ID)
				continue
			}
			added = append(added, m)
		}
		for _, m := range bm { // removed
			if q != target || m.Kind != "uv" {
				return explore.Failf(kind+":queued-message-removed", "queue %s message %d (%s) was removed by a request on %s", q, m.ID, m.Kind, id)
			}
		}
		if q != target {
			if len(added) > 0 {
				return explore.Failf(kind+":enqueued-on-foreign-queue", "request on %s (target %s) added %d message(s) to %s (first kind %s)", id, target, len(added), q, added[0].Kind)
			}
			continue
		}
		nslc, nuv := 0, 0
		for _, m := range added {
			if m.ID <= g.MaxID[q] {
				return explore.Failf(kind+":message-id-not-increasing", "queue %s: new message id %d is not above the highest id so far %d", q, m.ID, g.MaxID[q])
			}
			g.MaxID[q] = m.ID
			switch m.Kind {
			case "slc":
				nslc++
				want.ID = m.ID
				if m.C != want && emptyAlt != "" {
					// present-but-empty payload on a modifiable job: empty call data is the other admissible reading
					alt := want
					alt.Payload = emptyAlt
					if m.C == alt {
						want = alt
					}
				}
				if m.C != want {
					return explore.Failf(kind+":"+diffClass(m.C, want, rec, sup), "request by %s on %s (modifiable=%v, supplied=%s) enqueued a call that differs from the expected one:\n want %+v\n got  %+v", e.short(requester), id, rec.Mod, sup.Name, want, m.C)
				}
			case "uv":
				nuv++
			default:
				return explore.Failf(kind+":foreign-message-enqueued", "request on %s added a message of kind %s", id, m.Kind)
			}
		}
		if nslc != 1 {
			return explore.Failf(kind+":call-count", "successful request on %s added %d contract calls to %s (exactly one expected)", id, nslc, q)
		}
		if nuv > 1 {
			return explore.Failf(kind+":valset-update-count", "successful request on %s added %d valset updates to %s", id, nuv, q)
		}
		g.Calls[q] = append(g.Calls[q], want)
		if nuv == 1 {
			e.count(g, kind+":ok-with-valset-update")
		}
	}
	return nil
}

func diffClass(got, want call, rec *jobRec, sup supplied) string {
	switch {
	case got.Contract != want.Contract:
		return "wrong-contract"
	case got.Abi != want.Abi:
		return "wrong-abi"
	case got.Chain != want.Chain || got.Turnstone != want.Turnstone:
		return "wrong-routing"
	case got.Sender != want.Sender || got.CAddr != want.CAddr:
		return "wrong-requester-fields"
	case got.MEV != want.MEV:
		return "wrong-flags"
	case got.Payload != want.Payload:
		if len(got.Payload) >= 64 && len(want.Payload) >= 64 && got.Payload[len(got.Payload)-64:] != want.Payload[len(want.Payload)-64:] {
			return "wrong-sender-suffix"
		}
		if !rec.Mod && sup.Bytes != nil {
			return "fixed-payload-overridden"
		}
		return "wrong-payload"
	}
	return "wrong-call"
}

// handlerProbe runs f (the bare handler) on a throw-away fork and demands that a
// failing handler has not left a contract call behind even before any roll-back.
func (e *env) handlerProbe(ctx sdk.Context, kind string, before *obs, f func(c sdk.Context) error) *explore.Fail {
	c := world.Fork(ctx)
	err, _ := world.Protect(func() error { return f(c) })
	if err == nil {
		return nil
	}
	o, fl := e.observe(c)
	if fl != nil {
		return fl
	}
	if a, b := slcOnly(before), slcOnly(o); a != b {
		return explore.Failf(kind+":failed-request-left-call:handler-level", "the handler returned an error (%v) but its context holds different contract calls than before:\n before %s\n after  %s", err, a, b)
	}
	return nil
}

func (e *env) ops(n *explore.Node) []explore.Op {
	w := e.w
	var ops []explore.Op
	g0 := n.Ghost.(*ghost)
	modName := map[bool]string{false: "fixed", true: "modifiable"}
	ids := []string{"j1", "j2"}

	mkJob := func(id string, v variant, mod, mev bool) *schedtypes.Job {
		return &schedtypes.Job{ID: id, Routing: schedtypes.Routing{ChainType: "evm", ChainReferenceID: v.Chain},
			Definition: append([]byte{}, v.Def...), Payload: append([]byte{}, v.Payload...), IsPayloadModifiable: mod, EnforceMEVRelay: mev}
	}
	var layout []*world.Actor // signers of the next createOp when they are not just the creator
	createOp := func(label string, signer *world.Actor, id string, v variant, mod, mev bool, ownerField sdk.AccAddress) explore.Op {
		signers := []*world.Actor{signer}
		if layout != nil {
			signers = layout
		}
		return explore.Op{Label: label, Do: func(ctx *sdk.Context, gg explore.Ghost) *explore.Fail {
			g := gg.(*ghost)
			job := mkJob(id, v, mod, mev)
			job.Owner = ownerField
			dBefore := e.digBefore(*ctx, g)
			before, f := e.before(*ctx, g)
			if f != nil {
				return f
			}
			res, f := e.deliverWire(*ctx, signers, &schedtypes.MsgCreateJob{Job: job, Metadata: metaOf(signer, signers)}, true)
			if f != nil {
				return f
			}
			if !res.OK() {
				e.count(g, "create:fail:"+errClass(res.Err))
				if _, dup := g.Jobs[id]; !dup && (id == "j1" || id == "j2") {
					// a creation of a fresh id with well-formed content: not a property matter, but worth knowing
					e.count(g, "create:fresh-id-rejected")
				}
				g.digHere = e.digest(*ctx)
				if g.digHere != dBefore {
					return explore.Failf("create:failed-request-changed-state", "failed creation of %s (%v) changed state", id, res.Err)
				}
				g.obsHere = before
				return nil
			}
			e.count(g, "create:ok")
			after, f := e.observe(*ctx)
			if f != nil {
				return f
			}
			g.obsHere = after
			if !sameObs(before, after) {
				return explore.Failf("create:touched-queues", "creation of %s changed the consensus queues", id)
			}
			return e.created(*ctx, g, id, signer.Addr, v, mod, mev, "")
		}}
	}
	for _, u := range e.users {
		for _, id := range ids {
			for _, mod := range []bool{false, true} {
				for _, v := range variants {
					ops = append(ops, createOp(fmt.Sprintf("Create(%s,%s,%s,%s)", u.Name, id, modName[mod], v.Name), u, id, v, mod, false, nil))
				}
			}
		}
	}
	// owner field inside the job names somebody else
	for _, id := range ids {
		ops = append(ops, createOp(fmt.Sprintf("CreateSpoofOwner(U1 as U2,%s,modifiable,P1)", id), e.users[0], id, variants[0], true, false, e.users[1].Addr))
	}
	// MEV-flagged fixed job
	ops = append(ops, createOp("CreateMEV(U1,j2,fixed,P1)", e.users[0], "j2", variants[0], false, true, nil))
	// near-collisions of the ids: upper case, leading / trailing space — by another creator with
	// other content (two parameter sets for the case variant so that at least one differs from
	// whatever is stored). Rejected on a tree that validates ids; if one is accepted, created()
	// demands that no existing record changed and that the store grew by exactly one record.
	for _, id := range ids {
		up := strings.ToUpper(id)
		ops = append(ops, createOp(fmt.Sprintf("Create(U2,%q,modifiable,P2)", up), e.users[1], up, variants[1], true, false, nil))
		ops = append(ops, createOp(fmt.Sprintf("Create(U1,%q,fixed,P1)", up), e.users[0], up, variants[0], false, false, nil))
		for _, near := range []string{" " + id, id + " "} {
			ops = append(ops, createOp(fmt.Sprintf("Create(U2,%q,modifiable,P2)", near), e.users[1], near, variants[1], true, false, nil))
		}
	}
	// creator U1, but the tx is signed by its fee-grant grantee U2 alone / by U2 and U1 with U2 first:
	// the owner must still be the creator
	for _, id := range ids {
		layout = []*world.Actor{e.users[1]}
		ops = append(ops, createOp(fmt.Sprintf("Create(U1 signed by grantee U2,%s,modifiable,P1)", id), e.users[0], id, variants[0], true, false, nil))
		layout = []*world.Actor{e.users[1], e.users[0]}
		ops = append(ops, createOp(fmt.Sprintf("Create(U1 signed by U2+U1,%s,modifiable,P1)", id), e.users[0], id, variants[0], true, false, nil))
		layout = nil
	}
	// contract-created job through the bindings (ids and their upper-case variants)
	for _, id := range []string{"j1", "j2", "J1", "J2"} {
		id := id
		c := e.contracts[0]
		v := variants[0]
		ops = append(ops, explore.Op{Label: fmt.Sprintf("CreateByContract(%s,%s,modifiable,P1)", c.Name, id), Do: func(ctx *sdk.Context, gg explore.Ghost) *explore.Fail {
			g := gg.(*ghost)
			cm := libwasm.CustomMessage{Scheduler: &bindingstypes.Message{CreateJob: &bindingstypes.CreateJob{Job: &bindingstypes.Job{
				JobId: id, ChainType: "evm", ChainReferenceId: v.Chain, Definition: string(v.Def), Payload: string(v.Payload), PayloadModifiable: true}}}}
			bz, _ := json.Marshal(cm)
			dBefore := e.digBefore(*ctx, g)
			before, f := e.before(*ctx, g)
			if f != nil {
				return f
			}
			err := e.dispatch(*ctx, c.Addr, bz)
			if err != nil {
				e.count(g, "create-contract:fail:"+errClass(err))
				g.digHere = e.digest(*ctx)
				if g.digHere != dBefore {
					return explore.Failf("create:failed-request-changed-state:contract", "failed contract creation of %s (%v) changed state", id, err)
				}
				g.obsHere = before
				return nil
			}
			e.count(g, "create-contract:ok")
			after, f := e.observe(*ctx)
			if f != nil {
				return f
			}
			g.obsHere = after
			if !sameObs(before, after) {
				return explore.Failf("create:touched-queues:contract", "contract creation of %s changed the consensus queues", id)
			}
			return e.created(*ctx, g, id, c.Addr, v, true, false, ":contract")
		}})
	}

	// Exec by accounts
	sups := []supplied{{Name: "nil", Bytes: nil}, {Name: "empty", Bytes: []byte{}}, {Name: "Q", Bytes: qJSON, Data: qBytes}, {Name: "QX", Bytes: qxJSON, Data: qBytes}}
	execOp := func(label string, u *world.Actor, signers []*world.Actor, id string, sup supplied) explore.Op {
		return explore.Op{Label: label, Do: func(ctx *sdk.Context, gg explore.Ghost) *explore.Fail {
			g := gg.(*ghost)
			msg := func() *schedtypes.MsgExecuteJob {
				return &schedtypes.MsgExecuteJob{JobID: id, Payload: sup.Bytes, Metadata: metaOf(u, signers)}
			}
			before, f := e.before(*ctx, g)
			if f != nil {
				return f
			}
			if f := e.handlerProbe(*ctx, "exec", before, func(c sdk.Context) error {
				m := msg()
				_, err := w.App.MsgServiceRouter().Handler(m)(c, m)
				return err
			}); f != nil {
				return f
			}
			dBefore := e.digBefore(*ctx, g)
			// an empty-but-present payload cannot travel on the wire: deliver that one in memory
			res, f := e.deliverWire(*ctx, signers, msg(), sup.Name != "empty")
			if f != nil {
				return f
			}
			ckind := "exec"
			if len(signers) != 1 || signers[0] != u {
				ckind = "exec[" + signerNames(signers) + " for " + u.Name + "]"
			}
			e.countReq(g, ckind, id, sup, res.Err)
			// the requester is the creator, whoever signs
			return e.requestDone(*ctx, g, "exec", id, u.Addr, u.Addr, nil, sup, res.OK(), before, dBefore)
		}}
	}
	for _, u := range e.users {
		for _, id := range []string{"j1", "j2", "ghost9"} {
			for _, sup := range sups {
				ops = append(ops, execOp(fmt.Sprintf("Exec(%s,%s,%s)", u.Name, id, sup.Name), u, []*world.Actor{u}, id, sup))
			}
		}
	}
	// requests of U1 whose first signer is not U1: signed by the fee-grant grantee U2 alone
	// (grant U1->U2 is part of the base state), and signed by U2 and U1 with U2 listed first
	for _, id := range ids {
		for _, sup := range []supplied{sups[0], sups[2]} {
			ops = append(ops, execOp(fmt.Sprintf("Exec(U1 signed by grantee U2,%s,%s)", id, sup.Name), e.users[0], []*world.Actor{e.users[1]}, id, sup))
			ops = append(ops, execOp(fmt.Sprintf("Exec(U1 signed by U2+U1,%s,%s)", id, sup.Name), e.users[0], []*world.Actor{e.users[1], e.users[0]}, id, sup))
		}
	}
	// Exec by contracts. The binding message's `sender` field is a CLAIM of the
	// contract; the requester is the dispatching contract whatever it claims.
	// Default sender: the contract itself (scheduler_msg) / field absent (legacy);
	// the other claims {absent, own, U1, garbage} are explored with payload Q on j1, j2.
	csups := []supplied{{Name: "empty", Bytes: []byte{}}, {Name: "Q", Bytes: qBytes, Data: qBytes}}
	type claim struct {
		Name string
		Set  bool
		Val  string
	}
	execContract := func(c contract, id string, sup supplied, cl *claim) explore.Op {
		label := fmt.Sprintf("ExecContract(%s,%s,%s)", c.Name, id, sup.Name)
		ckind := "exec-contract"
		if cl != nil {
			label = fmt.Sprintf("ExecContract(%s,%s,%s,sender=%s)", c.Name, id, sup.Name, cl.Name)
			ckind = "exec-contract[sender=" + cl.Name + "]"
		}
		return explore.Op{Label: label, Do: func(ctx *sdk.Context, gg explore.Ghost) *explore.Fail {
			g := gg.(*ghost)
			var bz []byte
			switch {
			case cl == nil && c.Legacy:
				bz, _ = json.Marshal(map[string]interface{}{"job_id": id, "payload": sup.Bytes})
			case cl == nil:
				bz, _ = json.Marshal(libwasm.CustomMessage{Scheduler: &bindingstypes.Message{ExecuteJob: &bindingstypes.ExecuteJob{JobID: id, Sender: c.Addr.String(), Payload: sup.Bytes}}})
			default:
				inner := map[string]interface{}{"job_id": id, "payload": sup.Bytes}
				if cl.Set {
					inner["sender"] = cl.Val
				}
				if c.Legacy {
					bz, _ = json.Marshal(inner)
				} else {
					bz, _ = json.Marshal(map[string]interface{}{"scheduler_msg": map[string]interface{}{"execute_job": inner}})
				}
			}
			before, f := e.before(*ctx, g)
			if f != nil {
				return f
			}
			if f := e.handlerProbe(*ctx, "exec-contract", before, func(cc sdk.Context) error {
				_, _, _, err := e.router.DispatchMsg(cc, c.Addr, "", wasmvmtypes.CosmosMsg{Custom: bz})
				return err
			}); f != nil {
				return f
			}
			dBefore := e.digBefore(*ctx, g)
			err := e.dispatch(*ctx, c.Addr, bz)
			e.countReq(g, ckind, id, sup, err)
			return e.requestDone(*ctx, g, "exec-contract", id, c.Addr, c.Addr, c.Addr, sup, err == nil, before, dBefore)
		}}
	}
	for _, c := range e.contracts {
		for _, id := range []string{"j1", "j2", "ghost9"} {
			for _, sup := range csups {
				ops = append(ops, execContract(c, id, sup, nil))
			}
		}
		claims := []claim{{Name: "absent"}, {Name: "own", Set: true, Val: c.Addr.String()}, {Name: "U1", Set: true, Val: e.users[0].Addr.String()}, {Name: "garbage", Set: true, Val: "not-a-bech32-address"}}
		for i := range claims {
			cl := &claims[i]
			if (c.Legacy && cl.Name == "absent") || (!c.Legacy && cl.Name == "own") {
				continue // that is the default message above
			}
			for _, id := range []string{"j1", "j2"} {
				ops = append(ops, execContract(c, id, csups[1], cl))
			}
		}
	}

	// relayer fee records of eth-main removed / restored
	if !g0.NoRelay {
		ops = append(ops, explore.Op{Label: "NoRelayer(eth-main)", Do: func(ctx *sdk.Context, gg explore.Ghost) *explore.Fail {
			gg.(*ghost).NoRelay = true
			if err := e.setFees(*ctx, e.feesNoA); err != nil {
				return explore.Failf("harness:fees", "%v", err)
			}
			return nil
		}})
	} else {
		ops = append(ops, explore.Op{Label: "RestoreRelayer(eth-main)", Do: func(ctx *sdk.Context, gg explore.Ghost) *explore.Fail {
			gg.(*ghost).NoRelay = false
			if err := e.setFees(*ctx, e.feesFull); err != nil {
				return explore.Failf("harness:fees", "%v", err)
			}
			return nil
		}})
	}
	// valset rotation: v2 gains / loses the MEV trait, a new snapshot becomes current (not yet on any chain)
	if g0.Snaps < e.maxSnaps {
		ops = append(ops, explore.Op{Label: "NewSnapshot", Do: func(ctx *sdk.Context, gg explore.Ghost) *explore.Fail {
			g := gg.(*ghost)
			var traits []string
			if g.Snaps%2 == 0 {
				traits = []string{"mev"}
			}
			g.Snaps++
			if err := w.RegisterAccounts(*ctx, w.Vals[2], traits, refA, refB); err != nil {
				return explore.Failf("harness:traits", "%v", err)
			}
			s, err := w.Snapshot(*ctx)
			if err != nil || s == nil {
				return explore.Failf("harness:snapshot", "snapshot not built: %v", err)
			}
			return nil
		}})
	}
	return ops
}

// metaOf is the paloma metadata of a message created by creator and signed by signers.
func metaOf(creator *world.Actor, signers []*world.Actor) vtypes.MsgMetadata {
	m := vtypes.MsgMetadata{Creator: creator.Addr.String()}
	for _, s := range signers {
		m.Signers = append(m.Signers, s.Addr.String())
	}
	return m
}

func signerNames(signers []*world.Actor) string {
	var n []string
	for _, s := range signers {
		n = append(n, s.Name)
	}
	return strings.Join(n, "+")
}

// dispatch delivers a contract's custom message the way wasmd does: in a
// sub-context that is committed only when the handler succeeds.
func (e *env) dispatch(ctx sdk.Context, contractAddr sdk.AccAddress, custom []byte) error {
	sub, commit := ctx.CacheContext()
	sub = sub.WithEventManager(sdk.NewEventManager())
	err, _ := world.Protect(func() error {
		_, _, _, err := e.router.DispatchMsg(sub, contractAddr, "", wasmvmtypes.CosmosMsg{Custom: custom})
		return err
	})
	if err == nil {
		commit()
	}
	return err
}

func (e *env) countReq(g *ghost, kind, id string, sup supplied, err error) {
	rec := g.Jobs[id]
	cls := "unknown-job"
	if rec != nil {
		cls = map[bool]string{false: "fixed", true: "modifiable"}[rec.Mod]
		if rec.MEV {
			cls += "+mev"
		}
	}
	out := "ok"
	if err != nil {
		out = "fail:" + errClass(err)
	}
	e.count(g, fmt.Sprintf("%s:%s:%s:%s", kind, cls, sup.Name, out))
}
