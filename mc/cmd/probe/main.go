package main

import (
	"encoding/json"
	"fmt"

	sdk "github.com/cosmos/cosmos-sdk/types"
	ctypes "github.com/palomachain/paloma/v2/x/consensus/types"
	evmtypes "github.com/palomachain/paloma/v2/x/evm/types"
	schedtypes "github.com/palomachain/paloma/v2/x/scheduler/types"
	"github.com/palomachain/paloma/v2/zzverif/world"
)

const ref = "eth-main"

func must(err error) {
	if err != nil {
		panic(err)
	}
}

func main() {
	w := world.New(world.Config{Stakes: world.StakesOf(1_000_000, 1_000_000, 1_000_000), Users: []string{"U1"}, Height: 101})
	ctx := w.Root
	must(w.StdChain(ctx, ref))
	u := w.User("U1")
	def, _ := json.Marshal(evmtypes.JobDefinition{Address: "0x00000000000000000000000000000000000000cc", ABI: "[]"})
	pay, _ := json.Marshal(evmtypes.JobPayload{HexPayload: "deadbeef"})
	job := &schedtypes.Job{ID: "job1", Routing: schedtypes.Routing{ChainType: "evm", ChainReferenceID: ref}, Definition: def, Payload: pay}
	r := w.DeliverTx(ctx, []*world.Actor{u}, &schedtypes.MsgCreateJob{Job: job, Metadata: world.Meta(u)})
	fmt.Println("create job:", r.Err)
	r = w.DeliverTx(ctx, []*world.Actor{u}, &schedtypes.MsgExecuteJob{JobID: "job1", Metadata: world.Meta(u)})
	fmt.Println("execute job:", r.Err)
	dump(w, ctx)
	// estimates
	q := "evm/" + ref + "/evm-turnstone-message"
	msgs, err := w.App.ConsensusKeeper.GetMessagesFromQueue(ctx, q, 100)
	must(err)
	for _, m := range msgs {
		for _, v := range w.Vals {
			r = w.DeliverTx(ctx, []*world.Actor{v.Actor}, &ctypes.MsgAddMessageGasEstimates{Metadata: world.Meta(v.Actor), Estimates: []*ctypes.MsgAddMessageGasEstimates_GasEstimate{{MsgId: m.GetId(), QueueTypeName: q, Value: 21000, EstimatedByAddress: v.EthAddr()}}})
			fmt.Println("estimate", m.GetId(), v.Name, r.Err)
		}
	}
	fmt.Println("endblock:", w.EndBlock(ctx))
	dump(w, ctx)
	for _, m := range w.Queue(ctx, q) {
		for _, v := range w.Vals {
			r = w.DeliverTx(ctx, []*world.Actor{v.Actor}, w.SignQueued(v, q, m))
			fmt.Println("sign", m.GetId(), v.Name, r.Err)
		}
		r = w.DeliverTx(ctx, []*world.Actor{w.Vals[0].Actor}, &ctypes.MsgSetErrorData{MessageID: m.GetId(), QueueTypeName: q, Data: []byte("boom"), Metadata: world.Meta(w.Vals[0].Actor)})
		fmt.Println("errordata v0", r.Err)
		r = w.DeliverTx(ctx, []*world.Actor{w.Vals[1].Actor}, &ctypes.MsgSetErrorData{MessageID: m.GetId(), QueueTypeName: q, Data: []byte("boom"), Metadata: world.Meta(w.Vals[1].Actor)})
		fmt.Println("errordata v1", r.Err)
		for _, v := range w.Vals {
			r = w.DeliverTx(ctx, []*world.Actor{v.Actor}, world.Evidence(v, q, m.GetId(), &evmtypes.SmartContractExecutionErrorProof{ErrorMessage: "boom"}))
			fmt.Println("evidence", v.Name, r.Err)
		}
	}
	dump(w, ctx)
	fmt.Println("endblock:", w.EndBlock(ctx))
	dump(w, ctx)
}

func dump(w *world.World, ctx sdk.Context) {
	qr, err := w.App.ConsensusKeeper.GetAllQueueNames(ctx, &ctypes.QueryGetAllQueueNamesRequest{})
	fmt.Println("queues", qr, err)
	for _, q := range qr.Queues {
		msgs, err := w.App.ConsensusKeeper.GetMessagesFromQueue(ctx, q, 100)
		if err != nil {
			fmt.Println(" ", q, err)
			continue
		}
		for _, m := range msgs {
			cm, _ := m.ConsensusMsg(w.App.AppCodec())
			bts, _ := m.GetBytesToSign(w.App.AppCodec())
			fmt.Printf("  %s id=%d est=%d sigs=%d bytes=%x msg=%T %v\n", q, m.GetId(), m.GetGasEstimate(), len(m.GetSignData()), bts[:8], cm, cm)
		}
	}
}
