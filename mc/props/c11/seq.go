package main

// Sequence pass: the pair product votes one claim per fork. Pooling by
// anything other than (chain, nonce, claim hash) can also show only in
// histories: a late vote after the nonce was settled, votes after a governance
// nonce reset while the old attestation is still stored, competing claims voted
// partially / interleaved. For a small set of claim pairs (A = the valid claim,
// B = A with one field changed; every field once) and four vote schedules over
// five validators a ghost records which validator had which claim accepted.
// After every step:
//   I1  an attestation record contains only votes of validators whose accepted
//       claim has that record's key;
//   I2  every accepted vote is in the record stored under the key of the claim
//       that was submitted (so every distinct claim body has its own record).

import (
	"fmt"
	"sort"
	"strings"

	sdk "github.com/cosmos/cosmos-sdk/types"
	skywaytypes "github.com/palomachain/paloma/v2/x/skyway/types"
	vtypes "github.com/palomachain/paloma/v2/x/valset/types"
	"github.com/palomachain/paloma/v2/zzverif/world"
)

type step struct {
	Kind string // vote | end | reset
	Val  int
	Body string // "A" | "B"
}

func votes(body string, vals ...int) []step {
	var out []step
	for _, v := range vals {
		out = append(out, step{"vote", v, body})
	}
	return out
}

func cat(parts ...[]step) []step {
	var out []step
	for _, p := range parts {
		out = append(out, p...)
	}
	return out
}

var (
	end       = []step{{Kind: "end"}}
	reset     = []step{{Kind: "reset"}}
	schedules = []struct {
		Name  string
		Steps []step
	}{
		{"late-vote", cat(votes("A", 0, 1, 2, 3), end, votes("B", 4), end)},
		{"nonce-reset", cat(votes("A", 0, 1, 2, 3, 4), end, reset, votes("B", 0, 1, 2, 3, 4), end)},
		{"partial-then-quorum", cat(votes("A", 0), votes("B", 1, 2, 3, 4), end)},
		{"interleaved", cat([]step{{"vote", 0, "A"}, {"vote", 1, "B"}, {"vote", 2, "A"}, {"vote", 3, "B"}, {"vote", 4, "A"}}, end)},
	}
)

type seqCase struct {
	ID    string
	Base  int
	T     *claimT
	Field string
	B     map[string]interface{}
	Sched int
}

func (e *env) seqCases(thorough bool) []seqCase {
	var out []seqCase
	bases := []int{len(e.bases) - 1}
	if thorough {
		bases = nil
		for i := range e.bases {
			bases = append(bases, i)
		}
	}
	for _, bi := range bases {
		for _, t := range e.types {
			if e.w.App.MsgServiceRouter().Handler(e.build(t, nil, e.w.Vals[0])) == nil {
				continue
			}
			for _, f := range t.Fields {
				vals := f.Dom[1:]
				if !thorough && len(vals) > 1 {
					vals = vals[:1]
					// the empty string is a value of its own for defaulting logic
					for _, x := range f.Dom[2:] {
						if s, ok := x.(string); ok && s == "" {
							vals = append(vals, x)
						}
					}
				}
				for _, y := range vals {
					for si := range schedules {
						out = append(out, seqCase{
							ID:   fmt.Sprintf("seq|%s|%s|%s|%s|%s", e.bases[bi].Name, t.Name, f.Name, show(y), schedules[si].Name),
							Base: bi, T: t, Field: f.Name, B: map[string]interface{}{f.Name: y}, Sched: si,
						})
					}
				}
			}
		}
	}
	return out
}

func (e *env) runSeq(c seqCase) (twoKeys bool, bObserved int) {
	w := e.w
	ctx := world.Fork(e.bases[c.Base].Ctx)
	ghost := map[string]map[string]bool{} // record key -> validators whose accepted claim has that key
	var trace []string
	sched := schedules[c.Sched]
	fail := func(inv, msg string) {
		e.r.Violate("seq:"+sched.Name+":"+inv,
			fmt.Sprintf("base state %q, %s, A = the valid claim, B = A with %s; schedule %s:\n%s\n%s",
				e.bases[c.Base].Name, c.T.Name, showOv(c.B), sched.Name, strings.Join(trace, "\n"), msg),
			map[string]interface{}{"case": c.ID})
	}
	name := func(val string) string {
		for _, v := range w.Vals {
			if v.ValAddr.String() == val {
				return v.Name
			}
		}
		return val
	}
	// I1 over all records
	checkRecords := func() bool {
		recs := e.records(ctx)
		e.checkStoredBodies(recs, c.T.Name+" in schedule "+sched.Name)
		var keys []string
		for k := range recs {
			keys = append(keys, k)
		}
		sort.Strings(keys)
		for _, k := range keys {
			for _, v := range recs[k].Votes {
				if !ghost[k][v] {
					claim, _ := w.App.SkywayKeeper.UnpackAttestationClaim(ptr(recs[k]))
					fail("foreign-vote-in-record", fmt.Sprintf("the attestation record %x (claim %v, observed=%v) contains the vote of %s, who never had a claim with that key accepted", k, claim, recs[k].Observed, name(v)))
					return false
				}
			}
		}
		return true
	}
	keyA := string(attKey(e.build(c.T, nil, w.Vals[0])))
	keyB := string(attKey(e.build(c.T, c.B, w.Vals[0])))
	for _, st := range sched.Steps {
		switch st.Kind {
		case "end":
			w.SkywayEnd(ctx, nil)
			trace = append(trace, "  end-block (tally)")
		case "reset":
			chain := e.build(c.T, nil, w.Vals[0]).(skywaytypes.EthereumClaim).GetChainReferenceId()
			err := w.GovExec(ctx, &skywaytypes.MsgNonceOverrideProposal{
				Metadata:         vtypes.MsgMetadata{Creator: w.Gov, Signers: []string{w.Gov}},
				ChainReferenceId: chain, Nonce: 0,
			})
			if err != nil {
				panic(fmt.Sprintf("harness: nonce override refused: %v", err))
			}
			trace = append(trace, fmt.Sprintf("  governance MsgNonceOverrideProposal(%s, 0)", chain))
		case "vote":
			v := w.Vals[st.Val]
			var ov map[string]interface{}
			if st.Body == "B" {
				ov = c.B
			}
			msg := e.build(c.T, ov, v)
			k := string(attKey(msg)) // before delivery: a handler may modify the message object
			res := w.DeliverTx(ctx, []*world.Actor{v.Actor}, msg)
			if res.Stage == "build" {
				panic(fmt.Sprintf("harness: vote tx: %v", res.Err))
			}
			trace = append(trace, fmt.Sprintf("  %s votes %s: %s", v.Name, st.Body, stage(res)))
			if !res.OK() {
				continue
			}
			if ghost[k] == nil {
				ghost[k] = map[string]bool{}
			}
			ghost[k][v.ValAddr.String()] = true
			// I2
			rec, ok := e.records(ctx)[k]
			switch {
			case !ok:
				fail("vote-without-own-record", fmt.Sprintf("the vote of %s for %s was accepted but no attestation record exists under the key of the submitted claim %x: the vote was recorded elsewhere", v.Name, st.Body, k))
				return
			case !contains(rec.Votes, v.ValAddr.String()):
				fail("vote-without-own-record", fmt.Sprintf("the vote of %s for %s was accepted but the record under the key of the submitted claim %x does not list it (votes %v)", v.Name, st.Body, k, rec.Votes))
				return
			}
		}
		if !checkRecords() {
			return
		}
	}
	if sched.Name == "nonce-reset" && keyA != keyB {
		bObserved = -1
		if rec, ok := e.records(ctx)[keyB]; ok && rec.Observed {
			bObserved = 1
		}
	}
	return keyA != keyB, bObserved
}

func ptr(a skywaytypes.Attestation) *skywaytypes.Attestation { return &a }

func contains(xs []string, x string) bool {
	for _, y := range xs {
		if y == x {
			return true
		}
	}
	return false
}

func (e *env) sequencePass(shard, nshards int, want string) {
	r := e.r
	if want != "" && !strings.HasPrefix(want, "seq|") {
		return
	}
	cases := e.seqCases(r.Thorough() || want != "")
	var runs, two, obs, notObs float64
	for i, c := range cases {
		if want != "" {
			if c.ID != want {
				continue
			}
		} else if i%nshards != shard {
			continue
		}
		twoKeys, b := e.runSeq(c)
		runs++
		key := ""
		if twoKeys {
			two++
			key = c.ID
		}
		r.Case(key)
		switch b {
		case 1:
			obs++
		case -1:
			notObs++
		}
	}
	r.Extra["seq_schedules_run"] = runs
	r.Extra["seq_schedules_with_two_distinct_keys"] = two
	// informative only (not an oracle): after a nonce reset the stale observed
	// attestation may sort before B and make the tally stop ("attempting to
	// process observed attestation"); that is not a pooling defect.
	r.Extra["seq_reset_B_observed"] = obs
	r.Extra["seq_reset_B_not_observed"] = notObs
}

var _ = sdk.AccAddress{}
