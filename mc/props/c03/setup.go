package main

import (
	"crypto/sha256"
	"encoding/hex"
	"encoding/json"
	"fmt"
	"time"

	sdkmath "cosmossdk.io/math"
	storetypes "cosmossdk.io/store/types"
	"cosmossdk.io/x/feegrant"
	wasmkeeper "github.com/CosmWasm/wasmd/x/wasm/keeper"
	codectypes "github.com/cosmos/cosmos-sdk/codec/types"
	sdk "github.com/cosmos/cosmos-sdk/types"
	banktypes "github.com/cosmos/cosmos-sdk/x/bank/types"
	icatypes "github.com/cosmos/ibc-go/v8/modules/apps/27-interchain-accounts/types"
	channeltypes "github.com/cosmos/ibc-go/v8/modules/core/04-channel/types"
	ethcrypto "github.com/ethereum/go-ethereum/crypto"
	consensustypes "github.com/palomachain/paloma/v2/x/consensus/types"
	evmtypes "github.com/palomachain/paloma/v2/x/evm/types"
	palomatypes "github.com/palomachain/paloma/v2/x/paloma/types"
	schedtypes "github.com/palomachain/paloma/v2/x/scheduler/types"
	skywaytypes "github.com/palomachain/paloma/v2/x/skyway/types"
	tftypes "github.com/palomachain/paloma/v2/x/tokenfactory/types"
	treasurytypes "github.com/palomachain/paloma/v2/x/treasury/types"
	vtypes "github.com/palomachain/paloma/v2/x/valset/types"
	"github.com/palomachain/paloma/v2/zzverif/world"
)

const ref = "eth-main"

var erc20s = []string{"0x1111111111111111111111111111111111111111", "0x2222222222222222222222222222222222222222"}

const (
	otherEth  = "0x00000000000000000000000000000000000000Aa"
	otherEth2 = "0x00000000000000000000000000000000000000bb"
	saleAddr  = "0x3333333333333333333333333333333333333333"
	queueName = "evm/" + ref + "/evm-turnstone-message"
)

type env struct {
	w *world.World
	// actors that can be written into messages
	A, B, U, G, L *actor
	C             *actor // a CosmWasm contract deployed by the attacker (wasm extension)
	I             *actor // an interchain account on this (host) chain, controlled from another chain (ica variant)
	V             *actor // a second attacker that is itself a bonded validator with registered chain accounts (w.Vals[1])
	actors        []*actor
	byName        map[string]*actor
	// world actors (keys) by name; G has none
	keys map[string]*world.Actor
	// additional watched principals (victims that are never written into messages)
	M *actor
	R *actor // a registered light-node client holding a grant from the light-node feegranter
	// scenario facts
	denoms      []string
	pendingTx   uint64 // U's transfer still in the pool
	batch1      *skywaytypes.InternalOutgoingTxBatch
	batch2      *skywaytypes.InternalOutgoingTxBatch
	cp1, cp2    []byte // checkpoints of batch1 / batch2
	msgSigned   uint64 // consensus message carrying B's signature, estimate, evidence
	msgFresh    uint64 // consensus message B has not touched
	msgErr      uint64 // consensus message carrying B's error report
	contractID  uint64 // U's uploaded user smart contract
	compassSCID uint64 // smart contract with an in-flight deployment record
	rootPlain   sdk.Context
	rootGrant   sdk.Context
	rootTake    sdk.Context // rootPlain + the attacker's own siblings of the victim's resources (takeover pass)
	aPendingTx  uint64
	aContractID uint64
	icaParams   string // interchain-accounts host params as the world's genesis left them
	icaEnabled  bool
	setupLog    []string
	stores      map[string]*storetypes.KVStoreKey
	principals  []*principal
}

func must(err error) {
	if err != nil {
		panic(err)
	}
}

func ethOf(name string) (string, []byte) {
	h := sha256.Sum256([]byte("verif-eth-" + name))
	k, err := ethcrypto.ToECDSA(h[:])
	must(err)
	a := ethcrypto.PubkeyToAddress(k.PublicKey)
	return a.Hex(), a.Bytes()
}

func meta(creator string, signer string) vtypes.MsgMetadata {
	return vtypes.MsgMetadata{Creator: creator, Signers: []string{signer}}
}

func (e *env) ok(what string, res world.TxResult) {
	if !res.OK() {
		panic(fmt.Sprintf("setup %s: [%s] %v", what, res.Stage, res.Err))
	}
}

func (e *env) tx(ctx sdk.Context, what string, signer *world.Actor, msg sdk.Msg) {
	e.ok(what, e.w.DeliverTx(ctx, []*world.Actor{signer}, msg))
}

func newEnv() *env {
	w := world.New(world.Config{Stakes: world.StakesOf(1_000_000, 1_000_000, 1_000_000), Users: []string{"A", "U"}, Unfunded: []string{"L", "M", "R"}, Height: 101})
	e := &env{w: w, byName: map[string]*actor{}, keys: map[string]*world.Actor{}}
	mk := func(name, role string, acc sdk.AccAddress, ethName string) *actor {
		hx, raw := ethOf(ethName)
		a := &actor{Name: name, Role: role, Acc: acc, EthHex: hx, EthRaw: raw}
		e.byName[name] = a
		return a
	}
	b := w.Vals[0]
	e.A = mk("A", "attacker", w.User("A").Addr, "A")
	e.B = mk("B", "validator", b.Addr, b.Name) // world.NewVal derives the eth key from "verif-eth-"+name
	if e.B.EthHex != b.EthAddr() {
		panic("eth key derivation differs from world.NewVal")
	}
	e.U = mk("U", "user", w.User("U").Addr, "U")
	gov, err := sdk.AccAddressFromBech32(w.Gov)
	must(err)
	e.G = mk("G", "governance", gov, "G")
	e.L = mk("L", "licensee", w.User("L").Addr, "L")
	e.M = mk("M", "licensee", w.User("M").Addr, "M")
	e.R = mk("R", "registered-light-node-client", w.User("R").Addr, "R")
	e.C = mk("C", "contract", wasmkeeper.BuildContractAddressClassic(1, 1), "C")
	e.V = mk("V", "validator-attacker", w.Vals[1].Addr, w.Vals[1].Name)
	if e.V.EthHex != w.Vals[1].EthAddr() {
		panic("eth key derivation differs from world.NewVal")
	}
	e.I = mk("I", "interchain-account", world.NewActor("ica-I").Addr, "I")
	e.actors = []*actor{e.A, e.B, e.U, e.G, e.L}
	e.keys = map[string]*world.Actor{"A": w.User("A"), "B": b.Actor, "U": w.User("U"), "L": w.User("L"), "M": w.User("M"), "R": w.User("R"), "V": w.Vals[1].Actor}
	e.setup()
	return e
}

func jobDef() ([]byte, []byte) {
	def, _ := json.Marshal(map[string]string{"abi": "00", "address": otherEth})
	pay, _ := json.Marshal(map[string]string{"hexPayload": "aabbcc"})
	return def, pay
}

func (e *env) job(id string, owner sdk.AccAddress) *schedtypes.Job {
	def, pay := jobDef()
	return &schedtypes.Job{ID: id, Owner: owner, Routing: schedtypes.Routing{ChainType: "evm", ChainReferenceID: ref},
		Definition: def, Payload: pay, IsPayloadModifiable: true}
}

func (e *env) signQueued(ctx sdk.Context, v *world.Val, id uint64) []byte {
	msgs, err := e.w.App.ConsensusKeeper.GetMessagesFromQueue(ctx, queueName, 0)
	must(err)
	for _, m := range msgs {
		if m.GetId() == id {
			bz, err := m.GetBytesToSign(e.w.App.AppCodec())
			must(err)
			sig, err := hex.DecodeString(world.SignCheckpoint(v, bz))
			must(err)
			return sig
		}
	}
	panic(fmt.Sprintf("queued message %d not found", id))
}

func (e *env) setup() {
	w := e.w
	ctx := w.Root
	U, B := e.keys["U"], w.Vals[0]
	must(w.StdChain(ctx, ref))
	must(w.App.EvmKeeper.SetSmartContractDeployer(ctx, ref, otherEth2))
	must(w.App.EvmKeeper.SetFeeManagerAddress(ctx, ref, otherEth2))
	// keep-alives
	for _, v := range w.Vals {
		e.tx(ctx, "keepalive", v.Actor, &vtypes.MsgKeepAlive{PigeonVersion: "v9.9.9", Metadata: world.Meta(v.Actor)})
	}
	// U's denoms, bridged; A holds some of each
	for i := 0; i < 2; i++ {
		d, err := w.BridgeToken(ctx, U, fmt.Sprintf("t%d", i+1), ref, erc20s[i], 1000, U, e.keys["A"])
		must(err)
		e.denoms = append(e.denoms, d)
	}
	// governance settings on record
	must(w.App.SkywayKeeper.SetBridgeTax(ctx, &skywaytypes.BridgeTax{Token: e.denoms[0], Rate: "1/100"}))
	must(w.App.SkywayKeeper.SetBridgeTransferLimit(ctx, &skywaytypes.BridgeTransferLimit{Token: e.denoms[0], Limit: sdkmath.NewInt(1_000_000), LimitPeriod: skywaytypes.LimitPeriod_DAILY}))
	must(w.App.SkywayKeeper.SetAllLighNodeSaleContracts(ctx, []*skywaytypes.LightNodeSaleContract{{ChainReferenceId: ref, ContractAddress: saleAddr}}))
	// U: two transfers -> two batches, then one transfer left in the pool
	for i := 0; i < 2; i++ {
		e.tx(ctx, "send", U, &skywaytypes.MsgSendToRemote{EthDest: otherEth, Amount: sdk.NewInt64Coin(e.denoms[i], 10), ChainReferenceId: ref, Metadata: world.Meta(U)})
	}
	h := ctx.BlockHeight()
	w.SkywayEnd(world.At(ctx, 150, ctx.BlockTime()), nil)
	_ = h
	batches, err := w.App.SkywayKeeper.GetOutgoingTxBatches(ctx)
	must(err)
	for _, b := range batches {
		b := b
		switch b.TokenContract.GetAddress().Hex() {
		case erc20s[0]:
			e.batch1 = &b
		case erc20s[1]:
			e.batch2 = &b
		}
	}
	if e.batch1 == nil || e.batch2 == nil {
		panic(fmt.Sprintf("setup: expected two batches, got %d", len(batches)))
	}
	e.tx(ctx, "send3", U, &skywaytypes.MsgSendToRemote{EthDest: otherEth, Amount: sdk.NewInt64Coin(e.denoms[0], 7), ChainReferenceId: ref, Metadata: world.Meta(U)})
	pool, err := w.App.SkywayKeeper.GetUnbatchedTransactions(ctx)
	must(err)
	if len(pool) != 1 {
		panic(fmt.Sprintf("setup: pool has %d txs", len(pool)))
	}
	e.pendingTx = pool[0].Id
	ci, err := w.App.EvmKeeper.GetChainInfo(ctx, ref)
	must(err)
	e.cp1, err = e.batch1.GetCheckpoint(string(ci.SmartContractUniqueID))
	must(err)
	e.cp2, err = e.batch2.GetCheckpoint(string(ci.SmartContractUniqueID))
	must(err)
	// B (and v1) on record for batch1: estimate + confirm
	for _, v := range w.Vals[:2] {
		e.tx(ctx, "estimate", v.Actor, &skywaytypes.MsgEstimateBatchGas{Metadata: world.Meta(v.Actor), Nonce: e.batch1.BatchNonce, TokenContract: erc20s[0], EthSigner: v.EthAddr(), Estimate: 21000})
		e.tx(ctx, "confirm", v.Actor, &skywaytypes.MsgConfirmBatch{Nonce: e.batch1.BatchNonce, TokenContract: erc20s[0], EthSigner: v.EthAddr(), Orchestrator: v.Addr.String(), Signature: world.SignCheckpoint(v, e.cp1), Metadata: world.Meta(v.Actor)})
	}
	// B's (and v1's) bridge vote on record: deposit event 1
	for _, v := range w.Vals[:2] {
		e.tx(ctx, "vote", v.Actor, world.DepositClaim(v, ref, 1, 1, erc20s[0], 5, otherEth2, e.U.Acc.String()))
	}
	// U's job; executed twice -> two queued consensus messages
	e.tx(ctx, "job", U, &schedtypes.MsgCreateJob{Job: e.job("ujob1", nil), Metadata: world.Meta(U)})
	before, _ := w.App.ConsensusKeeper.GetMessagesFromQueue(ctx, queueName, 0)
	seen := map[uint64]bool{}
	for _, m := range before {
		seen[m.GetId()] = true
	}
	for i := 0; i < 3; i++ {
		e.tx(ctx, "exec", U, &schedtypes.MsgExecuteJob{JobID: "ujob1", Metadata: world.Meta(U)})
	}
	after, err := w.App.ConsensusKeeper.GetMessagesFromQueue(ctx, queueName, 0)
	must(err)
	var fresh []uint64
	for _, m := range after {
		if !seen[m.GetId()] {
			fresh = append(fresh, m.GetId())
		}
	}
	if len(fresh) != 3 {
		panic(fmt.Sprintf("setup: expected 3 new queued messages, got %d (queue has %d)", len(fresh), len(after)))
	}
	e.msgSigned, e.msgFresh, e.msgErr = fresh[0], fresh[1], fresh[2]
	// B's error report on message 3
	e.tx(ctx, "error report", B.Actor, &consensustypes.MsgSetErrorData{Metadata: world.Meta(B.Actor), MessageID: e.msgErr, QueueTypeName: queueName, Data: []byte("reverted")})
	// B's signature, gas estimate, evidence and delivery report on message 1
	e.tx(ctx, "sign", B.Actor, &consensustypes.MsgAddMessagesSignatures{Metadata: world.Meta(B.Actor), SignedMessages: []*consensustypes.ConsensusMessageSignature{
		{Id: e.msgSigned, QueueTypeName: queueName, Signature: e.signQueued(ctx, B, e.msgSigned), SignedByAddress: B.EthAddr()},
	}})
	if r := w.DeliverTx(ctx, []*world.Actor{B.Actor}, &consensustypes.MsgAddMessageGasEstimates{Metadata: world.Meta(B.Actor), Estimates: []*consensustypes.MsgAddMessageGasEstimates_GasEstimate{
		{MsgId: e.msgSigned, QueueTypeName: queueName, Value: 21000, EstimatedByAddress: B.EthAddr()}}}); !r.OK() {
		e.setupLog = append(e.setupLog, "gas estimate on record not possible: "+r.Err.Error())
	}
	e.tx(ctx, "evidence", B.Actor, &consensustypes.MsgAddEvidence{Metadata: world.Meta(B.Actor), MessageID: e.msgSigned, QueueTypeName: queueName, Proof: e.proof()})
	e.tx(ctx, "public", B.Actor, &consensustypes.MsgSetPublicAccessData{Metadata: world.Meta(B.Actor), MessageID: e.msgSigned, QueueTypeName: queueName, Data: []byte("txhash-1"), ValsetID: 1})
	// U's user smart contract
	e.tx(ctx, "upload", U, e.uploadMsg(e.U, "U"))
	cs, err := w.App.EvmKeeper.UserSmartContracts(ctx, sdk.ValAddress(e.U.Acc).String())
	must(err)
	if len(cs) != 1 {
		panic("setup: user smart contract missing")
	}
	e.contractID = cs[0].Id
	// a compass deployment in flight (governance record)
	// (the first stored contract gets id 1 == the id StdChain activated the chain with, so only the second is newer)
	for i := 0; i < 2; i++ {
		must(w.GovExec(ctx, &evmtypes.MsgDeployNewSmartContractProposalV2{Metadata: meta(w.Gov, w.Gov), Authority: w.Gov, AbiJSON: world.CompassABI(), BytecodeHex: fmt.Sprintf("0x60806%d", i)}))
	}
	deps, err := w.App.EvmKeeper.AllSmartContractsDeployments(ctx)
	must(err)
	if len(deps) == 0 {
		panic("setup: no smart contract deployment in flight")
	}
	e.compassSCID = deps[0].SmartContractID
	// a pending licence for M (gift from U)
	e.tx(ctx, "licence", U, &palomatypes.MsgAddLightNodeClientLicense{Metadata: world.Meta(U), ClientAddress: e.M.Acc.String(), Amount: sdk.NewInt64Coin(world.BondDenom, 1000), VestingMonths: 12})

	// a registered light-node client R, set up the way a light-node sale does it: the
	// governance-configured feegranter / funder (U here), a licence, the feegranter's
	// grant, and R's own registration at block time t0 (licence consumed)
	must(w.App.PalomaKeeper.SetLightNodeClientFeegranter(ctx, e.U.Acc))
	must(w.App.PalomaKeeper.SetLightNodeClientFunders(ctx, []sdk.AccAddress{e.U.Acc}))
	e.tx(ctx, "licence R", U, &palomatypes.MsgAddLightNodeClientLicense{Metadata: world.Meta(U), ClientAddress: e.R.Acc.String(), Amount: sdk.NewInt64Coin(world.BondDenom, 2000), VestingMonths: 24})
	must(w.App.FeeGrantKeeper.GrantAllowance(ctx, e.U.Acc, e.R.Acc, &feegrant.BasicAllowance{}))
	e.tx(ctx, "register R", e.keys["R"], &palomatypes.MsgRegisterLightNodeClient{Metadata: world.Meta(e.keys["R"])})
	if _, err := w.App.PalomaKeeper.GetLightNodeClient(ctx, e.R.Acc.String()); err != nil {
		panic("setup: R is not a registered light-node client")
	}

	// a contract always has an account
	w.App.AccountKeeper.SetAccount(ctx, w.App.AccountKeeper.NewAccountWithAddress(ctx, e.C.Acc))
	// ... and this one holds funds (its deployer sent it some), so that it can act for itself
	must(w.App.BankKeeper.SendCoins(ctx, e.A.Acc, e.C.Acc, sdk.NewCoins(sdk.NewInt64Coin(world.BondDenom, 1_000_000_000))))

	e.setupICA(ctx)

	e.rootPlain = ctx
	g := world.Fork(ctx)
	must(w.App.FeeGrantKeeper.GrantAllowance(g, e.B.Acc, e.A.Acc, &feegrant.BasicAllowance{}))
	e.rootGrant = g
	e.setupTakeover()
}

const (
	icaOwnerPort  = icatypes.ControllerPortPrefix + "owner-on-the-controller-chain"
	icaConnection = "connection-0"
	icaChannel    = "channel-0"
)

// setupICA writes the state a completed interchain-accounts handshake leaves on
// the host side (through exported setters, no handshake is run): an OPEN ORDERED
// channel on port icahost whose version names the interchain account I, the
// owner -> account mapping and the active channel. I is an existing funded account.
func (e *env) setupICA(ctx sdk.Context) {
	w := e.w
	w.App.AccountKeeper.SetAccount(ctx, w.App.AccountKeeper.NewAccountWithAddress(ctx, e.I.Acc))
	must(w.App.BankKeeper.SendCoins(ctx, e.A.Acc, e.I.Acc, sdk.NewCoins(sdk.NewInt64Coin(world.BondDenom, 1_000_000_000))))
	version := string(icatypes.ModuleCdc.MustMarshalJSON(&icatypes.Metadata{Version: icatypes.Version, ControllerConnectionId: icaConnection, HostConnectionId: icaConnection,
		Address: e.I.Acc.String(), Encoding: icatypes.EncodingProtobuf, TxType: icatypes.TxTypeSDKMultiMsg}))
	w.App.IBCKeeper.ChannelKeeper.SetChannel(ctx, icatypes.HostPortID, icaChannel, channeltypes.Channel{State: channeltypes.OPEN, Ordering: channeltypes.ORDERED,
		Counterparty: channeltypes.Counterparty{PortId: icaOwnerPort, ChannelId: icaChannel}, ConnectionHops: []string{icaConnection}, Version: version})
	w.App.ICAHostKeeper.SetInterchainAccountAddress(ctx, icaConnection, icaOwnerPort, e.I.Acc.String())
	w.App.ICAHostKeeper.SetActiveChannelID(ctx, icaConnection, icaOwnerPort, icaChannel)
	p := w.App.ICAHostKeeper.GetParams(ctx)
	e.icaParams = fmt.Sprintf("host_enabled=%v allow_messages=%v", p.HostEnabled, p.AllowMessages)
	e.icaEnabled = p.HostEnabled
}

func (e *env) proof() *codectypes.Any {
	a, err := codectypes.NewAnyWithValue(&evmtypes.TxExecutedProof{SerializedTX: []byte{1, 2, 3}})
	must(err)
	return a
}

func (e *env) uploadMsg(a *actor, tag string) *evmtypes.MsgUploadUserSmartContractRequest {
	return &evmtypes.MsgUploadUserSmartContractRequest{Metadata: meta(a.Acc.String(), a.Acc.String()), Title: "c-" + tag,
		AbiJson: `[{"inputs":[],"stateMutability":"nonpayable","type":"constructor"}]`, Bytecode: "0x6080", ConstructorInput: ""}
}

// ---------------------------------------------------------------------------
// templates

type tmpl struct {
	Principal string // who legitimately sends this message: actor name
	Build     func() sdk.Msg
	Prep      func(ctx sdk.Context) // scenario step applied on the fork before the delivery
}

func (e *env) prepLicenceL(ctx sdk.Context) {
	e.tx(ctx, "prep licence", e.keys["U"], &palomatypes.MsgAddLightNodeClientLicense{Metadata: world.Meta(e.keys["U"]), ClientAddress: e.L.Acc.String(), Amount: sdk.NewInt64Coin(world.BondDenom, 500), VestingMonths: 6})
}

func (e *env) templates() map[string]tmpl {
	w := e.w
	B := w.Vals[0]
	bm := func() vtypes.MsgMetadata { return meta(e.B.Acc.String(), e.B.Acc.String()) }
	um := func() vtypes.MsgMetadata { return meta(e.U.Acc.String(), e.U.Acc.String()) }
	gm := func() vtypes.MsgMetadata { return meta(w.Gov, w.Gov) }
	am := func() vtypes.MsgMetadata { return meta(e.A.Acc.String(), e.A.Acc.String()) }
	lm := func() vtypes.MsgMetadata { return meta(e.L.Acc.String(), e.L.Acc.String()) }
	t := map[string]tmpl{}
	add := func(principal string, prep func(sdk.Context), build func() sdk.Msg) {
		t[sdk.MsgTypeURL(build())] = tmpl{Principal: principal, Build: build, Prep: prep}
	}
	// consensus
	add("B", nil, func() sdk.Msg {
		return &consensustypes.MsgAddMessagesSignatures{Metadata: bm(), SignedMessages: []*consensustypes.ConsensusMessageSignature{
			{Id: e.msgFresh, QueueTypeName: queueName, Signature: e.signQueued(e.rootPlain, B, e.msgFresh), SignedByAddress: B.EthAddr()}}}
	})
	add("B", nil, func() sdk.Msg {
		return &consensustypes.MsgAddMessageGasEstimates{Metadata: bm(), Estimates: []*consensustypes.MsgAddMessageGasEstimates_GasEstimate{
			{MsgId: e.msgFresh, QueueTypeName: queueName, Value: 22000, EstimatedByAddress: B.EthAddr()}}}
	})
	add("B", nil, func() sdk.Msg {
		return &consensustypes.MsgAddEvidence{Metadata: bm(), MessageID: e.msgFresh, QueueTypeName: queueName, Proof: e.proof()}
	})
	add("B", nil, func() sdk.Msg {
		return &consensustypes.MsgSetPublicAccessData{Metadata: bm(), MessageID: e.msgFresh, QueueTypeName: queueName, Data: []byte("txhash-2"), ValsetID: 1}
	})
	add("B", nil, func() sdk.Msg {
		return &consensustypes.MsgSetErrorData{Metadata: bm(), MessageID: e.msgFresh, QueueTypeName: queueName, Data: []byte("boom")}
	})
	// evm
	add("G", nil, func() sdk.Msg {
		return &evmtypes.MsgDeployNewSmartContractProposalV2{Metadata: gm(), Authority: w.Gov, AbiJSON: world.CompassABI(), BytecodeHex: "0x608060"}
	})
	add("G", nil, func() sdk.Msg {
		return &evmtypes.MsgProposeNewReferenceBlockAttestation{Metadata: gm(), Authority: w.Gov, ChainReferenceId: ref, BlockHeight: 777, BlockHash: "0x" + fmt.Sprintf("%064x", 777)}
	})
	add("G", nil, func() sdk.Msg {
		return &evmtypes.MsgRemoveSmartContractDeploymentRequest{Metadata: gm(), SmartContractID: e.compassSCID, ChainReferenceID: ref}
	})
	add("U", nil, func() sdk.Msg { return e.uploadMsg(e.U, "U2") })
	add("U", nil, func() sdk.Msg { return &evmtypes.MsgRemoveUserSmartContractRequest{Metadata: um(), Id: e.contractID} })
	add("U", nil, func() sdk.Msg {
		return &evmtypes.MsgDeployUserSmartContractRequest{Metadata: um(), Id: e.contractID, TargetChain: ref}
	})
	// paloma
	add("U", nil, func() sdk.Msg {
		return &palomatypes.MsgAddLightNodeClientLicense{Metadata: um(), ClientAddress: e.L.Acc.String(), Amount: sdk.NewInt64Coin(world.BondDenom, 500), VestingMonths: 6}
	})
	add("B", nil, func() sdk.Msg {
		return &palomatypes.MsgAddStatusUpdate{Metadata: bm(), Status: "ok", Level: palomatypes.MsgAddStatusUpdate_LEVEL_INFO,
			Args: []palomatypes.MsgAddStatusUpdate_KeyValuePair{{Key: "k", Value: "v"}}}
	})
	add("L", e.prepLicenceL, func() sdk.Msg { return &palomatypes.MsgRegisterLightNodeClient{Metadata: lm()} })
	add("L", func(ctx sdk.Context) {
		e.prepLicenceL(ctx)
		e.tx(ctx, "prep register", e.keys["L"], &palomatypes.MsgRegisterLightNodeClient{Metadata: lm()})
	}, func() sdk.Msg { return &palomatypes.MsgAuthLightNodeClient{Metadata: lm()} })
	add("A", nil, func() sdk.Msg { return &palomatypes.MsgSetLegacyLightNodeClients{Metadata: am()} })
	add("G", nil, func() sdk.Msg {
		return &palomatypes.MsgUpdateParams{Authority: w.Gov, Metadata: gm(), Params: palomatypes.Params{GasExemptAddresses: []string{e.U.Acc.String()}}}
	})
	// scheduler
	add("U", nil, func() sdk.Msg { return &schedtypes.MsgCreateJob{Job: e.job("ujob2", e.U.Acc), Metadata: um()} })
	add("U", nil, func() sdk.Msg {
		_, pay := jobDef()
		return &schedtypes.MsgExecuteJob{JobID: "ujob1", Payload: pay, Metadata: um()}
	})
	// skyway
	add("B", nil, func() sdk.Msg {
		return world.BatchExecutedClaim(B, ref, 2, 1, e.batch1.BatchNonce, erc20s[0])
	})
	add("U", nil, func() sdk.Msg { return &skywaytypes.MsgCancelSendToRemote{TransactionId: e.pendingTx, Metadata: um()} })
	add("B", nil, func() sdk.Msg {
		return &skywaytypes.MsgConfirmBatch{Nonce: e.batch2.BatchNonce, TokenContract: erc20s[1], EthSigner: B.EthAddr(), Orchestrator: e.B.Acc.String(), Signature: world.SignCheckpoint(B, e.cp2), Metadata: bm()}
	})
	add("B", nil, func() sdk.Msg {
		return &skywaytypes.MsgEstimateBatchGas{Metadata: bm(), Nonce: e.batch2.BatchNonce, TokenContract: erc20s[1], EthSigner: B.EthAddr(), Estimate: 30000}
	})
	add("B", nil, func() sdk.Msg {
		return &skywaytypes.MsgLightNodeSaleClaim{Metadata: bm(), EventNonce: 2, EthBlockHeight: 1, Orchestrator: e.B.Acc.String(), ChainReferenceId: ref, SkywayNonce: 2,
			ClientAddress: e.L.Acc.String(), Amount: sdkmath.NewInt(3), SmartContractAddress: saleAddr, CompassId: world.CompassID}
	})
	add("G", nil, func() sdk.Msg {
		return &skywaytypes.MsgNonceOverrideProposal{Metadata: gm(), ChainReferenceId: ref, Nonce: 9}
	})
	add("G", nil, func() sdk.Msg { return &skywaytypes.MsgReplenishLostGrainsProposal{Metadata: gm()} })
	add("B", nil, func() sdk.Msg {
		return world.DepositClaim(B, ref, 2, 1, erc20s[0], 5, otherEth2, e.U.Acc.String())
	})
	add("U", nil, func() sdk.Msg {
		return &skywaytypes.MsgSendToRemote{EthDest: otherEth, Amount: sdk.NewInt64Coin(e.denoms[0], 3), ChainReferenceId: ref, Metadata: um()}
	})
	add("G", nil, func() sdk.Msg {
		return &skywaytypes.MsgSetERC20MappingProposal{Metadata: gm(), Authority: w.Gov, Mappings: []skywaytypes.MsgSetERC20MappingProposal_ERC20ToDenomMapping{
			{ChainReferenceId: ref, Erc20: "0x4444444444444444444444444444444444444444", Denom: e.denoms[0]}}}
	})
	add("U", func(ctx sdk.Context) {
		e.tx(ctx, "prep denom", e.keys["U"], &tftypes.MsgCreateDenom{Subdenom: "t3", Metadata: world.Meta(e.keys["U"])})
	}, func() sdk.Msg {
		return &skywaytypes.MsgSetERC20ToTokenDenom{Metadata: um(), Denom: "factory/" + e.U.Acc.String() + "/t3", ChainReferenceId: ref, Erc20: "0x5555555555555555555555555555555555555555"}
	})
	add("A", nil, func() sdk.Msg {
		// a batch that never existed, signed with v2's external-chain key (C13 owns the consequences)
		fake := *e.batch2
		fake.BatchNonce = 99
		ext := fake.ToExternal()
		any, err := codectypes.NewAnyWithValue(&ext)
		must(err)
		ci, err := w.App.EvmKeeper.GetChainInfo(e.rootPlain, ref)
		must(err)
		fi, err := ext.ToInternal()
		must(err)
		cp, err := fi.GetCheckpoint(string(ci.SmartContractUniqueID))
		must(err)
		return &skywaytypes.MsgSubmitBadSignatureEvidence{Subject: any, Signature: world.SignCheckpoint(w.Vals[2], cp), Sender: e.A.Acc.String(), ChainReferenceId: ref, Metadata: am()}
	})
	add("G", nil, func() sdk.Msg {
		return &skywaytypes.MsgUpdateParams{Authority: w.Gov, Metadata: gm(), Params: *skywaytypes.DefaultParams()}
	})
	// tokenfactory
	add("U", nil, func() sdk.Msg { return &tftypes.MsgBurn{Amount: sdk.NewInt64Coin(e.denoms[0], 1), Metadata: um()} })
	add("U", nil, func() sdk.Msg {
		return &tftypes.MsgChangeAdmin{Denom: e.denoms[0], NewAdmin: e.L.Acc.String(), Metadata: um()}
	})
	add("U", nil, func() sdk.Msg { return &tftypes.MsgCreateDenom{Subdenom: "t9", Metadata: um()} })
	add("U", nil, func() sdk.Msg { return &tftypes.MsgMint{Amount: sdk.NewInt64Coin(e.denoms[0], 4), Metadata: um()} })
	add("U", nil, func() sdk.Msg {
		d := e.denoms[0]
		return &tftypes.MsgSetDenomMetadata{Metadata: um(), DenomMetadata: banktypes.Metadata{Base: d, Display: d, Name: "n", Symbol: "S",
			DenomUnits: []*banktypes.DenomUnit{{Denom: d, Exponent: 0}}}}
	})
	add("G", nil, func() sdk.Msg {
		return &tftypes.MsgUpdateParams{Authority: w.Gov, Metadata: gm(), Params: tftypes.Params{DenomCreationFee: sdk.NewCoins(sdk.NewInt64Coin(world.BondDenom, 7))}}
	})
	// treasury
	add("B", nil, func() sdk.Msg {
		return &treasurytypes.MsgUpsertRelayerFee{Metadata: bm(), FeeSetting: &treasurytypes.RelayerFeeSetting{ValAddress: sdk.ValAddress(e.B.Acc).String(),
			Fees: []treasurytypes.RelayerFeeSetting_FeeSetting{{Multiplicator: sdkmath.LegacyMustNewDecFromStr("7.5"), ChainReferenceId: ref}}}}
	})
	// valset
	add("B", nil, func() sdk.Msg {
		return &vtypes.MsgAddExternalChainInfoForValidator{Metadata: bm(), ChainInfos: []*vtypes.ExternalChainInfo{
			{ChainType: "evm", ChainReferenceID: ref, Address: e.B.EthHex, Pubkey: append([]byte{}, e.B.EthRaw...), Traits: []string{"mev"}}}}
	})
	add("B", nil, func() sdk.Msg { return &vtypes.MsgKeepAlive{PigeonVersion: "v9.9.10", Metadata: bm()} })
	return t
}

var _ = time.Second
