// C16 — token factory: only the admin controls a denom; supply = mints - burns.
// Explicit-state BFS over the real tokenfactory message handlers (signed txs
// through ante + router) against a boring reference model.
package main

import (
	"encoding/json"
	"flag"
	"fmt"
	"math/big"
	"os"
	"sort"
	"strings"
	"time"

	sdkmath "cosmossdk.io/math"
	sdk "github.com/cosmos/cosmos-sdk/types"
	bankkeeper "github.com/cosmos/cosmos-sdk/x/bank/keeper"
	banktypes "github.com/cosmos/cosmos-sdk/x/bank/types"
	tfbindings "github.com/palomachain/paloma/v2/x/tokenfactory/bindings"
	tfbtypes "github.com/palomachain/paloma/v2/x/tokenfactory/bindings/types"
	tftypes "github.com/palomachain/paloma/v2/x/tokenfactory/types"
	vtypes "github.com/palomachain/paloma/v2/x/valset/types"
	"github.com/palomachain/paloma/v2/zzverif/explore"
	"github.com/palomachain/paloma/v2/zzverif/report"
	"github.com/palomachain/paloma/v2/zzverif/world"
)

type ghost struct {
	Admin  map[string]string              // existing factory denoms -> admin ("" = renounced)
	Supply map[string]*big.Int            // expected supply delta per denom (all denoms of interest)
	Bal    map[string]map[string]*big.Int // actor -> denom -> expected balance delta
	Disp   map[string]string              // denom -> metadata display set via SetDenomMetadata
}

func (g *ghost) Clone() explore.Ghost {
	n := &ghost{Admin: map[string]string{}, Supply: map[string]*big.Int{}, Bal: map[string]map[string]*big.Int{}, Disp: map[string]string{}}
	for k, v := range g.Admin {
		n.Admin[k] = v
	}
	for k, v := range g.Disp {
		n.Disp[k] = v
	}
	for k, v := range g.Supply {
		n.Supply[k] = new(big.Int).Set(v)
	}
	for a, m := range g.Bal {
		n.Bal[a] = map[string]*big.Int{}
		for k, v := range m {
			n.Bal[a][k] = new(big.Int).Set(v)
		}
	}
	return n
}

func (g *ghost) Key() string {
	b, _ := json.Marshal(g) // maps are marshalled with sorted keys
	return string(b)
}

func meta(a *world.Actor) vtypes.MsgMetadata {
	return vtypes.MsgMetadata{Creator: a.Addr.String(), Signers: []string{a.Addr.String()}}
}

type env struct {
	w          *world.World
	actors     []*world.Actor
	denoms     []string // all denoms of interest (mint/burn targets)
	subs       []string
	base       map[string]*big.Int // initial supply per denom
	baseB      map[string]map[string]*big.Int
	roundTrips int
}

func (e *env) bal(g *ghost, a, d string) *big.Int {
	if g.Bal[a] == nil {
		g.Bal[a] = map[string]*big.Int{}
	}
	if g.Bal[a][d] == nil {
		g.Bal[a][d] = new(big.Int)
	}
	return g.Bal[a][d]
}

func (e *env) sup(g *ghost, d string) *big.Int {
	if g.Supply[d] == nil {
		g.Supply[d] = new(big.Int)
	}
	return g.Supply[d]
}

func main() {
	replay := flag.String("replay", "", "replay file")
	flag.Parse()
	report.Main("C16", "model_checking", workers(*replay), func(r *report.Run, shard, nshards int) {
		run(r, shard, nshards, *replay)
	})
}

func workers(replay string) int {
	if replay != "" || report.Tier() != "thorough" {
		return 8
	}
	return report.Workers()
}

func run(r *report.Run, shard, nshards int, replayFile string) {
	w := world.New(world.Config{Stakes: world.StakesOf(1_000_000), Users: []string{"X", "Y", "Z"}})
	X, Y, Z := w.User("X"), w.User("Y"), w.User("Z")
	e := &env{w: w, actors: []*world.Actor{X, Y, Z}}
	fx := "factory/" + X.Addr.String() + "/"
	fy := "factory/" + Y.Addr.String() + "/"
	e.subs = []string{"a", "a/b", world.BondDenom}
	e.denoms = []string{fx + "a", fy + "a", fx + "a/b", world.BondDenom, "factory/" + X.Addr.String(), "ibc/ABCDEF"}
	e.base = map[string]*big.Int{}
	e.baseB = map[string]map[string]*big.Int{}
	for _, d := range e.denoms {
		e.base[d] = w.Supply(w.Root, d)
	}
	for _, a := range e.actors {
		e.baseB[a.Name] = map[string]*big.Int{}
		for _, d := range e.denoms {
			e.baseB[a.Name][d] = w.Balance(w.Root, a.Addr, d)
		}
	}
	r.Rule = "BFS over Create/Mint/Burn/ChangeAdmin/SetDenomMetadata by X,Y,Z (signed txs) and by X as a contract through the tokenfactory wasm bindings (SetMetadata with a base equal to / different from the authorised denom, Mint to itself or a third party, Burn from its own balance / with burn_from_address naming itself or a third party, ChangeAdmin) on factory/X/a, factory/Y/a, factory/X/a/b, ugrain, a 2-part factory string and an ibc denom; every transition is a signed tx through the real ante chain and tokenfactory msg server; a state is distinct by (admins, supplies, balances, metadata); in every state the module's genesis export is imported into a fork of the pristine chain and must reproduce every denom's admin and re-export identically"
	r.Assumptions = []string{
		"tx atomicity re-implemented as in baseapp.runTx (ante cache, msg cache)",
		"amount alphabet {5 mint, 3 burn}; larger amounts exercise the same code path (sdk.Int arithmetic in x/bank)",
	}
	spec := explore.Spec{
		Name:       "tokenfactory",
		Init:       []*explore.Node{{Ctx: w.Root, Ghost: &ghost{Admin: map[string]string{}, Supply: map[string]*big.Int{}, Bal: map[string]map[string]*big.Int{}, Disp: map[string]string{}}}},
		Ops:        e.ops,
		Hash:       func(n *explore.Node) string { return n.Ghost.Key() + "|" + w.StoreDigest(n.Ctx, "tokenfactory") },
		Invariant:  e.invariant,
		MaxDepth:   4,
		Deadline:   r.Deadline(150*time.Second, 25*time.Minute),
		ShardDepth: 2, Shard: shard, NShards: nshards,
	}
	if r.Thorough() {
		spec.MaxDepth = 6
	}
	if replayFile != "" {
		var v report.Violation
		b, err := os.ReadFile(replayFile)
		if err == nil {
			err = json.Unmarshal(b, &v)
		}
		if err != nil {
			fmt.Fprintln(os.Stderr, err)
			os.Exit(2)
		}
		m := v.Replay.(map[string]interface{})
		var path []string
		for _, p := range m["path"].([]interface{}) {
			path = append(path, p.(string))
		}
		if shard == 0 {
			if f := explore.Replay(spec, path); f != nil {
				r.Violate(f.Signature, f.Message, v.Replay)
			}
			r.States, r.Transitions = 1, int64(len(path))
			r.Sample(path)
		}
		return
	}
	res := explore.Run(r, spec)
	r.Extra["depth_completed"] = float64(res.DepthCompleted)
	r.Extra["genesis_round_trips_in_shard_0"] = float64(e.roundTrips)
	if shard != 0 {
		delete(r.Extra, "depth_completed")
		delete(r.Extra, "genesis_round_trips_in_shard_0")
	}
}

func (e *env) invariant(n *explore.Node) *explore.Fail {
	g := n.Ghost.(*ghost)
	w := e.w
	for _, d := range e.denoms {
		want := new(big.Int).Add(e.base[d], e.sup(g, d))
		if got := w.Supply(n.Ctx, d); got.Cmp(want) != 0 {
			return explore.Failf("supply:"+kind(d), "supply of %s is %s, reference (initial + mints - burns) %s", d, got, want)
		}
		for _, a := range e.actors {
			want := new(big.Int).Add(e.baseB[a.Name][d], e.bal(g, a.Name, d))
			if got := w.Balance(n.Ctx, a.Addr, d); got.Cmp(want) != 0 {
				return explore.Failf("balance:"+kind(d), "balance of %s in %s is %s, reference %s", a.Name, d, got, want)
			}
		}
		if bm, found := w.App.BankKeeper.GetDenomMetaData(n.Ctx, d); kind(d) == "factory" {
			_, exists := g.Admin[d]
			if found != exists {
				return explore.Failf("metadata-existence", "bank metadata of %s present=%v but the factory created it=%v", d, found, exists)
			}
			want := g.Disp[d]
			if want != "" && bm.Name != "n-"+want || want == "" && strings.HasPrefix(bm.Name, "n-") {
				return explore.Failf("metadata-mismatch", "metadata name of %s is %q, reference setter %q", d, bm.Name, want)
			}
		}
		md, err := w.App.TokenFactoryKeeper.GetAuthorityMetadata(n.Ctx, d)
		adm, exists := g.Admin[d]
		if err != nil {
			return explore.Failf("admin-read", "GetAuthorityMetadata(%s): %v", d, err)
		}
		if exists && md.Admin != adm || !exists && md.Admin != "" {
			return explore.Failf("admin:"+kind(d), "admin of %s is %q, reference %q (exists=%v)", d, md.Admin, adm, exists)
		}
	}
	// genesis round trip: exporting the module state and importing it into the pristine chain (a fork
	// of the initial state, no denoms) must reproduce who controls what
	if f := e.genesisRoundTrip(n, g); f != nil {
		return f
	}
	if _, found := w.App.BankKeeper.GetDenomMetaData(n.Ctx, "factory/"+e.actors[1].Addr.String()+"/new"); found {
		return explore.Failf("metadata-planted", "bank metadata exists for factory/Y/new, which nobody created")
	}
	return nil
}

func (e *env) genesisRoundTrip(n *explore.Node, g *ghost) (fail *explore.Fail) {
	w := e.w
	k := w.App.TokenFactoryKeeper
	defer func() {
		if p := recover(); p != nil {
			fail = explore.Failf("genesis-import-panics", "importing the exported tokenfactory genesis panics: %v", p)
		}
	}()
	gs := k.ExportGenesis(n.Ctx)
	if len(gs.FactoryDenoms) != len(g.Admin) {
		return explore.Failf("genesis-export-denoms", "exported genesis lists %d denoms, the factory created %d", len(gs.FactoryDenoms), len(g.Admin))
	}
	fresh := world.Fork(w.Root)
	k.InitGenesis(fresh, *gs)
	for d, adm := range g.Admin {
		md, err := k.GetAuthorityMetadata(fresh, d)
		if err != nil {
			return explore.Failf("genesis-admin-read", "after import GetAuthorityMetadata(%s): %v", d, err)
		}
		if md.Admin != adm {
			return explore.Failf("genesis-admin", "after genesis export/import the admin of %s is %q, before it was %q", d, md.Admin, adm)
		}
	}
	again := k.ExportGenesis(fresh)
	a, _ := json.Marshal(gs)
	b, _ := json.Marshal(again)
	if string(a) != string(b) {
		return explore.Failf("genesis-roundtrip", "export after import differs from the exported genesis:\n %s\n %s", a, b)
	}
	e.roundTrips++
	return nil
}

func kind(d string) string {
	switch {
	case d == world.BondDenom:
		return "native"
	case strings.HasPrefix(d, "ibc/"):
		return "ibc"
	case strings.Count(d, "/") < 2:
		return "malformed"
	default:
		return "factory"
	}
}

func (e *env) ops(n *explore.Node) []explore.Op {
	var ops []explore.Op
	w := e.w
	deliver := func(ctx *sdk.Context, a *world.Actor, m sdk.Msg) (ok bool, f *explore.Fail) {
		before := w.StoreDigest(*ctx, "tokenfactory") + supplies(e, *ctx)
		res := w.DeliverTx(*ctx, []*world.Actor{a}, m)
		if res.Stage == "ante" || res.Stage == "build" {
			return false, explore.Failf("harness", "tx of %s failed in %s: %v", a.Name, res.Stage, res.Err)
		}
		if !res.OK() {
			if after := w.StoreDigest(*ctx, "tokenfactory") + supplies(e, *ctx); after != before {
				return false, explore.Failf("failed-tx-changed-state", "failed tx (%v) changed tokenfactory/bank state", res.Err)
			}
		}
		return res.OK(), nil
	}
	// Create
	for _, a := range e.actors[:2] {
		for _, sub := range e.subs {
			a, sub := a, sub
			ops = append(ops, explore.Op{Label: fmt.Sprintf("Create(%s,%s)", a.Name, sub), Do: func(ctx *sdk.Context, gg explore.Ghost) *explore.Fail {
				g := gg.(*ghost)
				denom := "factory/" + a.Addr.String() + "/" + sub
				ok, f := deliver(ctx, a, &tftypes.MsgCreateDenom{Subdenom: sub, Metadata: meta(a)})
				if f != nil {
					return f
				}
				if ok {
					if _, exists := g.Admin[denom]; exists {
						return explore.Failf("create-twice", "%s created a denom that already exists: %s", a.Name, denom)
					}
					if sub == world.BondDenom {
						return explore.Failf("create-native-sub", "subdenom equal to native denom accepted")
					}
					g.Admin[denom] = a.Addr.String()
					// the configured creation fee moves from the creator to the community pool
					for _, c := range w.App.TokenFactoryKeeper.GetParams(*ctx).DenomCreationFee {
						e.bal(g, a.Name, c.Denom).Sub(e.bal(g, a.Name, c.Denom), c.Amount.BigInt())
					}
				}
				return nil
			}})
		}
	}
	for _, a := range e.actors {
		for _, d := range e.denoms {
			a, d := a, d
			ops = append(ops, explore.Op{Label: fmt.Sprintf("Mint(%s,%s)", a.Name, short(e, d)), Do: func(ctx *sdk.Context, gg explore.Ghost) *explore.Fail {
				g := gg.(*ghost)
				amt := sdkmath.NewInt(5)
				ok, f := deliver(ctx, a, &tftypes.MsgMint{Amount: sdk.Coin{Denom: d, Amount: amt}, Metadata: meta(a)})
				if f != nil {
					return f
				}
				if ok {
					adm, exists := g.Admin[d]
					if !exists {
						return explore.Failf("mint-nonfactory:"+kind(d), "%s minted %s which the factory never created", a.Name, d)
					}
					if adm != a.Addr.String() {
						return explore.Failf("mint-nonadmin", "%s minted %s but admin is %q", a.Name, d, adm)
					}
					e.sup(g, d).Add(e.sup(g, d), amt.BigInt())
					e.bal(g, a.Name, d).Add(e.bal(g, a.Name, d), amt.BigInt())
				}
				return nil
			}})
			ops = append(ops, explore.Op{Label: fmt.Sprintf("Burn(%s,%s)", a.Name, short(e, d)), Do: func(ctx *sdk.Context, gg explore.Ghost) *explore.Fail {
				g := gg.(*ghost)
				amt := sdkmath.NewInt(3)
				ok, f := deliver(ctx, a, &tftypes.MsgBurn{Amount: sdk.Coin{Denom: d, Amount: amt}, Metadata: meta(a)})
				if f != nil {
					return f
				}
				if ok {
					adm, exists := g.Admin[d]
					if !exists {
						return explore.Failf("burn-nonfactory:"+kind(d), "%s burned %s which the factory never created", a.Name, d)
					}
					if adm != a.Addr.String() {
						return explore.Failf("burn-nonadmin", "%s burned %s but admin is %q", a.Name, d, adm)
					}
					e.sup(g, d).Sub(e.sup(g, d), amt.BigInt())
					e.bal(g, a.Name, d).Sub(e.bal(g, a.Name, d), amt.BigInt())
				}
				return nil
			}})
		}
	}
	for _, a := range e.actors {
		for _, d := range e.denoms[:4] {
			for _, na := range []string{e.actors[0].Addr.String(), e.actors[1].Addr.String(), ""} {
				a, d, na := a, d, na
				ops = append(ops, explore.Op{Label: fmt.Sprintf("ChangeAdmin(%s,%s,%s)", a.Name, short(e, d), short(e, na)), Do: func(ctx *sdk.Context, gg explore.Ghost) *explore.Fail {
					g := gg.(*ghost)
					ok, f := deliver(ctx, a, &tftypes.MsgChangeAdmin{Denom: d, NewAdmin: na, Metadata: meta(a)})
					if f != nil {
						return f
					}
					if ok {
						adm, exists := g.Admin[d]
						if !exists {
							return explore.Failf("changeadmin-nonfactory:"+kind(d), "%s changed admin of %s which the factory never created", a.Name, d)
						}
						if adm != a.Addr.String() {
							return explore.Failf("changeadmin-nonadmin", "%s changed admin of %s but admin is %q", a.Name, d, adm)
						}
						g.Admin[d] = na
					}
					return nil
				}})
			}
		}
		for _, d := range e.denoms[:4] {
			a, d := a, d
			ops = append(ops, explore.Op{Label: fmt.Sprintf("SetMetadata(%s,%s)", a.Name, short(e, d)), Do: func(ctx *sdk.Context, gg explore.Ghost) *explore.Fail {
				g := gg.(*ghost)
				md := banktypes.Metadata{Base: d, Display: d, Name: "n-" + a.Name, Symbol: "S" + a.Name,
					DenomUnits: []*banktypes.DenomUnit{{Denom: d, Exponent: 0}}}
				ok, f := deliver(ctx, a, &tftypes.MsgSetDenomMetadata{DenomMetadata: md, Metadata: meta(a)})
				if f != nil {
					return f
				}
				if ok {
					adm, exists := g.Admin[d]
					if !exists {
						return explore.Failf("setmetadata-nonfactory:"+kind(d), "%s set metadata of %s which the factory never created", a.Name, d)
					}
					if adm != a.Addr.String() {
						return explore.Failf("setmetadata-nonadmin", "%s set metadata of %s but admin is %q", a.Name, d, adm)
					}
					g.Disp[d] = a.Name
				}
				got, _ := w.App.BankKeeper.GetDenomMetaData(*ctx, d)
				want := g.Disp[d]
				if want != "" && got.Name != "n-"+want || want == "" && strings.HasPrefix(got.Name, "n-") {
					return explore.Failf("metadata-mismatch", "metadata name of %s is %q, reference setter %q", d, got.Name, want)
				}
				return nil
			}})
		}
	}
	// the same operations as a CosmWasm contract would dispatch them (tokenfactory bindings; the
	// contract is X's address, so it shares X's namespace). wasmd commits a dispatch only on success.
	c := e.actors[0]
	bank := w.App.BankKeeper.(bankkeeper.BaseKeeper)
	tfk := w.App.TokenFactoryKeeper
	messenger := tfbindings.NewMessenger(&bank, &tfk)
	dispatch := func(ctx *sdk.Context, m tfbtypes.Message) (ok bool, f *explore.Fail) {
		before := w.StoreDigest(*ctx, "tokenfactory") + supplies(e, *ctx) + metas(e, *ctx)
		cc, write := ctx.CacheContext()
		var err error
		func() {
			defer func() {
				if r := recover(); r != nil {
					err = fmt.Errorf("panic: %v", r)
				}
			}()
			_, _, _, err = messenger.DispatchMsg(cc, c.Addr, "", m)
		}()
		if err != nil {
			if after := w.StoreDigest(*ctx, "tokenfactory") + supplies(e, *ctx) + metas(e, *ctx); after != before {
				return false, explore.Failf("failed-dispatch-changed-state", "failed contract dispatch (%v) changed state", err)
			}
			return false, nil
		}
		write()
		return true, nil
	}
	metaTargets := append(append([]string{}, e.denoms[:3]...), "factory/"+e.actors[1].Addr.String()+"/new")
	for _, d := range e.denoms[:3] {
		for _, base := range append([]string{""}, metaTargets...) {
			d, base := d, base
			ops = append(ops, explore.Op{Label: fmt.Sprintf("CSetMetadata(%s,base=%s)", short(e, d), short(e, base)), Do: func(ctx *sdk.Context, gg explore.Ghost) *explore.Fail {
				g := gg.(*ghost)
				target := base
				if target == "" {
					target = d
				}
				ok, f := dispatch(ctx, tfbtypes.Message{SetMetadata: &tfbtypes.SetMetadata{Denom: d, Metadata: tfbtypes.Metadata{Base: base, Display: target, Name: "n-c" + c.Name, Symbol: "SC",
					DenomUnits: []tfbtypes.DenomUnit{{Denom: target, Exponent: 0}}}}})
				if f != nil {
					return f
				}
				if ok {
					adm, exists := g.Admin[target]
					if !exists {
						return explore.Failf("setmetadata-nonfactory:binding", "contract %s set metadata of %s which the factory never created", c.Name, target)
					}
					if adm != c.Addr.String() {
						return explore.Failf("setmetadata-nonadmin:binding", "contract %s set metadata of %s but its admin is %q", c.Name, target, adm)
					}
					g.Disp[target] = "c" + c.Name
				}
				return nil
			}})
		}
		for _, to := range []*world.Actor{e.actors[0], e.actors[2]} {
			d, to := d, to
			ops = append(ops, explore.Op{Label: fmt.Sprintf("CMint(%s,to=%s)", short(e, d), to.Name), Do: func(ctx *sdk.Context, gg explore.Ghost) *explore.Fail {
				g := gg.(*ghost)
				amt := sdkmath.NewInt(5)
				ok, f := dispatch(ctx, tfbtypes.Message{MintTokens: &tfbtypes.MintTokens{Denom: d, Amount: amt, MintToAddress: to.Addr.String()}})
				if f != nil {
					return f
				}
				if ok {
					adm, exists := g.Admin[d]
					if !exists || adm != c.Addr.String() {
						return explore.Failf("mint-nonadmin:binding", "contract %s minted %s (exists=%v, admin %q)", c.Name, d, exists, adm)
					}
					e.sup(g, d).Add(e.sup(g, d), amt.BigInt())
					// minted to the admin (contract) and forwarded by a bank send from its own balance
					e.bal(g, to.Name, d).Add(e.bal(g, to.Name, d), amt.BigInt())
				}
				return nil
			}})
		}
		for _, from := range []string{"", c.Addr.String(), e.actors[2].Addr.String()} {
			d, from := d, from
			name := map[string]string{"": "self", c.Addr.String(): "own-address", e.actors[2].Addr.String(): "Z"}[from]
			ops = append(ops, explore.Op{Label: fmt.Sprintf("CBurn(%s,from=%s)", short(e, d), name), Do: func(ctx *sdk.Context, gg explore.Ghost) *explore.Fail {
				g := gg.(*ghost)
				amt := sdkmath.NewInt(3)
				ok, f := dispatch(ctx, tfbtypes.Message{BurnTokens: &tfbtypes.BurnTokens{Denom: d, Amount: amt, BurnFromAddress: from}})
				if f != nil {
					return f
				}
				if ok {
					adm, exists := g.Admin[d]
					if !exists || adm != c.Addr.String() {
						return explore.Failf("burn-nonadmin:binding", "contract %s burned %s (exists=%v, admin %q)", c.Name, d, exists, adm)
					}
					if from != "" && from != c.Addr.String() {
						return explore.Failf("burn-from-other:binding", "contract %s burned %s of %s from the balance of %s: a burn must debit the admin's own balance only", c.Name, amt, d, name)
					}
					e.sup(g, d).Sub(e.sup(g, d), amt.BigInt())
					e.bal(g, c.Name, d).Sub(e.bal(g, c.Name, d), amt.BigInt())
				}
				return nil
			}})
		}
		d := d
		ops = append(ops, explore.Op{Label: fmt.Sprintf("CChangeAdmin(%s,Y)", short(e, d)), Do: func(ctx *sdk.Context, gg explore.Ghost) *explore.Fail {
			g := gg.(*ghost)
			ok, f := dispatch(ctx, tfbtypes.Message{ChangeAdmin: &tfbtypes.ChangeAdmin{Denom: d, NewAdminAddress: e.actors[1].Addr.String()}})
			if f != nil {
				return f
			}
			if ok {
				adm, exists := g.Admin[d]
				if !exists || adm != c.Addr.String() {
					return explore.Failf("changeadmin-nonadmin:binding", "contract %s changed the admin of %s (exists=%v, admin %q)", c.Name, d, exists, adm)
				}
				g.Admin[d] = e.actors[1].Addr.String()
			}
			return nil
		}})
	}
	return ops
}

// metas digests the bank metadata of every denom of interest (incl. a never-created one).
func metas(e *env, ctx sdk.Context) string {
	var sb strings.Builder
	for _, d := range append(append([]string{}, e.denoms...), "factory/"+e.actors[1].Addr.String()+"/new") {
		md, found := e.w.App.BankKeeper.GetDenomMetaData(ctx, d)
		sb.WriteString(fmt.Sprintf("%v:%s:%s;", found, md.Name, md.Symbol))
	}
	return sb.String()
}

func supplies(e *env, ctx sdk.Context) string {
	var sb strings.Builder
	for _, d := range e.denoms {
		sb.WriteString(e.w.Supply(ctx, d).String() + ",")
		for _, a := range e.actors {
			sb.WriteString(e.w.Balance(ctx, a.Addr, d).String() + ",")
		}
	}
	return sb.String()
}

func short(e *env, s string) string {
	for _, a := range e.actors {
		s = strings.ReplaceAll(s, a.Addr.String(), a.Name)
	}
	if s == "" {
		return "none"
	}
	return s
}

var _ = sort.Strings
