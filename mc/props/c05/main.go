// C05 — what validators sign binds the whole message; message ids are never
// reused.
//
// Part 1 (bounded input enumeration): for every action type the full Cartesian
// product of small per-field alphabets over the values that are handed to the
// bridge contract on delivery is evaluated on the real signing-bytes functions
// (QueuedSignedMessage.GetBytesToSign after a store round trip for the five
// turnstone actions, NewInternalOutgingTxBatch / GetCheckpoint for the skyway
// batch); the map tuple -> bytes must be injective on the whole product.
//
// Part 2 (explicit-state BFS): Put / Replace / Remove through the real
// ConsensusKeeper on the four EVM queue types of two chains; every freshly
// allocated id must exceed every id ever allocated, in every queue of every
// chain, and an id must never live in two queues or come back after removal.
package main

import (
	"crypto/sha256"
	"encoding/hex"
	"encoding/json"
	"flag"
	"fmt"
	"os"
	"runtime/debug"
	"sort"
	"strings"
	"time"

	sdkmath "cosmossdk.io/math"
	"github.com/cosmos/cosmos-sdk/codec"
	codectypes "github.com/cosmos/cosmos-sdk/codec/types"
	sdk "github.com/cosmos/cosmos-sdk/types"
	"github.com/cosmos/gogoproto/proto"
	xchain "github.com/palomachain/paloma/v2/internal/x-chain"
	"github.com/palomachain/paloma/v2/x/consensus/keeper/consensus"
	consensustypes "github.com/palomachain/paloma/v2/x/consensus/types"
	evmkeeper "github.com/palomachain/paloma/v2/x/evm/keeper"
	evmtypes "github.com/palomachain/paloma/v2/x/evm/types"
	"github.com/palomachain/paloma/v2/zzverif/explore"
	"github.com/palomachain/paloma/v2/zzverif/report"
	"github.com/palomachain/paloma/v2/zzverif/world"
)

func main() {
	replay := flag.String("replay", "", "replay file")
	flag.Parse()
	n := report.Workers()
	report.Main("C05", "exploration", n, func(r *report.Run, shard, nshards int) { run(r, shard, nshards, *replay) })
}

func must(err error) {
	if err != nil {
		panic(err)
	}
}

func run(r *report.Run, shard, nshards int, replayFile string) {
	w := world.New(world.Config{Stakes: world.StakesOf(1_000_000, 1_000_000, 1_000_000), Users: []string{"adm", "U1"}, Height: 101})
	must(w.StdChain(w.Root, chainRefs[0]))
	// part 2 runs on a fork with a second chain, part 3 on a fork with live items
	idRoot := world.Fork(w.Root)
	must(w.AddChain(idRoot, chainRefs[1], 56, 1))

	r.Rule = "part 1: per action type (SubmitLogicCall, UpdateValset, CompassHandover, UploadUserSmartContract, UploadSmartContract, skyway batch) the full Cartesian product of per-field alphabets is evaluated twice: the real signing bytes (QueuedSignedMessage.GetBytesToSign after the Marshal/UnmarshalInterface round trip of the queue store, resp. NewInternalOutgingTxBatch/GetCheckpoint) and the DELIVERED key = calldata of the compass call (submit_logic_call / update_valset / compass_update_batch / deploy_contract / submit_batch) packed with the repository's compass ABI from the arguments VerifyAgainstTX assembles, plus the deployment id where the scheme hashes it; the packing is validated by the real VerifyAgainstTX on every tuple that differs from the base tuple in at most two fields. Oracle: tuples with the same signing bytes must have the same delivered key (hash-set check; evaluations = tuples, distinct = distinct signing bytes; coverage.distinct_delivered_* equals distinct_signing_bytes_* when the map delivered values -> signing bytes is a bijection). Optional / defaulted fields carry {unset, present-but-zero, default-1, default, default+1}: the fee object (nil, and every triple over {0, 99999, 100000, 100001}) and the gas estimate (0, 299999, 300000, 300001, 2^64-1). part 2: BFS over Put / Replace / Remove / Replace-of-removed-id / Replace-of-foreign-id through ConsensusKeeper.PutMessageInQueue and DeleteJob on the four EVM queue types of two chains; every freshly allocated id > every id ever allocated, ids of all queues pairwise distinct and equal to the reference sets (states/transitions in coverage.id_states / id_transitions). part 3 (views): BFS over Sign / Estimate x3 + election + fee attachment / ReassignTo (real Queue.ReassignValidator) / ReassignOrphaned (real keeper path) / Replace / Remove / Enqueue (scheduler job) / ReplaceCompass (ActivateChainReferenceID, new deployment id) / Confirm / EstimateBatch x3 + skyway end-blocker, from a state with an open batch, a SubmitLogicCall and an UpdateValset, on the application's own keepers; the signing queries (QueuedMessagesForSigning per validator, MessagesInQueue, LastPendingBatchRequestByAddr per validator, BatchRequestByNonce) are polled before and after every operation and must return the reference bytes of each item as it now stands; after every operation a validator that never signs submits, on throw-away forks, really signed MsgAddMessagesSignatures / MsgConfirmBatch txs over the reference bytes (must be accepted) and over the reference with one delivered field changed - relayer (the previous one after a reassignment), deployment id, message id / batch nonce, gas estimate, payload / valset id / amount, fees, deadline / timeout - (must be rejected)"
	r.Assumptions = []string{
		"'delivered' values are the arguments VerifyAgainstTX packs for the compass call of each action (eth_txable.go) and the submit_batch arguments for a batch; turnstone id is added where the present scheme hashes it (SubmitLogicCall, UpdateValset, UploadUserSmartContract, batch; not CompassHandover)",
		"domains: addresses as 20-byte values, bytes32 turnstone ids; fee payers are raw account bytes of 20 and 32 bytes (32-byte values that differ only in their first / only in their last 12 bytes, and one that ends in a 20-byte payer), pairwise distinct after the left-padding to bytes32 that VerifyAgainstTX applies (asserted at start-up)",
		"unset values of defaulted fields: a nil fee object and a gas estimate of 0 are never handed to the contract on this tree - estimate election and fee attachment happen in one step (CheckAndProcessEstimatedMessages), the relaying query withholds messages without an estimate (filters.HasGasEstimate), and VerifyAgainstTX dereferences m.Fees. The hashers substitute 100000/100000/100000 resp. 300000 'as pigeon does', so an unset value is put into the delivered class of that default (it may share signing bytes with the default and with nothing else). A PRESENT fee object is delivered as it is, including (0,0,0) (a relayer with fee multiplier 0), so every present triple must have its own signing bytes",
		"UploadSmartContract is a plain contract-creation transaction: no compass call, no signature is handed to any contract. Only bytecode and message id are required to influence the bytes; Abi, ConstructorInput (appended to the creation code, compared byte-for-byte by VerifyAgainstTX) and Retries are NOT covered by the signing bytes and are excluded",
		"address-typed values carried as hex strings (contract, deployer, validators, forward-call targets, relayer) reach the hashers and VerifyAgainstTX only through common.HexToAddress, so their delivered domain is 20 bytes; SubmitLogicCall.ContractAddress ([]byte) is read by neither side",
		"not delivered, therefore excluded: SubmitLogicCall.Abi/ContractAddress/ExecutionRequirements/Retries, UploadUserSmartContract.BlockHeight/Id/Retries, CompassHandover.Id, Message.ChainReferenceID/CompassAddr/Assignee/AssignedAtBlockHeight, message id and turnstone id for CompassHandover, gas estimate for SubmitLogicCall/UploadUserSmartContract, batch PalomaBlockCreated/ChainReferenceID/Assignee and transfer id/sender/bridge tax",
		"views: the reference bytes of an item are computed by this check from the item's current field values (read as fields from the stored item, re-assembled into fresh structs, hashed by the real hashers which part 1 shows to be injective). For a queue message the deployment id is the message's own stored TurnstoneID field (a compass replacement does not rewrite queued messages; their bytes stay bound to the deployment they were created for, and that is what AddSignature verifies). For a batch the ACCEPTED bytes must be the checkpoint under the chain's CURRENT deployment id",
		"views, weaker reading for what the batch queries publish: the tree does not re-issue the stored BytesToSign of an open batch when the compass is replaced (only at the next estimate election), so after a replacement the published checkpoint is still the one bound to the previous deployment id while ConfirmBatch accepts only the current one (validators that sign what is published are refused until the batch is re-estimated or times out; no signature is collected for the wrong deployment). The published checkpoint is therefore compared with the reference for the deployment id at its last (re)issue, and polls of a checkpoint that is stale in this sense are counted (views_info_batch_checkpoint_polled_while_bound_to_previous_deployment), not judged - same reading as C06",
		"views: probes are signed by the last validator, which never signs or confirms through an operation (so a rejection is never a duplicate-signature rejection); the in-memory state of the keepers is shared by all explored branches, which is intended (a query-side memo must not change what is handed out)",
		"replace (PutOptions.MsgIDToReplace) keeps the id of the replaced message by design: it must return exactly that id, allocate nothing, and fail for an id that is not live in that very queue",
		"BatchQueue (separate counter consensus-batch-queue-counter-) is instantiated by no module registered on this tree (no caller of WithBatch); only the plain Queue is explored",
		"BFS nodes do not retain their forked context (memory): hash and invariant are evaluated on the real forked state right after the operation; a node that is expanded gets its state rebuilt by re-executing its state-changing calls on a fresh fork of the root and must hash to the recorded value (harness panic otherwise)",
		"BFS state hash = reference id sets + key set of the consensus store + id counter values; message bodies are dropped from the hash (id allocation reads only the counter and key presence)",
	}

	if replayFile != "" {
		if shard == 0 {
			doReplay(r, w, idRoot, replayFile)
		}
		return
	}

	// C05_ONLY=inj|ids restricts a run to one part (used for mutation demos only;
	// such a run reports exhaustive=false).
	only := os.Getenv("C05_ONLY")
	if only != "" {
		r.Cap("C05_ONLY=" + only)
	}

	// ---- part 1
	acts := actions(w.App.AppCodec(), newDelivery(w.Root), r.Thorough())
	var total, distinct int64
	for i, a := range acts {
		if i%nshards != shard || only == "ids" || only == "views" {
			continue
		}
		st := checkInjective(r, a)
		total += st.tuples
		distinct += st.distinctBytes
		r.Extra["alphabet_sizes_"+a.Name] = fieldSizes(a)
		r.Extra["tuples_"+a.Name] = float64(st.tuples)
		r.Extra["distinct_signing_bytes_"+a.Name] = float64(st.distinctBytes)
		if st.distinctKeys > 0 {
			r.Extra["distinct_delivered_"+a.Name] = float64(st.distinctKeys)
		}
		r.Extra["tuples_sharing_bytes_with_same_delivered_values_"+a.Name] = float64(st.shared)
		if st.collisions > 0 {
			r.Extra["collisions_"+a.Name] = float64(st.collisions)
		}
		if a.Verify != nil {
			r.Extra["delivered_keys_accepted_by_VerifyAgainstTX_"+a.Name] = float64(st.verified)
			r.Extra["delivered_keys_unset_value_not_verifiable_"+a.Name] = float64(st.verifySkipped)
		}
	}
	if shard == 0 && only != "ids" && only != "views" {
		// informational (see Assumptions): the constructor input of a plain compass
		// deployment is not covered by the signing bytes.
		r.Extra["info_UploadSmartContract_bytes_ignore_constructor_input"] = uscIgnoresConstructorInput(w.App.AppCodec())
		n, d := checkPooled(r, acts)
		r.Extra["cross_action_pooled_tuples"] = float64(n)
		r.Extra["cross_action_pooled_distinct"] = float64(d)
	}
	r.Evaluations += total
	r.DistinctN += distinct
	if extMismatch > 0 {
		r.Extra["batch_external_checkpoint_mismatches"] = float64(extMismatch)
	}

	if only == "inj" {
		return
	}

	// ---- part 3 (before part 2: it is the smaller search)
	if only != "ids" {
		ve := newViewEnv(w, r, w.Root)
		vspec := ve.spec(shard, nshards)
		vres := explore.Run(r, vspec)
		ve.export(r, vres, shard, vspec)
		r.Evaluations += ve.askedChecked + ve.probes
		r.DistinctN += vres.States
	}
	if only == "views" {
		return
	}

	// ---- part 2
	e := newIDEnv(w, idRoot, r.Thorough())
	spec := e.spec(r, shard, nshards)
	debug.SetGCPercent(200)
	res := explore.Run(r, spec)
	r.Extra["id_states"] = float64(res.States)
	r.Extra["id_transitions"] = float64(res.Transitions)
	r.Extra["id_fresh_ids_checked"] = float64(e.fresh)
	r.Extra["id_replace_ok"] = float64(e.replaced)
	r.Extra["id_replace_refused"] = float64(e.refused)
	r.Extra["id_removed"] = float64(e.removed)
	r.Extra["id_states_rebuilt_and_rehashed"] = float64(e.rebuilt)
	if shard == 0 {
		r.Extra["id_depth_completed"] = float64(res.DepthCompleted)
		r.Extra["id_depth_bound"] = float64(spec.MaxDepth)
	}
	r.Evaluations += res.Transitions
	r.DistinctN += res.States
	// this check is an input enumeration + a small BFS; the report level is
	// "exploration", so fold the BFS counters into evaluations only.
}

// ===========================================================================
// part 1: injectivity of the signing bytes

type field struct {
	Name string
	N    int
	Show func(i int) string
}

func fieldSizes(a action) map[string]int {
	m := map[string]int{}
	for _, f := range a.Fields {
		m[f.Name] = f.N
	}
	return m
}

func (a action) size() int {
	n := 1
	for _, f := range a.Fields {
		n *= f.N
	}
	return n
}

func (a action) decode(lin int) []int {
	ix := make([]int, len(a.Fields))
	for i := len(a.Fields) - 1; i >= 0; i-- {
		ix[i] = lin % a.Fields[i].N
		lin /= a.Fields[i].N
	}
	return ix
}

func (a action) lin(ix []int) int {
	n := 0
	for i, f := range a.Fields {
		n = n*f.N + ix[i]
	}
	return n
}

func (a action) show(ix []int) map[string]string {
	m := map[string]string{}
	for i, f := range a.Fields {
		m[f.Name] = f.Show(ix[i])
	}
	return m
}

func (a action) diff(x, y []int) []string {
	var d []string
	for i := range x {
		if x[i] != y[i] {
			d = append(d, a.Fields[i].Name)
		}
	}
	return d
}

func pick[T any](thorough bool, quick []T, extra ...T) []T {
	if thorough {
		return append(append([]T{}, quick...), extra...)
	}
	return quick
}

func scalar[T any](name string, vals []T, show func(T) string) field {
	return field{Name: name, N: len(vals), Show: func(i int) string { return show(vals[i]) }}
}

func showStr(s string) string      { return fmt.Sprintf("%q", s) }
func showU64(u uint64) string      { return fmt.Sprintf("%d", u) }
func showI64(u int64) string       { return fmt.Sprintf("%d", u) }
func showBytes(b []byte) string    { return fmt.Sprintf("0x%x(%dB)", b, len(b)) }
func showAddr(s string) string     { return s }
func showInt(i sdkmath.Int) string { return i.String() }

// seqs lists every sequence over {0..k-1} with minLen <= length <= maxLen.
func seqs(k, minLen, maxLen int) [][]int {
	var out [][]int
	cur := [][]int{{}}
	for l := 0; l <= maxLen; l++ {
		if l >= minLen {
			out = append(out, cur...)
		}
		var next [][]int
		for _, s := range cur {
			for v := 0; v < k; v++ {
				next = append(next, append(append([]int{}, s...), v))
			}
		}
		cur = next
	}
	return out
}

func listField(name string, ss [][]int, showElem func(int) string) field {
	return field{Name: name, N: len(ss), Show: func(i int) string {
		var p []string
		for _, v := range ss[i] {
			p = append(p, showElem(v))
		}
		return "[" + strings.Join(p, " ") + "]"
	}}
}

// mustDistinctPadded: the alphabet must be pairwise distinct at the level of
// the delivered value (left-padded to bytes32 exactly as eth_txable.go does).
func mustDistinctPadded(vals [][]byte) {
	seen := map[[32]byte]int{}
	for i, v := range vals {
		if len(v) > 32 {
			panic("harness: fee payer longer than 32 bytes")
		}
		padded := [32]byte(append(rep(0, 32-len(v)), v...))
		if j, dup := seen[padded]; dup {
			panic(fmt.Sprintf("harness: fee payer values %d and %d are the same bytes32", j, i))
		}
		seen[padded] = i
	}
}

func be64(u uint64) []byte {
	b := make([]byte, 8)
	for i := 7; i >= 0; i-- {
		b[i] = byte(u)
		u >>= 8
	}
	return b
}

func rep(b byte, n int) []byte { return []byte(strings.Repeat(string([]byte{b}), n)) }

var fixedTime = time.Unix(1_700_000_000, 0).UTC()

// turnstoneBytes is the real path from a turnstone message to the bytes the
// validators are given: pack into Any, store encoding (Queue.save), store
// decoding (Queue.GetMsgByID), QueuedSignedMessage.GetBytesToSign.
func turnstoneBytes(cdc codec.Codec, msg *evmtypes.Message, id, gas uint64) ([]byte, error) {
	anyMsg, err := codectypes.NewAnyWithValue(msg)
	if err != nil {
		return nil, err
	}
	q := &consensustypes.QueuedSignedMessage{
		Id: id, Msg: anyMsg, SignData: []*consensustypes.SignData{}, GasEstimates: []*consensustypes.GasEstimate{},
		AddedAtBlockHeight: 101, AddedAt: fixedTime, RequireSignatures: true,
		FlagMask: consensustypes.BuildFlagMask(true), GasEstimate: gas,
	}
	bz, err := cdc.MarshalInterface(q)
	if err != nil {
		return nil, err
	}
	var sm consensustypes.QueuedSignedMessageI
	if err := cdc.UnmarshalInterface(bz, &sm); err != nil {
		return nil, err
	}
	return sm.GetBytesToSign(cdc)
}

func baseMessage(turnstone, relayer string) *evmtypes.Message {
	return &evmtypes.Message{
		TurnstoneID: turnstone, ChainReferenceID: chainRefs[0], CompassAddr: world.CompassAddr,
		Assignee: "palomavaloper1verif", AssignedAtBlockHeight: sdkmath.NewInt(101), AssigneeRemoteAddress: relayer,
	}
}

func uscIgnoresConstructorInput(cdc codec.Codec) bool {
	var hs [2][]byte
	for i, in := range [][]byte{{1, 2, 3}, {4, 5, 6, 7}} {
		m := baseMessage(world.CompassID, "0x0000000000000000000000000000000000000002")
		m.Action = &evmtypes.Message_UploadSmartContract{UploadSmartContract: &evmtypes.UploadSmartContract{
			Bytecode: []byte{0x60, 0x80}, Abi: "[]", ConstructorInput: in, Id: 9,
		}}
		hs[i], _ = turnstoneBytes(cdc, m, 1, 0)
	}
	return string(hs[0]) == string(hs[1])
}

// ===========================================================================
// part 2: message ids

var chainRefs = []string{"eth-main", "bnb-main"}

// opRec is one state-changing operation (P put, R replace, D delete).
type opRec struct {
	K  byte
	Q  int
	ID uint64
}

type ghost struct {
	Max  uint64     // largest id ever handed out
	Live [][]uint64 // per queue: ids currently in the queue, ascending

	// Not part of the state: how to rebuild the application state of this node
	// (see idEnv.materialise) and the hash / invariant verdict computed on it.
	path  []opRec
	light bool
	hash  string
	inv   *explore.Fail
}

func (g *ghost) Clone() explore.Ghost {
	n := &ghost{Max: g.Max, Live: make([][]uint64, len(g.Live)), path: append([]opRec{}, g.path...)}
	for i, l := range g.Live {
		n.Live[i] = append([]uint64{}, l...)
	}
	return n
}

func (g *ghost) Key() string {
	b, _ := json.Marshal(g) // Max and Live only
	return string(b)
}

func (g *ghost) isLive(id uint64) (int, bool) {
	for q, l := range g.Live {
		for _, x := range l {
			if x == id {
				return q, true
			}
		}
	}
	return 0, false
}

// largest id that was handed out and is in no queue any more (0 = none)
func (g *ghost) lastDead() uint64 {
	for id := g.Max; id >= 1; id-- {
		if _, ok := g.isLive(id); !ok {
			return id
		}
	}
	return 0
}

type queueDef struct {
	name  string
	short string
	msg   func(variant int) proto.Message
}

type idEnv struct {
	w        *world.World
	root     sdk.Context
	qs       []queueDef
	thorough bool
	last     *explore.Node // node whose rebuilt context is still held

	fresh, replaced, refused, removed, rebuilt int64
}

func newIDEnv(w *world.World, root sdk.Context, thorough bool) *idEnv {
	e := &idEnv{w: w, root: root, thorough: thorough}
	for ci, ref := range chainRefs {
		ref := ref
		mk := func(sub string) string {
			return consensustypes.Queue(sub, xchain.Type("evm"), xchain.ReferenceID(ref))
		}
		c := fmt.Sprintf("c%d", ci)
		e.qs = append(e.qs,
			queueDef{mk(evmtypes.ConsensusTurnstoneMessage), c + ".msg", func(v int) proto.Message {
				m := baseMessage(world.CompassID, "0x0000000000000000000000000000000000000002")
				m.ChainReferenceID = ref
				m.Action = &evmtypes.Message_SubmitLogicCall{SubmitLogicCall: &evmtypes.SubmitLogicCall{
					HexContractAddress: "0x0000000000000000000000000000000000000001", Abi: []byte("[]"), Payload: []byte{byte(v)},
					Deadline: 1_700_000_600, SenderAddress: rep(0x11, 20), Fees: &evmtypes.Fees{RelayerFee: 1, CommunityFee: 1, SecurityFee: 1},
				}}
				return m
			}},
			queueDef{mk(evmkeeper.ConsensusGetValidatorBalances), c + ".bal", func(v int) proto.Message {
				return &evmtypes.ValidatorBalancesAttestation{FromBlockTime: fixedTime.Add(time.Duration(v) * time.Second)}
			}},
			queueDef{mk(evmkeeper.ConsensusCollectFundEvents), c + ".fund", func(v int) proto.Message {
				return &evmtypes.CollectFunds{FromBlockHeight: 1, ToBlockHeight: uint64(2 + v)}
			}},
			queueDef{mk(evmkeeper.ConsensusGetReferenceBlock), c + ".ref", func(v int) proto.Message {
				return &evmtypes.ReferenceBlockAttestation{FromBlockTime: fixedTime.Add(time.Duration(v) * time.Second)}
			}},
		)
	}
	return e
}

func (e *idEnv) spec(r *report.Run, shard, nshards int) explore.Spec {
	g0 := &ghost{Live: make([][]uint64, len(e.qs))}
	spec := explore.Spec{
		Name: "ids", Init: []*explore.Node{{Ctx: e.root, Ghost: g0}}, Ops: e.ops, Hash: e.hash, Invariant: e.invariant,
		MaxDepth: 6, Deadline: r.Deadline(150*time.Second, 27*time.Minute),
		ShardDepth: 3, Shard: shard, NShards: nshards,
	}
	if e.thorough {
		spec.MaxDepth = 7
	}
	return spec
}

// --- the three real state-changing calls (used by the operations and by materialise)

func (e *idEnv) put(ctx sdk.Context, qi int) (uint64, error) {
	return e.w.App.ConsensusKeeper.PutMessageInQueue(ctx, e.qs[qi].name, e.qs[qi].msg(0),
		&consensus.PutOptions{RequireSignatures: true, RequireGasEstimation: qi%4 == 0})
}

func (e *idEnv) replace(ctx sdk.Context, qi int, id uint64, variant int) (uint64, error) {
	return e.w.App.ConsensusKeeper.PutMessageInQueue(ctx, e.qs[qi].name, e.qs[qi].msg(variant), &consensus.PutOptions{MsgIDToReplace: id})
}

func (e *idEnv) remove(ctx sdk.Context, qi int, id uint64) error {
	return e.w.App.ConsensusKeeper.DeleteJob(ctx, e.qs[qi].name, id)
}

// Memory: a forked context costs ~20 kB and keeps its ancestors alive, so the
// search does not keep them. After an operation the hash and the invariant
// verdict are computed on the real forked state and the fork is dropped; when
// the node is expanded its state is rebuilt by re-executing its (<= depth)
// state-changing calls on a fresh fork of the root, and the rebuilt state must
// hash to the recorded value.
func (e *idEnv) settle(ctx *sdk.Context, g *ghost) {
	n := &explore.Node{Ctx: *ctx, Ghost: g}
	g.inv = e.realInvariant(n)
	g.hash = e.realHash(n)
	g.light = true
	*ctx = e.root
}

func (e *idEnv) materialise(n *explore.Node) {
	if e.last != nil && e.last != n {
		if lg := e.last.Ghost.(*ghost); lg.hash != "" {
			e.last.Ctx, lg.light = e.root, true
		}
	}
	e.last = n
	g := n.Ghost.(*ghost)
	if !g.light {
		return
	}
	ctx := world.Fork(e.root)
	for _, o := range g.path {
		var err error
		switch o.K {
		case 'P':
			var id uint64
			if id, err = e.put(ctx, o.Q); err == nil && id != o.ID {
				err = fmt.Errorf("put returned %d, recorded %d", id, o.ID)
			}
		case 'R':
			_, err = e.replace(ctx, o.Q, o.ID, 1)
		case 'D':
			err = e.remove(ctx, o.Q, o.ID)
		}
		if err != nil {
			panic(fmt.Sprintf("harness: cannot rebuild state %v: %v", g.path, err))
		}
	}
	n.Ctx, g.light = ctx, false
	e.rebuilt++
	if h := e.realHash(n); h != g.hash {
		panic(fmt.Sprintf("harness: rebuilt state of %v hashes differently", g.path))
	}
}

func (e *idEnv) hash(n *explore.Node) string {
	if g := n.Ghost.(*ghost); g.light {
		return g.hash
	}
	return e.realHash(n)
}

func (e *idEnv) invariant(n *explore.Node) *explore.Fail {
	if g := n.Ghost.(*ghost); g.light {
		return g.inv
	}
	return e.realInvariant(n)
}

func (e *idEnv) realHash(n *explore.Node) string {
	var sb strings.Builder
	sb.WriteString(n.Ghost.Key())
	it := n.Ctx.KVStore(e.w.App.GetKey(consensustypes.StoreKey)).Iterator(nil, nil)
	defer it.Close()
	for ; it.Valid(); it.Next() {
		k := it.Key()
		sb.WriteByte('|')
		sb.WriteString(hex.EncodeToString(k))
		if strings.HasPrefix(string(k), "generated-ids-") {
			sb.WriteByte('=')
			sb.WriteString(hex.EncodeToString(it.Value()))
		}
	}
	h := sha256.Sum256([]byte(sb.String()))
	return string(h[:20])
}

const queueStorePrefix = "consensus-queue-signing-type--"

// invariant (every state, read straight from the consensus store): the ids
// stored under each queue's prefix equal the reference sets; no id lives in two
// queues; no stored id exceeds the largest id handed out.
func (e *idEnv) realInvariant(n *explore.Node) *explore.Fail {
	g := n.Ghost.(*ghost)
	got := make([][]uint64, len(e.qs))
	owner := map[uint64]int{}
	it := n.Ctx.KVStore(e.w.App.GetKey(consensustypes.StoreKey)).Iterator(nil, nil)
	defer it.Close()
	for ; it.Valid(); it.Next() {
		k := string(it.Key())
		if !strings.HasPrefix(k, queueStorePrefix) {
			continue
		}
		qi := -1
		for i, q := range e.qs {
			if len(k) == len(queueStorePrefix)+len(q.name)+8 && strings.HasPrefix(k[len(queueStorePrefix):], q.name) {
				qi = i
			}
		}
		if qi < 0 {
			return explore.Failf("harness:key", "unexpected queue key %q", k)
		}
		id := sdk.BigEndianToUint64([]byte(k[len(k)-8:]))
		if o, dup := owner[id]; dup {
			return explore.Failf("id-in-two-queues", "id %d is live in %s and in %s", id, e.qs[o].short, e.qs[qi].short)
		}
		owner[id] = qi
		if id > g.Max {
			return explore.Failf("id-beyond-counter", "id %d in %s exceeds the largest id handed out (%d)", id, e.qs[qi].short, g.Max)
		}
		got[qi] = append(got[qi], id)
	}
	for qi := range e.qs {
		if fmt.Sprint(got[qi]) != fmt.Sprint(g.Live[qi]) {
			return explore.Failf("queue-content", "queue %s holds ids %v, reference %v", e.qs[qi].short, got[qi], g.Live[qi])
		}
	}
	return nil
}

// listed compares what the real keeper lists for queue qi with the reference.
func (e *idEnv) listed(ctx sdk.Context, g *ghost, qi int) *explore.Fail {
	msgs, err := e.w.App.ConsensusKeeper.GetMessagesFromQueue(ctx, e.qs[qi].name, 0)
	if err != nil {
		return explore.Failf("harness:list", "GetMessagesFromQueue(%s): %v", e.qs[qi].name, err)
	}
	var got []uint64
	for _, m := range msgs {
		got = append(got, m.GetId())
	}
	sort.Slice(got, func(i, j int) bool { return got[i] < got[j] })
	if fmt.Sprint(got) != fmt.Sprint(g.Live[qi]) {
		return explore.Failf("queue-listing", "keeper lists ids %v for %s, reference %v", got, e.qs[qi].short, g.Live[qi])
	}
	return nil
}

func (e *idEnv) ops(n *explore.Node) []explore.Op {
	e.materialise(n)
	g0 := n.Ghost.(*ghost)
	var ops []explore.Op
	// op wraps a step: run it on the forked state, then settle (hash + invariant
	// on the real state, drop the fork).
	op := func(label string, do func(ctx sdk.Context, g *ghost) *explore.Fail) {
		ops = append(ops, explore.Op{Label: label, Do: func(ctx *sdk.Context, gg explore.Ghost) *explore.Fail {
			g := gg.(*ghost)
			if f := do(*ctx, g); f != nil {
				return f
			}
			e.settle(ctx, g)
			return nil
		}})
	}
	dead := g0.lastDead()
	for qi, q := range e.qs {
		qi, q := qi, q
		// Put: a fresh id, larger than every id ever handed out anywhere.
		op("Put("+q.short+")", func(ctx sdk.Context, g *ghost) *explore.Fail {
			id, err := e.put(ctx, qi)
			if err != nil {
				return explore.Failf("harness:put", "PutMessageInQueue(%s): %v", q.name, err)
			}
			e.fresh++
			if id <= g.Max {
				where := "removed earlier"
				if oq, live := g.isLive(id); live {
					where = "still live in " + e.qs[oq].short
				}
				return explore.Failf("id-not-fresh", "Put into %s returned id %d, but ids up to %d were already handed out (id %d: %s); live ids %v",
					q.short, id, g.Max, id, where, g.Live)
			}
			g.Max = id
			g.Live[qi] = append(g.Live[qi], id)
			g.path = append(g.path, opRec{'P', qi, id})
			return nil
		})
		if len(g0.Live[qi]) > 0 {
			// Replace the newest message of the queue: same id, nothing allocated.
			target := g0.Live[qi][len(g0.Live[qi])-1]
			op(fmt.Sprintf("Replace(%s,%d)", q.short, target), func(ctx sdk.Context, g *ghost) *explore.Fail {
				id, err := e.replace(ctx, qi, target, 1)
				if err != nil {
					return explore.Failf("harness:replace", "replace of live id %d in %s: %v", target, q.short, err)
				}
				e.replaced++
				if id != target {
					return explore.Failf("replace-changed-id", "replace of id %d in %s returned id %d", target, q.short, id)
				}
				g.path = append(g.path, opRec{'R', qi, target})
				return e.listed(ctx, g, qi)
			})
			// Remove the oldest (and, thorough, the newest) message.
			victims := []uint64{g0.Live[qi][0]}
			if e.thorough && len(g0.Live[qi]) > 1 {
				victims = append(victims, target)
			}
			for _, v := range victims {
				v := v
				op(fmt.Sprintf("Remove(%s,%d)", q.short, v), func(ctx sdk.Context, g *ghost) *explore.Fail {
					if err := e.remove(ctx, qi, v); err != nil {
						return explore.Failf("harness:remove", "DeleteJob(%s,%d): %v", q.short, v, err)
					}
					e.removed++
					var keep []uint64
					for _, x := range g.Live[qi] {
						if x != v {
							keep = append(keep, x)
						}
					}
					g.Live[qi] = keep
					g.path = append(g.path, opRec{'D', qi, v})
					return e.listed(ctx, g, qi)
				})
			}
		}
		// Replace with the id of a removed message: must be refused (no id comes back).
		if dead != 0 && (qi%4 == 0 || e.thorough) {
			op(fmt.Sprintf("ReplaceRemoved(%s,%d)", q.short, dead), func(ctx sdk.Context, g *ghost) *explore.Fail {
				id, err := e.replace(ctx, qi, dead, 2)
				if err == nil {
					return explore.Failf("removed-id-reused", "replace with removed id %d in %s succeeded and returned id %d", dead, q.short, id)
				}
				e.refused++
				return nil
			})
		}
		// Replace with an id that lives in another queue: must be refused.
		if qi%4 == 0 || e.thorough {
			var foreign uint64
			for oq, l := range g0.Live {
				if oq != qi && len(l) > 0 && l[len(l)-1] > foreign {
					foreign = l[len(l)-1]
				}
			}
			if foreign != 0 {
				op(fmt.Sprintf("ReplaceForeign(%s,%d)", q.short, foreign), func(ctx sdk.Context, g *ghost) *explore.Fail {
					id, err := e.replace(ctx, qi, foreign, 2)
					if err == nil {
						return explore.Failf("foreign-id-reused", "replace in %s with id %d that lives in another queue succeeded (returned %d)", q.short, foreign, id)
					}
					e.refused++
					return nil
				})
			}
		}
	}
	return ops
}

// ===========================================================================
// replay

func doReplay(r *report.Run, w *world.World, idRoot sdk.Context, file string) {
	var v report.Violation
	b, err := os.ReadFile(file)
	if err == nil {
		err = json.Unmarshal(b, &v)
	}
	if err != nil {
		fmt.Fprintln(os.Stderr, err)
		os.Exit(2)
	}
	m, _ := v.Replay.(map[string]interface{})
	ints := func(x interface{}) []int {
		var out []int
		l, _ := x.([]interface{})
		for _, e := range l {
			f, _ := e.(float64)
			out = append(out, int(f))
		}
		return out
	}
	if p, ok := m["path"]; ok {
		var path []string
		for _, s := range p.([]interface{}) {
			path = append(path, s.(string))
		}
		spec := newIDEnv(w, idRoot, r.Thorough()).spec(r, 0, 1)
		if m["scenario"] == "views" {
			spec = newViewEnv(w, r, w.Root).spec(0, 1)
		}
		if f := explore.Replay(spec, path); f != nil {
			r.Violate(f.Signature, f.Message, v.Replay)
		}
		r.Evaluations, r.DistinctN = int64(len(path)), 2
		r.Sample(path)
		return
	}
	// the replay file records indices into the alphabets of the tier it was found in
	for _, thorough := range []bool{r.Thorough(), !r.Thorough()} {
		acts := actions(w.App.AppCodec(), newDelivery(w.Root), thorough)
		find := func(name interface{}) *action {
			for i := range acts {
				if acts[i].Name == name {
					return &acts[i]
				}
			}
			return nil
		}
		a, bb := find(m["action"]), find(m["action"])
		if m["kind"] == "cross-action" {
			a, bb = find(m["action_a"]), find(m["action_b"])
		}
		if a == nil || bb == nil {
			break
		}
		x, y := ints(m["index_a"]), ints(m["index_b"])
		if len(x) != len(a.Fields) || len(y) != len(bb.Fields) {
			break
		}
		if want, ok := m["tuple_a"].(map[string]interface{}); ok && fmt.Sprint(want) != fmt.Sprint(toIface(a.show(x))) {
			continue // other tier's alphabet
		}
		hx, kx, errx := a.Eval(x)
		hy, ky, erry := bb.Eval(y)
		sameKey := m["kind"] != "cross-action" && keyOf(kx, a.lin(x)) == keyOf(ky, bb.lin(y))
		r.Evaluations, r.DistinctN = 2, 1
		r.Sample(map[string]interface{}{"A": a.show(x), "bytes_A": hex.EncodeToString(hx), "B": bb.show(y), "bytes_B": hex.EncodeToString(hy)})
		if errx != nil || erry != nil {
			r.Violate(v.Signature, fmt.Sprintf("signing bytes cannot be computed: %v / %v", errx, erry), v.Replay)
		} else if string(hx) == string(hy) && !sameKey {
			r.Violate(v.Signature, fmt.Sprintf("%s %v and %s %v have the same signing bytes %x", a.Name, a.show(x), bb.Name, bb.show(y), hx), v.Replay)
		} else {
			r.DistinctN = 2
		}
		return
	}
	fmt.Fprintln(os.Stderr, "replay file not understood")
	os.Exit(2)
}

func toIface(m map[string]string) map[string]interface{} {
	o := map[string]interface{}{}
	for k, v := range m {
		o[k] = v
	}
	return o
}
