// C13 — validators are never punished for doing what the chain asked.
//
// Two scenarios, each an explicit-state BFS over the real handlers on forked
// application state (one world per worker process; the first workers explore
// scenario A, the last three scenario B, one stake vector each):
//
//	A "evidence": batch life-cycle of C01 (Send, EndBlk50, EstimateQuorum,
//	  Confirm(v), EndBlkLate, ExecutedQuorum) plus MsgSubmitBadSignatureEvidence
//	  by any account over every checkpoint the ghost saw published (with the
//	  genuine confirmation signatures the validators produced for it) and over
//	  never-published checkpoints signed with the validators' real eth keys.
//	B "prune": one turnstone message in the consensus queue (job execution),
//	  gas-estimate election, error / public-access data, evidence by every
//	  subset of the validators, for three stake vectors (fractions <10 %, 10 %,
//	  1/3, 2/3-1 share exact; totals not divisible by 10 with a subset inside
//	  [floor(T/10), T/10)), then the consensus end-blocker at a height = 0 mod 50
//	  with the message older than 300 blocks.
package main

import (
	"context"
	"crypto/sha256"
	"encoding/hex"
	"encoding/json"
	"flag"
	"fmt"
	"math/big"
	"os"
	"sort"
	"strconv"
	"strings"
	"time"

	"cosmossdk.io/core/appmodule"
	sdkmath "cosmossdk.io/math"
	codectypes "github.com/cosmos/cosmos-sdk/codec/types"
	sdk "github.com/cosmos/cosmos-sdk/types"
	ethcommon "github.com/ethereum/go-ethereum/common"
	ctypes "github.com/palomachain/paloma/v2/x/consensus/types"
	evmtypes "github.com/palomachain/paloma/v2/x/evm/types"
	schedtypes "github.com/palomachain/paloma/v2/x/scheduler/types"
	skywaytypes "github.com/palomachain/paloma/v2/x/skyway/types"
	vtypes "github.com/palomachain/paloma/v2/x/valset/types"
	"github.com/palomachain/paloma/v2/zzverif/explore"
	"github.com/palomachain/paloma/v2/zzverif/report"
	"github.com/palomachain/paloma/v2/zzverif/world"
)

const (
	ref   = "eth-main"
	erc20 = "0x1111111111111111111111111111111111111111"
)

// Scenario B is explored once per stake vector, each in its own worker process
// (one world per process); the remaining workers explore scenario A.
//
//	prune          total 30 000 000: v0 = 6.67 % (<10 %), v1 = 10 % exactly,
//	               v0+v1+v2 = 1/3 exactly, v0..v4 = 2/3 of the total minus one
//	               share, v5 alone = 1/3 plus one share.
//	prune-T30000009 total not divisible by 10: v0 = 3 000 000 lies in
//	               [floor(T/10), T/10) (9.99999 %, fewer than 10 %), v1 =
//	               3 000 001 lies just above T/10.
//	prune-T19000001 four validators, smallest stakes a bonded validator can
//	               have (a genesis validator below the power reduction of 10^6
//	               is not bonded, so totals like 19 shares cannot exist):
//	               v0 = 1 900 000 = floor(T/10) lies in [floor(T/10), T/10),
//	               v1 = 2 000 001 is above 10 %.
var stakeVectors = []struct {
	name   string
	stakes []int64
}{
	{"prune", []int64{2_000_000, 3_000_000, 5_000_000, 5_000_000, 4_999_999, 10_000_001}},
	{"prune-T30000009", []int64{3_000_000, 3_000_001, 5_000_000, 5_000_000, 4_000_000, 10_000_008}},
	{"prune-T19000001", []int64{1_900_000, 2_000_001, 3_000_000, 12_100_000}},
}

func must(err error) {
	if err != nil {
		panic(err)
	}
}

func main() {
	replay := flag.String("replay", "", "replay file")
	flag.Parse()
	n := report.Workers()
	if report.Tier() != "thorough" && n > 8 {
		n = 8
	}
	if n < len(stakeVectors)+1 {
		n = len(stakeVectors) + 1
	}
	if *replay != "" {
		n = 1
	}
	report.Main("C13", "model_checking", n, func(r *report.Run, shard, nshards int) { run(r, shard, nshards, *replay) })
}

func run(r *report.Run, shard, nshards int, replayFile string) {
	r.Rule = "two BFS scenarios on the real handlers. A: Send/EndBlk50 (batch build)/Rotate(v) (MsgAddExternalChainInfoForValidator with a second key; no snapshot rebuild; 1 rotation per history)/EstimateQuorum (3 estimates + skyway end-blocker: election re-issues the checkpoint)/Confirm(v,batch) (genuine signature over the stored BytesToSign)/EndBlkLate (timeout)/ExecutedQuorum/Evidence(by, checkpoint, signer) with (checkpoint, signer) over every published checkpoint x every validator that signed it, over never-published checkpoints (mutated amount; mutated gas estimate) x {every validator's currently registered key, its abandoned key once it rotated, a never-registered key}, and over fabricated subjects whose BytesToSign FIELD is chosen by the accuser {sign-bytes of a turnstone queue message every validator signed via MsgAddMessagesSignatures, the latest published checkpoint, 32 bytes nobody issued} with the validators' genuine signatures over those bytes. B: Exec (job -> turnstone message)/EstimateQuorum/ErrorData/PublicData/Ev(v,proof) for every snapshot validator and for vx, a bonded validator outside the snapshot/ReEv(v,proof) (a validator that already attested re-submits the same or a corrected proof; at most 1 per history; thorough: 2 in the 4-member vector)/Prune (consensus module end-blocker at h = 0 mod 50, message older than 300 blocks). A state is distinct by (skyway store | consensus store, staking jailed flags, ghost)"
	r.Assumptions = []string{
		"'published checkpoint' = every value the stored BytesToSign of any open batch took, sampled by the ghost after every operation together with the batch as it was then (the evidence subject)",
		"a validator's signature over a published checkpoint becomes available to the accuser when the validator submits it (Confirm op, whether or not the chain accepts the confirm); signatures over never-published checkpoints are produced with the real keys directly (that is the misbehaviour the handler exists for)",
		"weaker reading for unpublished evidence: the property only forbids jailing anybody but the registered owner of the recovered key; that such evidence does jail the signer is counted (unpublished_evidence_jailed) but not required",
		"'bytes the chain issued for signing' = the published batch checkpoints plus the sign-bytes of the consensus-queue message (a SubmitLogicCall put there by a job execution during set-up, estimate elected, signed by all validators with MsgAddMessagesSignatures); one queued message type stands for all turnstone messages (UpdateValset is signed with the same key and scheme)",
		"'registered key' = the key the validator has in the live external-chain-info registry at the moment the evidence is submitted (ghost: Rot flags, cross-checked against EvmKeeper.GetEthAddressByValidator after every rotation); a signature by an abandoned or never-registered key must not jail anybody; validators confirm and estimate with their current key",
		"evidence over a published checkpoint must be rejected and must not flip any jailed flag; no other operation of scenario A may flip a jailed flag",
		"quorum operations (estimates, claims) are macros of three validator messages + skyway end-blocker (vote interleavings are C02's subject)",
		"scenario B prunes with the consensus module's own EndBlock (estimates, attestation, PruneOldMessages(300) at h%50==0) and not the whole module manager, so keep-alive jailing of x/valset (C12) cannot be confused with prune-time jailing; the blocks between hand-in of evidence and the prune height are empty",
		"'fewer than 10% attested' is read as 10*shares(evidence suppliers in the snapshot) < total snapshot shares; at exactly 10% the property does not constrain jailing of non-suppliers",
		"shares of suppliers are taken from the genesis stakes and cross-checked against the current snapshot; 'shares that attested' are the shares of the DISTINCT validators whose evidence the chain accepted (a validator re-submitting evidence attests once)",
		"every scenario-B world has one more bonded validator vx without a chain account, hence outside the valset snapshot (0 snapshot shares); the chain accepts its evidence; in the 4-member vector vx attests at any position of the hand-in order (thorough: also first, before every member, in the 6-member vectors); its evidence counts for nothing in 'shares that attested'",
		"scenario B hands evidence of snapshot members in in ascending validator order, each validator once with proof A or (v2 and the last validator; thorough: all) the dissenting proof B: the prune-time code reads the evidence as a set (address look-ups, share sums, grouping by proof hash), so other hand-in orders reach the same decisions",
		"validators with more than 25% of the bonded power (the last validator of each scenario-B stake vector) cannot be jailed by x/valset at all; the others are jailable",
		"scenario B runs once per stake vector (totals 30 000 000, 30 000 009 and 19 000 001 shares; a snapshot share is a bonded token and a bonded validator needs at least 10^6, so smaller totals are unreachable), one worker process each; the 10% rule is evaluated literally with big integers: nobody may be jailed when 10*votes < total",
		"the A_*/B_* counters are per-worker sums (operations of the two shared prefix levels are counted once per worker); states/transitions are exact",
	}
	nB := len(stakeVectors)
	scenario := "evidence"
	if nshards > nB && shard >= nshards-nB {
		scenario = stakeVectors[shard-(nshards-nB)].name
	}
	var path []string
	if replayFile != "" {
		var v report.Violation
		b, err := os.ReadFile(replayFile)
		if err == nil {
			err = json.Unmarshal(b, &v)
		}
		if err != nil {
			fmt.Fprintln(os.Stderr, err)
			os.Exit(2)
		}
		m := v.Replay.(map[string]interface{})
		scenario, _ = m["scenario"].(string)
		for _, p := range m["path"].([]interface{}) {
			path = append(path, p.(string))
		}
	}
	var spec explore.Spec
	if scenario == "evidence" {
		spec = specA(r)
		spec.Shard, spec.NShards = shard, nshards-nB
	} else {
		found := false
		for _, sv := range stakeVectors {
			if sv.name == scenario {
				spec = specB(r, sv.name, sv.stakes)
				found = true
			}
		}
		if !found {
			fmt.Fprintln(os.Stderr, "unknown scenario", scenario)
			os.Exit(2)
		}
		spec.Shard, spec.NShards = 0, 1
	}
	spec.ShardDepth = 2
	if scenario == "evidence" {
		// the first levels of scenario A are narrow (Send, EndBlk50, Rotate): shard deeper
		spec.ShardDepth = 4
	}
	if nshards <= nB {
		spec.Shard, spec.NShards = 0, 1
	}
	if replayFile != "" {
		if f := explore.Replay(spec, path); f != nil {
			r.Violate(f.Signature, f.Message, map[string]interface{}{"scenario": scenario, "path": path})
		}
		r.States, r.Transitions = 1, int64(len(path))
		r.Sample(path)
		return
	}
	t0 := time.Now()
	res := explore.Run(r, spec)
	if spec.Shard == 0 {
		r.Extra["depth_completed_"+scenario] = float64(res.DepthCompleted)
		r.Extra["search_wall_s_"+scenario+"_worker0"] = time.Since(t0).Seconds()
	}
	r.Extra["states_"+scenario] = float64(res.States)
	r.Extra["transitions_"+scenario] = float64(res.Transitions)
	for k, v := range counters {
		r.Extra[k] = float64(v)
	}
	for k := range cases {
		r.Case(k)
	}
	r.Evaluations = 0 // evaluations = transitions (set by report for model_checking)
}

// counters are summed over workers; cases are distinct non-trivial outcomes.
var (
	counters = map[string]int64{}
	cases    = map[string]struct{}{}
)

func jailed(w *world.World, ctx sdk.Context) []bool {
	out := make([]bool, len(w.Vals))
	for i, v := range w.Vals {
		val, err := w.App.StakingKeeper.GetValidator(ctx, v.ValAddr)
		must(err)
		out[i] = val.Jailed
	}
	return out
}

func flagString(f []bool) string {
	var sb strings.Builder
	for _, b := range f {
		if b {
			sb.WriteByte('J')
		} else {
			sb.WriteByte('-')
		}
	}
	return sb.String()
}

// ===========================================================================
// scenario A — bad-signature evidence

type pubCP struct {
	Hex     string // checkpoint = stored BytesToSign
	Subject []byte // marshalled OutgoingTxBatch as stored at that time
	Tag     string
}

type ghostA struct {
	Pub      []pubCP
	Signed   map[string][]int // checkpoint hex -> key ids that signed it (Confirm op)
	Rot      []bool           // validator re-registered with its second key (live registry)
	Sends    int
	Skynonce uint64
}

func (g *ghostA) Clone() explore.Ghost {
	n := &ghostA{Pub: append([]pubCP{}, g.Pub...), Signed: map[string][]int{}, Sends: g.Sends, Skynonce: g.Skynonce, Rot: append([]bool{}, g.Rot...)}
	for k, v := range g.Signed {
		n.Signed[k] = append([]int{}, v...)
	}
	return n
}

func (g *ghostA) Key() string { b, _ := json.Marshal(g); return string(b) }

func (g *ghostA) published(hexcp string) bool {
	for _, p := range g.Pub {
		if p.Hex == hexcp {
			return true
		}
	}
	return false
}

type envA struct {
	w          *world.World
	r          *report.Run
	denom      string
	user       *world.Actor
	submitters []*world.Actor
	outsider   *world.Val // an eth key that belongs to no validator
	maxSends   int
	maxRot     int
	thorough   bool
	// key ids: i < n = validator i's genesis eth key, n+i = validator i's second
	// key (registered by Rotate(vi)), -1 = a key nobody ever registered
	keys []*world.Val
	// sign-bytes of a turnstone consensus-queue message (SubmitLogicCall) that
	// every validator signed through MsgAddMessagesSignatures during set-up:
	// bytes the chain issued for signing with the same key and the same scheme
	queueBytes []byte
}

// key id helpers (see envA.keys)
func (e *envA) key(id int) *world.Val {
	if id < 0 {
		return e.outsider
	}
	return e.keys[id]
}

func (e *envA) keyName(id int) string {
	n := len(e.w.Vals)
	switch {
	case id < 0:
		return "outsider"
	case id < n:
		return fmt.Sprintf("v%d", id)
	default:
		return fmt.Sprintf("v%d.key2", id-n)
	}
}

// current is the key id validator i has registered right now (ghost = live registry).
func (e *envA) current(g *ghostA, i int) int {
	if g.Rot[i] {
		return len(e.w.Vals) + i
	}
	return i
}

// registeredOwner returns the validator whose currently registered key id is, or -1.
func (e *envA) registeredOwner(g *ghostA, id int) int {
	for i := range e.w.Vals {
		if e.current(g, i) == id {
			return i
		}
	}
	return -1
}

// keyIDs lists every key a signature may be made with in state g: each
// validator's current key, its former key once it rotated, and the outsider.
func (e *envA) keyIDs(g *ghostA) []int {
	var out []int
	for i := range e.w.Vals {
		out = append(out, e.current(g, i))
		if g.Rot[i] {
			out = append(out, i)
		}
	}
	sort.Ints(out)
	return append(out, -1)
}

// issued tells whether the chain ever asked validators to sign these bytes:
// a published batch checkpoint or the sign-bytes of a consensus-queue message.
func (e *envA) issued(g *ghostA, bts []byte) bool {
	return g.published(hex.EncodeToString(bts)) || string(bts) == string(e.queueBytes)
}

// queueSetup puts one turnstone message into the consensus queue (job
// execution), elects its gas estimate and has every validator sign it, all
// through real transactions and the consensus module's end-blocker.
func (e *envA) queueSetup(ctx sdk.Context) {
	w := e.w
	u := e.user
	def, _ := json.Marshal(evmtypes.JobDefinition{Address: "0x00000000000000000000000000000000000000cc", ABI: "[]"})
	pay, _ := json.Marshal(evmtypes.JobPayload{HexPayload: "deadbeef"})
	job := &schedtypes.Job{ID: "job1", Routing: schedtypes.Routing{ChainType: "evm", ChainReferenceID: ref}, Definition: def, Payload: pay}
	for _, m := range []sdk.Msg{&schedtypes.MsgCreateJob{Job: job, Metadata: world.Meta(u)}, &schedtypes.MsgExecuteJob{JobID: "job1", Metadata: world.Meta(u)}} {
		if res := w.DeliverTx(ctx, []*world.Actor{u}, m); !res.OK() {
			panic(fmt.Sprintf("queue set-up %T: %v", m, res.Err))
		}
	}
	q := world.TurnstoneQueue(ref)
	msgs := w.Queue(ctx, q)
	if len(msgs) != 1 {
		panic("queue set-up: no message queued")
	}
	id := msgs[0].GetId()
	for _, v := range w.Vals {
		if res := w.DeliverTx(ctx, []*world.Actor{v.Actor}, world.Estimate(v, q, id, 21000)); !res.OK() {
			panic(fmt.Sprintf("queue set-up estimate: %v", res.Err))
		}
	}
	mod := w.App.ModuleManager.Modules[ctypes.ModuleName].(appmodule.HasEndBlocker)
	must(mod.EndBlock(context.Context(ctx)))
	msgs = w.Queue(ctx, q)
	if len(msgs) != 1 || msgs[0].GetGasEstimate() == 0 {
		panic("queue set-up: estimate not elected")
	}
	bts, err := msgs[0].GetBytesToSign(w.App.AppCodec())
	must(err)
	if len(bts) != 32 {
		panic(fmt.Sprintf("queue set-up: sign-bytes of %d bytes", len(bts)))
	}
	for _, v := range w.Vals {
		if res := w.DeliverTx(ctx, []*world.Actor{v.Actor}, w.SignQueued(v, q, msgs[0])); !res.OK() {
			panic(fmt.Sprintf("queue set-up signature of %s: %v", v.Name, res.Err))
		}
		// the signature the chain accepted is byte-identical to a skyway-style
		// signature over the same 32 bytes (same key, same prefix scheme)
		if hex.EncodeToString(world.SignConsensusBytes(v, bts)) != world.SignCheckpoint(v, bts) {
			panic("queue set-up: signing schemes differ")
		}
	}
	if n := len(w.Queue(ctx, q)[0].GetSignData()); n != len(w.Vals) {
		panic(fmt.Sprintf("queue set-up: %d signatures recorded", n))
	}
	e.queueBytes = bts
}

func specA(r *report.Run) explore.Spec {
	w := world.New(world.Config{Stakes: world.StakesOf(1_000_000, 1_000_000, 1_000_000), Users: []string{"adm", "U1", "mallory"}, Height: 101})
	ctx := w.Root
	must(w.StdChain(ctx, ref))
	d, err := w.BridgeToken(ctx, w.User("adm"), "t1", ref, erc20, 1000, w.User("U1"))
	must(err)
	e := &envA{w: w, r: r, denom: d, user: w.User("U1"), submitters: []*world.Actor{w.User("mallory")}, maxSends: 2, thorough: r.Thorough(),
		outsider: world.NewVal("outsider", sdkmath.NewInt(1))}
	if e.thorough {
		e.submitters = append(e.submitters, w.Vals[2].Actor)
		e.maxSends = 3
	}
	e.maxRot = 1
	for _, v := range w.Vals {
		e.keys = append(e.keys, v)
	}
	for i := range w.Vals {
		e.keys = append(e.keys, world.NewVal(fmt.Sprintf("v%d-second-key", i), sdkmath.NewInt(1)))
	}
	e.queueSetup(ctx)
	spec := explore.Spec{
		Name: "evidence", Init: []*explore.Node{{Ctx: ctx, Ghost: &ghostA{Signed: map[string][]int{}, Rot: make([]bool, len(w.Vals))}}}, Ops: e.ops,
		Hash:     e.hash,
		MaxDepth: 7, Deadline: r.Deadline(140*time.Second, 25*time.Minute),
	}
	if e.thorough {
		spec.MaxDepth = 8
	}
	if d, err := strconv.Atoi(os.Getenv("C13_DEPTH")); err == nil && d > 0 {
		spec.MaxDepth = d // experiments only
	}
	return spec
}

func (e *envA) hash(n *explore.Node) string {
	w := e.w
	now := uint64(n.Ctx.BlockTime().Unix())
	var tc []string
	batches, _ := w.App.SkywayKeeper.GetOutgoingTxBatches(n.Ctx)
	for _, b := range batches {
		tc = append(tc, fmt.Sprintf("%d:%v", b.BatchNonce, b.BatchTimeout < now))
	}
	return n.Ghost.Key() + "|" + w.StoreDigest(n.Ctx, "skyway") + "|" + strings.Join(tc, ",") + "|" + flagString(jailed(w, n.Ctx))
}

// checkpointOf recomputes the checkpoint of an evidence subject the way
// checkBadSignatureEvidenceInternal does.
func checkpointOf(b *skywaytypes.OutgoingTxBatch) ([]byte, error) {
	return b.GetCheckpoint(world.CompassID)
}

// observe records every checkpoint published by the open batches.
func (e *envA) observe(ctx sdk.Context, g *ghostA) *explore.Fail {
	batches, err := e.w.App.SkywayKeeper.GetOutgoingTxBatches(ctx)
	if err != nil {
		return explore.Failf("harness-read-batches", "GetOutgoingTxBatches: %v", err)
	}
	sort.Slice(batches, func(i, j int) bool { return batches[i].BatchNonce < batches[j].BatchNonce })
	for _, b := range batches {
		hx := hex.EncodeToString(b.BytesToSign)
		if g.published(hx) {
			continue
		}
		ext := b.ToExternal()
		cp, err := checkpointOf(&ext)
		if err != nil {
			return explore.Failf("harness-checkpoint", "GetCheckpoint of stored batch %d: %v", b.BatchNonce, err)
		}
		if hex.EncodeToString(cp) != hx {
			return explore.Failf("A-stored-bytes-to-sign-differ", "batch %d publishes BytesToSign %s but its checkpoint (what ConfirmBatch verifies and evidence recomputes) is %x", b.BatchNonce, hx, cp)
		}
		bz, err := ext.Marshal()
		must(err)
		g.Pub = append(g.Pub, pubCP{Hex: hx, Subject: bz, Tag: fmt.Sprintf("cp%d(b%d,gas=%d)", len(g.Pub)+1, b.BatchNonce, b.GasEstimate)})
	}
	return nil
}

type evidenceCase struct {
	tag     string
	subject *skywaytypes.OutgoingTxBatch
	cp      []byte // the bytes the signature is made over
	signers []int  // validator indexes; -1 = outsider key
	fab     bool   // fabricated subject carrying a chosen BytesToSign field
}

// fabricated is a well-formed batch no chain ever built (its content-derived
// checkpoint is never published) whose BytesToSign FIELD is set by the accuser.
func (e *envA) fabricated(bts []byte) *skywaytypes.OutgoingTxBatch {
	return &skywaytypes.OutgoingTxBatch{
		BatchNonce: 4242, BatchTimeout: 1_800_000_000,
		Transactions: []skywaytypes.OutgoingTransferTx{{
			Id: 4242, Sender: e.user.Addr.String(), DestAddress: "0x00000000000000000000000000000000000000aa",
			Erc20Token:      skywaytypes.ERC20Token{Contract: erc20, Amount: sdkmath.NewInt(5), ChainReferenceId: ref},
			BridgeTaxAmount: sdkmath.ZeroInt(),
		}},
		TokenContract: erc20, PalomaBlockCreated: 150, ChainReferenceId: ref, BytesToSign: bts,
		Assignee: e.w.Vals[0].ValAddr.String(), GasEstimate: 21000,
		AssigneeRemoteAddress: ethcommon.HexToAddress(e.w.Vals[0].EthAddr()).Bytes(),
	}
}

func (e *envA) evidenceCases(g *ghostA) []evidenceCase {
	var out []evidenceCase
	for _, p := range g.Pub {
		var b skywaytypes.OutgoingTxBatch
		must(b.Unmarshal(p.Subject))
		cp, err := checkpointOf(&b)
		must(err)
		out = append(out, evidenceCase{tag: p.Tag, subject: &b, cp: cp, signers: g.Signed[p.Hex]})
	}
	vals := []int{} // genesis keys (they signed the queue message)
	for i := range e.w.Vals {
		vals = append(vals, i)
	}
	all := e.keyIDs(g)
	// fabricated subjects: the accuser chooses the 32 bytes in the BytesToSign
	// field and attaches a signature a validator really made over those bytes
	rnd := sha256.Sum256([]byte("c13: bytes nobody was asked to sign"))
	rndSigners := vals[:1]
	if e.thorough {
		rndSigners = vals
	}
	out = append(out,
		evidenceCase{tag: "fab(bts=queueMsg)", subject: e.fabricated(e.queueBytes), cp: e.queueBytes, signers: vals, fab: true},
		evidenceCase{tag: "fab(bts=random)", subject: e.fabricated(rnd[:]), cp: rnd[:], signers: rndSigners, fab: true})
	// a well-formed batch nobody ever built, no BytesToSign carried: its
	// content-derived checkpoint was never issued
	if fc := e.fabricated(nil); true {
		cp, err := checkpointOf(fc)
		must(err)
		out = append(out, evidenceCase{tag: "fabContent", subject: fc, cp: cp, signers: all})
	}
	if len(g.Pub) == 0 {
		return out
	}
	last := g.Pub[len(g.Pub)-1]
	lastCP, _ := hex.DecodeString(last.Hex)
	out = append(out, evidenceCase{tag: "fab(bts=" + last.Tag + ")", subject: e.fabricated(lastCP), cp: lastCP, signers: g.Signed[last.Hex], fab: true})
	if e.thorough {
		// a real batch, content untouched, whose BytesToSign field is replaced
		var b skywaytypes.OutgoingTxBatch
		must(b.Unmarshal(last.Subject))
		b.BytesToSign = e.queueBytes
		out = append(out, evidenceCase{tag: "real(" + last.Tag + ",bts=queueMsg)", subject: &b, cp: e.queueBytes, signers: vals, fab: true})
	}
	mutate := func(tag string, f func(b *skywaytypes.OutgoingTxBatch)) {
		var b skywaytypes.OutgoingTxBatch
		must(b.Unmarshal(last.Subject))
		f(&b)
		cp, err := checkpointOf(&b)
		if err != nil || g.published(hex.EncodeToString(cp)) {
			return
		}
		out = append(out, evidenceCase{tag: tag, subject: &b, cp: cp, signers: all})
	}
	mutate("fakeAmount("+last.Tag+")", func(b *skywaytypes.OutgoingTxBatch) {
		b.Transactions[0].Erc20Token.Amount = b.Transactions[0].Erc20Token.Amount.AddRaw(1)
	})
	if e.thorough {
		mutate("fakeGas("+last.Tag+")", func(b *skywaytypes.OutgoingTxBatch) { b.GasEstimate = b.GasEstimate + 777 })
	}
	return out
}

func (e *envA) ops(n *explore.Node) []explore.Op {
	w := e.w
	g0 := n.Ghost.(*ghostA)
	var ops []explore.Op
	// add wraps an operation: no operation but Evidence may flip a jailed flag;
	// the ghost samples the published checkpoints after every operation.
	add := func(label string, evidence bool, do func(ctx *sdk.Context, g *ghostA) *explore.Fail) {
		ops = append(ops, explore.Op{Label: label, Do: func(ctx *sdk.Context, gg explore.Ghost) *explore.Fail {
			g := gg.(*ghostA)
			before := jailed(w, *ctx)
			if f := do(ctx, g); f != nil {
				return f
			}
			if !evidence {
				if after := jailed(w, *ctx); flagString(after) != flagString(before) {
					return explore.Failf("A-jailed-by-"+strings.SplitN(label, "(", 2)[0], "%s changed jailed flags %s -> %s", label, flagString(before), flagString(after))
				}
			}
			return e.observe(*ctx, g)
		}})
	}
	endBlk := func(ctx *sdk.Context) { w.SkywayEnd(*ctx, nil) }

	add("EndBlk50", false, func(ctx *sdk.Context, g *ghostA) *explore.Fail {
		h := (ctx.BlockHeight()/50 + 1) * 50
		*ctx = world.At(*ctx, h, ctx.BlockTime().Add(time.Second))
		endBlk(ctx)
		*ctx = world.At(*ctx, h+1, ctx.BlockTime().Add(time.Second))
		return nil
	})
	batches, _ := w.App.SkywayKeeper.GetOutgoingTxBatches(n.Ctx)
	if len(batches) > 0 {
		add("EndBlkLate", false, func(ctx *sdk.Context, g *ghostA) *explore.Fail {
			*ctx = world.At(*ctx, ctx.BlockHeight()+1, ctx.BlockTime().Add(11*time.Minute))
			if ctx.BlockHeight()%50 == 0 {
				*ctx = world.At(*ctx, ctx.BlockHeight()+1, ctx.BlockTime())
			}
			endBlk(ctx)
			return nil
		})
	}
	sort.Slice(batches, func(i, j int) bool { return batches[i].BatchNonce < batches[j].BatchNonce })
	for _, b := range batches {
		b := b
		token := b.TokenContract.GetAddress().Hex()
		if b.GasEstimate == 0 {
			add(fmt.Sprintf("EstimateQuorum(b%d)", b.BatchNonce), false, func(ctx *sdk.Context, g *ghostA) *explore.Fail {
				for vi, v := range w.Vals {
					res := w.DeliverTx(*ctx, []*world.Actor{v.Actor}, &skywaytypes.MsgEstimateBatchGas{Metadata: world.Meta(v.Actor), Nonce: b.BatchNonce, TokenContract: token, EthSigner: e.key(e.current(g, vi)).EthAddr(), Estimate: 21000})
					if res.Stage == "ante" || res.Stage == "build" {
						return explore.Failf("harness-estimate", "estimate tx: %v", res.Err)
					}
					if !res.OK() {
						counters["A_estimates_rejected"]++
					}
				}
				endBlk(ctx)
				if nb, _ := w.App.SkywayKeeper.GetOutgoingTXBatch(*ctx, b.TokenContract, b.BatchNonce); nb != nil && nb.GasEstimate != 0 {
					counters["A_estimates_elected"]++
				}
				return nil
			})
		}
		for i, v := range w.Vals {
			i, v := i, v
			add(fmt.Sprintf("Confirm(v%d,b%d)", i, b.BatchNonce), false, func(ctx *sdk.Context, g *ghostA) *explore.Fail {
				// what the chain asks the validator to sign: the stored BytesToSign
				hx := hex.EncodeToString(b.BytesToSign)
				kid := e.current(g, i) // the validator signs with the key it has registered now
				res := w.DeliverTx(*ctx, []*world.Actor{v.Actor}, &skywaytypes.MsgConfirmBatch{Nonce: b.BatchNonce, TokenContract: token, EthSigner: e.key(kid).EthAddr(), Orchestrator: v.Addr.String(), Signature: world.SignCheckpoint(e.key(kid), b.BytesToSign), Metadata: world.Meta(v.Actor)})
				if res.Stage == "ante" || res.Stage == "build" {
					return explore.Failf("harness-confirm", "confirm tx: %v", res.Err)
				}
				if res.OK() {
					counters["A_confirms_accepted"]++
				} else {
					counters["A_confirms_rejected"]++
				}
				// the signature is public from now on
				have := false
				for _, j := range g.Signed[hx] {
					have = have || j == kid
				}
				if !have {
					g.Signed[hx] = append(g.Signed[hx], kid)
					sort.Ints(g.Signed[hx])
				}
				return nil
			})
		}
		add(fmt.Sprintf("ExecutedQuorum(b%d)", b.BatchNonce), false, func(ctx *sdk.Context, g *ghostA) *explore.Fail {
			g.Skynonce++
			for _, v := range w.Vals {
				res := w.DeliverTx(*ctx, []*world.Actor{v.Actor}, world.BatchExecutedClaim(v, ref, g.Skynonce, 1, b.BatchNonce, token))
				if res.Stage == "ante" || res.Stage == "build" {
					return explore.Failf("harness-claim", "claim tx: %v", res.Err)
				}
				if !res.OK() {
					counters["A_claims_rejected"]++
				}
			}
			endBlk(ctx)
			return nil
		})
	}
	// key rotation: the validator re-registers with its second key for the chain
	// (live registry changes at once; the valset snapshot is not rebuilt by any
	// operation of this scenario)
	nrot := 0
	for _, r := range g0.Rot {
		if r {
			nrot++
		}
	}
	for i, v := range w.Vals {
		if g0.Rot[i] || nrot >= e.maxRot {
			continue
		}
		i, v := i, v
		add(fmt.Sprintf("Rotate(v%d)", i), false, func(ctx *sdk.Context, g *ghostA) *explore.Fail {
			k2 := e.keys[len(w.Vals)+i]
			res := w.DeliverTx(*ctx, []*world.Actor{v.Actor}, &vtypes.MsgAddExternalChainInfoForValidator{Metadata: world.Meta(v.Actor), ChainInfos: []*vtypes.ExternalChainInfo{{
				ChainType: "evm", ChainReferenceID: ref, Address: k2.EthAddr(), Pubkey: ethcommon.HexToAddress(k2.EthAddr()).Bytes(),
			}}})
			if res.Stage == "ante" || res.Stage == "build" || res.Stage == "validate" {
				return explore.Failf("harness-rotate", "rotation tx failed in %s: %v", res.Stage, res.Err)
			}
			if !res.OK() {
				counters["A_rotations_rejected"]++
				return nil
			}
			// the live registry must now name the second key
			a, found, err := w.App.EvmKeeper.GetEthAddressByValidator(*ctx, v.ValAddr, ref)
			if err != nil || !found || !strings.EqualFold(a.GetAddress().Hex(), k2.EthAddr()) {
				return explore.Failf("harness-rotate", "registry does not show the second key of v%d after rotation (%v %v)", i, found, err)
			}
			g.Rot[i] = true
			counters["A_rotations"]++
			return nil
		})
	}
	// evidence
	for _, by := range e.submitters {
		for _, ec := range e.evidenceCases(g0) {
			for _, si := range ec.signers {
				by, ec, si := by, ec, si
				signer := e.key(si)
				name := e.keyName(si)
				add(fmt.Sprintf("Evidence(%s,%s,sig=%s)", by.Name, ec.tag, name), true, func(ctx *sdk.Context, g *ghostA) *explore.Fail {
					subj, err := codectypes.NewAnyWithValue(ec.subject)
					must(err)
					published := e.issued(g, ec.cp)
					before := jailed(w, *ctx)
					res := w.DeliverTx(*ctx, []*world.Actor{by}, &skywaytypes.MsgSubmitBadSignatureEvidence{Subject: subj, Signature: world.SignCheckpoint(signer, ec.cp), ChainReferenceId: ref, Metadata: world.Meta(by)})
					if res.Stage == "ante" || res.Stage == "build" || res.Stage == "validate" {
						return explore.Failf("harness-evidence", "evidence tx failed in %s: %v", res.Stage, res.Err)
					}
					after := jailed(w, *ctx)
					var newly []string
					for i := range before {
						if before[i] && !after[i] {
							return explore.Failf("A-evidence-unjails", "evidence released v%d from jail", i)
						}
						if !before[i] && after[i] {
							newly = append(newly, fmt.Sprintf("v%d", i))
						}
					}
					kind := "unpublished"
					if published {
						kind = "published"
					}
					keyKind := "never-registered"
					if e.registeredOwner(g, si) >= 0 {
						keyKind = "registered"
					} else if si >= 0 {
						keyKind = "abandoned"
					}
					cases[fmt.Sprintf("A|%s|fab=%v|key=%s|accepted=%v|newly=%v|before=%s", kind, ec.fab, keyKind, res.OK(), newly, flagString(before))] = struct{}{}
					if ec.fab {
						counters["A_evidence_fabricated_subject"]++
						kind = "fab-" + kind
					}
					if published && ec.fab {
						counters["A_evidence_fabricated_over_issued_bytes"]++
						if len(newly) > 0 {
							return explore.Failf("A-issued-bytes-signature-jails", "evidence by %s with the fabricated subject %s (BytesToSign field = %x, bytes the chain issued for signing) and %s's genuine signature over those bytes jailed %v", by.Name, ec.tag, ec.cp, name, newly)
						}
						if res.OK() {
							return explore.Failf("A-issued-bytes-evidence-accepted", "evidence by %s with the fabricated subject %s carrying %s's genuine signature over chain-issued bytes %x was accepted (jailed flags %s)", by.Name, ec.tag, name, ec.cp, flagString(after))
						}
						return nil
					}
					if published {
						counters["A_evidence_over_published"]++
						if len(newly) > 0 {
							return explore.Failf("A-published-checkpoint-jails", "evidence by %s over checkpoint %s (%x), which the chain published for signing, with %s's genuine signature jailed %v", by.Name, ec.tag, ec.cp, name, newly)
						}
						if res.OK() {
							return explore.Failf("A-published-evidence-accepted", "evidence by %s over the published checkpoint %s (%x) signed by %s was accepted (jailed flags %s)", by.Name, ec.tag, ec.cp, name, flagString(after))
						}
						return nil
					}
					counters["A_evidence_over_unpublished"]++
					// only the validator that has this key registered NOW may be jailed
					owner := e.registeredOwner(g, si)
					for _, nj := range newly {
						if owner >= 0 && nj == fmt.Sprintf("v%d", owner) {
							continue
						}
						if si >= 0 && nj == fmt.Sprintf("v%d", si%len(w.Vals)) {
							return explore.Failf("A-abandoned-key-jails", "evidence over the never-issued checkpoint %s signed with key %s, which %s does not have registered (live registry: %s), jailed %v", ec.tag, name, nj, e.keyName(e.current(g, si%len(w.Vals))), newly)
						}
						return explore.Failf("A-unpublished-jails-nonsigner", "evidence over the never-published checkpoint %s signed by %s jailed %v", ec.tag, name, newly)
					}
					if owner < 0 && si >= 0 {
						counters["A_evidence_with_unregistered_validator_key"]++
					}
					if len(newly) == 1 {
						counters["A_unpublished_evidence_jailed"]++
					} else if res.OK() {
						counters["A_unpublished_evidence_accepted_signer_already_jailed"]++
					} else {
						counters["A_unpublished_evidence_rejected"]++
					}
					return nil
				})
			}
		}
	}
	// Send comes last so that the shortest histories with a batch are explored by the first worker
	if g0.Sends < e.maxSends {
		add("Send(U1,5)", false, func(ctx *sdk.Context, g *ghostA) *explore.Fail {
			res := w.DeliverTx(*ctx, []*world.Actor{e.user}, &skywaytypes.MsgSendToRemote{EthDest: "0x00000000000000000000000000000000000000aa", Amount: sdk.NewInt64Coin(e.denom, 5), ChainReferenceId: ref, Metadata: world.Meta(e.user)})
			if !res.OK() {
				return explore.Failf("harness-send", "send rejected (%s): %v", res.Stage, res.Err)
			}
			g.Sends++
			return nil
		})
	}
	return ops
}

// ===========================================================================
// scenario B — prune-time jailing

type ghostB struct {
	MsgID     uint64
	Execs     int
	Data      string   // "", "error", "public"
	Supplied  []string // per validator: "", "A", "B"
	Pruned    bool
	Estimated bool
	Resubs    int // re-submissions of evidence so far
}

func (g *ghostB) Clone() explore.Ghost {
	n := *g
	n.Supplied = append([]string{}, g.Supplied...)
	return &n
}

func (g *ghostB) Key() string { b, _ := json.Marshal(g); return string(b) }

type envB struct {
	w         *world.World
	r         *report.Run
	queue     string
	user      *world.Actor
	bFor      map[int]bool // validators that may also supply the dissenting proof B
	consensu  appmodule.HasEndBlocker
	stakes    []int64
	name      string
	maxResubs int
	nMem      int // snapshot members are w.Vals[:nMem]; w.Vals[nMem] is vx
	outsider  int // 0: vx never attests, 1: only first, 2: at any position
}

func specB(r *report.Run, name string, stakesB []int64) explore.Spec {
	// the last validator (stake 1 000 000, "vx") is bonded but has no account on
	// the chain, so it is not part of the valset snapshot: a bonded validator
	// OUTSIDE the snapshot whose evidence the chain accepts all the same
	nMem := len(stakesB)
	w := world.New(world.Config{Stakes: world.StakesOf(append(append([]int64{}, stakesB...), 1_000_000)...), Users: []string{"U1"}, Height: 101})
	ctx := w.Root
	// world.StdChain, minus the chain account of vx
	must(w.AddChain(ctx, ref, 1, 1))
	for _, v := range w.Vals[:nMem] {
		must(w.RegisterAccounts(ctx, v, nil, ref))
		must(w.SetFee(ctx, v, ref, "1.0"))
	}
	snap0, err := w.Snapshot(ctx)
	must(err)
	if snap0 == nil {
		panic("snapshot not worthy")
	}
	must(w.App.ValsetKeeper.SetSnapshotOnChain(ctx, snap0.Id, ref))
	must(w.App.TreasuryKeeper.SetCommunityFundFee(ctx, "0.01"))
	must(w.App.TreasuryKeeper.SetSecurityFee(ctx, "0.01"))
	u := w.User("U1")
	def, _ := json.Marshal(evmtypes.JobDefinition{Address: "0x00000000000000000000000000000000000000cc", ABI: "[]"})
	pay, _ := json.Marshal(evmtypes.JobPayload{HexPayload: "deadbeef"})
	job := &schedtypes.Job{ID: "job1", Routing: schedtypes.Routing{ChainType: "evm", ChainReferenceID: ref}, Definition: def, Payload: pay}
	if res := w.DeliverTx(ctx, []*world.Actor{u}, &schedtypes.MsgCreateJob{Job: job, Metadata: world.Meta(u)}); !res.OK() {
		panic(res.Err)
	}
	mod, ok := w.App.ModuleManager.Modules[ctypes.ModuleName].(appmodule.HasEndBlocker)
	if !ok {
		panic("consensus module has no end-blocker")
	}
	// e.stakes are SNAPSHOT shares: vx has none
	e := &envB{w: w, r: r, queue: world.TurnstoneQueue(ref), user: u, consensu: mod, stakes: append(append([]int64{}, stakesB...), 0), name: name, nMem: nMem,
		bFor: map[int]bool{2: true, nMem - 1: true}}
	e.maxResubs = 1
	small := nMem <= 4
	if small {
		e.outsider = 2 // vx may attest at any position of the hand-in order
	}
	if r.Thorough() {
		for i := range w.Vals[:nMem] {
			e.bFor[i] = true
		}
		if small {
			e.maxResubs = 2
		} else {
			e.outsider = 1 // vx may attest first, before every snapshot member
		}
	}
	if err := w.App.ValsetKeeper.CanAcceptValidator(ctx, w.Vals[nMem].ValAddr); err != nil {
		panic(fmt.Sprintf("vx cannot act as a pigeon: %v", err))
	}
	// cross-check the fractions against the live snapshot
	snap, err := w.App.ValsetKeeper.GetCurrentSnapshot(ctx)
	must(err)
	if _, in := snap.GetValidator(w.Vals[nMem].ValAddr); in {
		panic("vx is part of the snapshot")
	}
	tot := int64(0)
	for _, s := range stakesB {
		tot += s
	}
	if !snap.TotalShares.Equal(sdkmath.NewInt(tot)) || len(snap.Validators) != len(stakesB) {
		panic(fmt.Sprintf("snapshot shares %s / %d validators, expected %d / %d", snap.TotalShares, len(snap.Validators), tot, len(stakesB)))
	}
	for i, v := range w.Vals[:nMem] {
		sv, found := snap.GetValidator(v.ValAddr)
		if !found || !sv.ShareCount.Equal(sdkmath.NewInt(stakesB[i])) {
			panic(fmt.Sprintf("snapshot share of v%d differs from its stake", i))
		}
	}
	return explore.Spec{
		Name: name, Init: []*explore.Node{{Ctx: ctx, Ghost: &ghostB{Supplied: make([]string, len(w.Vals))}}}, Ops: e.ops,
		Hash: func(n *explore.Node) string {
			return n.Ghost.Key() + "|" + w.StoreDigest(n.Ctx, ctypes.StoreKey) + "|" + flagString(jailed(w, n.Ctx))
		},
		MaxDepth: 13, Deadline: r.Deadline(140*time.Second, 25*time.Minute),
	}
}

func (e *envB) vname(i int) string {
	if i == e.nMem {
		return "vx"
	}
	return fmt.Sprintf("v%d", i)
}

func (e *envB) message(ctx sdk.Context, id uint64) ctypes.QueuedSignedMessageI {
	for _, m := range e.w.Queue(ctx, e.queue) {
		if m.GetId() == id {
			return m
		}
	}
	return nil
}

func (e *envB) endBlock(ctx sdk.Context) error {
	err, _ := world.Protect(func() error { return e.consensu.EndBlock(context.Context(ctx)) })
	return err
}

func (e *envB) ops(n *explore.Node) []explore.Op {
	w := e.w
	g0 := n.Ghost.(*ghostB)
	var ops []explore.Op
	add := func(label string, prune bool, do func(ctx *sdk.Context, g *ghostB) *explore.Fail) {
		ops = append(ops, explore.Op{Label: label, Do: func(ctx *sdk.Context, gg explore.Ghost) *explore.Fail {
			g := gg.(*ghostB)
			before := jailed(w, *ctx)
			if f := do(ctx, g); f != nil {
				return f
			}
			if !prune {
				if after := jailed(w, *ctx); flagString(after) != flagString(before) {
					return explore.Failf("B-jailed-by-"+strings.SplitN(label, "(", 2)[0], "%s changed jailed flags %s -> %s", label, flagString(before), flagString(after))
				}
			}
			return nil
		}})
	}
	if g0.Pruned {
		return nil
	}
	if g0.Execs == 0 {
		add("Exec", false, func(ctx *sdk.Context, g *ghostB) *explore.Fail {
			res := w.DeliverTx(*ctx, []*world.Actor{e.user}, &schedtypes.MsgExecuteJob{JobID: "job1", Metadata: world.Meta(e.user)})
			if !res.OK() {
				return explore.Failf("harness-exec", "job execution rejected (%s): %v", res.Stage, res.Err)
			}
			msgs := w.Queue(*ctx, e.queue)
			if len(msgs) != 1 {
				return explore.Failf("harness-exec", "%d messages queued", len(msgs))
			}
			g.MsgID = msgs[0].GetId()
			g.Execs++
			return nil
		})
		return ops
	}
	m := e.message(n.Ctx, g0.MsgID)
	if m == nil {
		return nil
	}
	deliver := func(ctx *sdk.Context, v *world.Val, msg sdk.Msg) (bool, *explore.Fail) {
		res := w.DeliverTx(*ctx, []*world.Actor{v.Actor}, msg)
		if res.Stage == "ante" || res.Stage == "build" || res.Stage == "validate" {
			return false, explore.Failf("harness-tx", "%T failed in %s: %v", msg, res.Stage, res.Err)
		}
		return res.OK(), nil
	}
	if !g0.Estimated && g0.Data == "" {
		add("EstimateQuorum", false, func(ctx *sdk.Context, g *ghostB) *explore.Fail {
			for _, v := range w.Vals[:e.nMem] {
				if ok, f := deliver(ctx, v, world.Estimate(v, e.queue, g.MsgID, 21000)); f != nil {
					return f
				} else if !ok {
					return explore.Failf("harness-estimate", "estimate of %s rejected", v.Name)
				}
			}
			if err := e.endBlock(*ctx); err != nil {
				return explore.Failf("harness-endblock", "consensus end-blocker: %v", err)
			}
			mm := e.message(*ctx, g.MsgID)
			if mm == nil {
				// evidence already had 2/3: the same end-blocker attested the message
				counters["B_attested_before_prune"]++
				g.Pruned = true
				return nil
			}
			if mm.GetGasEstimate() == 0 {
				return explore.Failf("harness-estimate", "no estimate elected")
			}
			g.Estimated = true
			return nil
		})
	}
	if g0.Data == "" {
		reporter := w.Vals[0]
		if cm, err := m.ConsensusMsg(w.App.AppCodec()); err == nil {
			if em, ok := cm.(*evmtypes.Message); ok {
				for _, v := range w.Vals {
					if v.ValAddr.String() == em.Assignee {
						reporter = v
					}
				}
			}
		}
		add("ErrorData", false, func(ctx *sdk.Context, g *ghostB) *explore.Fail {
			ok, f := deliver(ctx, reporter, &ctypes.MsgSetErrorData{MessageID: g.MsgID, QueueTypeName: e.queue, Data: []byte("boom"), Metadata: world.Meta(reporter.Actor)})
			if f != nil || !ok {
				return orHarness(f, "error data rejected")
			}
			g.Data = "error"
			return nil
		})
		add("PublicData", false, func(ctx *sdk.Context, g *ghostB) *explore.Fail {
			ok, f := deliver(ctx, reporter, &ctypes.MsgSetPublicAccessData{MessageID: g.MsgID, QueueTypeName: e.queue, Data: []byte{0xab, 0xcd}, ValsetID: 1, Metadata: world.Meta(reporter.Actor)})
			if f != nil || !ok {
				return orHarness(f, "public access data rejected")
			}
			g.Data = "public"
			return nil
		})
	} else if g0.Data == "error" || g0.Data == "public" {
		// a second report of the other kind on a message that already carries one (a delivery that
		// made it through after a failure was reported, or the reverse): whatever the queue does
		// with it, evidence handed in before must still protect its suppliers at prune time
		reporter := w.Vals[0]
		if cm, err := m.ConsensusMsg(w.App.AppCodec()); err == nil {
			if em, ok := cm.(*evmtypes.Message); ok {
				for _, v := range w.Vals {
					if v.ValAddr.String() == em.Assignee {
						reporter = v
					}
				}
			}
		}
		first := g0.Data
		add("Late"+map[string]string{"error": "PublicData", "public": "ErrorData"}[first], false, func(ctx *sdk.Context, g *ghostB) *explore.Fail {
			var msg sdk.Msg
			if first == "error" {
				msg = &ctypes.MsgSetPublicAccessData{MessageID: g.MsgID, QueueTypeName: e.queue, Data: []byte{0xab, 0xcd}, ValsetID: 1, Metadata: world.Meta(reporter.Actor)}
			} else {
				msg = &ctypes.MsgSetErrorData{MessageID: g.MsgID, QueueTypeName: e.queue, Data: []byte("boom"), Metadata: world.Meta(reporter.Actor)}
			}
			if _, f := deliver(ctx, reporter, msg); f != nil {
				return f
			}
			counters["B_second_report_after_"+first]++
			g.Data = first + "+late"
			return nil
		})
	}
	for i, v := range w.Vals {
		for _, proof := range []string{"A", "B"} {
			// canonical hand-in order (ascending validator index, each validator
			// once): the prune-time code reads the evidence as a set
			later := false
			for j := i; j < e.nMem; j++ {
				later = later || g0.Supplied[j] != ""
			}
			if i == e.nMem {
				// vx, the bonded validator outside the snapshot: its place in the
				// hand-in order is free (mode 2) or the very first (mode 1)
				anyMember := false
				for j := 0; j < e.nMem; j++ {
					anyMember = anyMember || g0.Supplied[j] != ""
				}
				later = g0.Supplied[i] != "" || e.outsider == 0 || e.outsider == 1 && anyMember
			}
			if proof == "B" && !e.bFor[i] || later {
				continue
			}
			i, v, proof := i, v, proof
			add(fmt.Sprintf("Ev(%s,%s)", e.vname(i), proof), false, func(ctx *sdk.Context, g *ghostB) *explore.Fail {
				ok, f := deliver(ctx, v, world.Evidence(v, e.queue, g.MsgID, &evmtypes.SmartContractExecutionErrorProof{ErrorMessage: "boom-" + proof}))
				if f != nil || !ok {
					return orHarness(f, "evidence rejected")
				}
				g.Supplied[i] = proof
				return nil
			})
		}
	}
	// re-submission: a validator that already attested hands its evidence in
	// again (the same proof, or a corrected one); the chain keeps one piece of
	// evidence per validator, the ghost keeps the set of distinct attesters.
	if g0.Resubs < e.maxResubs {
		for i, v := range w.Vals {
			if g0.Supplied[i] == "" {
				continue
			}
			other := "B"
			if g0.Supplied[i] == "B" {
				other = "A"
			}
			for _, proof := range []string{g0.Supplied[i], other} {
				i, v, proof := i, v, proof
				add(fmt.Sprintf("ReEv(%s,%s)", e.vname(i), proof), false, func(ctx *sdk.Context, g *ghostB) *explore.Fail {
					ok, f := deliver(ctx, v, world.Evidence(v, e.queue, g.MsgID, &evmtypes.SmartContractExecutionErrorProof{ErrorMessage: "boom-" + proof}))
					if f != nil || !ok {
						return orHarness(f, "re-submitted evidence rejected")
					}
					g.Supplied[i] = proof
					g.Resubs++
					counters["B_resubmissions"]++
					return nil
				})
			}
		}
	}
	add("Prune", true, func(ctx *sdk.Context, g *ghostB) *explore.Fail {
		mm := e.message(*ctx, g.MsgID)
		// suppliers as the chain recorded them must agree with the ghost
		rec := map[string]bool{}
		for _, ev := range mm.GetEvidence() {
			rec[ev.GetValAddress().String()] = true
		}
		votes, total := new(big.Int), new(big.Int)
		var sup []string
		for i, v := range w.Vals {
			total.Add(total, big.NewInt(e.stakes[i]))
			if g.Supplied[i] == "" && rec[v.ValAddr.String()] {
				return explore.Failf("harness-suppliers", "the queue holds evidence of v%d that the ghost never handed in", i)
			}
			if g.Supplied[i] != "" && !rec[v.ValAddr.String()] {
				// the queue dropped accepted evidence: not a verdict by itself, the prune below
				// is judged against who supplied evidence (the ghost), not against what is left of it
				counters["B_prunes_where_the_queue_lost_accepted_evidence"]++
			}
			if g.Supplied[i] != "" {
				votes.Add(votes, big.NewInt(e.stakes[i]))
				sup = append(sup, fmt.Sprintf("%s:%s", e.vname(i), g.Supplied[i]))
			}
		}
		h := ((mm.GetAddedAtBlockHeight()+300)/50 + 1) * 50
		dh := h - ctx.BlockHeight()
		*ctx = world.At(*ctx, h, ctx.BlockTime().Add(time.Duration(dh)*1500*time.Millisecond))
		before := jailed(w, *ctx)
		if err := e.endBlock(*ctx); err != nil {
			return explore.Failf("harness-endblock", "consensus end-blocker: %v", err)
		}
		after := jailed(w, *ctx)
		gone := e.message(*ctx, g.MsgID) == nil
		g.Pruned = true
		var newly []string
		for i := range before {
			if !before[i] && after[i] {
				newly = append(newly, fmt.Sprintf("v%d", i))
			}
		}
		below := new(big.Int).Mul(votes, big.NewInt(10)).Cmp(total) < 0
		frac := "below-10pct"
		switch {
		case votes.Sign() == 0:
			frac = "none"
		case new(big.Int).Mul(votes, big.NewInt(10)).Cmp(total) == 0:
			frac = "exactly-10pct"
		case new(big.Int).Mul(votes, big.NewInt(3)).Cmp(total) == 0:
			frac = "exactly-1/3"
		case new(big.Int).Mul(votes, big.NewInt(3)).Cmp(new(big.Int).Mul(total, big.NewInt(2))) >= 0:
			frac = "at-least-2/3"
		case new(big.Int).Mul(new(big.Int).Add(votes, big.NewInt(1)), big.NewInt(3)).Cmp(new(big.Int).Mul(total, big.NewInt(2))) >= 0:
			frac = "2/3-minus-1-share"
		case !below:
			frac = "between"
		case votes.Cmp(new(big.Int).Quo(total, big.NewInt(10))) >= 0:
			// floor(T/10) <= votes < T/10: fewer than 10 %, but not by truncating division
			frac = "below-10pct-at-floor"
		}
		counters["B_prunes"]++
		counters["B_prune_"+frac]++
		counters["B_prunes_"+e.name]++
		if len(newly) > 0 {
			counters["B_prunes_that_jailed"]++
		}
		if g.Supplied[e.nMem] != "" {
			counters["B_prunes_with_evidence_from_outside_the_snapshot"]++
		}
		if g.Resubs > 0 {
			counters["B_prunes_after_resubmission"]++
			if below && votes.Sign() > 0 {
				counters["B_prunes_after_resubmission_below_10pct"]++
			}
		}
		cases[fmt.Sprintf("B|"+e.name+"|resubs=%d|data=%s|est=%v|suppliers=%v|votes=%s|%s|gone=%v|jailed=%v", g.Resubs, g.Data, g.Estimated, sup, votes, frac, gone, newly)] = struct{}{}
		for i := range before {
			if !before[i] && after[i] && g.Supplied[i] != "" {
				return explore.Failf("B-supplier-jailed", "prune of message %d (data=%q, estimate elected=%v, evidence by %v = %s of %s shares) jailed v%d, which supplied evidence", g.MsgID, g.Data, g.Estimated, sup, votes, total, i)
			}
		}
		if below && len(newly) > 0 {
			return explore.Failf("B-jailed-below-10pct", "prune of message %d (data=%q, evidence by %v = %s of %s shares, fewer than 10%%) jailed %v", g.MsgID, g.Data, sup, votes, total, newly)
		}
		return nil
	})
	return ops
}

func orHarness(f *explore.Fail, what string) *explore.Fail {
	if f != nil {
		return f
	}
	return explore.Failf("harness-rejected", "%s", what)
}
