// C19 — application mempool: every pending tx exactly once, nonce order per
// sender, priority classes between senders, CountTx == |pending|.
//
// Exhaustive enumeration of ALL operation sequences (Insert / Remove / SelectAll)
// up to a depth on the real app/mempool.PriorityNonceMempool (the structure the
// application wires in app.go), compared after every step with a boring
// reference model: the set of pending (sender, seq, class).
//
// The structure is mutable and cannot be cloned, so every sequence is executed
// on a fresh pool (replay of its prefix); enumeration is level by level
// (iterative deepening), so the first violation reported is of minimal length
// and a deadline always leaves "all sequences of length <= d" complete.
package main

import (
	"encoding/json"
	"flag"
	"fmt"
	"math/rand"
	"os"
	"sort"
	"strings"
	"time"

	simtestutil "github.com/cosmos/cosmos-sdk/testutil/sims"
	sdk "github.com/cosmos/cosmos-sdk/types"
	sdkmempool "github.com/cosmos/cosmos-sdk/types/mempool"
	authsigning "github.com/cosmos/cosmos-sdk/x/auth/signing"
	banktypes "github.com/cosmos/cosmos-sdk/x/bank/types"
	sdkconsensustypes "github.com/cosmos/cosmos-sdk/x/consensus/types"
	palomamempool "github.com/palomachain/paloma/v2/app/mempool"
	constypes "github.com/palomachain/paloma/v2/x/consensus/types"
	evmtypes "github.com/palomachain/paloma/v2/x/evm/types"
	palomatypes "github.com/palomachain/paloma/v2/x/paloma/types"
	schedtypes "github.com/palomachain/paloma/v2/x/scheduler/types"
	skywaytypes "github.com/palomachain/paloma/v2/x/skyway/types"
	vtypes "github.com/palomachain/paloma/v2/x/valset/types"
	"github.com/palomachain/paloma/v2/zzverif/report"
	"github.com/palomachain/paloma/v2/zzverif/world"
)

// ---------------------------------------------------------------------------
// priority classes (property text: consensus-queue > scheduler > bridge-chain
// (evm) > validator-set > all others)

const (
	clsConsensus = iota
	clsScheduler
	clsEvm
	clsValset
	clsOther
	nClasses
)

var clsName = [nClasses]string{"consensus", "scheduler", "evm", "valset", "other"}

// rank: higher goes first
var clsRank = [nClasses]int{4, 3, 2, 1, 0}

var senderNames = []string{"A", "B", "C"}

// ---------------------------------------------------------------------------
// bounds

type config struct {
	Name    string
	S, Q    int
	Classes []int
	Depth   int
	Share   time.Duration // cumulative deadline offset from start of the run
	Track   int           // record distinct SelectAll outcomes up to this many emitted txs
	From    int           // first sequence length enumerated (shorter ones are covered by an earlier alphabet entry); 0 = 1
}

func (c config) nInsert() int { return c.S * c.Q * len(c.Classes) }
func (c config) nOps() int    { return c.nInsert() + c.S*c.Q + 1 }

func (c config) label(op int) string {
	k := len(c.Classes)
	switch {
	case op < c.nInsert():
		slot, ci := op/k, op%k
		return fmt.Sprintf("Insert(%s,%d,%s)", senderNames[slot/c.Q], slot%c.Q, clsName[c.Classes[ci]])
	case op < c.nInsert()+c.S*c.Q:
		slot := op - c.nInsert()
		return fmt.Sprintf("Remove(%s,%d)", senderNames[slot/c.Q], slot%c.Q)
	default:
		return "SelectAll"
	}
}

func (c config) describe() string {
	var cl []string
	for _, k := range c.Classes {
		cl = append(cl, clsName[k])
	}
	from := ""
	if c.From > 1 {
		from = fmt.Sprintf(" and >= %d (shorter ones: see the entry with the same alphabet)", c.From)
	}
	return fmt.Sprintf("%s: %d senders x %d seqs x {%s} inserts + %d removes + SelectAll = %d ops, all sequences of length <= %d%s (each followed by a final SelectAll)",
		c.Name, c.S, c.Q, strings.Join(cl, ","), c.S*c.Q, c.nOps(), c.Depth, from)
}

var all5 = []int{clsConsensus, clsScheduler, clsEvm, clsValset, clsOther}

func configs(tier string) []config {
	if tier == "thorough" {
		// Cheapest first, so that a slow machine still completes as many alphabets
		// as possible. Exact sequence counts (from the enabledness rule): t1 5.9e6,
		// t2 22.7e6, t3 26.5e6, t4 39.7e6, t5 56.2e6, t6 230e6 more (t6 = length 5
		// of t1's alphabet; it cannot finish inside the budget at ~1.6e5
		// sequences/s on 16 idle cores and is expected to be capped). Share is the
		// cumulative deadline; unused time rolls over to the next alphabet.
		return []config{
			{Name: "t1-3x3x5-d4", S: 3, Q: 3, Classes: all5, Depth: 4, Share: 3 * time.Minute, Track: 4},
			{Name: "t2-3x2x5-d5", S: 3, Q: 2, Classes: all5, Depth: 5, Share: 8 * time.Minute, Track: 8},
			{Name: "t3-2x2x5-d6", S: 2, Q: 2, Classes: all5, Depth: 6, Share: 13 * time.Minute, Track: 8},
			{Name: "t4-3x3x3-d5", S: 3, Q: 3, Classes: []int{clsScheduler, clsEvm, clsOther}, Depth: 5, Share: 19 * time.Minute, Track: 8},
			{Name: "t5-2x2x3-d7", S: 2, Q: 2, Classes: []int{clsConsensus, clsValset, clsOther}, Depth: 7, Share: 25*time.Minute + 30*time.Second, Track: 8},
			{Name: "t6-3x3x5-d5", S: 3, Q: 3, Classes: all5, Depth: 5, Share: 26*time.Minute + 30*time.Second, Track: 4, From: 5},
		}
	}
	return []config{
		{Name: "q1-2x2x3-d5", S: 2, Q: 2, Classes: []int{clsConsensus, clsValset, clsOther}, Depth: 5, Share: 60 * time.Second, Track: 8},
		{Name: "q2-3x2x5-d4", S: 3, Q: 2, Classes: all5, Depth: 4, Share: 105 * time.Second, Track: 8},
	}
}

// ---------------------------------------------------------------------------
// transactions

type txID struct{ s, q, c int }

type env struct {
	w    *world.World
	ctx  sdk.Context // context every Insert sees: the priority the ante chain really sets
	prio int64
	txs  [3][3][nClasses]sdk.Tx
	id   map[sdk.Tx]txID
	urls [3][3][nClasses]string
}

func metaOf(a *world.Actor) vtypes.MsgMetadata {
	return vtypes.MsgMetadata{Creator: a.Addr.String(), Signers: []string{a.Addr.String()}}
}

// msgsFor returns the message list of the transaction (sender a, variant v) in
// class c. The variant rotates over the real message types of the class's
// module so that several type URLs of every class are exercised without
// enlarging the alphabet.
func msgsFor(a *world.Actor, c, s, q int) []sdk.Msg {
	md := metaOf(a)
	v := s + q
	switch c {
	case clsConsensus:
		return []sdk.Msg{[]sdk.Msg{
			&constypes.MsgAddMessagesSignatures{Metadata: md},
			&constypes.MsgAddEvidence{Metadata: md, QueueTypeName: "q"},
			&constypes.MsgSetPublicAccessData{Metadata: md, QueueTypeName: "q"},
		}[v%3]}
	case clsScheduler:
		return []sdk.Msg{[]sdk.Msg{
			&schedtypes.MsgExecuteJob{Metadata: md, JobID: "job"},
			&schedtypes.MsgCreateJob{Metadata: md},
		}[v%2]}
	case clsEvm:
		return []sdk.Msg{[]sdk.Msg{
			&evmtypes.MsgRemoveSmartContractDeploymentRequest{Metadata: md, SmartContractID: 1},
			&evmtypes.MsgUploadUserSmartContractRequest{Metadata: md, Title: "t"},
			&evmtypes.MsgProposeNewReferenceBlockAttestation{Metadata: md, Authority: a.Addr.String()},
		}[v%3]}
	case clsValset:
		return []sdk.Msg{[]sdk.Msg{
			&vtypes.MsgKeepAlive{Metadata: md, PigeonVersion: "v2.0.0"},
			&vtypes.MsgAddExternalChainInfoForValidator{Metadata: md},
		}[v%2]}
	default:
		// "other": everything that is not a single message of one of the four
		// palomachain.paloma.{consensus,scheduler,evm,valset} namespaces. One
		// variant per (sender, seq) slot; slots 0,1,3,4 are those of the smallest
		// alphabet (2 senders x 2 seqs). Several variants are look-alikes: type
		// URLs of OTHER namespaces that contain a reserved domain segment.
		switch s*3 + q {
		case 0: // the SDK's x/consensus module (wired in app.go): foreign namespace, segment ".consensus."
			return []sdk.Msg{&sdkconsensustypes.MsgUpdateParams{Authority: a.Addr.String()}}
		case 1: // foreign module
			return []sdk.Msg{&banktypes.MsgSend{FromAddress: a.Addr.String(), ToAddress: a.Addr.String(), Amount: sdk.NewCoins(sdk.NewInt64Coin(world.BondDenom, 1))}}
		case 2:
			return []sdk.Msg{&palomatypes.MsgAddStatusUpdate{Metadata: md, Status: "s"}}
		case 3: // hypothetical foreign module with an ".evm." segment
			return []sdk.Msg{&fakeMsg{"foo.evm.bar.MsgDo"}}
		case 4: // two consensus messages: not a single-message tx, so "other"
			return []sdk.Msg{&constypes.MsgAddMessagesSignatures{Metadata: md}, &constypes.MsgAddMessagesSignatures{Metadata: md}}
		case 5:
			return []sdk.Msg{&fakeMsg{"acme.valset.v1.MsgRotate"}}
		case 6: // paloma module outside the four prioritised domains
			return []sdk.Msg{&skywaytypes.MsgSendToRemote{Metadata: md, EthDest: "0x0000000000000000000000000000000000000001", Amount: sdk.NewInt64Coin(world.BondDenom, 1), ChainReferenceId: "eth-main"}}
		case 7:
			return []sdk.Msg{&fakeMsg{"acme.scheduler.v1.MsgRun"}}
		default: // the reserved namespace, but not at the start of the type URL
			return []sdk.Msg{&fakeMsg{"evil.palomachain.paloma.consensus.MsgAddEvidence"}}
		}
	}
}

// fakeMsg is a message with an arbitrary type URL ("/"+name): gogoproto's
// MessageName honours XXX_MessageName. Used only for look-alike URLs that no
// registered module provides.
type fakeMsg struct{ name string }

func (m *fakeMsg) Reset()                   {}
func (m *fakeMsg) String() string           { return m.name }
func (m *fakeMsg) ProtoMessage()            {}
func (m *fakeMsg) XXX_MessageName() string  { return m.name }
func (m *fakeMsg) Marshal() ([]byte, error) { return []byte{}, nil }
func (m *fakeMsg) Unmarshal([]byte) error   { return nil }

// msgsTx is a really signed transaction whose message list is replaced: the
// mempool reads sender and sequence from the embedded tx's first signature and
// the priority class from GetMsgs.
type msgsTx struct {
	authsigning.Tx
	msgs []sdk.Msg
}

func (t *msgsTx) GetMsgs() []sdk.Msg { return t.msgs }

// buildTx signs msgs for (sender index s, sequence q). Messages the tx builder
// cannot carry (fakeMsg) ride on a signed bank-send envelope.
func (e *env) buildTx(rng *rand.Rand, act *world.Actor, s, q int, msgs []sdk.Msg) (tx sdk.Tx, err error) {
	gen := func(ms []sdk.Msg) (t sdk.Tx, err error) {
		defer func() {
			if p := recover(); p != nil {
				err = fmt.Errorf("panic: %v", p)
			}
		}()
		return simtestutil.GenSignedMockTx(rng, e.w.App.TxConfig(), ms, sdk.NewCoins(), 1_000_000, world.ChainID,
			[]uint64{uint64(s)}, []uint64{uint64(q)}, act.Priv)
	}
	fake := false
	for _, m := range msgs {
		if _, ok := m.(*fakeMsg); ok {
			fake = true
		}
	}
	if !fake {
		return gen(msgs)
	}
	envl, err := gen([]sdk.Msg{&banktypes.MsgSend{FromAddress: act.Addr.String(), ToAddress: act.Addr.String(), Amount: sdk.NewCoins(sdk.NewInt64Coin(world.BondDenom, 1))}})
	if err != nil {
		return nil, err
	}
	return &msgsTx{Tx: envl.(authsigning.Tx), msgs: msgs}, nil
}

func newEnv(r *report.Run, shard int) *env {
	w := world.New(world.Config{Stakes: world.StakesOf(1_000_000), Users: senderNames})
	e := &env{w: w, id: map[sdk.Tx]txID{}, prio: 42}

	// wiring: the application's mempool is this structure with the default config
	if _, ok := w.App.Mempool().(*palomamempool.PriorityNonceMempool[int64]); !ok && shard == 0 {
		r.Violate("wiring:app-mempool-type", fmt.Sprintf("app.Mempool() is %T, not *mempool.PriorityNonceMempool[int64]", w.App.Mempool()), nil)
	}

	// the context priority the application really sets: run the real ante chain
	// in CheckTx mode on an ordinary transaction and read ctx.Priority().
	a := w.User("A")
	if tx, err := w.BuildTx(w.Root, []*world.Actor{a}, &banktypes.MsgSend{FromAddress: a.Addr.String(), ToAddress: w.User("B").Addr.String(), Amount: sdk.NewCoins(sdk.NewInt64Coin(world.BondDenom, 1))}); err == nil {
		cctx, _ := w.Root.CacheContext()
		nctx, err := w.App.AnteHandler()(cctx.WithIsCheckTx(true), tx, false)
		if err == nil {
			e.prio = nctx.Priority()
			r.Extra["ante_priority_source"] = fmt.Sprintf("ctx.Priority()=%d read after the real ante chain (CheckTx) on a bank send", e.prio)
		} else {
			r.Extra["ante_priority_source"] = "constant 42 (x/paloma/ante.go TxFeeSkipper); ante run failed: " + err.Error()
		}
	}
	e.ctx = w.Root.WithPriority(e.prio)

	rng := rand.New(rand.NewSource(19))
	for s, name := range senderNames {
		act := w.User(name)
		for q := 0; q < 3; q++ {
			for c := 0; c < nClasses; c++ {
				msgs := msgsFor(act, c, s, q)
				tx, err := e.buildTx(rng, act, s, q, msgs)
				if err != nil {
					fmt.Fprintln(os.Stderr, "cannot build tx:", err)
					os.Exit(2)
				}
				e.txs[s][q][c] = tx
				e.id[tx] = txID{s, q, c}
				var u []string
				for _, m := range msgs {
					u = append(u, sdk.MsgTypeURL(m))
				}
				e.urls[s][q][c] = strings.Join(u, "+")
			}
		}
	}
	return e
}

// ---------------------------------------------------------------------------
// reference model

type model struct {
	pend [3][3]int8 // class+1, 0 = absent
	n    int
}

func (id txID) String() string { return fmt.Sprintf("%s%d:%s", senderNames[id.s], id.q, clsName[id.c]) }

type fail struct{ sig, msg string }

func failf(sig, f string, a ...interface{}) *fail { return &fail{sig, fmt.Sprintf(f, a...)} }

// step executes op on the real pool and on the model and applies the per-step
// oracle. Panics of the implementation are violations.
func (e *env) step(c *config, mp *palomamempool.PriorityNonceMempool[int64], m *model, op int, outcome *string) (f *fail) {
	defer func() {
		if p := recover(); p != nil {
			f = failf("panic:"+opKind(c, op), "%s panicked: %v", c.label(op), p)
		}
	}()
	k := len(c.Classes)
	switch {
	case op < c.nInsert():
		slot, ci := op/k, op%k
		s, q, cl := slot/c.Q, slot%c.Q, c.Classes[ci]
		if err := mp.Insert(e.ctx, e.txs[s][q][cl]); err != nil {
			return failf("insert:error", "%s returned %v", c.label(op), err)
		}
		m.pend[s][q] = int8(cl + 1)
		m.n++
	case op < c.nInsert()+c.S*c.Q:
		slot := op - c.nInsert()
		s, q := slot/c.Q, slot%c.Q
		if p := m.pend[s][q]; p != 0 {
			if err := mp.Remove(e.txs[s][q][p-1]); err != nil {
				return failf("remove:pending-error", "%s of a pending tx returned %v", c.label(op), err)
			}
			m.pend[s][q] = 0
			m.n--
		} else {
			if err := mp.Remove(e.txs[s][q][c.Classes[0]]); err == nil {
				return failf("remove:absent-no-error", "%s of a tx that is not pending returned no error", c.label(op))
			}
		}
	default:
		if f := e.selectAll(mp, m, outcome); f != nil {
			return f
		}
	}
	if got := mp.CountTx(); got != m.n {
		return failf("count:after-"+opKind(c, op), "CountTx()=%d after %s, reference has %d pending", got, c.label(op), m.n)
	}
	return nil
}

func opKind(c *config, op int) string {
	switch {
	case op < c.nInsert():
		return "insert"
	case op < c.nInsert()+c.S*c.Q:
		return "remove"
	default:
		return "select"
	}
}

// selectAll iterates Select(ctx,nil)/Next() to exhaustion and applies the
// ordering oracle against the reference model.
func (e *env) selectAll(mp *palomamempool.PriorityNonceMempool[int64], m *model, outcome *string) *fail {
	var emitted [3][3]bool
	var order []txID
	limit := m.n + 3
	var it sdkmempool.Iterator = mp.Select(e.ctx, nil)
	for ; it != nil; it = it.Next() {
		tx := it.Tx()
		id, ok := e.id[tx]
		if !ok {
			return failf("select:unknown-tx", "Select yielded a tx object that was never inserted: %T", tx)
		}
		order = append(order, id)
		if len(order) > limit {
			return failf("select:too-many", "Select yielded more than %d txs with %d pending: %v", limit, m.n, order)
		}
		if p := m.pend[id.s][id.q]; p == 0 || int(p-1) != id.c {
			return failf("select:nonpending", "Select yielded %v which is not pending (removed or never inserted); emitted so far %v, pending %s", id, order, m.String())
		}
		if emitted[id.s][id.q] {
			return failf("select:duplicate", "Select yielded %v twice: %v", id, order)
		}
		// per sender strictly increasing sequence numbers: no pending, un-emitted
		// tx of the same sender may have a lower sequence number, and no emitted
		// one a higher.
		for q := 0; q < 3; q++ {
			if q < id.q && m.pend[id.s][q] != 0 && !emitted[id.s][q] {
				return failf("select:nonce-order", "Select yielded %v before the same sender's pending seq %d: %v", id, q, order)
			}
			if q > id.q && emitted[id.s][q] {
				return failf("select:nonce-order", "Select yielded %v after the same sender's seq %d: %v", id, q, order)
			}
		}
		// priority classes: every OTHER sender's next available tx (its lowest
		// pending sequence number not yet emitted) is in a class <= class(t).
		for s := 0; s < 3; s++ {
			if s == id.s {
				continue
			}
			for q := 0; q < 3; q++ {
				if p := m.pend[s][q]; p != 0 && !emitted[s][q] {
					if clsRank[p-1] > clsRank[id.c] {
						return failf("select:priority-order", "Select yielded %v while sender %s's next available tx %v is in a higher priority class; order so far %v, pending %s",
							id, senderNames[s], txID{s, q, int(p - 1)}, order, m.String())
					}
					break // only the next available one
				}
			}
		}
		emitted[id.s][id.q] = true
	}
	if len(order) != m.n {
		return failf("select:missing", "Select yielded %d of %d pending txs: %v, pending %s", len(order), m.n, order, m.String())
	}
	if outcome != nil {
		var sb strings.Builder
		for _, id := range order {
			sb.WriteString(id.String())
			sb.WriteByte(' ')
		}
		*outcome = sb.String()
	}
	return nil
}

func (m *model) String() string {
	var out []string
	for s := 0; s < 3; s++ {
		for q := 0; q < 3; q++ {
			if p := m.pend[s][q]; p != 0 {
				out = append(out, txID{s, q, int(p - 1)}.String())
			}
		}
	}
	return "{" + strings.Join(out, " ") + "}"
}

// ---------------------------------------------------------------------------
// enumeration

type engine struct {
	e        *env
	r        *report.Run
	c        *config
	shard    int
	nshards  int
	shardD   int
	deadline time.Time
	level    int
	idx      []int64 // per depth: running index of nodes at that depth (for ownership)
	path     []int
	capped   bool
	found    bool
	tick     int

	seqs, maxSeqs, states, selects, opsExec, skipped, deferred int64
	sampled                                                    int
}

// canonical reports whether path is the canonical way to reach its pool
// content: inserts only, in strictly increasing (sender, seq) order. Every
// content reachable within the depth bound has exactly one such path within the
// bound, so counting canonical paths counts distinct pool contents exactly,
// across worker processes.
func (g *engine) canonical(path []int) bool {
	k := len(g.c.Classes)
	last := -1
	for _, op := range path {
		if op >= g.c.nInsert() {
			return false
		}
		if slot := op / k; slot <= last {
			return false
		} else {
			last = slot
		}
	}
	return true
}

// check executes one sequence on a fresh pool: the prefix silently (its own
// violations belong to the node that ends there), the last step with the
// oracle, then a final SelectAll.
func (g *engine) check(path []int) {
	g.tick++
	if g.tick&255 == 0 && time.Now().After(g.deadline) {
		g.capped = true
		return
	}
	mp := palomamempool.DefaultPriorityMempool()
	var m model
	for i, op := range path {
		g.opsExec++
		f := g.e.step(g.c, mp, &m, op, nil)
		if f != nil {
			if i < len(path)-1 {
				g.skipped++ // below a node already reported by its owner
				return
			}
			g.violate(path, f)
			g.count(path)
			return
		}
	}
	g.count(path)
	var outcome string
	g.opsExec++
	if f := g.final(mp, &m, &outcome); f != nil {
		g.violate(path, f)
		return
	}
	g.selects++
	if deferred(outcome) {
		g.deferred++
	}
	if m.n <= g.c.Track {
		g.r.Case(g.c.Name[:1] + outcome)
	} else {
		g.r.Case("")
	}
	if g.sampled < 1 && len(path) == g.c.Depth && m.n >= 3 && interesting(g.c, path, &m) {
		g.sampled++
		g.r.Sample(map[string]interface{}{"config": g.c.Name, "sequence": g.labels(path), "pending": m.String(), "final_select": strings.TrimSpace(outcome), "count": mp.CountTx()})
	}
}

func (g *engine) final(mp *palomamempool.PriorityNonceMempool[int64], m *model, outcome *string) (f *fail) {
	defer func() {
		if p := recover(); p != nil {
			f = failf("panic:select", "final SelectAll panicked: %v", p)
		}
	}()
	if f := g.e.selectAll(mp, m, outcome); f != nil {
		return f
	}
	if got := mp.CountTx(); got != m.n {
		return failf("count:after-select", "CountTx()=%d after final SelectAll, reference has %d pending", got, m.n)
	}
	return nil
}

// deferred reports whether the emitted order returns to a sender after having
// left it for another one (the iterator deferred that sender's next tx because
// of its lower priority class).
func deferred(outcome string) bool {
	seen := map[byte]bool{}
	var last byte
	for _, f := range strings.Fields(outcome) {
		if f[0] != last {
			if seen[f[0]] {
				return true
			}
			seen[f[0]] = true
			last = f[0]
		}
	}
	return false
}

func interesting(c *config, path []int, m *model) bool {
	hasRemove, hasSelect := false, false
	for _, op := range path[:len(path)-1] {
		switch opKind(c, op) {
		case "remove":
			hasRemove = true
		case "select":
			hasSelect = true
		}
	}
	senders, classes := map[int]bool{}, map[int8]bool{}
	for s := 0; s < 3; s++ {
		for q := 0; q < 3; q++ {
			if p := m.pend[s][q]; p != 0 {
				senders[s] = true
				classes[p] = true
			}
		}
	}
	return (hasRemove || hasSelect) && len(senders) >= 2 && len(classes) >= 2
}

func (g *engine) count(path []int) {
	g.seqs++
	g.r.Transitions++
	if len(path) == g.c.Depth {
		g.maxSeqs++
	}
	if g.canonical(path) {
		g.states++
		g.r.States++
	}
}

func (g *engine) labels(path []int) []string {
	out := make([]string, len(path))
	for i, op := range path {
		out[i] = g.c.label(op)
	}
	return out
}

func (g *engine) violate(path []int, f *fail) {
	g.found = true
	g.r.Violate(f.sig, fmt.Sprintf("[%s] after %s: %s", g.c.Name, strings.Join(g.labels(path), " ; "), f.msg),
		map[string]interface{}{"config": g.c.Name, "path": g.labels(path)})
}

// walk enumerates (in the model only) all nodes of depth < level and checks the
// owned nodes of depth == level on the real structure.
func (g *engine) walk(m *model, owned bool) {
	d := len(g.path)
	k := len(g.c.Classes)
	nIns := g.c.nInsert()
	for op := 0; op < g.c.nOps(); op++ {
		if g.capped {
			return
		}
		// enabledness: Insert only when (sender, seq) is not pending (stated
		// precondition); Remove and SelectAll always.
		var slot int
		if op < nIns {
			slot = op / k
			if m.pend[slot/g.c.Q][slot%g.c.Q] != 0 {
				continue
			}
		}
		cd := d + 1
		own := owned
		if cd <= g.shardD {
			i := g.idx[cd]
			g.idx[cd]++
			own = int(i%int64(g.nshards)) == g.shard
			if cd == g.shardD && !own {
				continue // foreign subtree
			}
		}
		g.path = append(g.path, op)
		if cd == g.level {
			if own {
				g.check(g.path)
			}
		} else {
			nm := *m
			switch {
			case op < nIns:
				nm.pend[slot/g.c.Q][slot%g.c.Q] = int8(g.c.Classes[op%k] + 1)
				nm.n++
			case op < nIns+g.c.S*g.c.Q:
				sl := op - nIns
				if nm.pend[sl/g.c.Q][sl%g.c.Q] != 0 {
					nm.pend[sl/g.c.Q][sl%g.c.Q] = 0
					nm.n--
				}
			}
			g.walk(&nm, own)
		}
		g.path = g.path[:d]
	}
}

func (g *engine) run() {
	c := g.c
	if g.shard == 0 && c.From <= 1 {
		// the empty pool: CountTx()==0 and Select yields nothing
		g.states++
		g.r.States++
		mp := palomamempool.DefaultPriorityMempool()
		var m model
		if f := g.final(mp, &m, nil); f != nil {
			g.violate(nil, f)
		}
	}
	g.level = 1
	if c.From > 1 {
		g.level = c.From
	}
	for ; g.level <= c.Depth; g.level++ {
		g.idx = make([]int64, g.shardD+2)
		g.path = g.path[:0]
		var m model
		g.walk(&m, true)
		if g.capped {
			g.r.Cap(fmt.Sprintf("%s: deadline reached while enumerating sequences of length %d (partly enumerated, counted in %s/sequences; every shorter length of this alphabet is complete)", c.Name, g.level, c.Name))
			break
		}
		g.r.Extra[fmt.Sprintf("%s/workers_completed_length_%d", c.Name, g.level)] = float64(1)
		if g.found {
			break // minimal-length violations of this shard are recorded
		}
	}
	x := g.r.Extra
	x[c.Name+"/sequences"] = float64(g.seqs)
	x[c.Name+"/sequences_of_full_length"] = float64(g.maxSeqs)
	x[c.Name+"/states"] = float64(g.states)
	x[c.Name+"/final_selects_checked"] = float64(g.selects)
	x[c.Name+"/operations_executed_incl_replay"] = float64(g.opsExec)
	x[c.Name+"/final_selects_with_a_deferred_sender"] = float64(g.deferred)
	if g.skipped > 0 {
		x[c.Name+"/sequences_skipped_below_a_violation"] = float64(g.skipped)
	}
}

// ---------------------------------------------------------------------------

func main() {
	replay := flag.String("replay", "", "replay file")
	flag.Parse()
	n := report.Workers()
	if *replay != "" {
		n = 1
	}
	report.Main("C19", "model_checking", n, func(r *report.Run, shard, nshards int) {
		run(r, shard, nshards, *replay)
	})
}

func run(r *report.Run, shard, nshards int, replayFile string) {
	e := newEnv(r, shard)
	cfgs := configs(r.Tier)
	var desc []string
	for _, c := range cfgs {
		desc = append(desc, c.describe())
	}
	r.Rule = "every operation sequence over the alphabet, executed on a fresh real PriorityNonceMempool (app/mempool, default config as in app.go) next to a reference set of pending (sender,seq,class); " +
		"states = distinct pool contents reached (per alphabet), transitions = distinct sequence extensions executed (one per sequence), each followed by the per-step oracle and a final SelectAll; " +
		"evaluations = SelectAll outcomes checked at sequence ends, distinct_nontrivial = distinct emitted orders among them. Alphabets: " + strings.Join(desc, " | ")
	r.Assumptions = []string{
		"Insert is only issued when (sender, seq) is not pending (the stated precondition); replacing inserts are outside the property",
		"Remove(absent) is issued with a tx object of that (sender, seq) that is not in the pool (never inserted, or inserted and removed earlier in the sequence); Remove of a different tx object with the (sender, seq) of a pending one is excluded by the same precondition",
		"priority rule read in its weaker form: when t of sender S is emitted, every OTHER sender's next available tx (lowest pending sequence number not yet emitted) is in a class <= class(t); order among equal classes is unconstrained",
		fmt.Sprintf("'other' transactions carry the context priority the ante chain sets (%d); reserved classes are only single-message txs whose type URL starts with /palomachain.paloma.{consensus,scheduler,evm,valset}. ; everything else is 'other': bank send, skyway send-to-remote, paloma status update, a TWO-message consensus tx, the SDK's /cosmos.consensus.v1.MsgUpdateParams and made-up foreign URLs containing a reserved segment (/foo.evm.bar.MsgDo, /acme.valset.v1.MsgRotate, /acme.scheduler.v1.MsgRun, /evil.palomachain.paloma.consensus.MsgAddEvidence)", e.prio),
		"made-up type URLs ride as the message list of a really signed bank-send envelope (the mempool reads only GetMsgs and the first signature); additionally TxPriority is evaluated on a single-message tx of EVERY Msg type registered in the application's interface registry, expected class by namespace prefix",
		"MaxTx = 0 and no TxReplacement/OnRead callbacks, as wired in app.go (DefaultPriorityMempool)",
		"senders are distinguished by key; the sender tie-break of the priority index (address string order) is whatever the three fixed keys give",
	}
	if shard == 0 {
		e.classRanks(r)
		r.Extra["type_urls"] = e.urlTable()
	}

	if replayFile != "" {
		e.replay(r, cfgs, replayFile)
		return
	}
	for i := range cfgs {
		c := &cfgs[i]
		g := &engine{e: e, r: r, c: c, shard: shard, nshards: nshards, shardD: 3, deadline: r.Deadline(c.Share, c.Share)}
		if g.shardD > c.Depth {
			g.shardD = c.Depth
		}
		g.run()
	}
}

// classRanks evaluates the application's TxPriority on every transaction of
// the alphabet: classes must rank consensus > scheduler > evm > valset > other.
func (e *env) classRanks(r *report.Run) {
	tp := palomamempool.NewDefaultTxPriority()
	type pv struct {
		label string
		c     int
		p     int64
	}
	var all []pv
	for s := 0; s < 3; s++ {
		for q := 0; q < 3; q++ {
			for c := 0; c < nClasses; c++ {
				id := txID{s, q, c}
				all = append(all, pv{id.String() + " " + e.urls[s][q][c], c, tp.GetTxPriority(e.ctx, e.txs[s][q][c])})
			}
		}
	}
	// every Msg type the application registers, as a single-message tx; class by
	// namespace prefix (property text), anything else is ordinary.
	reg := e.w.App.InterfaceRegistry()
	urls := reg.ListImplementations(sdk.MsgInterfaceProtoName)
	sort.Strings(urls)
	var lookalikes []string
	nreg := 0
	for _, u := range urls {
		msg, err := reg.Resolve(u)
		if err != nil {
			continue
		}
		m, ok := msg.(sdk.Msg)
		if !ok {
			continue
		}
		c := clsOther
		for i, d := range []string{"consensus", "scheduler", "evm", "valset"} {
			if strings.HasPrefix(u, "/palomachain.paloma."+d+".") {
				c = i
			} else if strings.Contains(u, "."+d+".") {
				lookalikes = append(lookalikes, u)
			}
		}
		tx := &msgsTx{Tx: e.txs[0][0][clsOther].(authsigning.Tx), msgs: []sdk.Msg{m}}
		all = append(all, pv{"registered " + u, c, tp.GetTxPriority(e.ctx, tx)})
		nreg++
	}
	r.Extra["registered_msg_types_ranked"] = float64(nreg)
	r.Extra["registered_lookalike_type_urls"] = lookalikes
	for _, a := range all {
		for _, b := range all {
			want := 0
			if clsRank[a.c] > clsRank[b.c] {
				want = 1
			} else if clsRank[a.c] < clsRank[b.c] {
				want = -1
			}
			if got := tp.Compare(a.p, b.p); got != want {
				r.Violate("priority-class-rank", fmt.Sprintf("TxPriority ranks [%s: %s, %d] vs [%s: %s, %d] as %d, classes say %d",
					a.label, clsName[a.c], a.p, b.label, clsName[b.c], b.p, got, want), nil)
			}
		}
	}
}

func (e *env) urlTable() map[string]interface{} {
	out := map[string]interface{}{}
	for c := 0; c < nClasses; c++ {
		set := map[string]bool{}
		for s := 0; s < 3; s++ {
			for q := 0; q < 3; q++ {
				set[e.urls[s][q][c]] = true
			}
		}
		var l []string
		for u := range set {
			l = append(l, u)
		}
		sort.Strings(l)
		out[clsName[c]] = l
	}
	return out
}

func (e *env) replay(r *report.Run, cfgs []config, file string) {
	var v report.Violation
	b, err := os.ReadFile(file)
	if err == nil {
		err = json.Unmarshal(b, &v)
	}
	if err != nil {
		fmt.Fprintln(os.Stderr, err)
		os.Exit(2)
	}
	m, _ := v.Replay.(map[string]interface{})
	if m == nil {
		fmt.Fprintln(os.Stderr, "replay file has no sequence")
		os.Exit(2)
	}
	name, _ := m["config"].(string)
	var c *config
	for _, t := range []string{"quick", "thorough"} {
		for _, cc := range configs(t) {
			if cc.Name == name {
				cc := cc
				c = &cc
			}
		}
	}
	if c == nil {
		fmt.Fprintln(os.Stderr, "unknown config", name)
		os.Exit(2)
	}
	var path []int
	for _, p := range m["path"].([]interface{}) {
		found := false
		for op := 0; op < c.nOps(); op++ {
			if c.label(op) == p.(string) {
				path = append(path, op)
				found = true
			}
		}
		if !found {
			fmt.Fprintln(os.Stderr, "unknown op", p)
			os.Exit(2)
		}
	}
	g := &engine{e: e, r: r, c: c, nshards: 1, deadline: time.Now().Add(time.Minute)}
	// replay every prefix so that the shortest failing prefix is reported
	for l := 0; l <= len(path) && !g.found; l++ {
		mp := palomamempool.DefaultPriorityMempool()
		var mod model
		var f *fail
		for _, op := range path[:l] {
			if f = e.step(c, mp, &mod, op, nil); f != nil {
				break
			}
		}
		var outcome string
		if f == nil {
			f = g.final(mp, &mod, &outcome)
		}
		fmt.Printf("replay %-60s pending=%s select=[%s] count=%d\n", strings.Join(g.labels(path[:l]), ";"), mod.String(), strings.TrimSpace(outcome), mp.CountTx())
		r.Transitions++
		r.States++
		if f != nil {
			g.violate(path[:l], f)
		}
	}
	r.Sample(g.labels(path))
}
