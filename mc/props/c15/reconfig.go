// C15, settings that change while transfers are pending, and exemption lists in
// every order through every path that can store them.
//
// Part "reconfig": Send under tax settings S1 -> settings replaced by S2 (every
// ordered pair from a menu, incl. S1 = "no record") -> second sender sends under
// S2 -> {cancel, batch + attested execution, batch + timeout + cancel}. Oracle:
// what is refunded / burned is what was taken when sending (the tax recorded
// with the transfer), the escrow equals the sum over pending transfers.
//
// Part "limit-reconfig": sends interleaved with replacements of the token's
// transfer limit (limit, period, exemption of the sender) against the reference
// counter judged under the settings current at each send.
//
// Part "exempt-lists": every ordered list of 1..3 of three addresses with
// spread first bytes, stored through the proposal handler, the keeper setters
// and a genesis export -> JSON -> import of the skyway module; every listed
// address (every position) and an unlisted one then send.
package main

import (
	"fmt"
	"math/big"
	"sort"
	"strings"
	"time"

	sdkmath "cosmossdk.io/math"
	sdk "github.com/cosmos/cosmos-sdk/types"
	skywaykeeper "github.com/palomachain/paloma/v2/x/skyway/keeper"
	skywaytypes "github.com/palomachain/paloma/v2/x/skyway/types"
	"github.com/palomachain/paloma/v2/zzverif/explore"
	"github.com/palomachain/paloma/v2/zzverif/world"
)

// ---------------------------------------------------------------------------
// writing settings through the different paths

func addrStrings(as []sdk.AccAddress) []string {
	out := make([]string, len(as))
	for i, a := range as {
		out[i] = a.String()
	}
	return out
}

// setTax stores a tax record for denom through path: handler | keeper | genesis.
// A panic of the code under test while storing is returned as an error (it
// becomes a "...-setting-rejected" verdict, not a harness crash).
func (e *env) setTax(ctx sdk.Context, path, denom, rate string, exempt []sdk.AccAddress) error {
	err, _ := world.Protect(func() error { return e.setTaxRaw(ctx, path, denom, rate, exempt) })
	return err
}

func (e *env) setTaxRaw(ctx sdk.Context, path, denom, rate string, exempt []sdk.AccAddress) error {
	k := e.w.App.SkywayKeeper
	switch path {
	case "handler":
		return e.gov(ctx, &skywaytypes.SetBridgeTaxProposal{Title: "t", Description: "d", Token: denom, Rate: rate, ExemptAddresses: addrStrings(exempt)})
	case "keeper":
		return k.SetBridgeTax(ctx, &skywaytypes.BridgeTax{Token: denom, Rate: rate, ExemptAddresses: append([]sdk.AccAddress{}, exempt...)})
	case "genesis":
		return e.viaGenesis(ctx, func(gs *skywaytypes.GenesisState) {
			var keep []*skywaytypes.BridgeTax
			for _, t := range gs.BridgeTaxes {
				if t.Token != denom {
					keep = append(keep, t)
				}
			}
			gs.BridgeTaxes = append(keep, &skywaytypes.BridgeTax{Token: denom, Rate: rate, ExemptAddresses: append([]sdk.AccAddress{}, exempt...)})
		})
	}
	panic("path " + path)
}

func (e *env) setLimit(ctx sdk.Context, path, denom string, limit *big.Int, period skywaytypes.LimitPeriod, exempt []sdk.AccAddress) error {
	err, _ := world.Protect(func() error { return e.setLimitRaw(ctx, path, denom, limit, period, exempt) })
	return err
}

func (e *env) setLimitRaw(ctx sdk.Context, path, denom string, limit *big.Int, period skywaytypes.LimitPeriod, exempt []sdk.AccAddress) error {
	k := e.w.App.SkywayKeeper
	var l sdkmath.Int // limit == nil: the field is left unset
	if limit != nil {
		l = sdkmath.NewIntFromBigInt(limit)
	}
	switch path {
	case "handler":
		return e.gov(ctx, &skywaytypes.SetBridgeTransferLimitProposal{Title: "t", Description: "d", Token: denom, Limit: l, LimitPeriod: period, ExemptAddresses: addrStrings(exempt)})
	case "keeper":
		return k.SetBridgeTransferLimit(ctx, &skywaytypes.BridgeTransferLimit{Token: denom, Limit: l, LimitPeriod: period, ExemptAddresses: append([]sdk.AccAddress{}, exempt...)})
	case "genesis":
		return e.viaGenesis(ctx, func(gs *skywaytypes.GenesisState) {
			var keep []*skywaytypes.BridgeTransferLimit
			for _, t := range gs.BridgeTransferLimits {
				if t.Token != denom {
					keep = append(keep, t)
				}
			}
			gs.BridgeTransferLimits = append(keep, &skywaytypes.BridgeTransferLimit{Token: denom, Limit: l, LimitPeriod: period, ExemptAddresses: append([]sdk.AccAddress{}, exempt...)})
		})
	}
	panic("path " + path)
}

// viaGenesis exports the skyway module's genesis from ctx, lets edit change it,
// round-trips it through its JSON form (as a genesis file would) and imports it
// with the module's InitGenesis into the same state.
func (e *env) viaGenesis(ctx sdk.Context, edit func(gs *skywaytypes.GenesisState)) error {
	k := e.w.App.SkywayKeeper
	cdc := e.w.App.AppCodec()
	gs := skywaykeeper.ExportGenesis(ctx, k)
	edit(&gs)
	bz, err := cdc.MarshalJSON(&gs)
	if err != nil {
		return fmt.Errorf("genesis marshal: %w", err)
	}
	var in skywaytypes.GenesisState
	if err := cdc.UnmarshalJSON(bz, &in); err != nil {
		return fmt.Errorf("genesis unmarshal: %w", err)
	}
	if err := in.ValidateBasic(); err != nil {
		return fmt.Errorf("genesis validate: %w", err)
	}
	err, _ = world.Protect(func() error { skywaykeeper.InitGenesis(ctx, k, in); return nil })
	return err
}

// ---------------------------------------------------------------------------
// part reconfig

type taxSetting struct {
	Rate   string `json:"rate"`   // "unset" = no record (only as first setting)
	Exempt string `json:"exempt"` // none | sender | other
	Path   string `json:"path"`   // handler | keeper
}

type reconfCase struct {
	Part     string     `json:"part"`
	Amount   string     `json:"amount"`
	S1       taxSetting `json:"s1"`
	S2       taxSetting `json:"s2"`
	End      string     `json:"end"` // cancel | executed | timeout-cancel
	LimitToo bool       `json:"limit_too"`
}

func (e *env) partReconfig() {
	rates := []string{"0", "1/3", "1/2", "1"}
	exempts := []string{"none", "sender", "other"}
	amounts := []string{"7"}
	limitToo := []bool{false}
	if e.r.Thorough() {
		rates = append(rates, "7/3", "0.000001")
		amounts = []string{"3", "7", "100", "1000000000000000000"}
		limitToo = []bool{false, true}
	}
	type se struct{ rate, ex string }
	var menu []se
	for _, r := range rates {
		for _, x := range exempts {
			menu = append(menu, se{r, x})
		}
	}
	first := append([]se{{"unset", "none"}}, menu...)
	i := 0
	for _, a := range amounts {
		for _, s1 := range first {
			for _, s2 := range menu {
				for _, paths := range [][2]string{{"handler", "keeper"}, {"keeper", "handler"}} {
					for _, end := range []string{"cancel", "executed", "timeout-cancel"} {
						for _, lt := range limitToo {
							i++
							if i%e.nshards != e.shard {
								continue
							}
							if e.late() {
								return
							}
							c := reconfCase{Part: "reconfig", Amount: a, S1: taxSetting{s1.rate, s1.ex, paths[0]}, S2: taxSetting{s2.rate, s2.ex, paths[1]}, End: end, LimitToo: lt}
							outcome, f := e.runReconfig(c)
							e.r.Case(fmt.Sprintf("reconfig|%s|%v|%v|%s|%v|%s", a, c.S1, c.S2, end, lt, outcome))
							e.reconfCases++
							if f != nil {
								e.violate(f, c, len(a))
							}
							if i%307 == 0 {
								e.r.Sample(map[string]interface{}{"case": c, "outcome": outcome})
							}
						}
					}
				}
			}
		}
	}
}

func (e *env) exemptList(kind string) []sdk.AccAddress {
	switch kind {
	case "none":
		return nil
	case "sender":
		return []sdk.AccAddress{e.ex.Addr, e.u1.Addr}
	case "other":
		return []sdk.AccAddress{e.u2.Addr, e.ex.Addr}
	}
	panic("exempt " + kind)
}

// taxUnder is the reference cost of sending a under setting s for the sender
// role ("sender" = U1, "other" = U2).
func taxUnder(s taxSetting, role string, a *big.Int) *big.Int {
	if s.Rate == "unset" || s.Exempt == role {
		return new(big.Int)
	}
	return floorMul(a, parseRate(s.Rate))
}

func (e *env) runReconfig(c reconfCase) (outcome string, fail *explore.Fail) {
	w := e.w
	k := w.App.SkywayKeeper
	ctx := world.Fork(w.Root)
	denom := e.taxDenom
	a1 := bi(c.Amount)
	a2 := new(big.Int).Add(a1, big.NewInt(1))
	rich := new(big.Int).Mul(a2, big.NewInt(20))
	must(e.mint(ctx, denom, e.u1, rich))
	must(e.mint(ctx, denom, e.u2, rich))
	sup0 := w.Supply(ctx, denom)
	apply := func(s taxSetting) *explore.Fail {
		if s.Rate == "unset" {
			return nil
		}
		if err := e.setTax(ctx, s.Path, denom, s.Rate, e.exemptList(s.Exempt)); err != nil {
			return explore.Failf("tax-setting-rejected:"+s.Path, "setting %v rejected: %v", s, err)
		}
		return e.taxStored(ctx, denom, s.Rate, e.exemptList(s.Exempt), s.Path)
	}
	if f := apply(c.S1); f != nil {
		return "", f
	}
	t1 := taxUnder(c.S1, "sender", a1)
	locked1 := new(big.Int).Add(a1, t1)
	if res := e.send(ctx, e.u1, denom, a1); !res.OK() {
		return "", explore.Failf("reconf-send-rejected", "send of %s under %v rejected: %v", a1, c.S1, res.Err)
	}
	if paid := new(big.Int).Sub(rich, w.Balance(ctx, e.u1.Addr, denom)); paid.Cmp(locked1) != 0 {
		return "", explore.Failf("reconf-send-delta", "sender paid %s for %s under %v, expected %s", paid, a1, c.S1, locked1)
	}
	// settings change while the transfer is pending
	if f := apply(c.S2); f != nil {
		return "", f
	}
	if c.LimitToo {
		if err := e.setLimit(ctx, c.S2.Path, denom, big.NewInt(1), skywaytypes.LimitPeriod_DAILY, []sdk.AccAddress{e.u2.Addr}); err != nil {
			return "", explore.Failf("limit-setting-rejected:"+c.S2.Path, "limit rejected: %v", err)
		}
		if f := e.limitStored(ctx, denom, big.NewInt(1), skywaytypes.LimitPeriod_DAILY, []sdk.AccAddress{e.u2.Addr}, c.S2.Path); f != nil {
			return "", f
		}
	}
	t2 := taxUnder(c.S2, "other", a2)
	locked2 := new(big.Int).Add(a2, t2)
	if res := e.send(ctx, e.u2, denom, a2); !res.OK() {
		return "", explore.Failf("reconf-send-rejected", "second send of %s under %v rejected: %v", a2, c.S2, res.Err)
	}
	if paid := new(big.Int).Sub(rich, w.Balance(ctx, e.u2.Addr, denom)); paid.Cmp(locked2) != 0 {
		return "", explore.Failf("reconf-send-delta", "second sender paid %s for %s under %v, expected %s", paid, a2, c.S2, locked2)
	}
	want := map[string][2]*big.Int{e.u1.Addr.String(): {a1, t1}, e.u2.Addr.String(): {a2, t2}}
	ids := map[string]uint64{}
	checkRecorded := func(txs []*skywaytypes.InternalOutgoingTransferTx, where string) *explore.Fail {
		sig := "reconf-recorded-tax"
		if where == "pool after timeout" {
			sig = "timeout-release-recorded-tax"
		}
		if len(txs) != 2 {
			return explore.Failf("reconf-pending-set", "%s holds %d transfers, expected 2", where, len(txs))
		}
		for _, t := range txs {
			wnt, ok := want[t.Sender.String()]
			if !ok || t.BridgeTaxAmount.IsNil() || t.Erc20Token.Amount.BigInt().Cmp(wnt[0]) != 0 || t.BridgeTaxAmount.BigInt().Cmp(wnt[1]) != 0 {
				return explore.Failf(sig, "%s: transfer %d has amount %s tax %s, taken at send time: %v (settings %v -> %v)", where, t.Id, t.Erc20Token.Amount, t.BridgeTaxAmount, wnt, c.S1, c.S2)
			}
			ids[t.Sender.String()] = t.Id
		}
		return nil
	}
	pool, _ := k.GetUnbatchedTransactions(ctx)
	if f := checkRecorded(pool, "pool"); f != nil {
		return "", f
	}
	escrow := func(c sdk.Context) *big.Int { return w.Balance(c, w.SkywayModuleAddr(), denom) }
	both := new(big.Int).Add(locked1, locked2)
	if esc := escrow(ctx); esc.Cmp(both) != 0 {
		return "", explore.Failf("reconf-escrow-sum", "escrow holds %s, pending transfers total %s", esc, both)
	}
	cancel := func(u *world.Actor, locked, escAfter *big.Int, stage string) *explore.Fail {
		before := w.Balance(ctx, u.Addr, denom)
		res := w.DeliverTx(ctx, []*world.Actor{u}, &skywaytypes.MsgCancelSendToRemote{TransactionId: ids[u.Addr.String()], Metadata: world.Meta(u)})
		if !res.OK() {
			return explore.Failf("reconf-cancel-rejected", "%s: cancel by %s rejected (locked %s, settings %v -> %v): %v", stage, u.Name, locked, c.S1, c.S2, res.Err)
		}
		if got := new(big.Int).Sub(w.Balance(ctx, u.Addr, denom), before); got.Cmp(locked) != 0 {
			return explore.Failf("reconf-cancel-refund", "%s: cancel refunded %s to %s, %s was taken when sending (settings %v -> %v)", stage, got, u.Name, locked, c.S1, c.S2)
		}
		if esc := escrow(ctx); esc.Cmp(escAfter) != 0 {
			return explore.Failf("reconf-escrow-sum", "%s: escrow holds %s after the cancel, pending transfers total %s", stage, esc, escAfter)
		}
		if s := w.Supply(ctx, denom); s.Cmp(sup0) != 0 {
			return explore.Failf("reconf-cancel-supply", "%s: supply changed %s -> %s", stage, sup0, s)
		}
		return nil
	}
	buildBatch := func() (*skywaytypes.InternalOutgoingTxBatch, *explore.Fail) {
		h := (ctx.BlockHeight()/50 + 1) * 50
		ctx = world.At(ctx, h, ctx.BlockTime().Add(time.Second))
		w.SkywayEnd(ctx, nil)
		batches, err := k.GetOutgoingTxBatches(ctx)
		if err != nil || len(batches) != 1 {
			return nil, explore.Failf("reconf-batch", "end-blocker at %d built %d batches (%v)", h, len(batches), err)
		}
		if f := checkRecorded(batches[0].Transactions, "batch"); f != nil {
			return nil, f
		}
		ctx = world.At(ctx, h+1, ctx.BlockTime().Add(time.Second))
		return &batches[0], nil
	}
	switch c.End {
	case "cancel":
		if f := cancel(e.u1, locked1, locked2, "pool"); f != nil {
			return "", f
		}
		if p, _ := k.GetUnbatchedTransactions(ctx); len(p) != 1 || !p[0].Sender.Equals(e.u2.Addr) {
			return "", explore.Failf("reconf-pending-set", "after the cancel the pool holds %d transfers", len(p))
		}
	case "executed":
		b, f := buildBatch()
		if f != nil {
			return "", f
		}
		for _, v := range w.Vals {
			if res := w.DeliverTx(ctx, []*world.Actor{v.Actor}, world.BatchExecutedClaim(v, ref, 1, 1, b.BatchNonce, b.TokenContract.GetAddress().Hex())); !res.OK() {
				return "", explore.Failf("harness-claim", "executed claim rejected: %v", res.Err)
			}
		}
		w.SkywayEnd(ctx, nil)
		if burned := new(big.Int).Sub(sup0, w.Supply(ctx, denom)); burned.Cmp(both) != 0 {
			return "", explore.Failf("reconf-exec-burn", "execution burned %s, transfers took %s when sent (settings %v -> %v)", burned, both, c.S1, c.S2)
		}
		if esc := escrow(ctx); esc.Sign() != 0 {
			return "", explore.Failf("reconf-escrow-sum", "escrow holds %s after execution of all pending transfers", esc)
		}
	case "timeout-cancel":
		if _, f := buildBatch(); f != nil {
			return "", f
		}
		ctx = world.At(ctx, ctx.BlockHeight()+1, ctx.BlockTime().Add(11*time.Minute))
		w.SkywayEnd(ctx, nil)
		if bs, _ := k.GetOutgoingTxBatches(ctx); len(bs) != 0 {
			return "", explore.Failf("reconf-timeout-requeue", "timed-out batch still stored")
		}
		pool, _ := k.GetUnbatchedTransactions(ctx)
		if f := checkRecorded(pool, "pool after timeout"); f != nil {
			return "", f
		}
		if esc := escrow(ctx); esc.Cmp(both) != 0 {
			return "", explore.Failf("reconf-escrow-sum", "escrow holds %s after the timeout, pending transfers total %s", esc, both)
		}
		if f := cancel(e.u1, locked1, locked2, "after timeout"); f != nil {
			return "", f
		}
		if f := cancel(e.u2, locked2, new(big.Int), "after timeout"); f != nil {
			return "", f
		}
	default:
		panic("end " + c.End)
	}
	d := t1.Cmp(taxUnder(c.S2, "sender", a1))
	switch {
	case d > 0:
		return "tax-lowered", nil
	case d < 0:
		return "tax-raised", nil
	}
	return "tax-same", nil
}

// ---------------------------------------------------------------------------
// part limit-reconfig

type limSetting struct {
	Limit  string `json:"limit"`
	Period string `json:"period"`
	Exempt bool   `json:"exempt_sender"`
	Path   string `json:"path"`
}

// seqOp is one element of a limit-reconfig sequence: a settings replacement or a send.
type seqOp struct {
	Conf *limSetting `json:"conf,omitempty"`
	Send *step       `json:"send,omitempty"`
}

func (o seqOp) String() string {
	if o.Conf != nil {
		return fmt.Sprintf("Limit(%s,%s,exemptU1=%v,%s)", o.Conf.Limit, o.Conf.Period, o.Conf.Exempt, o.Conf.Path)
	}
	return o.Send.String()
}

func (e *env) reconfHeights() []int64 {
	d, wk := periodBlocks["DAILY"], periodBlocks["WEEKLY"]
	return []int64{h0, h0 + 1, h0 + d - 1, h0 + d, h0 + wk - 1, h0 + wk}
}

func (e *env) cfgOf(s limSetting) *limCfg {
	c := &limCfg{Part: "limit-reconfig", Period: s.Period, Limit: s.Limit, l: limitOf(s.Limit), exemptU1: s.Exempt}
	c.period = skywaytypes.LimitPeriod(skywaytypes.LimitPeriod_value[s.Period])
	c.wlen = periodBlocks[s.Period]
	c.heights = e.reconfHeights()
	return c
}

// limitOf: "nil" = limit field left unset (behaves as 0).
func limitOf(s string) *big.Int {
	if s == "nil" {
		return new(big.Int)
	}
	return bi(s)
}

func (e *env) applyLimit(ctx sdk.Context, s limSetting) *explore.Fail {
	ex := []sdk.AccAddress{e.ex.Addr}
	if s.Exempt {
		ex = []sdk.AccAddress{e.ex.Addr, e.u1.Addr}
	}
	var arg *big.Int
	if s.Limit != "nil" {
		arg = bi(s.Limit)
	}
	period := skywaytypes.LimitPeriod(skywaytypes.LimitPeriod_value[s.Period])
	if err := e.setLimit(ctx, s.Path, e.limDenom, arg, period, ex); err != nil {
		return explore.Failf("limit-setting-rejected:"+s.Path, "%v rejected: %v", s, err)
	}
	return e.limitStored(ctx, e.limDenom, arg, period, ex, s.Path)
}

// runSeq executes ops from a fresh scenario; used by the enumeration for
// prefixes and by replay.
func (e *env) initLimitReconf() sdk.Context {
	ctx := world.Fork(e.w.Root)
	must(e.mint(ctx, e.limDenom, e.u1, big.NewInt(100_000)))
	return ctx
}

func (e *env) partLimitReconfig() {
	var settings []limSetting
	for _, l := range []string{"500", "1000"} {
		for _, p := range []string{"DAILY", "WEEKLY"} {
			for _, x := range []bool{false, true} {
				settings = append(settings, limSetting{Limit: l, Period: p, Exempt: x})
			}
		}
	}
	settings = append(settings, limSetting{Limit: "1000", Period: "NONE"}, limSetting{Limit: "0", Period: "WEEKLY"}, limSetting{Limit: "nil", Period: "DAILY"})
	if e.r.Thorough() {
		settings = append(settings, limSetting{Limit: "2000", Period: "MONTHLY"}, limSetting{Limit: "0", Period: "YEARLY"})
	}
	first := []string{"1", "500", "1000"}
	second := []string{"1", "500", "501", "1000"}
	third := []string{"1", "500"}
	if e.r.Thorough() {
		second = append(second, "1001", "2000")
		third = append(third, "1000")
	}
	heights := e.reconfHeights()
	base := e.initLimitReconf()
	idx := 0
	for i1, s1 := range settings {
		s1 := s1
		s1.Path = []string{"handler", "keeper"}[i1%2]
		for _, a1 := range first {
			for i2, s2 := range settings {
				s2 := s2
				s2.Path = []string{"keeper", "handler"}[(i1+i2)%2]
				idx++
				if idx%e.nshards != e.shard {
					continue
				}
				if e.late() {
					return
				}
				// prefix: conf s1, send a1 @h0, conf s2
				ctx := world.Fork(base)
				m := &model{total: new(big.Int)}
				ops := []seqOp{{Conf: &s1}, {Send: &step{Kind: "U1", Amount: a1, H: 0}}, {Conf: &s2}}
				ok := true
				for _, o := range ops {
					if f := e.doSeqOp(&ctx, m, o, ops); f != nil {
						e.violate(f, map[string]interface{}{"part": "limit-reconfig", "ops": ops}, len(ops))
						ok = false
						break
					}
				}
				if !ok {
					continue
				}
				for j2 := range heights {
					for _, a2 := range second {
						c2 := world.Fork(ctx)
						m2 := m.clone()
						o2 := seqOp{Send: &step{Kind: "U1", Amount: a2, H: j2}}
						ops2 := append(append([]seqOp{}, ops...), o2)
						if f := e.doSeqOp(&c2, m2, o2, ops2); f != nil {
							e.violate(f, map[string]interface{}{"part": "limit-reconfig", "ops": ops2}, len(ops2))
							continue
						}
						thirdConfs := []*limSetting{nil}
						if e.r.Thorough() {
							for _, s3 := range []limSetting{{Limit: "500", Period: "DAILY"}, {Limit: "1000", Period: "WEEKLY"}, {Limit: "1000", Period: "DAILY", Exempt: true}, {Limit: "1000", Period: "NONE"}, {Limit: "2000", Period: "MONTHLY"}} {
								s3 := s3
								s3.Path = "handler"
								thirdConfs = append(thirdConfs, &s3)
							}
						}
						for _, s3 := range thirdConfs {
							for j3 := j2; j3 < len(heights); j3++ {
								for _, a3 := range third {
									c3 := world.Fork(c2)
									m3 := m2.clone()
									ops3 := append([]seqOp{}, ops2...)
									var f *explore.Fail
									if s3 != nil {
										o := seqOp{Conf: s3}
										ops3 = append(ops3, o)
										f = e.doSeqOp(&c3, m3, o, ops3)
									}
									if f == nil {
										o := seqOp{Send: &step{Kind: "U1", Amount: a3, H: j3}}
										ops3 = append(ops3, o)
										f = e.doSeqOp(&c3, m3, o, ops3)
									}
									if f != nil {
										e.violate(f, map[string]interface{}{"part": "limit-reconfig", "ops": ops3}, len(ops3))
									}
								}
							}
						}
					}
				}
			}
		}
	}
}

// doSeqOp executes one op of a limit-reconfig sequence. The settings in force
// are carried in e.curLim (reset by every Conf op of the sequence).
func (e *env) doSeqOp(ctx *sdk.Context, m *model, o seqOp, all []seqOp) *explore.Fail {
	if o.Conf != nil {
		return e.applyLimit(*ctx, *o.Conf)
	}
	// the settings in force = the last Conf before this op
	var cur *limSetting
	for i := range all {
		if all[i].Send == o.Send {
			break
		}
		if all[i].Conf != nil {
			cur = all[i].Conf
		}
	}
	if cur == nil {
		panic("send without settings")
	}
	c := e.cfgOf(*cur)
	dS, dB := e.digests(*ctx)
	before := *m
	outcome, _, f := e.stepLimit(c, ctx, m, *o.Send, dS, dB)
	if f != nil {
		f.Signature = "reconf:" + f.Signature
		f.Message = fmt.Sprintf("%s [settings in force: %v; sequence %v]", f.Message, *cur, seqLabels(all))
		return f
	}
	rel := "none"
	if before.open {
		rel = fmt.Sprintf("d%d", indexOf(c.heights, before.start))
	}
	e.r.Case(fmt.Sprintf("limit-reconfig|%v|%s|h%d|%s|%s|%s", *cur, o.Send.Amount, o.Send.H, rel, before.total, outcome))
	e.limReconfSends++
	return nil
}

func seqLabels(ops []seqOp) []string {
	out := make([]string, len(ops))
	for i, o := range ops {
		out[i] = o.String()
	}
	return out
}

// ---------------------------------------------------------------------------
// part exempt-lists

type listCase struct {
	Part string   `json:"part"`
	Path string   `json:"path"` // handler | keeper | genesis
	List []string `json:"list"` // names of the listed actors, in stored order
}

// spreadActors returns three deterministic actors whose address first bytes
// are low (< 0x30), middle (0x60..0x9f) and high (>= 0xd0).
func spreadActors() []*world.Actor {
	var lo, mid, hi *world.Actor
	for i := 0; lo == nil || mid == nil || hi == nil; i++ {
		a := world.NewActor(fmt.Sprintf("X%d", i))
		switch b := a.Addr[0]; {
		case b < 0x30 && lo == nil:
			lo = a
		case b >= 0x60 && b <= 0x9f && mid == nil:
			mid = a
		case b >= 0xd0 && hi == nil:
			hi = a
		}
	}
	return []*world.Actor{hi, lo, mid} // e.g. 0xd., 0x1., 0x7.
}

func orderedLists(n int) [][]int {
	var out [][]int
	var rec func(cur []int, used int)
	rec = func(cur []int, used int) {
		if len(cur) > 0 {
			out = append(out, append([]int{}, cur...))
		}
		for i := 0; i < n; i++ {
			if used&(1<<i) == 0 {
				rec(append(cur, i), used|1<<i)
			}
		}
	}
	rec(nil, 0)
	sort.SliceStable(out, func(i, j int) bool { return len(out[i]) < len(out[j]) })
	return out
}

func (e *env) partExemptLists() {
	if e.xs == nil {
		e.xs = spreadActors()
	}
	if e.shard == 0 {
		var d []string
		for _, a := range e.xs {
			d = append(d, fmt.Sprintf("%s=%x..", a.Name, []byte(a.Addr)[:2]))
		}
		e.r.Extra["exempt_list_addresses"] = strings.Join(d, " ")
	}
	i := 0
	for _, l := range orderedLists(len(e.xs)) {
		for _, path := range []string{"handler", "keeper", "genesis"} {
			i++
			if i%e.nshards != e.shard {
				continue
			}
			if e.late() {
				return
			}
			c := listCase{Part: "exempt-lists", Path: path}
			for _, ix := range l {
				c.List = append(c.List, e.xs[ix].Name)
			}
			for _, f := range e.runList(c) {
				e.violate(f, c, len(c.List))
			}
		}
	}
}

func (e *env) actorByName(n string) *world.Actor {
	if e.xs == nil {
		e.xs = spreadActors()
	}
	for _, a := range e.xs {
		if a.Name == n {
			return a
		}
	}
	panic("actor " + n)
}

func (e *env) runList(c listCase) (fails []*explore.Fail) {
	w := e.w
	k := w.App.SkywayKeeper
	base := world.Fork(w.Root)
	if e.xs == nil {
		e.xs = spreadActors()
	}
	senders := append([]*world.Actor{}, e.xs...)
	senders = append(senders, e.u1)
	for _, s := range senders {
		must(e.mint(base, e.taxDenom, s, big.NewInt(1000)))
		must(e.mint(base, e.limDenom, s, big.NewInt(1000)))
	}
	var list []sdk.AccAddress
	listed := map[string]int{}
	for i, n := range c.List {
		a := e.actorByName(n)
		list = append(list, a.Addr)
		listed[a.Name] = i
	}
	amount, limit := big.NewInt(7), big.NewInt(5)
	if err := e.setTax(base, c.Path, e.taxDenom, "1/2", list); err != nil {
		return []*explore.Fail{explore.Failf("tax-setting-rejected:"+c.Path, "tax with list %v rejected through %s: %v", c.List, c.Path, err)}
	}
	if err := e.setLimit(base, c.Path, e.limDenom, limit, skywaytypes.LimitPeriod_DAILY, list); err != nil {
		return []*explore.Fail{explore.Failf("limit-setting-rejected:"+c.Path, "limit with list %v rejected through %s: %v", c.List, c.Path, err)}
	}
	// the stored records hold exactly what was configured (addresses in any order)
	if f := e.taxStored(base, e.taxDenom, "1/2", list, c.Path); f != nil {
		return []*explore.Fail{f}
	}
	if f := e.limitStored(base, e.limDenom, limit, skywaytypes.LimitPeriod_DAILY, list, c.Path); f != nil {
		return []*explore.Fail{f}
	}
	for _, s := range senders {
		pos, isListed := listed[s.Name]
		where := fmt.Sprintf("list %v via %s, sender %s", c.List, c.Path, s.Name)
		if isListed {
			where += fmt.Sprintf(" (position %d of %d)", pos+1, len(c.List))
		}
		// tax
		{
			ctx := world.Fork(base)
			res := e.send(ctx, s, e.taxDenom, amount)
			if !res.OK() {
				fails = append(fails, explore.Failf("harness", "%s: taxed send rejected: %v", where, res.Err))
				continue
			}
			paid := new(big.Int).Sub(big.NewInt(1000), w.Balance(ctx, s.Addr, e.taxDenom))
			want := new(big.Int).Set(amount)
			if !isListed {
				want.Add(want, floorMul(amount, parseRate("1/2")))
			}
			pool, _ := k.GetUnbatchedTransactions(ctx)
			recorded := "?"
			if len(pool) == 1 && !pool[0].BridgeTaxAmount.IsNil() {
				recorded = pool[0].BridgeTaxAmount.String()
			}
			e.r.Case(fmt.Sprintf("exempt-lists|tax|%s|%v|%s|%s", c.Path, c.List, s.Name, paid))
			e.listSends++
			if paid.Cmp(want) != 0 || recorded != new(big.Int).Sub(want, amount).String() {
				if isListed {
					fails = append(fails, explore.Failf("exempt-tax-charged:"+c.Path, "%s: exempt sender paid %s (recorded tax %s) for amount %s", where, paid, recorded, amount))
				} else {
					fails = append(fails, explore.Failf("nonexempt-tax:"+c.Path, "%s: unlisted sender paid %s (recorded tax %s) for amount %s at rate 1/2", where, paid, recorded, amount))
				}
			}
		}
		// limit: amount above the limit
		{
			ctx := world.Fork(base)
			res := e.send(ctx, s, e.limDenom, amount)
			u, _ := e.usage(ctx, e.limDenom)
			e.r.Case(fmt.Sprintf("exempt-lists|limit|%s|%v|%s|%v", c.Path, c.List, s.Name, res.OK()))
			e.listSends++
			if isListed {
				if !res.OK() {
					fails = append(fails, explore.Failf("exempt-limited:"+c.Path, "%s: exempt sender's transfer of %s rejected under limit %s: %v", where, amount, limit, res.Err))
				}
				if u != nil {
					fails = append(fails, explore.Failf("exempt-limit-accounted:"+c.Path, "%s: exempt sender's transfer was counted: usage %v", where, u))
				}
			} else if res.OK() {
				fails = append(fails, explore.Failf("nonexempt-unlimited:"+c.Path, "%s: unlisted sender's transfer of %s accepted under limit %s", where, amount, limit))
			}
		}
		// limit: amount within the limit is accepted for everybody; only unlisted senders are counted
		{
			ctx := world.Fork(base)
			res := e.send(ctx, s, e.limDenom, big.NewInt(2))
			u, _ := e.usage(ctx, e.limDenom)
			e.r.Case(fmt.Sprintf("exempt-lists|limit-small|%s|%v|%s|%v", c.Path, c.List, s.Name, u != nil))
			e.listSends++
			if !res.OK() {
				fails = append(fails, explore.Failf("harness", "%s: transfer within the limit rejected: %v", where, res.Err))
				continue
			}
			if isListed && u != nil {
				fails = append(fails, explore.Failf("exempt-limit-accounted:"+c.Path, "%s: exempt sender's transfer was counted: usage %v", where, u))
			}
			if !isListed && (u == nil || !u.Total.Equal(sdkmath.NewInt(2))) {
				fails = append(fails, explore.Failf("nonexempt-limit-not-accounted:"+c.Path, "%s: unlisted sender's transfer not counted: usage %v", where, u))
			}
		}
	}
	return fails
}

func sameSet(a, b []sdk.AccAddress) bool {
	if len(a) != len(b) {
		return false
	}
	key := func(l []sdk.AccAddress) string {
		s := make([]string, len(l))
		for i, x := range l {
			s[i] = x.String()
		}
		sort.Strings(s)
		return strings.Join(s, ",")
	}
	return key(a) == key(b)
}
