// C12 — unresponsive validators get jailed in bounded time; responsive ones never.
//
// Explicit-state BFS over the REAL valset keep-alive message server, the real
// valset Begin/EndBlock (grace-period bookkeeping + periodic liveness sweep),
// the real staking end-blocker, the real slashing unjail path and the real
// governance handler for pigeon requirements, on forked application state,
// against a per-validator reference model derived from the property text.
//
// One world has fixed operator addresses, so every (address set, stake vector)
// pair is one OS process: report.Main starts the dispatcher processes, each
// dispatcher claims work items and runs every item in a child process of this
// same binary (one world per process).
package main

import (
	"bytes"
	"context"
	"crypto/sha256"
	"encoding/hex"
	"encoding/json"
	"flag"
	"fmt"
	"os"
	"os/exec"
	"path/filepath"
	"runtime/pprof"
	"sort"
	"strconv"
	"strings"
	"time"

	storetypes "cosmossdk.io/store/types"
	sdk "github.com/cosmos/cosmos-sdk/types"
	govv1beta1 "github.com/cosmos/cosmos-sdk/x/gov/types/v1beta1"
	stakingtypes "github.com/cosmos/cosmos-sdk/x/staking/types"
	valsetmodule "github.com/palomachain/paloma/v2/x/valset"
	valsetkeeper "github.com/palomachain/paloma/v2/x/valset/keeper"
	vtypes "github.com/palomachain/paloma/v2/x/valset/types"
	"github.com/palomachain/paloma/v2/zzverif/explore"
	"github.com/palomachain/paloma/v2/zzverif/report"
	"github.com/palomachain/paloma/v2/zzverif/world"
	"golang.org/x/mod/semver"
)

// ---------------------------------------------------------------------------
// constants of the reference model (from the property text and its anchors)

const (
	refTTL         = 2000 // keep-alive lifetime in blocks
	refGrace       = 30   // grace period in blocks after unjailing
	refSweepEvery  = 10   // periodic liveness check
	blockTime      = 2 * time.Second
	powerReduction = 1_000_000 // sdk.DefaultPowerReduction: consensus power = tokens / 10^6, truncated
	nVals          = 4
)

var refSchedule = []time.Duration{time.Minute, 5 * time.Minute, 15 * time.Minute, time.Hour, 24 * time.Hour}

// version ladder used for keep-alives and minimum-version proposals
var versions = []string{"v1.11.2", "v1.11.3", "v1.12.0", "v1.12.1", "v2.0.0"}

// ---------------------------------------------------------------------------
// jobs: (address set, stake vector)

type job struct {
	Name   string   `json:"name"`
	Addrs  []string `json:"addrs"` // hex, 20 bytes each; empty = keyed validators
	Stakes []int64  `json:"stakes"`
	Unit   int64    `json:"unit"` // ugrain per stake unit (0 = 10^6 = one consensus power unit)
}

func (j job) unit() int64 {
	if j.Unit == 0 {
		return powerReduction
	}
	return j.Unit
}

func (j job) String() string {
	b, _ := json.Marshal(j)
	return string(b)
}

func baseAddr() []byte { return bytes.Repeat([]byte{0x55}, 20) }

func pat(ps []int, b byte) string {
	a := baseAddr()
	for _, p := range ps {
		a[p] = b
	}
	return hex.EncodeToString(a)
}

var stakeVectors = [][]int64{{60, 20, 10, 10}, {30, 30, 30, 10}, {1, 1, 1, 1}}

// groups of four pattern addresses. Within a group the order is chosen so that
// the 0x2c address sits in slot 3 (the 10 % slot of both weighted stake
// vectors); the second rotation moves slots (0,1,2,3) to (2,3,0,1) so that every
// pattern is in a jailable slot of (60,20,10,10) in at least one job.
func groups(thorough bool) (gs [][]string, names []string) {
	positions := []int{0, 10, 19}
	if thorough {
		positions = nil
		for p := 0; p < 20; p++ {
			positions = append(positions, p)
		}
	}
	gs = append(gs, []string{
		pat([]int{7, 8}, 0x2c),                             // adjacent commas
		pat([]int{0, 19}, 0x2c),                            // commas at both ends
		pat([]int{3, 11}, 0x2c),                            // two commas
		hex.EncodeToString(bytes.Repeat([]byte{0x2c}, 20)), // all commas
	})
	names = append(names, "multi")
	for _, p := range positions {
		gs = append(gs, []string{pat([]int{p}, 0x00), pat([]int{p}, 0xff), pat([]int{p}, 0x2b), pat([]int{p}, 0x2c)})
		names = append(names, fmt.Sprintf("p%d", p))
	}
	return gs, names
}

func rotate2(a []string) []string { return []string{a[2], a[3], a[0], a[1]} }

// boundary stake vectors: probe "more than 25 % of bonded power" from both
// sides. (2501,2500,2500,2499)x10^6: 25.01 % protected, 25.00 % and 24.99 % not.
// (251,250,250,249)x10^5: by tokens 25.1 % / 25.0 % / 24.9 %, by (truncated)
// consensus power (25,25,25,24)/99 = 25.25 % / 25.25 % / 24.24 %.
var (
	boundaryA = []int64{2501, 2500, 2500, 2499}
	boundaryB = []int64{251, 250, 250, 249}
)

func svName(sv []int64, unit int64) string {
	n := fmt.Sprintf("s%d-%d-%d-%d", sv[0], sv[1], sv[2], sv[3])
	if unit != 0 && unit != powerReduction {
		n += fmt.Sprintf("u%d", unit)
	}
	return n
}

// jobs of a tier. Slot 0 of rotation 0 holds the 0x00 pattern address, the
// smallest operator address, i.e. the first validator the liveness check
// visits: in the boundary vectors that is the validator just above 25 %.
//
//	quick:    rotation 0: the three stake vectors and boundaryA for every group and
//	          the keyed run, boundaryB for group p0 and the keyed run;
//	          rotation 1: (60,20,10,10) only
//	thorough: rotations 0 and 1 x three stake vectors for every group; boundaryA
//	          for every group (rotation 0), boundaryB for multi, p0, p10, keyed
func jobs(thorough bool) []job {
	var out []job
	gs, names := groups(thorough)
	add := func(name string, addrs []string, sv []int64, unit int64) {
		out = append(out, job{Name: name + "." + svName(sv, unit), Addrs: addrs, Stakes: sv, Unit: unit})
	}
	for gi, g := range gs {
		add(names[gi]+".r0", g, stakeVectors[0], 0)
	}
	for gi, g := range gs {
		add(names[gi]+".r0", g, boundaryA, 0)
	}
	add("keyed", nil, boundaryA, 0)
	for gi, g := range gs {
		if n := names[gi]; n == "p0" || (thorough && (n == "multi" || n == "p10")) {
			add(n+".r0", g, boundaryB, 100_000)
		}
	}
	add("keyed", nil, boundaryB, 100_000)
	for _, sv := range stakeVectors[1:] {
		for gi, g := range gs {
			add(names[gi]+".r0", g, sv, 0)
		}
	}
	for _, sv := range stakeVectors {
		add("keyed", nil, sv, 0)
	}
	for si, sv := range stakeVectors {
		if si > 0 && !thorough {
			break
		}
		for gi, g := range gs {
			add(names[gi]+".r1", rotate2(g), sv, 0)
		}
	}
	return out
}

// ---------------------------------------------------------------------------
// ghost: the reference model

type vghost struct {
	AliveUntil   int64 // 0 = no accepted keep-alive yet
	UnjailEvt    int64 // height of the block of the last unjail event (1 = unjailed since genesis)
	GraceStart   int64 // height of the first end-block that saw it unjailed after it was jailed at the previous end-block (0 = none)
	Jailed       bool  // jailed now (maintained from the outcomes of ops and liveness checks)
	JailedAtEnd  bool  // jailed at the end of the previous block
	NSentences   int
	LastSentence time.Duration
	LastJailedAt int64 // unix seconds of the last valset jailing
}

type ghost struct {
	V      [nVals]vghost
	Min    string // last observed minimum version (must never decrease)
	BigAdv int    // number of Adv2000 on this path
	Dirty  int    // blocks in which the staking end-blocker still has to run
	Raises int
}

func (g *ghost) Clone() explore.Ghost { n := *g; return &n }
func (g *ghost) Key() string          { b, _ := json.Marshal(g); return string(b) }

// ---------------------------------------------------------------------------

type vobs struct {
	Jailed bool
	Status stakingtypes.BondStatus
	Tokens int64
}

type env struct {
	w     *world.World
	r     *report.Run
	j     job
	keyed bool
	msg   vtypes.MsgServer
	gov   govv1beta1.Handler
	vmod  interface {
		EndBlock(context.Context) error
		BeginBlock(context.Context) error
	}
	cons      [nVals]sdk.ConsAddress
	withChain bool // initial node with an active chain on which v3 has no account
	rich      bool // richer alphabet: SJail for every validator, SchedRaise, two RaiseMin, two Adv2000
	maxBig    int
	maxBigPos int // Adv2000 only among the first maxBigPos operations of a path
	maxRaise  int
	desc      string
}

func (e *env) count(k string) {
	f, _ := e.r.Extra[k].(float64)
	e.r.Extra[k] = f + 1
}

func (e *env) observe(ctx sdk.Context) (o [nVals]vobs) {
	for i, v := range e.w.Vals {
		val, err := e.w.App.StakingKeeper.GetValidator(ctx, v.ValAddr)
		if err != nil {
			panic(fmt.Sprintf("validator %d missing: %v", i, err))
		}
		o[i] = vobs{Jailed: val.Jailed, Status: val.Status, Tokens: val.Tokens.Int64()}
	}
	return o
}

// protection under the property's rule "holds more than 25 % of bonded power
// or is the last active validator", computed exactly in integers (4p > T).
// The text leaves open (a) whether power means tokens or consensus power
// (tokens / 10^6, truncated, which is what Keeper.Jail uses), (b) whether the
// bonded total includes validators whose status is still Bonded although they
// are jailed (Keeper.Jail excludes them), (c) how a validator that is not
// bonded itself is counted. surelyProtected = protected under every reading,
// possiblyProtected = under at least one.
type totals struct {
	n                              int // bonded and unjailed validators
	tokMin, tokMax, powMin, powMax int64
}

func active(o [nVals]vobs) (t totals) {
	for _, x := range o {
		if x.Status != stakingtypes.Bonded {
			continue
		}
		t.tokMax += x.Tokens
		t.powMax += x.Tokens / powerReduction
		if !x.Jailed {
			t.n++
			t.tokMin += x.Tokens
			t.powMin += x.Tokens / powerReduction
		}
	}
	return
}

func surelyProtected(o [nVals]vobs, v int) bool {
	t := active(o)
	if o[v].Status != stakingtypes.Bonded || o[v].Jailed {
		return false // holds no bonded power under one reading
	}
	return t.n == 1 || (4*o[v].Tokens > t.tokMax && 4*(o[v].Tokens/powerReduction) > t.powMax)
}

func possiblyProtected(o [nVals]vobs, v int) bool {
	t := active(o)
	return t.n <= 1 || 4*o[v].Tokens > t.tokMin || 4*(o[v].Tokens/powerReduction) > t.powMin
}

func (e *env) minVersion(ctx sdk.Context) string {
	req, err := e.w.App.ValsetKeeper.PigeonRequirements(ctx)
	if err != nil || req == nil {
		panic(fmt.Sprintf("PigeonRequirements: %v", err))
	}
	return req.MinVersion
}

func (e *env) checkMin(ctx sdk.Context, g *ghost, where string) *explore.Fail {
	cur := e.minVersion(ctx)
	if semver.Compare(cur, g.Min) < 0 {
		return explore.Failf("min-version-decreased:"+where, "minimum pigeon version went from %s to %s (%s)", g.Min, cur, e.desc)
	}
	g.Min = cur
	return nil
}

func nextSentence(d time.Duration) time.Duration {
	for _, s := range refSchedule {
		if d < s {
			return s
		}
	}
	return refSchedule[len(refSchedule)-1]
}

func maxDur(a, b time.Duration) time.Duration {
	if a > b {
		return a
	}
	return b
}

// checkSentence: validator v has just been jailed through the valset keeper at
// ctx's block time; compare the sentence with the schedule.
func (e *env) checkSentence(ctx sdk.Context, g *ghost, v int, site string) *explore.Fail {
	info, err := e.w.App.SlashingKeeper.GetValidatorSigningInfo(ctx, e.cons[v])
	if err != nil {
		return explore.Failf("harness:signing-info", "no signing info for v%d: %v", v, err)
	}
	got := info.JailedUntil.Sub(ctx.BlockTime())
	vg := &g.V[v]
	now := ctx.BlockTime().Unix()
	var allowed []time.Duration
	if vg.NSentences == 0 {
		allowed = []time.Duration{refSchedule[0]}
	} else {
		elapsed := time.Duration(now-vg.LastJailedAt) * time.Second
		d := vg.LastSentence
		lo := maxDur(30*time.Minute, d+d/20) // threshold as coded
		hi := maxDur(30*time.Minute, d+d/5)  // threshold as documented ("+ 20 percent")
		switch {
		case elapsed < lo:
			allowed = []time.Duration{nextSentence(d)}
		case elapsed >= hi:
			allowed = []time.Duration{refSchedule[0]}
		default:
			allowed = []time.Duration{nextSentence(d), refSchedule[0]}
		}
	}
	ok := false
	for _, a := range allowed {
		if a == got {
			ok = true
		}
	}
	if !ok {
		return explore.Failf("sentence-schedule:"+site, "v%d jailed for %s; reference allows %v (previous sentence %s, %d earlier jailings, %ds since the last one) (%s)",
			v, got, allowed, vg.LastSentence, vg.NSentences, now-vg.LastJailedAt, e.desc)
	}
	e.count("n_sentence_" + got.String())
	vg.NSentences++
	vg.LastSentence = got
	vg.LastJailedAt = now
	return nil
}

// endBlock closes the current block (staking end-blocker, then the valset
// end-block as in the application's end-block order), evaluates the oracle and
// opens the next block (valset begin-block).
//
// The staking end-blocker only moves validators between bonded and unbonding
// after a jail / unjail (unbonding entries mature after 21 days, beyond every
// horizon explored here); it is run in the two blocks after such an event and,
// as a self-check of that claim, at every height divisible by 50 where it must
// leave the staking store untouched. Validator records are read at liveness
// checks only; in between the ghost's jailed flags are used and compared with
// the records at the next check.
func (e *env) endBlock(ctx *sdk.Context, g *ghost) *explore.Fail {
	h := ctx.BlockHeight()
	sweep := h%refSweepEvery == 0
	if g.Dirty > 0 {
		g.Dirty--
		if _, err := e.w.App.StakingKeeper.EndBlocker(*ctx); err != nil {
			return explore.Failf("harness:staking-endblock", "staking end-blocker: %v", err)
		}
	} else if h%50 == 0 {
		before := e.w.StoreDigest(*ctx, stakingtypes.StoreKey)
		if _, err := e.w.App.StakingKeeper.EndBlocker(*ctx); err != nil {
			return explore.Failf("harness:staking-endblock", "staking end-blocker: %v", err)
		}
		if e.w.StoreDigest(*ctx, stakingtypes.StoreKey) != before {
			return explore.Failf("harness:staking-endblock-not-noop", "staking end-blocker changed state at height %d without a preceding jail/unjail", h)
		}
	}
	var pre, post [nVals]vobs
	if sweep {
		pre = e.observe(*ctx)
		for v := range pre {
			if pre[v].Jailed != g.V[v].Jailed {
				return explore.Failf("jailed-flag-changed-outside-events", "v%d jailed=%v at height %d but the last modelled event (op or liveness check) left it jailed=%v (%s)", v, pre[v].Jailed, h, g.V[v].Jailed, e.desc)
			}
		}
	}
	for v := range g.V {
		if !g.V[v].Jailed && g.V[v].JailedAtEnd {
			g.V[v].GraceStart = h
		}
	}
	if err := e.vmod.EndBlock(*ctx); err != nil {
		return explore.Failf("valset-endblock-error", "valset EndBlock(%d) returned %v (%s)", h, err, e.desc)
	}
	if sweep {
		post = e.observe(*ctx)
	}
	for v := 0; sweep && v < nVals; v++ {
		vg := &g.V[v]
		switch {
		case pre[v].Jailed && !post[v].Jailed:
			return explore.Failf("endblock-unjailed", "v%d unjailed by the valset end-block at %d (%s)", v, h, e.desc)
		case !pre[v].Jailed && post[v].Jailed:
			if vg.AliveUntil > h {
				return explore.Failf("never-jail:sweep-jailed-alive", "v%d jailed for inactivity at height %d although its keep-alive lasts until %d (%s)", v, h, vg.AliveUntil, e.desc)
			}
			if vg.GraceStart > 0 && h-vg.GraceStart <= refGrace {
				return explore.Failf("grace:sweep-jailed-in-grace", "v%d jailed for inactivity at height %d, %d blocks after it became unjailed (block %d) (%s)", v, h, h-vg.GraceStart, vg.GraceStart, e.desc)
			}
			if surelyProtected(pre, v) {
				return explore.Failf("protection:sweep-jailed-protected", "v%d jailed at height %d although protected (tokens %d, states %+v) (%s)", v, h, pre[v].Tokens, pre, e.desc)
			}
			if f := e.checkSentence(*ctx, g, v, "sweep"); f != nil {
				return f
			}
			if vg.AliveUntil == h {
				e.count("n_boundary_jailed_at_alive_until")
			}
			if vg.GraceStart > 0 && h-vg.GraceStart == refGrace+1 {
				e.count("n_boundary_jailed_first_check_after_grace")
			}
			e.count("n_sweep_jailed")
			vg.Jailed = true
			g.Dirty = 2
		case !post[v].Jailed:
			status := post[v].Status == stakingtypes.Bonded || post[v].Status == stakingtypes.Unbonding
			expired := (vg.AliveUntil > 0 && h > vg.AliveUntil) || (vg.AliveUntil == 0 && h-1 > refTTL)
			outOfGrace := h-vg.UnjailEvt > refGrace
			switch {
			case !status:
			case vg.AliveUntil > h:
				e.count("n_sweep_spared_alive")
			case !expired:
				e.count("n_boundary_spared_at_alive_until")
			case !outOfGrace:
				e.count("n_sweep_spared_grace")
				if h-vg.UnjailEvt == refGrace {
					e.count("n_boundary_spared_last_grace_block")
				}
			case possiblyProtected(post, v):
				e.count("n_sweep_spared_protected")
			default:
				e.count(fmt.Sprintf("viol_must_jail_addr_%x", []byte(e.w.Vals[v].ValAddr)))
				return explore.Failf("must-jail:sweep-skipped-expired-validator",
					"v%d (operator %s = %x, tokens %d, status %s) not jailed by the liveness check at height %d: keep-alive expired at %d, last unjailed in block %d, validators after the check %v (%s)",
					v, e.w.Vals[v].ValAddr.String(), []byte(e.w.Vals[v].ValAddr), post[v].Tokens, post[v].Status, h, vg.AliveUntil, vg.UnjailEvt, post, e.desc)
			}
		}
	}
	for v := range g.V {
		g.V[v].JailedAtEnd = g.V[v].Jailed
	}
	if f := e.checkMin(*ctx, g, "end-block"); f != nil {
		return f
	}
	*ctx = world.Advance(*ctx, 1, blockTime)
	if err := e.vmod.BeginBlock(*ctx); err != nil {
		return explore.Failf("valset-beginblock-error", "valset BeginBlock(%d) returned %v", h+1, err)
	}
	return e.checkMin(*ctx, g, "begin-block")
}

func (e *env) advance(ctx *sdk.Context, g *ghost, n int64) *explore.Fail {
	for i := int64(0); i < n; i++ {
		if f := e.endBlock(ctx, g); f != nil {
			return f
		}
	}
	return nil
}

// advSweep runs blocks up to and including the next liveness check.
func (e *env) advSweep(ctx *sdk.Context, g *ghost) *explore.Fail {
	for {
		sweep := ctx.BlockHeight()%refSweepEvery == 0
		if f := e.endBlock(ctx, g); f != nil {
			return f
		}
		if sweep {
			return nil
		}
	}
}

func atomically(ctx sdk.Context, f func(c sdk.Context) error) (err error) {
	defer func() {
		if r := recover(); r != nil {
			err = fmt.Errorf("panic: %v", r)
		}
	}()
	c, write := ctx.CacheContext()
	if err := f(c); err != nil {
		return err
	}
	write()
	return nil
}

// refVerdict is the reference decision for a keep-alive reporting version ver
// while the minimum is min (a valid semver, proposals with anything else are
// refused): +1 must be accepted (not older than min), -1 must be refused
// (older), 0 either. Pre-releases sort before their release, build metadata is
// ignored (semver 2.0). A malformed string is not a version at all: it must be
// refused unless it can be read as a version not older than min by adding the
// missing "v" (weaker reading, then either outcome is accepted).
func refVerdict(ver, min string) int {
	if semver.IsValid(ver) {
		if semver.Compare(ver, min) >= 0 {
			return +1
		}
		return -1
	}
	if n := "v" + ver; semver.IsValid(n) && semver.Compare(n, min) >= 0 {
		return 0
	}
	return -1
}

type verCase struct{ name, ver string }

// versionAlphabet derives the keep-alive version alphabet from the minimum
// M = vX.Y.Z in force. The first four are explored as operations of their own
// (min, below, above, rc), the rest are evaluated by the probe operation.
func versionAlphabet(m string) (main, probes []verCase, ok bool) {
	var x, y, z int
	if n, err := fmt.Sscanf(m, "v%d.%d.%d", &x, &y, &z); n != 3 || err != nil || fmt.Sprintf("v%d.%d.%d", x, y, z) != m {
		return nil, nil, false
	}
	ver := func(a, b, c int) string { return fmt.Sprintf("v%d.%d.%d", a, b, c) }
	below := ver(x, y, z-1)
	switch {
	case z > 0:
	case y > 0:
		below = ver(x, y-1, z+99)
	case x > 0:
		below = ver(x-1, y+99, z)
	default:
		below = m + "-alpha"
	}
	main = []verCase{{"min", m}, {"below", below}, {"above", ver(x, y, z+1)}, {"rc", m + "-rc.1"}}
	probes = []verCase{
		{"minor+1", ver(x, y+1, 0)},
		{"major+1", ver(x+1, 0, 0)},
		{"pre-0", m + "-0"},
		{"git-describe", m + "-4-g2f9c1ab"},
		{"build", m + "+build.5"},
		{"rc+build", m + "-rc.1+build.5"},
		{"next-minor-rc", ver(x, y+1, 0) + "-rc.1"},
		{"above-rc", ver(x, y, z+1) + "-rc.1"},
		{"below-build", below + "+zzz"},
		{"bare-min", strings.TrimPrefix(m, "v")},
		{"bare-below", strings.TrimPrefix(below, "v")},
		{"short", fmt.Sprintf("v%d.%d", x, y+1)},
		{"garbage", "pigeon-latest"},
		{"empty", ""},
		{"leading-zero", fmt.Sprintf("v%d.%d.0%d", x, y, z+1)},
	}
	if y > 0 {
		probes = append(probes, verCase{"minor-1", ver(x, y-1, z+5)})
	}
	if x > 0 {
		probes = append(probes, verCase{"major-1", ver(x-1, y+5, z+5)})
	}
	return main, probes, true
}

// keepAliveProbes evaluates the probe versions for validator v, each on its own
// fork of the state (the state itself is left unchanged).
func (e *env) keepAliveProbes(ctx *sdk.Context, g *ghost, v int, probes []verCase) *explore.Fail {
	for _, p := range probes {
		c := world.Fork(*ctx)
		gg := g.Clone().(*ghost)
		if f := e.keepAlive(&c, gg, v, p.ver); f != nil {
			return f
		}
	}
	return nil
}

func (e *env) keepAlive(ctx *sdk.Context, g *ghost, v int, ver string) *explore.Fail {
	val := e.w.Vals[v]
	min := e.minVersion(*ctx)
	before := e.kaRecord(*ctx, v)
	msg := &vtypes.MsgKeepAlive{PigeonVersion: ver, Metadata: vtypes.MsgMetadata{Creator: val.Addr.String(), Signers: []string{val.Addr.String()}}}
	var err error
	if e.keyed {
		res := e.w.DeliverTx(*ctx, []*world.Actor{val.Actor}, msg)
		if res.Stage == "ante" || res.Stage == "build" || res.Stage == "validate" {
			return explore.Failf("harness:keepalive-tx", "keep-alive tx failed in %s: %v", res.Stage, res.Err)
		}
		err = res.Err
	} else {
		err = atomically(*ctx, func(c sdk.Context) error { _, err := e.msg.KeepAlive(c, msg); return err })
	}
	verdict := refVerdict(ver, min)
	switch {
	case err == nil && verdict < 0:
		return explore.Failf("version-gate:old-keepalive-accepted", "keep-alive of v%d with version %q accepted although it is older than the minimum %s (%s)", v, ver, min, e.desc)
	case err != nil && verdict > 0:
		return explore.Failf("keepalive-refused-valid-version", "keep-alive of v%d with version %q (minimum %s) refused: %v (%s)", v, ver, min, err, e.desc)
	case err != nil:
		if after := e.kaRecord(*ctx, v); after != before {
			return explore.Failf("version-gate:refused-keepalive-changed-record", "refused keep-alive of v%d (version %q) changed its record (%s)", v, ver, e.desc)
		}
		e.count("n_keepalive_refused")
	default:
		if e.kaRecord(*ctx, v) == "" {
			return explore.Failf("keepalive-accepted-without-record", "accepted keep-alive of v%d left no record (%s)", v, e.desc)
		}
		g.V[v].AliveUntil = ctx.BlockHeight() + refTTL
		e.count("n_keepalive_accepted")
		if verdict == 0 {
			e.count("n_keepalive_malformed_accepted")
		}
	}
	return nil
}

func (e *env) kaRecord(ctx sdk.Context, v int) string {
	st := ctx.KVStore(e.w.App.GetKey(vtypes.StoreKey))
	return string(st.Get(append([]byte("keep-alive/"), e.w.Vals[v].ValAddr...)))
}

// jail: the valset keeper's Jail as used by the other Paloma modules.
func (e *env) jail(ctx *sdk.Context, g *ghost, v int) *explore.Fail {
	pre := e.observe(*ctx)
	err := atomically(*ctx, func(c sdk.Context) error {
		return e.w.App.ValsetKeeper.Jail(c, e.w.Vals[v].ValAddr, "verif: misbehaviour")
	})
	post := e.observe(*ctx)
	if err != nil {
		if post != pre {
			return explore.Failf("harness:failed-jail-changed-state", "refused Jail changed staking state")
		}
		e.count("n_jail_refused")
		if os.Getenv("VERIF_C12_DEBUG") != "" {
			fmt.Fprintf(os.Stderr, "Jail(v%d) refused: %v\n", v, err)
		}
		return nil
	}
	if !post[v].Jailed {
		return explore.Failf("jail-no-effect", "valset Jail(v%d) returned nil but the validator is not jailed (%s)", v, e.desc)
	}
	if surelyProtected(pre, v) {
		return explore.Failf("protection:jailed-protected", "valset Jail(v%d) succeeded although the validator is protected: %+v (%s)", v, pre, e.desc)
	}
	e.count("n_jail_ok")
	g.V[v].Jailed, g.Dirty = true, 2
	return e.checkSentence(*ctx, g, v, "jail")
}

// sjail: jailing through the slashing keeper as x/slashing (downtime) and
// skyway evidence do: no protection rule, no sentence.
func (e *env) sjail(ctx *sdk.Context, g *ghost, v int) *explore.Fail {
	err := atomically(*ctx, func(c sdk.Context) error { return e.w.App.SlashingKeeper.Jail(c, e.cons[v]) })
	if err != nil {
		return explore.Failf("harness:sjail", "slashing Jail(v%d): %v", v, err)
	}
	g.V[v].Jailed, g.Dirty = true, 2
	return nil
}

// unjail: the keeper call behind slashing's MsgUnjail.
func (e *env) unjail(ctx *sdk.Context, g *ghost, v int) *explore.Fail {
	err := atomically(*ctx, func(c sdk.Context) error { return e.w.App.SlashingKeeper.Unjail(c, e.w.Vals[v].ValAddr) })
	if err != nil {
		e.count("n_unjail_refused")
		return nil
	}
	if e.observe(*ctx)[v].Jailed {
		return explore.Failf("harness:unjail-no-effect", "Unjail(v%d) returned nil but still jailed", v)
	}
	g.V[v].UnjailEvt = ctx.BlockHeight()
	g.V[v].Jailed, g.Dirty = false, 2
	e.count("n_unjail_ok")
	return nil
}

func (e *env) propose(ctx *sdk.Context, ver string, target uint64) error {
	return atomically(*ctx, func(c sdk.Context) error {
		return e.gov(c, &vtypes.SetPigeonRequirementsProposal{Title: "t", Description: "d", MinVersion: ver, TargetBlockHeight: target})
	})
}

// opsOnPath counts the operations of a path (seed markers like <ladder3> excluded).
func opsOnPath(p []string) int {
	n := 0
	for _, l := range p {
		if !strings.HasPrefix(l, "<") {
			n++
		}
	}
	return n
}

func verIdx(v string) int {
	for i, x := range versions {
		if x == v {
			return i
		}
	}
	return -1
}

// ---------------------------------------------------------------------------
// operations

func (e *env) ops(n *explore.Node) []explore.Op {
	g := n.Ghost.(*ghost)
	obs := e.observe(n.Ctx)
	mi := verIdx(e.minVersion(n.Ctx))
	vmain, vprobes, vok := versionAlphabet(e.minVersion(n.Ctx))
	var ops []explore.Op
	add := func(label string, f func(ctx *sdk.Context, g *ghost) *explore.Fail) {
		ops = append(ops, explore.Op{Label: label, Do: func(ctx *sdk.Context, gg explore.Ghost) *explore.Fail {
			g := gg.(*ghost)
			if f := f(ctx, g); f != nil {
				return f
			}
			return e.checkMin(*ctx, g, "op")
		}})
	}
	for v := 0; v < nVals; v++ {
		v := v
		for _, c := range vmain {
			ver := c.ver
			add(fmt.Sprintf("KeepAlive(v%d,%s)", v, c.name), func(ctx *sdk.Context, g *ghost) *explore.Fail { return e.keepAlive(ctx, g, v, ver) })
		}
		if vok && (v == 0 || v == nVals-1) {
			add(fmt.Sprintf("KeepAliveProbes(v%d)", v), func(ctx *sdk.Context, g *ghost) *explore.Fail { return e.keepAliveProbes(ctx, g, v, vprobes) })
		}
		if obs[v].Jailed {
			add(fmt.Sprintf("Unjail(v%d)", v), func(ctx *sdk.Context, g *ghost) *explore.Fail { return e.unjail(ctx, g, v) })
		} else {
			add(fmt.Sprintf("Jail(v%d)", v), func(ctx *sdk.Context, g *ghost) *explore.Fail { return e.jail(ctx, g, v) })
			if e.rich || v < 2 {
				add(fmt.Sprintf("SJail(v%d)", v), func(ctx *sdk.Context, g *ghost) *explore.Fail { return e.sjail(ctx, g, v) })
			}
		}
	}
	add("Adv1", func(ctx *sdk.Context, g *ghost) *explore.Fail { return e.advance(ctx, g, 1) })
	add("AdvTo10", func(ctx *sdk.Context, g *ghost) *explore.Fail { return e.advSweep(ctx, g) })
	add("Adv31", func(ctx *sdk.Context, g *ghost) *explore.Fail { return e.advance(ctx, g, refGrace+1) })
	if g.BigAdv < e.maxBig && opsOnPath(n.Path) < e.maxBigPos {
		add("Adv2000", func(ctx *sdk.Context, g *ghost) *explore.Fail { g.BigAdv++; return e.advance(ctx, g, refTTL) })
	}
	if mi >= 1 && g.Raises < e.maxRaise && mi+2 < len(versions) {
		add("RaiseMin", func(ctx *sdk.Context, g *ghost) *explore.Fail {
			g.Raises++
			if err := e.propose(ctx, versions[mi+1], 0); err != nil {
				return explore.Failf("raise-min-refused", "raising the minimum version to %s refused: %v", versions[mi+1], err)
			}
			if cur := e.minVersion(*ctx); cur != versions[mi+1] {
				return explore.Failf("raise-min-no-effect", "minimum is %s after raising to %s", cur, versions[mi+1])
			}
			return nil
		})
		if e.rich {
			add("SchedRaise", func(ctx *sdk.Context, g *ghost) *explore.Fail {
				g.Raises++
				_ = e.propose(ctx, versions[mi+1], uint64(ctx.BlockHeight()+3))
				return nil
			})
		}
	}
	if mi >= 1 {
		add("LowerMin", func(ctx *sdk.Context, g *ghost) *explore.Fail {
			for _, t := range []struct {
				ver    string
				target uint64
			}{{versions[mi-1], 0}, {"1.99.0", 0}, {"", 0}, {versions[mi-1], uint64(ctx.BlockHeight() + 2)}} {
				before := e.w.StoreDigest(*ctx, vtypes.StoreKey)
				if err := e.propose(ctx, t.ver, t.target); err == nil {
					return explore.Failf("min-version-decreased:lower-accepted", "proposal lowering the minimum version from %s to %q (target height %d) accepted (%s)", versions[mi], t.ver, t.target, e.desc)
				}
				if e.w.StoreDigest(*ctx, vtypes.StoreKey) != before {
					return explore.Failf("min-version-decreased:refused-proposal-changed-state", "refused proposal changed valset state")
				}
				e.count("n_lower_min_refused")
			}
			return nil
		})
	}
	return ops
}

// ---------------------------------------------------------------------------
// state hash

var hashPrefixes = [][]byte{[]byte("keep-alive/"), []byte("grace-period"), []byte("unjailed-snapshot"), []byte("IDs"), []byte("jail-reasons"), vtypes.PigeonStoreKey, []byte("external-chain-info")}

func (e *env) hash(n *explore.Node) string {
	h := sha256.New()
	ctx := n.Ctx
	fmt.Fprintf(h, "%d|%d|", ctx.BlockHeight(), ctx.BlockTime().Unix())
	st := ctx.KVStore(e.w.App.GetKey(vtypes.StoreKey))
	for _, p := range hashPrefixes {
		it := st.Iterator(p, storetypes.PrefixEndBytes(p))
		for ; it.Valid(); it.Next() {
			val := it.Value()
			if bytes.HasPrefix(it.Key(), []byte("keep-alive/")) {
				// ContactedAt and PigeonVersion are only read by the GetAlivePigeons query
				var d vtypes.KeepAliveData
				if json.Unmarshal(val, &d) == nil {
					val = []byte(fmt.Sprintf("%x:%d", []byte(d.ValAddr), d.AliveUntilBlockHeight))
				}
			}
			fmt.Fprintf(h, "%d:%x=%d:%x;", len(it.Key()), it.Key(), len(val), val)
		}
		it.Close()
	}
	for i, v := range e.w.Vals {
		val, _ := e.w.App.StakingKeeper.GetValidator(ctx, v.ValAddr)
		fmt.Fprintf(h, "V%d:%v:%d:%s:%d:%d;", i, val.Jailed, val.Status, val.Tokens, val.UnbondingHeight, val.UnbondingTime.Unix())
		info, err := e.w.App.SlashingKeeper.GetValidatorSigningInfo(ctx, e.cons[i])
		fmt.Fprintf(h, "S:%v:%d:%v;", err == nil, info.JailedUntil.Unix(), info.Tombstoned)
	}
	// membership and shares of the current snapshot (decides whether the next
	// snapshot build is worthy); its height / creation time are dropped
	if snap, err := e.w.App.ValsetKeeper.GetCurrentSnapshot(ctx); err == nil && snap != nil {
		for _, sv := range snap.Validators {
			fmt.Fprintf(h, "N:%x:%s;", []byte(sv.Address), sv.ShareCount)
		}
	}
	h.Write([]byte(n.Ghost.Key()))
	return hex.EncodeToString(h.Sum(nil)[:16])
}

// ---------------------------------------------------------------------------
// one job = one world

func newEnv(r *report.Run, j job, rich bool) *env {
	cfg := world.Config{}
	for _, s := range j.Stakes {
		cfg.Stakes = append(cfg.Stakes, world.StakesOf(s * j.unit())[0])
	}
	for _, a := range j.Addrs {
		b, err := hex.DecodeString(a)
		if err != nil || len(b) != 20 {
			panic("bad address " + a)
		}
		cfg.ValAddrs = append(cfg.ValAddrs, sdk.AccAddress(b))
	}
	w := world.New(cfg)
	e := &env{w: w, r: r, j: j, keyed: len(j.Addrs) == 0, rich: rich}
	e.msg = valsetkeeper.NewMsgServerImpl(w.App.ValsetKeeper)
	e.gov = valsetmodule.NewValsetProposalHandler(w.App.ValsetKeeper)
	m, ok := w.App.ModuleManager.Modules[vtypes.ModuleName].(interface {
		EndBlock(context.Context) error
		BeginBlock(context.Context) error
	})
	if !ok {
		panic("valset module has no Begin/EndBlock")
	}
	e.vmod = m
	for i, v := range w.Vals {
		val, err := w.App.StakingKeeper.GetValidator(w.Root, v.ValAddr)
		if err != nil {
			panic(err)
		}
		c, err := val.GetConsAddr()
		if err != nil {
			panic(err)
		}
		e.cons[i] = c
		// genesis validators of the world start bonded without ever passing
		// through the bonding transition; run the slashing hook staking calls on
		// that transition so that they have signing info like any validator that
		// was ever bonded on a real chain.
		if err := w.App.SlashingKeeper.Hooks().AfterValidatorBonded(w.Root, c, v.ValAddr); err != nil {
			panic(err)
		}
	}
	e.withChain = strings.Contains(j.Name, ".r0.s60-20-10-10") || strings.HasPrefix(j.Name, "keyed.")
	e.maxBig, e.maxBigPos, e.maxRaise = 1, 2, 1
	if e.rich {
		e.maxBig, e.maxRaise = 2, 2
	}
	e.maxBigPos = envInt("VERIF_C12_BIGPOS", e.maxBigPos)
	var as []string
	for _, v := range w.Vals {
		as = append(as, fmt.Sprintf("%x", []byte(v.ValAddr)))
	}
	e.desc = fmt.Sprintf("addresses %s stakes %v x %d ugrain", strings.Join(as, ","), j.Stakes, j.unit())
	return e
}

// setup drives the world with the same step functions (oracle on) to the
// initial node: block 2999, every validator alive until 3009.
func (e *env) setup() (main []*explore.Node, at1009 *explore.Node, f *explore.Fail) {
	ctx := world.Fork(e.w.Root)
	g := &ghost{Min: e.minVersion(ctx)}
	for v := range g.V {
		g.V[v].UnjailEvt = 1
	}
	all := func() *explore.Fail {
		for v := 0; v < nVals; v++ {
			if f := e.keepAlive(&ctx, g, v, versions[1]); f != nil {
				return f
			}
		}
		return nil
	}
	if f := all(); f != nil {
		return nil, nil, f
	}
	if f := e.advance(&ctx, g, 1009-ctx.BlockHeight()); f != nil {
		return nil, nil, f
	}
	if f := all(); f != nil {
		return nil, nil, f
	}
	// a fork reads through to its parent: freeze this context and continue on a child
	mid := &explore.Node{Ctx: ctx, Ghost: g.Clone()}
	ctx = world.Fork(ctx)
	// second initial node: staggered expiries v0,v1: 3009, v2: 3011, v3: 3010
	g0 := g.Clone().(*ghost)
	ctxB, gB := world.Fork(mid.Ctx), g.Clone().(*ghost)
	if f := e.advance(&ctx, g, 1990); f != nil {
		return nil, nil, f
	}
	main = append(main, &explore.Node{Ctx: ctx, Ghost: g})
	if f := e.advance(&ctxB, gB, 1); f != nil {
		return nil, nil, f
	}
	if f := e.keepAlive(&ctxB, gB, 3, versions[1]); f != nil {
		return nil, nil, f
	}
	if f := e.advance(&ctxB, gB, 1); f != nil {
		return nil, nil, f
	}
	if f := e.keepAlive(&ctxB, gB, 2, versions[1]); f != nil {
		return nil, nil, f
	}
	if f := e.advance(&ctxB, gB, 1988); f != nil {
		return nil, nil, f
	}
	main = append(main, &explore.Node{Ctx: ctxB, Ghost: gB, Path: []string{"<staggered>"}})
	// third initial node: v3 jailed through the slashing keeper in block 2990
	// (unbonding since), keep-alives expiring at 3009
	ctxC, gC := world.Fork(mid.Ctx), g0.Clone().(*ghost)
	if f := e.advance(&ctxC, gC, 1981); f != nil {
		return nil, nil, f
	}
	if f := e.sjail(&ctxC, gC, 3); f != nil {
		return nil, nil, f
	}
	if f := e.advance(&ctxC, gC, 9); f != nil {
		return nil, nil, f
	}
	main = append(main, &explore.Node{Ctx: ctxC, Ghost: gC, Path: []string{"<v3-jailed>"}})
	if e.withChain {
		// fourth initial node: in block 2990 an EVM chain is added and activated on
		// which v0..v2 register an account and v3 does not: v3 stays bonded and
		// unjailed (covered by the liveness check) but drops out of the next
		// snapshot (built by the end-block of height 3000, which is also a
		// liveness check). Keep-alives expire at 3009.
		ctxD, gD := world.Fork(mid.Ctx), g0.Clone().(*ghost)
		if f := e.advance(&ctxD, gD, 1981); f != nil {
			return nil, nil, f
		}
		if err := e.w.AddChain(ctxD, "eth-main", 1, 1); err != nil {
			return nil, nil, explore.Failf("harness:add-chain", "AddChain: %v", err)
		}
		for _, v := range e.w.Vals[:nVals-1] {
			if err := e.w.RegisterAccounts(ctxD, v, nil, "eth-main"); err != nil {
				return nil, nil, explore.Failf("harness:register-accounts", "RegisterAccounts(%s): %v", v.Name, err)
			}
		}
		if f := e.advance(&ctxD, gD, 9); f != nil {
			return nil, nil, f
		}
		main = append(main, &explore.Node{Ctx: ctxD, Ghost: gD, Path: []string{"<v3-no-chain-account>"}})
	}
	return main, mid, nil
}

// ladder seeds: v3 jailed k times in direct succession through the valset
// keeper (sentence served each time, then unjailed through the slashing
// keeper), everybody kept alive meanwhile.
func (e *env) ladder(from *explore.Node, kmax int) ([]*explore.Node, *explore.Fail) {
	var out []*explore.Node
	ctx := world.Fork(from.Ctx)
	g := from.Ghost.Clone().(*ghost)
	const v = 3
	for k := 1; k <= kmax; k++ {
		if f := e.jail(&ctx, g, v); f != nil {
			return nil, f
		}
		if e.observe(ctx)[v].Jailed {
			left := int64(g.V[v].LastSentence/blockTime) + 1
			for left > 0 {
				step := left
				if step > 900 {
					step = 900
				}
				if f := e.advance(&ctx, g, step); f != nil {
					return nil, f
				}
				left -= step
				for u := 0; u < nVals; u++ {
					if f := e.keepAlive(&ctx, g, u, versions[1]); f != nil {
						return nil, f
					}
				}
			}
			if f := e.unjail(&ctx, g, v); f != nil {
				return nil, f
			}
		}
		out = append(out, &explore.Node{Ctx: ctx, Ghost: g.Clone(), Path: []string{fmt.Sprintf("<ladder%d>", k)}})
		ctx = world.Fork(ctx) // the seed's context stays frozen
	}
	return out, nil
}

// item: one child process = one world = one (job, sub-shard).
type item struct {
	Job    int     `json:"job"`
	Sub    int     `json:"sub"`
	NSub   int     `json:"nsub"`
	Depth  int     `json:"depth"`
	LDepth int     `json:"ldepth"` // depth of the ladder exploration, 0 = none
	KMax   int     `json:"kmax"`   // ladder seeds 1..KMax
	Rich   bool    `json:"rich"`   // rich alphabet
	Weight float64 `json:"weight"` // estimated relative cost (budget share)
}

func envInt(name string, def int) int {
	if v, err := strconv.Atoi(os.Getenv(name)); err == nil {
		return v
	}
	return def
}

// items lists the work of a tier, most expensive first.
//
//	quick:    every job to depth 4 (base alphabet); ladder (depth 3) on the
//	          multi-comma and keyed jobs
//	thorough: every job (all 84 address patterns) to depth 4 (base alphabet);
//	          deep jobs on the byte-0 address group: (60,20,10,10) to depth 6
//	          (base alphabet, 16 sub-shards), (30,30,30,10) and (1,1,1,1) to
//	          depth 5 with the rich alphabet (8 sub-shards each); ladder depth 4
func items(thorough bool) []item {
	var out []item
	for ji, j := range jobs(thorough) {
		it := item{Job: ji, NSub: 1, Depth: 4}
		ladderJob := (strings.HasPrefix(j.Name, "multi.r0.") || strings.HasPrefix(j.Name, "keyed.")) && j.Stakes[0] <= 60
		if ladderJob {
			it.LDepth, it.KMax = 3, 4
		}
		cost := 1.0
		if thorough {
			if ladderJob {
				it.LDepth = 4
				if strings.Contains(j.Name, ".s60-") {
					it.KMax = 6 // serves the 24 h sentence twice (2 x 43201 blocks)
				}
			}
			switch {
			case j.Name == "p0.r0.s60-20-10-10":
				it.Depth, it.NSub, cost = 6, 16, 49
			case strings.HasPrefix(j.Name, "p0.r0."):
				it.Depth, it.NSub, it.Rich, cost = 5, 8, true, 19
			}
		}
		it.Depth = envInt("VERIF_C12_DEPTH", it.Depth)
		it.NSub = envInt("VERIF_C12_NSUB", it.NSub)
		it.Weight = cost/float64(it.NSub) + 0.3
		if it.LDepth > 0 {
			it.Weight += 0.5
		}
		for sub := 0; sub < it.NSub; sub++ {
			x := it
			x.Sub = sub
			if sub > 0 {
				x.LDepth = 0
			}
			out = append(out, x)
		}
	}
	sort.SliceStable(out, func(a, b int) bool { return out[a].Weight > out[b].Weight })
	if lim := envInt("VERIF_C12_ITEMS", 0); lim > 0 && lim < len(out) {
		out = out[:lim]
	}
	return out
}

func (e *env) specs(it item, deadline time.Time) (mainSpec, ladderSpec explore.Spec, f *explore.Fail) {
	init, mid, f := e.setup()
	if f != nil {
		return mainSpec, ladderSpec, f
	}
	var seeds []*explore.Node
	if it.LDepth > 0 {
		if seeds, f = e.ladder(mid, it.KMax); f != nil {
			return mainSpec, ladderSpec, f
		}
	}
	mainSpec = explore.Spec{Name: "main;" + e.j.Name, Init: init, Ops: e.ops, Hash: e.hash,
		MaxDepth: it.Depth, Deadline: deadline, ShardDepth: 2, Shard: it.Sub, NShards: it.NSub}
	ladderSpec = explore.Spec{Name: "ladder;" + e.j.Name, Init: seeds, Ops: e.ops, Hash: e.hash,
		MaxDepth: it.LDepth, Deadline: deadline}
	return mainSpec, ladderSpec, nil
}

func runItem(r *report.Run, it item, deadline time.Time) {
	thorough := r.Thorough()
	js := jobs(thorough)
	j := js[it.Job]
	e := newEnv(r, j, it.Rich)
	setRule(r)
	t0 := time.Now()
	mainSpec, ladderSpec, f := e.specs(it, deadline)
	if f != nil {
		r.Violate("setup:"+f.Signature, f.Message, map[string]interface{}{"scenario": "setup;" + j.Name, "path": []string{}})
		return
	}
	r.Extra["setup_s"] = time.Since(t0).Seconds()
	if pf := os.Getenv("VERIF_C12_CPUPROF"); pf != "" {
		if fh, err := os.Create(pf); err == nil {
			_ = pprof.StartCPUProfile(fh)
			defer pprof.StopCPUProfile()
		}
	}
	res := explore.Run(r, mainSpec)
	r.Extra[fmt.Sprintf("items_depth%d_run", it.Depth)] = float64(1)
	if res.DepthCompleted >= mainSpec.MaxDepth && !res.Capped {
		r.Extra[fmt.Sprintf("items_depth%d_completed", it.Depth)] = float64(1)
	}
	if it.LDepth > 0 {
		lres := explore.Run(r, ladderSpec)
		r.Extra["ladders_run"] = float64(1)
		if lres.DepthCompleted >= ladderSpec.MaxDepth && !lres.Capped {
			r.Extra["ladders_completed"] = float64(1)
		}
	}
	fmt.Fprintf(os.Stderr, "C12 item job=%d(%s) sub=%d/%d states=%d transitions=%d depth=%d/%d violations=%d %.1fs\n",
		it.Job, j.Name, it.Sub, it.NSub, r.States, r.Transitions, res.DepthCompleted, mainSpec.MaxDepth, len(r.Violations), time.Since(t0).Seconds())
}

func setRule(r *report.Run) {
	depth, ldepth := "4", "3"
	if r.Thorough() {
		depth, ldepth = "4 (byte-0 address group: depth 6 for (60,20,10,10), depth 5 with the rich alphabet for the other two stake vectors)", "4"
	}
	r.Rule = fmt.Sprintf("per (address set of 4 operator addresses, stake vector): BFS to depth %s from three initial nodes at block 2999 (keep-alives expiring at 3009; staggered 3009/3009/3011/3010; v3 jailed since block 2990) plus, for the rotation-0 (60,20,10,10) jobs and the keyed jobs, a fourth one (an EVM chain activated in block 2990 on which v3 has no account, so that v3 is bonded and unjailed but leaves the valset snapshot rebuilt by the end-block of height 3000) and, for the multi-comma and keyed jobs, to depth %s from ladder seeds (v3 jailed 1..k times in succession, k <= 4 or 6) over KeepAlive(v, version) through the real message server with the version alphabet derived from the minimum M=vX.Y.Z in force (M, patch-1, patch+1, M-rc.1 as operations; minor/major +-1, M-0, git-describe form, M+build, rc+build, next-minor rc, bare X.Y.Z, short, garbage, empty, leading zero as probes on forks for v0 and v3) (signed txs for the keyed runs), Jail(v) (valset keeper), SJail(v) (slashing keeper), Unjail(v) (slashing keeper as MsgUnjail), Adv1, AdvTo10 (through the next liveness check), Adv31, Adv2000 (only among the first 2 operations of a path), RaiseMin (once)/LowerMin through the valset governance handler; base alphabet: SJail for v0,v1 only, one Adv2000; rich alphabet: SJail for every validator, SchedRaise, two RaiseMin, two Adv2000; every block runs the staking end-blocker, the valset EndBlock and the valset BeginBlock of the real application and the oracle; address sets: base 0x55*20 with byte p set to 0x00/0xff/0x2b/0x2c plus multi-comma addresses, two slot rotations; stake vectors (60,20,10,10),(30,30,30,10),(1,1,1,1),(2501,2500,2500,2499) x 10^6 ugrain and (251,250,250,249) x 10^5 ugrain (25 % protection boundary from both sides)", depth, ldepth)
	r.Assumptions = []string{
		"block time fixed at 2 s; only the staking end-blocker and the valset begin/end-block run per block (the other modules' end-blockers do not touch keep-alive, grace or jail-log state)",
		"keep-alive boundary: a validator must be jailed only at checks with height > aliveUntil and must never be jailed at checks with height < aliveUntil; height == aliveUntil is left open (weaker reading of 'longer than the lifetime')",
		"grace period: the 30 blocks following the block U in which the validator was unjailed; the obligation to jail starts at checks with H-U >= 31 (any unjail event counts, also one in the same block as the jailing); the clause 'not jailed for inactivity at H-U <= 30' is taken from the documented constant and applies only when the validator was jailed at the end of the previous block",
		"protection ('more than 25 % of bonded power', exact integer test 4p > T): readings differ in the power notion (tokens, or consensus power = tokens/10^6 truncated as Keeper.Jail uses), in whether the total includes validators still in status Bonded although jailed, and in how a validator that is not bonded is counted; must-jail is required only if the validator is unprotected under every reading, evaluated on the state after the check (at most one bonded unjailed validator counts as 'last active'); jailing (by the check or by Keeper.Jail) is forbidden only if protected under every reading",
		"sentence reset threshold: code says max(30 min, 1.05 d), its comment says +20 %; between the two thresholds both the next step and the reset are accepted",
		"a keep-alive with a valid semver version >= the minimum from an existing validator must be accepted (otherwise a responsive validator could be jailed); versions are compared by semver 2.0 precedence (pre-releases before their release, build metadata ignored); a malformed version string must be refused unless prefixing 'v' makes it a version not older than the minimum, in which case either outcome is accepted",
		"state hash drops ContactedAt/PigeonVersion of keep-alive records (only read by the GetAlivePigeons query) and, of the valset snapshots, everything but the current snapshot's members and shares",
	}
}

// ---------------------------------------------------------------------------
// dispatcher: claims work items and runs each in a child process

type wire struct {
	States, Transitions, Evaluations, DistinctN int64
	Distinct                                    []string
	Samples                                     []interface{}
	Exhaustive                                  bool
	Caps                                        []string
	Extra                                       map[string]interface{}
	Violations                                  []report.Violation
}

func dispatch(r *report.Run, shard, nshards int) {
	setRule(r)
	its := items(r.Thorough())
	global := r.Deadline(125*time.Second, 22*time.Minute)
	dir := os.TempDir()
	if out := os.Getenv("VERIF_WORKER_OUT"); out != "" {
		dir = filepath.Dir(out)
	} else {
		d, err := os.MkdirTemp("", "verif-c12")
		if err != nil {
			panic(err)
		}
		defer os.RemoveAll(d)
		dir = d
	}
	for k, it := range its {
		claim := filepath.Join(dir, fmt.Sprintf("claim-%d", k))
		f, err := os.OpenFile(claim, os.O_CREATE|os.O_EXCL|os.O_WRONLY, 0o644)
		if err != nil {
			continue // claimed by another dispatcher
		}
		f.Close()
		now := time.Now()
		if !now.Before(global) {
			r.Cap(fmt.Sprintf("deadline before work item %d of %d started", k, len(its)))
			continue
		}
		// budget: this item's share of the remaining time, by estimated cost
		rest := 0.0
		for _, x := range its[k:] {
			rest += x.Weight
		}
		share := it.Weight * float64(nshards) / rest
		if share > 1 {
			share = 1
		}
		dl := now.Add(time.Duration(float64(global.Sub(now)) * share))
		itJSON, _ := json.Marshal(it)
		out := filepath.Join(dir, fmt.Sprintf("item-%d.json", k))
		cmd := exec.Command(os.Args[0])
		cmd.Env = append(os.Environ(),
			fmt.Sprintf("VERIF_WORKER=%d/%d", shard, nshards), "VERIF_WORKER_OUT="+out,
			"VERIF_C12_ITEM="+string(itJSON),
			fmt.Sprintf("VERIF_C12_DEADLINE=%d", dl.UnixNano()), "GOMAXPROCS=2")
		cmd.Stdout, cmd.Stderr = os.Stderr, os.Stderr
		if err := cmd.Run(); err != nil {
			fmt.Fprintf(os.Stderr, "C12 work item %d failed: %v\n", k, err)
			os.Exit(2)
		}
		b, err := os.ReadFile(out)
		var w wire
		if err == nil {
			err = json.Unmarshal(b, &w)
		}
		if err != nil {
			fmt.Fprintf(os.Stderr, "C12 work item %d output: %v\n", k, err)
			os.Exit(2)
		}
		os.Remove(out)
		r.States += w.States
		r.Transitions += w.Transitions
		r.Evaluations += w.Evaluations
		for _, s := range w.Samples {
			if k%7 == shard%7 || len(r.Samples) < 2 {
				r.Sample(s)
			}
		}
		if len(w.Caps) > 0 {
			r.Cap("deadline: some work items did not complete their depth (see items_depth*_completed / ladders_completed)")
			old, _ := r.Extra["items_capped"].(float64)
			r.Extra["items_capped"] = old + 1
		}
		for key, v := range w.Extra {
			if f, ok := v.(float64); ok {
				old, _ := r.Extra[key].(float64)
				r.Extra[key] = old + f
			}
		}
		for _, v := range w.Violations {
			r.Violate(v.Signature, v.Message, v.Replay)
		}
	}
	if shard == 0 {
		r.Extra["work_items"] = float64(len(its))
		r.Extra["address_sets_x_stake_vectors"] = float64(len(jobs(r.Thorough())))
	}
}

func replay(r *report.Run, file string) {
	var v report.Violation
	b, err := os.ReadFile(file)
	if err == nil {
		err = json.Unmarshal(b, &v)
	}
	if err != nil {
		fmt.Fprintln(os.Stderr, err)
		os.Exit(2)
	}
	m := v.Replay.(map[string]interface{})
	scen := m["scenario"].(string)
	kind, name, _ := strings.Cut(scen, ";")
	var j job
	for _, x := range append(jobs(false), jobs(true)...) {
		if x.Name == name {
			j = x
		}
	}
	if j.Name == "" {
		fmt.Fprintln(os.Stderr, "unknown job in replay scenario:", scen)
		os.Exit(2)
	}
	var path []string
	for _, p := range m["path"].([]interface{}) {
		path = append(path, p.(string))
	}
	e := newEnv(r, j, true) // the rich alphabet is a superset
	setRule(r)
	it := item{NSub: 1, Depth: len(path)}
	if kind == "ladder" && len(path) > 0 {
		it.LDepth = len(path)
		fmt.Sscanf(path[0], "<ladder%d>", &it.KMax)
	}
	if kind == "setup" {
		it.LDepth, it.KMax = 1, 4 // the set-up includes building the ladder seeds
	}
	mainSpec, ladderSpec, f := e.specs(it, time.Time{})
	spec := mainSpec
	if kind == "ladder" {
		spec = ladderSpec
	}
	if f == nil && kind != "setup" {
		f = explore.Replay(spec, path)
	}
	if f != nil {
		sig := f.Signature
		if kind == "setup" {
			sig = "setup:" + sig
		}
		r.Violate(sig, f.Message, v.Replay)
	}
	r.States, r.Transitions = 1, int64(len(path))
	r.Sample(map[string]interface{}{"scenario": scen, "path": path})
}

func main() {
	replayFile := flag.String("replay", "", "replay file")
	flag.Parse()
	n := report.Workers()
	if *replayFile != "" {
		n = 1
	}
	report.Main("C12", "model_checking", n, func(r *report.Run, shard, nshards int) {
		switch {
		case *replayFile != "":
			replay(r, *replayFile)
		case os.Getenv("VERIF_C12_ITEM") != "":
			var it item
			if err := json.Unmarshal([]byte(os.Getenv("VERIF_C12_ITEM")), &it); err != nil {
				fmt.Fprintln(os.Stderr, "bad VERIF_C12_ITEM:", err)
				os.Exit(2)
			}
			ns, _ := strconv.ParseInt(os.Getenv("VERIF_C12_DEADLINE"), 10, 64)
			runItem(r, it, time.Unix(0, ns))
		default:
			dispatch(r, shard, nshards)
		}
	})
}
