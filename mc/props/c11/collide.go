package main

// Collision search: is the attestation key injective on the claims that matter?
//
// Per claim type the full product of a token alphabet over ALL fields at once is
// enumerated; only the attestation key of every tuple is computed (no handler
// runs). Tuples are grouped by key. For every group with at least two distinct
// tuples the members are voted to quorum in every base state with the same
// differential oracle as the single-field stage; two members with different
// acceptance / effect (both submittable) are a violation. No pair is
// hand-picked: separator shifts, path cleaning, case folding, truncation or any
// other non-injective encoding produce groups here.

import (
	"crypto/sha256"
	"fmt"
	"reflect"
	"sort"
	"strings"
	"time"

	sdkmath "cosmossdk.io/math"
	skywaytypes "github.com/palomachain/paloma/v2/x/skyway/types"
)

const (
	maxTuplesPerType  = 2_500_000
	membersPerGroup   = 6
	pairsPerGroupBase = 2
)

type prodT struct {
	T        *claimT
	Fields   []*fieldT       // varying fields, index 0 least significant
	Toks     [][]interface{} // token alphabet per varying field; Toks[i][0] is the default
	Size     int
	Blind    []string // fields held at default because the key does not react to them
	Free     []string // free-form string fields (full token alphabet)
	External []string // fields that enter the key outside ClaimHash (store prefix)
}

type validator interface{ ValidateBasic() error }

func dedupe(in []interface{}) []interface{} {
	var out []interface{}
	seen := map[string]bool{}
	for _, v := range in {
		k := show(v)
		if !seen[k] {
			seen[k] = true
			out = append(out, v)
		}
	}
	return out
}

func (e *env) product(t *claimT, thorough bool) *prodT {
	p := &prodT{T: t, Size: 1}
	v0 := e.w.Vals[0]
	def := e.build(t, nil, v0)
	defKey := string(attKey(def))
	defHash, _ := safeHash(def.(skywaytypes.EthereumClaim))
	for i := range t.Fields {
		f := &t.Fields[i]
		// blind: the key does not react to the field; external: the key reacts
		// but ClaimHash does not (the field enters the key as store prefix)
		blind, external := true, len(f.Dom) > 1
		for _, x := range f.Dom[1:] {
			m := e.build(t, map[string]interface{}{f.Name: x}, v0)
			if string(attKey(m)) != defKey {
				blind = false
			}
			if h, _ := safeHash(m.(skywaytypes.EthereumClaim)); string(h) != string(defHash) {
				external = false
			}
		}
		if blind {
			p.Blind = append(p.Blind, f.Name)
			continue
		}
		var toks []interface{}
		second := f.Dom[0]
		if len(f.Dom) > 1 {
			second = f.Dom[1]
		}
		if v, ok := f.Dom[0].(string); ok {
			m, _ := e.build(t, map[string]interface{}{f.Name: "a/b"}, v0).(validator)
			if m != nil && m.ValidateBasic() == nil {
				p.Free = append(p.Free, f.Name)
				v2 := second.(string)
				toks = []interface{}{v, v2, "", "a/b", "..", "../" + v, "./" + v, v + "/..", "%2F", "a%2Fb", mixedCase(v)}
				if thorough {
					toks = append(toks, strings.ToUpper(v), "../"+v2, v+"/", "/"+v, "a/../"+v)
				}
				if external {
					// spellings that a padded / fixed-width / truncated / case-folded
					// store prefix would merge
					pad := ""
					if len(v) < 32 {
						pad = strings.Repeat("x", 32-len(v))
					}
					toks = append(toks, v+"\x00", v+"\x00\x00\x00", v+pad+"a", v+pad+"b", strings.ToUpper(v))
					p.External = append(p.External, f.Name)
				}
			} else {
				toks = []interface{}{v, second}
				if thorough && len(f.Dom) > 2 {
					toks = append(toks, f.Dom[2])
				}
			}
		} else if n, ok := f.Dom[0].(sdkmath.Int); ok {
			toks = append([]interface{}{n}, intVariants(n)...)
			if thorough {
				toks = append(toks, second)
			}
		} else {
			toks = []interface{}{f.Dom[0], second}
		}
		toks = dedupe(toks)
		p.Fields = append(p.Fields, f)
		p.Toks = append(p.Toks, toks)
		p.Size *= len(toks)
	}
	return p
}

// digits decodes a tuple index into token indices.
func (p *prodT) digits(idx int) []int {
	d := make([]int, len(p.Fields))
	for i := range p.Fields {
		d[i] = idx % len(p.Toks[i])
		idx /= len(p.Toks[i])
	}
	return d
}

func (p *prodT) assignment(idx int) map[string]interface{} {
	ov := map[string]interface{}{}
	for i, d := range p.digits(idx) {
		ov[p.Fields[i].Name] = p.Toks[i][d]
	}
	return ov
}

func (p *prodT) nonDefault(idx int) int {
	n := 0
	for _, d := range p.digits(idx) {
		if d != 0 {
			n++
		}
	}
	return n
}

type groupT struct {
	Members []int
	Score   int
}

// eachKey computes the attestation key of every tuple of the product (nothing
// is executed) and hands it to fn; key is only valid during the call.
func (e *env) eachKey(p *prodT, fn func(idx int, key []byte)) {
	v0 := e.w.Vals[0]
	proto := reflect.ValueOf(e.build(p.T, nil, v0)).Elem()
	obj := reflect.New(p.T.Typ)
	obj.Elem().Set(proto)
	claim := obj.Interface().(skywaytypes.EthereumClaim)
	vals := make([][]reflect.Value, len(p.Fields))
	for i := range p.Fields {
		for _, tok := range p.Toks[i] {
			vals[i] = append(vals[i], reflect.ValueOf(tok))
		}
	}
	d := make([]int, len(p.Fields))
	for i := range p.Fields {
		obj.Elem().Field(p.Fields[i].Idx).Set(vals[i][0])
	}
	for idx := 0; idx < p.Size; idx++ {
		if h, ok := safeHash(claim); ok {
			fn(idx, append(append([]byte{}, chainPrefix(claim.GetChainReferenceId())...), skywaytypes.GetAttestationKey(claim.GetSkywayNonce(), h)...))
		} else {
			unhashable++
		}
		// odometer
		for i := range d {
			d[i]++
			if d[i] < len(p.Toks[i]) {
				obj.Elem().Field(p.Fields[i].Idx).Set(vals[i][d[i]])
				break
			}
			d[i] = 0
			obj.Elem().Field(p.Fields[i].Idx).Set(vals[i][0])
		}
	}
}

type fp [20]byte

func fingerprint(key []byte) fp {
	s := sha256.Sum256(key)
	var k fp
	copy(k[:], s[:20])
	return k
}

// groups hashes every tuple of the product and returns the groups of distinct
// tuples that share one attestation key.
func (e *env) groups(p *prodT) []groupT {
	v0 := e.w.Vals[0]
	first := make(map[fp]int32, p.Size)
	coll := map[fp][]int{}
	e.eachKey(p, func(idx int, key []byte) {
		k := fingerprint(key)
		if f, ok := first[k]; ok {
			if _, ok := coll[k]; !ok {
				coll[k] = []int{int(f)}
			}
			coll[k] = append(coll[k], idx)
		} else {
			first[k] = int32(idx)
		}
	})
	var out []groupT
	for _, members := range coll {
		// exact comparison of the real keys (the 160-bit fingerprint only pre-selects)
		byKey := map[string][]int{}
		for _, m := range members {
			k := string(attKey(e.build(p.T, p.assignment(m), v0)))
			byKey[k] = append(byKey[k], m)
		}
		for _, ms := range byKey {
			if len(ms) < 2 {
				continue
			}
			sort.Slice(ms, func(i, j int) bool {
				ni, nj := p.nonDefault(ms[i]), p.nonDefault(ms[j])
				if ni != nj {
					return ni < nj
				}
				return ms[i] < ms[j]
			})
			out = append(out, groupT{Members: ms, Score: p.nonDefault(ms[0])})
		}
	}
	sort.Slice(out, func(i, j int) bool {
		if out[i].Score != out[j].Score {
			return out[i].Score < out[j].Score
		}
		return out[i].Members[0] < out[j].Members[0]
	})
	return out
}

func (p *prodT) diff(a, b int) (fields []string, sa, sb string) {
	da, db := p.digits(a), p.digits(b)
	var pa, pb []string
	for i := range da {
		if da[i] != db[i] {
			fields = append(fields, p.Fields[i].Name)
			pa = append(pa, p.Fields[i].Name+"="+show(p.Toks[i][da[i]]))
			pb = append(pb, p.Fields[i].Name+"="+show(p.Toks[i][db[i]]))
		}
	}
	var common []string
	for i := range da {
		if da[i] == db[i] && da[i] != 0 {
			common = append(common, p.Fields[i].Name+"="+show(p.Toks[i][da[i]]))
		}
	}
	sa, sb = strings.Join(pa, " "), strings.Join(pb, " ")
	if len(common) > 0 {
		sb += "; both: " + strings.Join(common, " ")
	}
	sort.Strings(fields)
	return
}

func (e *env) collisionSearch(shard, nshards int, deadline time.Time, want string) {
	r := e.r
	tier := "quick"
	if r.Thorough() {
		tier = "thorough"
	}
	if strings.HasPrefix(want, "collision|") {
		// collision|tier|base|type|idx1|idx2
		part := strings.Split(want, "|")
		if len(part) != 6 {
			panic("bad collision replay id " + want)
		}
		tier = part[1]
		for _, t := range e.types {
			if t.Name != part[3] {
				continue
			}
			p := e.product(t, tier == "thorough")
			var a, b int
			fmt.Sscan(part[4], &a)
			fmt.Sscan(part[5], &b)
			for bi := range e.bases {
				if e.bases[bi].Name == part[2] {
					e.runCase(e.collisionCase(p, tier, bi, a, b))
				}
			}
		}
		return
	}
	if want != "" {
		return
	}
	maxGroups := 150
	if r.Thorough() {
		maxGroups = 1500
	}
	var hashed, ngroups, evaluated, executed, differing float64
	held := []string{}
	sizes := map[string]interface{}{}
	for _, t := range e.types {
		p := e.product(t, r.Thorough())
		for _, b := range p.Blind {
			held = append(held, t.Name+"."+b)
		}
		var fs []string
		for i, f := range p.Fields {
			fs = append(fs, fmt.Sprintf("%s:%d", f.Name, len(p.Toks[i])))
		}
		sizes[t.Name] = fmt.Sprintf("%d tuples = %s", p.Size, strings.Join(fs, " x "))
		if p.Size > maxTuplesPerType {
			r.Cap(fmt.Sprintf("collision search: product of %s has %d tuples (> %d), skipped", t.Name, p.Size, maxTuplesPerType))
			continue
		}
		gs := e.groups(p)
		hashed += float64(p.Size)
		ngroups += float64(len(gs))
		if len(gs) > maxGroups {
			r.Cap(fmt.Sprintf("collision search: %s has %d key collision groups, the %d closest to the valid claim are evaluated", t.Name, len(gs), maxGroups))
			gs = gs[:maxGroups]
		}
		for gi, g := range gs {
			if gi%nshards != shard {
				continue
			}
			if time.Now().After(deadline) {
				r.Cap("deadline")
				break
			}
			ms := g.Members
			if len(ms) > membersPerGroup {
				r.Cap(fmt.Sprintf("collision search: a group of %s has more than %d tuples; the %d closest to the valid claim are evaluated", t.Name, membersPerGroup, membersPerGroup))
				ms = ms[:membersPerGroup]
			}
			evaluated++
			n := len(e.voters)
			for bi := range e.bases {
				outs := make([]outcome, len(ms))
				for i, m := range ms {
					outs[i], _, _ = e.quorum(e.bases[bi].Ctx, same(t, p.assignment(m), n))
					executed++
				}
				found := 0
				for i := 0; i < len(ms) && found < pairsPerGroupBase; i++ {
					for j := i + 1; j < len(ms) && found < pairsPerGroupBase; j++ {
						if outs[i].String() == outs[j].String() || !outs[i].submittable() || !outs[j].submittable() {
							continue
						}
						found++
						differing++
						// honest majority votes the member closer to the valid claim
						e.runCase(e.collisionCase(p, tier, bi, ms[i], ms[j]))
					}
				}
			}
		}
	}
	if shard == 0 {
		r.Extra["collision_product"] = sizes
		r.Extra["collision_tuples_hashed"] = hashed
		r.Extra["collision_groups"] = ngroups
		r.Extra["collision_fields_held_at_default"] = held
	}
	r.Extra["collision_groups_evaluated"] = evaluated
	r.Extra["collision_quorum_runs"] = executed
	r.Extra["collision_pairs_outcome_differs"] = differing
}

func (e *env) collisionCase(p *prodT, tier string, bi, a, b int) caseT {
	fields, sa, sb := p.diff(a, b)
	return caseT{
		ID:   fmt.Sprintf("collision|%s|%s|%s|%d|%d", tier, e.bases[bi].Name, p.T.Name, a, b),
		Base: bi, T: p.T,
		Sig:    "collision:" + p.T.Name + "." + strings.Join(fields, "+"),
		Fields: strings.Join(fields, "+"),
		C1:     p.assignment(a), C2: p.assignment(b),
		Show1: sa, Show2: sb,
	}
}

var _ = sdkmath.NewInt
