// C06 — every stored signature is valid for the item as it currently stands.
//
// Explicit-state BFS over the REAL handlers (signed txs through ante + router,
// the real module-manager end-block and the exported skyway end-blocker) on
// forked application state. World: 3 validators with secp256k1 eth keys, the
// turnstone queue of one chain holding one SubmitLogicCall (job created and
// executed through the scheduler messages) and one UpdateValset (enqueued by
// EvmKeeper.PublishSnapshotToAllChains), and one open skyway batch.
//
// The oracle never calls the queue's verification closure nor skyway's
// ValidateEthereumSignature: it recovers the signer of every stored signature
// with go-ethereum's SigToPub over the item's CURRENT signing bytes and compares
// with what the ghost recorded as registered by that validator when it signed.
// Step oracle (wrapper `step`): when an item's signing bytes change across a
// transition its signature set must be empty afterwards.
//
// Four scenarios (operations restricted to one item + the global ones, then all
// items), each from the set-up state and from a seeded state one end-block away
// from the estimate election. Development aids (never oracles): C06_DUMP,
// C06_DEPTH, C06_SCENARIO, C06_PROF, C06_HEAP.
package main

import (
	"bytes"
	"crypto/ecdsa"
	"crypto/sha256"
	"encoding/hex"
	"encoding/json"
	"flag"
	"fmt"
	"math"
	"os"
	"runtime/debug"
	"runtime/pprof"
	"sort"
	"strings"
	"time"

	sdk "github.com/cosmos/cosmos-sdk/types"
	ethcommon "github.com/ethereum/go-ethereum/common"
	ethcrypto "github.com/ethereum/go-ethereum/crypto"
	ctypes "github.com/palomachain/paloma/v2/x/consensus/types"
	evmtypes "github.com/palomachain/paloma/v2/x/evm/types"
	schedtypes "github.com/palomachain/paloma/v2/x/scheduler/types"
	skywaytypes "github.com/palomachain/paloma/v2/x/skyway/types"
	vtypes "github.com/palomachain/paloma/v2/x/valset/types"
	"github.com/palomachain/paloma/v2/zzverif/explore"
	"github.com/palomachain/paloma/v2/zzverif/report"
	"github.com/palomachain/paloma/v2/zzverif/world"
)

const (
	ref       = "eth-main"
	ref2      = "bnb-main"
	erc20     = "0x1111111111111111111111111111111111111111"
	ethPrefix = "\x19Ethereum Signed Message:\n32"
)

// ---------------------------------------------------------------------------
// ghost

type ghost struct {
	// Reg[v]: address (hex) of the eth key validator v currently has registered
	// for the chain, as far as the harness knows from accepted registration txs.
	Reg []string
	// Lit[v]: the address string exactly as registered (differs from Reg[v] in
	// spelling only: an alias registration uses lower-case hex and a zero-padded
	// 32-byte Pubkey, both of which the chain resolves to the same key).
	Lit []string
	// Reg2[v]: address of the key validator v has registered for the SECOND chain
	// ("" = no account there); nil outside the two-chains scenario.
	Reg2 []string
	// Sig[item][validator name]: address of the key that validator had
	// registered when its stored signature on item was accepted.
	Sig map[string]map[string]string
	// Prev[item]: signing bytes (hex) the item had before its last change.
	Prev map[string]string
	// Dep: number of compass replacements so far (0 or 1).
	Dep int
	// Old[item][validator]: batch confirmation accepted before the compass
	// replacement and still stored (the unchanged tree keeps them; see the
	// assumption in run). It is judged over Prev[item], the checkpoint it was made for.
	Old map[string]map[string]bool
	// OldBytes[item]: the batch's stored BytesToSign was issued before the replacement.
	OldBytes map[string]bool

	obs   observation // observation of the state this ghost belongs to (cache, not hashed)
	depth int         // number of transitions from the initial state (not hashed)
}

func (g *ghost) Clone() explore.Ghost {
	n := &ghost{Reg: append([]string{}, g.Reg...), Lit: append([]string{}, g.Lit...), Reg2: append([]string(nil), g.Reg2...), Sig: map[string]map[string]string{}, Prev: map[string]string{}, Dep: g.Dep, Old: map[string]map[string]bool{}, OldBytes: map[string]bool{}, obs: g.obs, depth: g.depth + 1}
	for it, m := range g.Sig {
		n.Sig[it] = map[string]string{}
		for k, v := range m {
			n.Sig[it][k] = v
		}
	}
	for it, m := range g.Old {
		n.Old[it] = map[string]bool{}
		for k, v := range m {
			n.Old[it][k] = v
		}
	}
	for k, v := range g.OldBytes {
		n.OldBytes[k] = v
	}
	for k, v := range g.Prev {
		n.Prev[k] = v
	}
	return n
}

func (g *ghost) Key() string {
	b, _ := json.Marshal(struct {
		R  []string
		L  []string
		R2 []string
		S  map[string]map[string]string
		P  map[string]string
		D  int
		O  map[string]map[string]bool
		OB map[string]bool
	}{g.Reg, g.Lit, g.Reg2, g.Sig, g.Prev, g.Dep, g.Old, g.OldBytes})
	return string(b)
}

// ---------------------------------------------------------------------------
// observation of the signed items of a state

type sigObs struct {
	Val     string // validator name (or raw address string when unknown)
	Claimed string // address stored next to the signature (ExternalAccountAddress / EthSigner)
	Pub     []byte // stored public key bytes (consensus queue only)
	Sig     []byte
}

type itemObs struct {
	Kind   string // "msg" | "batch"
	What   string // message type, for reports
	Bytes  []byte // current signing bytes (messages: GetBytesToSign; batches: recomputed checkpoint)
	Stored []byte // batches: BytesToSign as stored on the batch
	Sigs   []sigObs
	Queue  string
	Chain  string // chain reference id the item belongs to
	Token  string // batches: token contract
	ID     uint64
	Est    uint64
	Ests   []uint64 // estimates submitted so far
}

type observation map[string]*itemObs

type env struct {
	w        *world.World
	r        *report.Run
	queues   []string
	tq       string
	tq2      string                       // turnstone queue of the second chain (two-chains scenario only)
	keys     map[string]*ecdsa.PrivateKey // address hex -> key
	orig     []string                     // validator -> address of the genesis-registered key
	alt      []string                     // validator -> address of its second key
	names    map[string]string            // val address / acc address (bech32) -> validator name
	gases    []uint64                     // estimate values any validator may submit at any time
	special  []uint64                     // constants the code treats specially: submitted only while every estimate on the item has that value (so the elected median is exactly it)
	seeds    []uint64
	hostil   int // number of validators for which the invalid kinds are enumerated
	recov    map[string]string
	token    skywaytypes.EthAddress
	end      func(ctx sdk.Context) error
	shard    int
	quiet    bool
	scenario string
	sigmemo  map[string][]byte
	txmemo   map[string]sdk.Tx
	btsmemo  map[string][]byte
}

func must(err error) {
	if err != nil {
		panic(err)
	}
}

func main() {
	replay := flag.String("replay", "", "replay file")
	flag.Parse()
	n := report.Workers()
	if *replay != "" {
		n = 1
	}
	report.Main("C06", "model_checking", n, func(r *report.Run, shard, nshards int) { run(r, shard, nshards, *replay) })
}

func addrOf(k *ecdsa.PrivateKey) string { return ethcrypto.PubkeyToAddress(k.PublicKey).Hex() }

func run(r *report.Run, shard, nshards int, replayFile string) {
	debug.SetGCPercent(200)
	w := world.New(world.Config{Stakes: world.StakesOf(1_000_000, 1_000_000, 1_000_000), Users: []string{"adm", "U1"}, Height: 101})
	ctx := w.Root
	must(w.StdChain(ctx, ref))
	e := &env{w: w, r: r, keys: map[string]*ecdsa.PrivateKey{}, names: map[string]string{}, recov: map[string]string{}, sigmemo: map[string][]byte{}, txmemo: map[string]sdk.Tx{}, btsmemo: map[string][]byte{}}
	e.end = w.EndBlock
	e.shard = shard
	for _, v := range w.Vals {
		e.keys[v.EthAddr()] = v.Eth
		e.orig = append(e.orig, v.EthAddr())
		h := sha256.Sum256([]byte("verif-eth-" + v.Name + "-second"))
		k, err := ethcrypto.ToECDSA(h[:])
		must(err)
		e.keys[addrOf(k)] = k
		e.alt = append(e.alt, addrOf(k))
		e.names[v.ValAddr.String()] = v.Name
		e.names[v.Addr.String()] = v.Name
	}
	// 300_000 is the value the UpdateValset / CompassHandover hashers and the batch
	// checkpoint substitute for "no estimate yet" (x/evm/types/turnstone_abi.go:116,245,
	// x/skyway/types/batch.go:17): electing exactly it leaves those bytes as they were.
	// 100_000 is the default of every fee field (feesOrDefault); 0 is "no estimate"
	// (median 0 is refused by libcons); 1 and MaxUint64 are the ends of the domain
	// (fee computation refuses what does not fit uint64).
	e.gases = []uint64{21_000}
	e.special = []uint64{300_000}
	e.seeds = []uint64{21_000, 300_000}
	e.hostil = 1
	if r.Thorough() {
		e.gases = []uint64{21_000, 90_000}
		e.special = []uint64{300_000, 100_000, 0, 1, math.MaxUint64}
		e.hostil = len(w.Vals)
	}

	// one open skyway batch (real SendToRemote tx + the end-blocker at a batch height)
	u := w.User("U1")
	denom, err := w.BridgeToken(ctx, w.User("adm"), "t1", ref, erc20, 1000, u)
	must(err)
	res := w.DeliverTx(ctx, []*world.Actor{u}, &skywaytypes.MsgSendToRemote{EthDest: "0x00000000000000000000000000000000000000aa", Amount: sdk.NewInt64Coin(denom, 10), ChainReferenceId: ref, Metadata: world.Meta(u)})
	must(res.Err)
	w.SkywayEnd(world.At(ctx, 150, ctx.BlockTime().Add(time.Second)), nil)
	batches, err := w.App.SkywayKeeper.GetOutgoingTxBatches(ctx)
	must(err)
	if len(batches) != 1 {
		panic(fmt.Sprintf("expected one batch, have %d", len(batches)))
	}
	e.token = batches[0].TokenContract

	// one SubmitLogicCall through the scheduler messages
	def, _ := json.Marshal(evmtypes.JobDefinition{Address: "0x00000000000000000000000000000000000000cc", ABI: "[]"})
	pay, _ := json.Marshal(evmtypes.JobPayload{HexPayload: "deadbeef"})
	job := &schedtypes.Job{ID: "job1", Routing: schedtypes.Routing{ChainType: "evm", ChainReferenceID: ref}, Definition: def, Payload: pay}
	must(w.DeliverTx(ctx, []*world.Actor{u}, &schedtypes.MsgCreateJob{Job: job, Metadata: world.Meta(u)}).Err)
	must(w.DeliverTx(ctx, []*world.Actor{u}, &schedtypes.MsgExecuteJob{JobID: "job1", Metadata: world.Meta(u)}).Err)

	// one UpdateValset through the keeper's publication path (forced publish of the current snapshot)
	snap, err := w.App.ValsetKeeper.GetCurrentSnapshot(ctx)
	must(err)
	must(w.App.EvmKeeper.PublishSnapshotToAllChains(ctx, snap, true))

	qr, err := w.App.ConsensusKeeper.GetAllQueueNames(ctx, &ctypes.QueryGetAllQueueNamesRequest{})
	must(err)
	e.tq = world.TurnstoneQueue(ref)
	// Only the turnstone queue is observed: the chain's other queues are empty and
	// nothing in the alphabet enqueues into them (they are fed at heights that are
	// multiples of 300 / by balance and reference-block schedulers).
	e.queues = []string{e.tq}
	for _, q := range qr.Queues {
		if msgs, err := w.App.ConsensusKeeper.GetMessagesFromQueue(ctx, q, 0); q != e.tq && err == nil && len(msgs) > 0 {
			panic("unexpected messages in " + q)
		}
	}

	g0 := &ghost{Reg: append([]string{}, e.orig...), Lit: append([]string{}, e.orig...), Sig: map[string]map[string]string{}, Prev: map[string]string{}, Old: map[string]map[string]bool{}, OldBytes: map[string]bool{}}
	g0.obs = e.observe(ctx)
	var kinds []string
	for _, k := range sortedKeys(g0.obs) {
		kinds = append(kinds, k+"="+g0.obs[k].What)
	}
	sort.Strings(kinds)
	if shard == 0 {
		r.Extra["items"] = strings.Join(kinds, " ")
	}
	if os.Getenv("C06_DUMP") != "" {
		fmt.Fprintln(os.Stderr, "items:", kinds, "queues:", e.queues)
	}
	hasSLC, hasUV := false, false
	for _, it := range g0.obs {
		hasSLC = hasSLC || it.What == "SubmitLogicCall"
		hasUV = hasUV || it.What == "UpdateValset"
	}
	if !hasSLC || !hasUV || len(g0.obs) != 3 {
		panic(fmt.Sprintf("scenario set-up incomplete: %v", kinds))
	}

	r.Rule = "scenario two-chains: a second active chain with its own published UpdateValset (v0 registered there with another key, v1 with the same key, v2 not at all); Sign with one entry or with two entries in one MsgAddMessagesSignatures (first chain's SubmitLogicCall + second chain's UpdateValset, both orders, every assignment of the validator's two keys), Confirm of the open batch of either chain (the second chain has its own batch) with the key registered for the first or for the second chain, and the end-block; the ghost records the key registered for the item's own chain and a rejected transaction must leave no signature. Then four BFS scenarios (operations on the SubmitLogicCall only / the UpdateValset only / the batch only / all three), each from the set-up state and from seeded states where two of three validators have already estimated the scenario's items (21000; 300000); alphabet Sign(v,m,kind) / Estimate(v,m,g) / EndCons (module-manager end-block: estimate election, fee attachment by in-place replacement) / Confirm(v,b,kind) / EstBatch(v,b,g) / EndSky (skyway end-blocker: election, checkpoint recomputed) / ReplaceCompass (once; new deployment id while the batch is open; the previous-bytes kind is then a confirmation over the checkpoint bound to the previous deployment) / ReRegister(v,key: own first, own second, first key of the previous validator, the previous validator's current or former key spelled differently (lower-case address, zero-padded 32-byte Pubkey)) with kind in {valid, garbage, other validator's key under own address, other validator's key and address, duplicate, signature over the item's previous bytes, own previous key}; every transition is a really signed tx through ante + router or a real end-blocker; in every state each stored signature / batch confirm is recovered with go-ethereum SigToPub over the item's current signing bytes; a state is distinct by (consensus, skyway, valset stores, ghost)"
	r.Assumptions = []string{
		"tx atomicity re-implemented as in baseapp.runTx (ante cache, msg cache)",
		"height and time are fixed at 101 (only h mod 10/50/300 and batch time-outs are read by the explored code; none of them fires)",
		"two-chains: v2 has no account on the second (active) chain; it would drop out of the snapshot at the next build, which does not happen at the fixed height",
		"snapshot rebuilds and message re-assignment (ReassignOrphanedMessages has no caller in the application) are outside the alphabet",
		"compass replacement (one ReplaceCompass = EvmKeeper.ActivateChainReferenceID with a new deployment id, in the batch and all-items scenarios): the tree neither re-issues the stored BytesToSign nor discards stored confirmations at that moment (it does at the next estimate election; never if the estimate was already elected). The oracle therefore requires only confirmations ACCEPTED AFTER the replacement to verify over the checkpoint recomputed from the stored batch and the chain's CURRENT deployment id; confirmations accepted before it are judged over the checkpoint they were made for, and the stale stored BytesToSign is counted (outcome ReplaceCompass: +stale-bytes-to-sign / +kept-confirm), not judged",
		"registered Pubkey is the 20-byte address of the registered key (what StdChain and pigeon register) or, in the alias registration, the same address zero-padded to 32 bytes; the stored PublicKey of a signature is read the way the queue reads it (last 20 bytes)",
		"signature byte V is accepted as 0/1 or 27/28 for batch confirms (representation, as skyway's EthAddressFromSignature)",
		"quick tier: invalid signature kinds and alias registrations are enumerated for validator v0 only and estimates {21000, 300000}; thorough: all validators, estimates {21000, 90000} and the constants {300000, 100000, 0, 1, 2^64-1}",
		"estimate alphabet: 300000 (fallback of the UpdateValset hasher and of the batch checkpoint when no estimate is set), 100000 (default of each fee field), 0, 1, 2^64-1 are submitted only while every estimate already on the item has the same value, so that the elected median is exactly that constant; the other values mix freely; seeds exist for 21000 and for 300000",
		"only the turnstone queue of the chain is observed; its validators-balances, collect-fund-events and reference-block queues are empty at set-up and no operation of the alphabet feeds them",
		"per-item scenarios assume that operations on one queued item do not influence how another item's signatures are handled; the all-items scenario checks the combination to a smaller depth",
		"each scenario has a slice of the time budget and at most 80000 states per worker; what was cut is listed in caps_hit and depth_completed",
	}
	start := time.Now()
	deadline := r.Deadline(150*time.Second, 23*time.Minute)
	hash := func(n *explore.Node) string {
		return n.Ghost.Key() + "|" + w.StoreDigest(n.Ctx, ctypes.StoreKey, skywaytypes.StoreKey, vtypes.StoreKey)
	}
	// Scenarios: one per item (operations on that item + the global ones), then all
	// items together. Every scenario starts from the set-up state and from a seeded
	// state in which two validators have already estimated the scenario's items
	// (one end-block away from the election).
	type scen struct {
		name   string
		items  []string
		dq, dt int
		until  float64 // share of the time budget that may be used up when this scenario ends
	}
	var mkey, vkey, bkey string
	for k, it := range g0.obs {
		switch it.What {
		case "SubmitLogicCall":
			mkey = k
		case "UpdateValset":
			vkey = k
		case "batch":
			bkey = k
		}
	}
	scens := []scen{
		{"logic-call", []string{mkey}, 4, 7, 0.30},
		{"update-valset", []string{vkey}, 4, 7, 0.55},
		{"batch", []string{bkey}, 4, 7, 0.80},
		{"all-items", []string{mkey, vkey, bkey}, 3, 5, 1.0},
	}
	var specs []explore.Spec
	{
		// two-chains: a second active chain with its own UpdateValset; v0 has a
		// different key there, v1 the same key, v2 no account. One transaction may
		// carry signatures for items of both chains.
		n2, keyB := e.twoChains(ctx, g0)
		d := 3
		if r.Thorough() {
			d = 4
		}
		if s := os.Getenv("C06_DEPTH"); s != "" {
			fmt.Sscanf(s, "%d", &d)
		}
		specs = append(specs, explore.Spec{Name: "two-chains", Init: []*explore.Node{n2}, Hash: hash, Invariant: e.invariant,
			Ops:      func(n *explore.Node) []explore.Op { return e.ops2(n, mkey, keyB) },
			MaxDepth: d, Deadline: start.Add(time.Duration(float64(deadline.Sub(start)) * 0.08)), MaxStates: 80_000,
			ShardDepth: 2, Shard: shard, NShards: nshards})
	}
	for _, sc := range scens {
		sc := sc
		filter := map[string]bool{}
		for _, k := range sc.items {
			filter[k] = true
		}
		ops := func(n *explore.Node) []explore.Op { return e.ops(n, filter) }
		init := []*explore.Node{{Ctx: ctx, Ghost: g0}}
		for _, sg := range e.seeds {
			var labels []string
			for _, k := range sc.items {
				for _, v := range w.Vals[:2] {
					if g0.obs[k].Kind == "batch" {
						labels = append(labels, fmt.Sprintf("EstBatch(%s,%s,%d)", v.Name, k, sg))
					} else {
						labels = append(labels, fmt.Sprintf("Estimate(%s,%s,%d)", v.Name, k, sg))
					}
				}
			}
			init = append(init, e.seed(ctx, g0, ops, labels))
		}
		d := sc.dq
		if r.Thorough() {
			d = sc.dt
		}
		if s := os.Getenv("C06_DEPTH"); s != "" {
			fmt.Sscanf(s, "%d", &d)
		}
		specs = append(specs, explore.Spec{Name: sc.name, Init: init, Ops: ops, Hash: hash, Invariant: e.invariant,
			MaxDepth: d, Deadline: start.Add(time.Duration(float64(deadline.Sub(start)) * sc.until)), MaxStates: 80_000,
			ShardDepth: 2, Shard: shard, NShards: nshards})
	}
	if replayFile != "" {
		if shard == 0 {
			replay(r, specs, replayFile)
		}
		return
	}
	if pf := os.Getenv("C06_PROF"); pf != "" && shard == 0 {
		f, _ := os.Create(pf)
		_ = pprof.StartCPUProfile(f)
		defer pprof.StopCPUProfile()
	}
	only := os.Getenv("C06_SCENARIO")
	for _, spec := range specs {
		if only != "" && only != spec.Name {
			continue
		}
		e.scenario = spec.Name
		t0 := time.Now()
		s0, t0n := r.States, r.Transitions
		out := explore.Run(r, spec)
		if shard == 0 {
			r.Extra["depth_completed "+spec.Name] = float64(out.DepthCompleted)
			r.Extra["depth_bound "+spec.Name] = float64(spec.MaxDepth)
		}
		if os.Getenv("C06_DUMP") != "" {
			fmt.Fprintf(os.Stderr, "shard %d scenario %s: depth %d/%d states %d transitions %d in %.1fs\n", shard, spec.Name, out.DepthCompleted, spec.MaxDepth, r.States-s0, r.Transitions-t0n, time.Since(t0).Seconds())
		}
		if hf := os.Getenv("C06_HEAP"); hf != "" && shard == 0 {
			f, _ := os.Create(hf + "." + spec.Name)
			_ = pprof.WriteHeapProfile(f)
			f.Close()
		}
		e.txmemo = map[string]sdk.Tx{}
	}
}

// twoChains forks the set-up state and adds a second active chain through the
// keeper APIs the governance / registration handlers use: chain accounts (v0: its
// second key, v1: the key it also uses on the first chain, v2: none), relayer
// fees, a new snapshot and the UpdateValset the evm keeper publishes for it.
func (e *env) twoChains(ctx sdk.Context, g0 *ghost) (*explore.Node, string) {
	w := e.w
	c := world.Fork(ctx)
	must(w.AddChain(c, ref2, 56, 2))
	g := g0.Clone().(*ghost)
	g.depth = 0
	g.Reg2 = []string{e.alt[0], e.orig[1], ""}
	for i, v := range w.Vals {
		infos := []*vtypes.ExternalChainInfo{{ChainType: "evm", ChainReferenceID: ref, Address: e.orig[i], Pubkey: ethcommon.HexToAddress(e.orig[i]).Bytes()}}
		if g.Reg2[i] != "" {
			infos = append(infos, &vtypes.ExternalChainInfo{ChainType: "evm", ChainReferenceID: ref2, Address: g.Reg2[i], Pubkey: ethcommon.HexToAddress(g.Reg2[i]).Bytes()})
			must(w.SetFee(c, v, ref2, "1.0"))
		}
		must(w.App.ValsetKeeper.AddExternalChainInfo(c, v.ValAddr, infos))
	}
	e.tq2 = world.TurnstoneQueue(ref2)
	e.queues = []string{e.tq, e.tq2}
	snap, err := w.Snapshot(c)
	must(err)
	if len(w.Queue(c, e.tq2)) == 0 {
		if snap == nil {
			snap, err = w.App.ValsetKeeper.GetCurrentSnapshot(c)
			must(err)
		}
		must(w.App.EvmKeeper.PublishSnapshotToAllChains(c, snap, true))
	}
	// an open bridge batch on the second chain (v2 has no account there)
	u := w.User("U1")
	denom2, err := w.BridgeToken(c, w.User("adm"), "t2", ref2, "0x2222222222222222222222222222222222222222", 1000, u)
	must(err)
	must(w.DeliverTx(c, []*world.Actor{u}, &skywaytypes.MsgSendToRemote{EthDest: "0x00000000000000000000000000000000000000bb", Amount: sdk.NewInt64Coin(denom2, 10), ChainReferenceId: ref2, Metadata: world.Meta(u)}).Err)
	w.SkywayEnd(world.At(c, 150, c.BlockTime().Add(time.Second)), nil)
	g.obs = e.observe(c)
	nb2 := 0
	for _, it := range g.obs {
		if it.Kind == "batch" && it.Chain == ref2 {
			nb2++
		}
	}
	if nb2 != 1 {
		panic(fmt.Sprintf("two-chains set-up: %d batches on %s: %v", nb2, ref2, sortedKeys(g.obs)))
	}
	keyB := ""
	for k, it := range g.obs {
		if it.Queue == e.tq2 && it.What == "UpdateValset" {
			keyB = k
		}
	}
	if keyB == "" {
		panic(fmt.Sprintf("two-chains set-up: no UpdateValset on %s: %v", ref2, sortedKeys(g.obs)))
	}
	return &explore.Node{Ctx: c, Ghost: g}, keyB
}

// ops2 is the alphabet of the two-chains scenario: single signatures on the
// first chain's SubmitLogicCall (A) and the second chain's UpdateValset (B) with
// either of the validator's keys, and transactions carrying one entry for each,
// in both orders and with every assignment of the two keys.
func (e *env) ops2(n *explore.Node, keyA, keyB string) []explore.Op {
	g := n.Ghost.(*ghost)
	if g.obs == nil {
		g.obs = e.observe(n.Ctx)
	}
	var ops []explore.Op
	a, b := g.obs[keyA], g.obs[keyB]
	if a == nil || b == nil {
		return nil
	}
	for vi, v := range e.w.Vals {
		vi, v := vi, v
		type choice struct{ tag, addr string }
		keys := []choice{{"k1", g.Reg[vi]}}
		if g.Reg2[vi] != "" && g.Reg2[vi] != g.Reg[vi] {
			keys = append(keys, choice{"k2", g.Reg2[vi]})
		}
		entry := func(it *itemObs, k choice) *ctypes.ConsensusMessageSignature {
			return &ctypes.ConsensusMessageSignature{Id: it.ID, QueueTypeName: it.Queue, Signature: e.sign(k.addr, it.Bytes), SignedByAddress: k.addr}
		}
		send := func(label, target, class string, entries ...*ctypes.ConsensusMessageSignature) {
			ops = append(ops, e.step(label, opCtx{vi, target, class}, func(ctx sdk.Context, g *ghost) (string, *explore.Fail) {
				return e.deliver(ctx, v, &ctypes.MsgAddMessagesSignatures{Metadata: world.Meta(v.Actor), SignedMessages: entries})
			}))
		}
		for _, k := range keys {
			send(fmt.Sprintf("Sign(%s,A:%s)", v.Name, k.tag), keyA, "Sign1/A:"+k.tag, entry(a, k))
			send(fmt.Sprintf("Sign(%s,B:%s)", v.Name, k.tag), keyB, "Sign1/B:"+k.tag, entry(b, k))
		}
		for _, ka := range keys {
			for _, kb := range keys {
				send(fmt.Sprintf("Sign(%s,[A:%s,B:%s])", v.Name, ka.tag, kb.tag), keyA+"|"+keyB, "Sign2/A:"+ka.tag+",B:"+kb.tag, entry(a, ka), entry(b, kb))
				send(fmt.Sprintf("Sign(%s,[B:%s,A:%s])", v.Name, kb.tag, ka.tag), keyA+"|"+keyB, "Sign2/B:"+kb.tag+",A:"+ka.tag, entry(b, kb), entry(a, ka))
			}
		}
	}
	// batch confirmations: the batch of either chain, signed with the key the
	// validator has registered for the first (k1) or the second chain (k2); v2 has
	// no account on the second chain, so for that batch k1 is "a key registered for
	// another chain" and no legitimate key exists
	for _, key := range sortedKeys(g.obs) {
		it := g.obs[key]
		if it.Kind != "batch" {
			continue
		}
		key := key
		tag := "bA"
		if it.Chain == ref2 {
			tag = "bB"
		}
		for vi, v := range e.w.Vals {
			vi, v := vi, v
			keys := []struct{ tag, addr string }{{"k1", g.Reg[vi]}}
			if g.Reg2[vi] != "" && g.Reg2[vi] != g.Reg[vi] {
				keys = append(keys, struct{ tag, addr string }{"k2", g.Reg2[vi]})
			}
			for _, k := range keys {
				k := k
				msg := &skywaytypes.MsgConfirmBatch{Nonce: it.ID, TokenContract: it.Token, EthSigner: k.addr, Orchestrator: v.Addr.String(),
					Signature: hex.EncodeToString(e.sign(k.addr, it.Bytes)), Metadata: world.Meta(v.Actor)}
				ops = append(ops, e.step(fmt.Sprintf("Confirm(%s,%s:%s)", v.Name, tag, k.tag), opCtx{vi, key, "Confirm2/" + tag + ":" + k.tag},
					func(ctx sdk.Context, g *ghost) (string, *explore.Fail) { return e.deliver(ctx, v, msg) }))
			}
		}
	}
	ops = append(ops, e.step("EndCons", opCtx{-1, "", "EndCons"}, func(ctx sdk.Context, g *ghost) (string, *explore.Fail) {
		if err, panicked := world.Protect(func() error { return e.end(ctx) }); err != nil {
			return "", explore.Failf("harness-endblock", "end-block failed (panic=%v): %v", panicked, err)
		}
		return "ok", nil
	}))
	return ops
}

// seed applies the labelled operations to a fork of the set-up state.
func (e *env) seed(ctx sdk.Context, g0 *ghost, ops func(n *explore.Node) []explore.Op, labels []string) *explore.Node {
	e.quiet = true
	defer func() { e.quiet = false }()
	n := &explore.Node{Ctx: world.Fork(ctx), Ghost: g0.Clone()}
	for _, l := range labels {
		found := false
		for _, op := range ops(n) {
			if op.Label == l {
				if f := op.Do(&n.Ctx, n.Ghost); f != nil {
					panic("seed " + l + ": " + f.Message)
				}
				found = true
				break
			}
		}
		if !found {
			panic("seed: no operation " + l)
		}
		n.Path = append(n.Path, l)
	}
	n.Ghost.(*ghost).depth = 0
	return n
}

func replay(r *report.Run, specs []explore.Spec, file string) {
	var v report.Violation
	b, err := os.ReadFile(file)
	if err == nil {
		err = json.Unmarshal(b, &v)
	}
	if err != nil {
		fmt.Fprintln(os.Stderr, err)
		os.Exit(2)
	}
	m := v.Replay.(map[string]interface{})
	var path []string
	for _, p := range m["path"].([]interface{}) {
		path = append(path, p.(string))
	}
	spec := specs[len(specs)-1]
	for _, sp := range specs {
		if sp.Name == m["scenario"] {
			spec = sp
		}
	}
	if f := explore.Replay(spec, path); f != nil {
		r.Violate(f.Signature, f.Message, v.Replay)
	}
	r.States, r.Transitions = 1, int64(len(path))
	r.Sample(path)
}

func sortedKeys(o observation) []string {
	var ks []string
	for k := range o {
		ks = append(ks, k)
	}
	sort.Strings(ks)
	return ks
}

// ---------------------------------------------------------------------------
// reading the state

func (e *env) name(addr string) string {
	if n, ok := e.names[addr]; ok {
		return n
	}
	return addr
}

func (e *env) observe(ctx sdk.Context) observation {
	w := e.w
	cdc := w.App.AppCodec()
	o := observation{}
	for _, q := range e.queues {
		msgs, err := w.App.ConsensusKeeper.GetMessagesFromQueue(ctx, q, 0)
		if err != nil {
			continue
		}
		for _, m := range msgs {
			it := &itemObs{Kind: "msg", Queue: q, ID: m.GetId(), Est: m.GetGasEstimate(), Chain: ref}
			if q == e.tq2 {
				it.Chain = ref2
			}
			// GetBytesToSign is a pure function of the stored record: memoise on its full encoding
			raw, err := cdc.MarshalInterface(m)
			if err != nil {
				panic(err)
			}
			bts, ok := e.btsmemo[string(raw)]
			if !ok {
				bts, err = m.GetBytesToSign(cdc)
				if err != nil {
					panic(fmt.Sprintf("GetBytesToSign(%s/%d): %v", q, m.GetId(), err))
				}
				e.btsmemo[string(raw)] = bts
			}
			it.Bytes = bts
			it.What = "other"
			if cm, err := m.ConsensusMsg(cdc); err == nil {
				if em, ok := cm.(*evmtypes.Message); ok {
					switch em.Action.(type) {
					case *evmtypes.Message_SubmitLogicCall:
						it.What = "SubmitLogicCall"
					case *evmtypes.Message_UpdateValset:
						it.What = "UpdateValset"
					}
				}
			}
			for _, ge := range m.GetGasEstimates() {
				it.Ests = append(it.Ests, ge.Value)
			}
			for _, sd := range m.GetSignData() {
				it.Sigs = append(it.Sigs, sigObs{Val: e.name(sd.ValAddress.String()), Claimed: sd.ExternalAccountAddress, Pub: sd.PublicKey, Sig: sd.Signature})
			}
			key := fmt.Sprintf("m%d", m.GetId())
			if q != e.tq {
				key = q + "/" + key
			}
			o[key] = it
		}
	}
	batches, err := w.App.SkywayKeeper.GetOutgoingTxBatches(ctx)
	if err != nil {
		panic(err)
	}
	for _, b := range batches {
		ci, err := w.App.EvmKeeper.GetChainInfo(ctx, b.ChainReferenceID)
		if err != nil {
			panic(err)
		}
		it := &itemObs{Kind: "batch", What: "batch", ID: b.BatchNonce, Stored: b.BytesToSign, Est: b.GasEstimate, Chain: b.ChainReferenceID, Token: b.TokenContract.GetAddress().Hex()}
		ext := b.ToExternal()
		raw, err := cdc.Marshal(&ext)
		if err != nil {
			panic(err)
		}
		ck := string(ci.SmartContractUniqueID) + "|" + string(raw)
		cp, ok := e.btsmemo[ck]
		if !ok {
			cp, err = b.GetCheckpoint(string(ci.SmartContractUniqueID))
			if err != nil {
				panic(err)
			}
			e.btsmemo[ck] = cp
		}
		it.Bytes = cp
		ests, err := w.App.SkywayKeeper.GetBatchGasEstimateByNonceAndTokenContract(ctx, b.BatchNonce, b.TokenContract)
		if err != nil {
			panic(err)
		}
		for _, ge := range ests {
			it.Ests = append(it.Ests, ge.Estimate)
		}
		confirms, err := w.App.SkywayKeeper.GetBatchConfirmByNonceAndTokenContract(ctx, b.BatchNonce, b.TokenContract)
		if err != nil {
			panic(err)
		}
		for _, c := range confirms {
			sig, err := hex.DecodeString(c.Signature)
			if err != nil {
				sig = []byte("undecodable:" + c.Signature)
			}
			it.Sigs = append(it.Sigs, sigObs{Val: e.name(c.Orchestrator), Claimed: c.EthSigner, Sig: sig})
		}
		o[fmt.Sprintf("b%d", b.BatchNonce)] = it
	}
	return o
}

// recoverAddr returns the address whose key produced sig over the eth
// personal-message digest of bts ("" if none), independently of the repository's
// verification code.
func (e *env) recoverAddr(bts, sig []byte, lenient bool) string {
	k := string(bts) + "|" + string(sig)
	if a, ok := e.recov[k]; ok {
		return a
	}
	a := ""
	if len(sig) == 65 {
		s := append([]byte{}, sig...)
		if lenient && (s[64] == 27 || s[64] == 28) {
			s[64] -= 27
		}
		digest := ethcrypto.Keccak256(append([]byte(ethPrefix), bts...))
		if pub, err := ethcrypto.SigToPub(digest, s); err == nil {
			a = ethcrypto.PubkeyToAddress(*pub).Hex()
		}
	}
	if len(e.recov) > 200_000 {
		e.recov = map[string]string{}
	}
	e.recov[k] = a
	return a
}

func (e *env) invariant(n *explore.Node) *explore.Fail {
	g := n.Ghost.(*ghost)
	if g.obs == nil {
		g.obs = e.observe(n.Ctx)
	}
	// harness sanity: the registry in the store is what the ghost believes
	for i, v := range e.w.Vals {
		infos, err := e.w.App.ValsetKeeper.GetValidatorChainInfos(n.Ctx, v.ValAddr)
		got1, got2, other := "", "", 0
		for _, ci := range infos {
			switch ci.ChainReferenceID {
			case ref:
				got1 = ci.Address
			case ref2:
				got2 = ci.Address
			default:
				other++
			}
		}
		want2 := ""
		if g.Reg2 != nil {
			want2 = g.Reg2[i]
		}
		if err != nil || other != 0 || got1 != g.Lit[i] || got2 != want2 {
			return explore.Failf("harness-registry", "registry of %s in store %v (err %v), ghost %s / %s", v.Name, infos, err, g.Lit[i], want2)
		}
	}
	for _, key := range sortedKeys(g.obs) {
		it := g.obs[key]
		where := it.Kind
		if it.Kind == "batch" && !g.OldBytes[key] && !bytes.Equal(it.Stored, it.Bytes) {
			return explore.Failf("batch-bytes-stale", "batch %d stores BytesToSign %x but its checkpoint recomputed from the stored batch is %x", it.ID, it.Stored, it.Bytes)
		}
		seenVal, seenKey := map[string]bool{}, map[string]bool{}
		for _, s := range it.Sigs {
			over := it.Bytes
			if g.Old[key][s.Val] {
				// accepted before the compass replacement: judged over the checkpoint of that time
				over, _ = hex.DecodeString(g.Prev[key])
			}
			rec := e.recoverAddr(over, s.Sig, it.Kind == "batch")
			if rec == "" {
				return explore.Failf("sig-invalid:"+where, "%s (%s, estimate %d): stored signature of %s (%x…) does not recover to any key over the current signing bytes %x", key, it.What, it.Est, s.Val, head(s.Sig), over)
			}
			if !strings.EqualFold(rec, s.Claimed) || (it.Kind == "msg" && ethcommon.BytesToAddress(s.Pub).Hex() != rec) {
				return explore.Failf("sig-invalid:"+where, "%s (%s, estimate %d): stored signature of %s recovers to %s over the current signing bytes %x, stored address %s, stored public key %x", key, it.What, it.Est, s.Val, rec, over, s.Claimed, s.Pub)
			}
			want, ok := g.Sig[key][s.Val]
			if !ok {
				return explore.Failf("harness-ghost", "%s: stored signature of %s unknown to the ghost", key, s.Val)
			}
			if want == "" {
				return explore.Failf("sig-wrong-key:"+where, "%s (%s): stored signature of %s was made with key %s; it had no key registered for this item's chain when it signed", key, it.What, s.Val, rec)
			}
			if want != rec {
				return explore.Failf("sig-wrong-key:"+where, "%s (%s): stored signature of %s was made with key %s; when it signed it had registered %s", key, it.What, s.Val, rec, want)
			}
			if seenVal[s.Val] {
				return explore.Failf("dup-validator:"+where, "%s (%s): validator %s has two stored signatures", key, it.What, s.Val)
			}
			if seenKey[rec] {
				return explore.Failf("dup-key:"+where, "%s (%s): key %s appears in two stored signatures (second one credited to %s)", key, it.What, rec, s.Val)
			}
			seenVal[s.Val], seenKey[rec] = true, true
		}
	}
	return nil
}

func head(b []byte) []byte {
	if len(b) > 8 {
		return b[:8]
	}
	return b
}

// ---------------------------------------------------------------------------
// operations

type opCtx struct {
	actor  int    // validator index whose signature the op may add, -1 otherwise
	target string // item the op may add a signature to
	class  string // op class for the step-oracle signature / counters
}

// step wraps an operation with the step oracle and the ghost bookkeeping.
func (e *env) step(label string, oc opCtx, f func(ctx sdk.Context, g *ghost) (string, *explore.Fail)) explore.Op {
	return explore.Op{Label: label, Do: func(ctx *sdk.Context, gg explore.Ghost) *explore.Fail {
		g := gg.(*ghost)
		before := g.obs
		if before == nil {
			before = e.observe(*ctx)
		}
		reg1, reg2 := "", ""
		if oc.actor >= 0 {
			reg1 = g.Reg[oc.actor]
			if g.Reg2 != nil {
				reg2 = g.Reg2[oc.actor]
			}
		}
		outcome, fail := f(*ctx, g)
		if fail != nil {
			return fail
		}
		after := e.observe(*ctx)
		g.obs = after
		changed := ""
		for _, key := range sortedKeys(after) {
			a := after[key]
			b, ok := before[key]
			if !ok || bytes.Equal(a.Bytes, b.Bytes) {
				continue
			}
			changed += "," + a.What
			if oc.class == "ReplaceCompass" && a.Kind == "batch" && os.Getenv("C06_STRICT_COMPASS") == "" {
				// The unchanged tree neither re-issues BytesToSign nor discards the
				// confirmations when the compass is replaced: recorded, not judged.
				g.Prev[key] = hex.EncodeToString(b.Bytes)
				if !bytes.Equal(a.Stored, a.Bytes) {
					g.OldBytes[key] = true
					outcome += "+stale-bytes-to-sign"
				}
				for _, sg := range a.Sigs {
					if g.Old[key] == nil {
						g.Old[key] = map[string]bool{}
					}
					g.Old[key][sg.Val] = true
					outcome += "+kept-confirm"
				}
				continue
			}
			delete(g.Old, key)
			if len(a.Sigs) > 0 {
				return explore.Failf("carried-over:"+a.Kind+":"+oc.class, "%s (%s): signing bytes changed %x -> %x (estimate %d -> %d) in %s and %d signature(s) collected for the old bytes are still stored (first: %s)", key, a.What, b.Bytes, a.Bytes, b.Est, a.Est, label, len(a.Sigs), a.Sigs[0].Val)
			}
			g.Prev[key] = hex.EncodeToString(b.Bytes)
			delete(g.Sig, key)
		}
		for key := range g.Sig {
			if _, ok := after[key]; !ok {
				delete(g.Sig, key)
			}
		}
		for key := range g.Prev {
			if _, ok := after[key]; !ok {
				delete(g.Prev, key)
			}
		}
		for _, key := range sortedKeys(after) {
			a := after[key]
			stored := map[string]bool{}
			for _, s := range a.Sigs {
				stored[s.Val] = true
				if _, known := g.Sig[key][s.Val]; known {
					continue
				}
				if oc.actor < 0 || e.w.Vals[oc.actor].Name != s.Val || !strings.Contains("|"+oc.target+"|", "|"+key+"|") {
					return explore.Failf("sig-foreign:"+a.Kind, "%s (%s): a signature credited to %s appeared in %s", key, a.What, s.Val, label)
				}
				if strings.HasPrefix(outcome, "rejected") {
					return explore.Failf("rejected-tx-stored:"+a.Kind, "%s (%s): %s was %s and yet left a signature of %s", key, a.What, label, outcome, s.Val)
				}
				if g.Sig[key] == nil {
					g.Sig[key] = map[string]string{}
				}
				// the key this validator has registered for the item's chain
				g.Sig[key][s.Val] = reg1
				if a.Chain == ref2 {
					g.Sig[key][s.Val] = reg2
				}
				outcome += "+stored"
			}
			for v := range g.Sig[key] {
				if !stored[v] {
					delete(g.Sig[key], v)
					delete(g.Old[key], v)
				}
			}
			if len(g.Old[key]) == 0 {
				delete(g.Old, key)
			}
			if a.Kind == "batch" && bytes.Equal(a.Stored, a.Bytes) {
				delete(g.OldBytes, key)
			}
			if len(g.Sig[key]) == 0 {
				delete(g.Sig, key)
			}
		}
		if changed != "" {
			outcome += "/changed" + changed
		}
		if os.Getenv("C06_DUMP") != "" {
			fmt.Fprintf(os.Stderr, "%-34s %s\n", label, outcome)
			for _, key := range sortedKeys(after) {
				a := after[key]
				fmt.Fprintf(os.Stderr, "    %s %-16s est=%d bytes=%x sigs=%d ghost=%v\n", key, a.What, a.Est, head(a.Bytes), len(a.Sigs), g.Sig[key])
			}
		}
		if !e.quiet && (e.shard == 0 || g.depth > 2) { // the two prefix levels are executed by every worker; count them once
			k := "outcome " + oc.class + ": " + outcome
			f0, _ := e.r.Extra[k].(float64)
			e.r.Extra[k] = f0 + 1
		}
		return nil
	}}
}

func short(err error) string {
	s := err.Error()
	for _, pat := range []string{"invalid signature", "already signed", "signing key not found", "already exists", "already received", "duplicate", "does not match", "signature verification failed", "already registered", "not found", "does not require gas", "unable to get address", "signature to public key"} {
		if strings.Contains(strings.ToLower(s), pat) {
			return pat
		}
	}
	if len(s) > 60 {
		s = s[len(s)-60:]
	}
	return s
}

func (e *env) deliver(ctx sdk.Context, v *world.Val, msg sdk.Msg) (string, *explore.Fail) {
	// the signed tx is a function of (signer, account sequence, message): memoise the signing
	acc := e.w.App.AccountKeeper.GetAccount(ctx, v.Addr)
	mb, err := e.w.App.AppCodec().MarshalInterface(msg)
	if err != nil {
		return "", explore.Failf("harness", "marshal %T: %v", msg, err)
	}
	mk := fmt.Sprintf("%s/%d/%s", v.Name, acc.GetSequence(), mb)
	tx, ok := e.txmemo[mk]
	if !ok {
		tx, err = e.w.BuildTxWith(v.Actor, acc.GetAccountNumber(), acc.GetSequence(), msg)
		if err != nil {
			return "", explore.Failf("harness", "build tx: %v", err)
		}
		if len(e.txmemo) > 60_000 {
			e.txmemo = map[string]sdk.Tx{}
		}
		e.txmemo[mk] = tx
	}
	res := e.w.DeliverBuiltTx(ctx, tx)
	if res.Stage == "validate" {
		return "rejected(validate-basic)", nil
	}
	if res.Stage == "ante" || res.Stage == "build" {
		return "", explore.Failf("harness", "tx of %s failed in %s: %v", v.Name, res.Stage, res.Err)
	}
	if !res.OK() {
		return "rejected(" + short(res.Err) + ")", nil
	}
	return "ok", nil
}

func garbage(tag string) []byte {
	a := sha256.Sum256([]byte("garbage-r-" + tag))
	b := sha256.Sum256([]byte("garbage-s-" + tag))
	b[0] &= 0x3f // keep s below the curve order
	return append(append(a[:], b[:]...), 1)
}

func (e *env) sign(addr string, bts []byte) []byte {
	mk := addr + string(bts)
	if s, ok := e.sigmemo[mk]; ok {
		return s
	}
	s := e.sign0(addr, bts)
	e.sigmemo[mk] = s
	return s
}

// sign0 signs like pigeon does (RFC 6979 nonces: deterministic, so memoising is faithful).
func (e *env) sign0(addr string, bts []byte) []byte {
	digest := ethcrypto.Keccak256(append([]byte(ethPrefix), bts...))
	sig, err := ethcrypto.Sign(digest, e.keys[addr])
	if err != nil {
		panic(err)
	}
	return sig
}

// estimateValues is the estimate alphabet for an item in its current state.
func (e *env) estimateValues(it *itemObs) []uint64 {
	out := append([]uint64{}, e.gases...)
	for _, sp := range e.special {
		uniform := true
		for _, x := range it.Ests {
			uniform = uniform && x == sp
		}
		if uniform {
			out = append(out, sp)
		}
	}
	return out
}

// attempt describes one signature submission.
type attempt struct {
	kind    string
	sig     []byte
	claimed string
}

// attempts enumerates the submission kinds of validator v for an item.
func (e *env) attempts(g *ghost, v int, key string, it *itemObs) []attempt {
	name := e.w.Vals[v].Name
	cur, lit := g.Reg[v], g.Lit[v]
	o := (v + 1) % len(e.w.Vals)
	var out []attempt
	prevKey, signed := g.Sig[key][name]
	if !signed || prevKey != cur {
		out = append(out, attempt{"valid", e.sign(cur, it.Bytes), lit})
	}
	if signed {
		for _, s := range it.Sigs {
			if s.Val == name {
				out = append(out, attempt{"duplicate", s.Sig, s.Claimed})
			}
		}
	}
	if v >= e.hostil {
		return out
	}
	out = append(out,
		attempt{"garbage", garbage(key + name), lit},
		attempt{"otherkey", e.sign(g.Reg[o], it.Bytes), lit},
		attempt{"otheraddr", e.sign(g.Reg[o], it.Bytes), g.Lit[o]},
	)
	if p, ok := g.Prev[key]; ok {
		pb, _ := hex.DecodeString(p)
		out = append(out, attempt{"prevbytes", e.sign(cur, pb), lit})
	}
	if cur != e.orig[v] {
		out = append(out, attempt{"formerkey", e.sign(e.orig[v], it.Bytes), e.orig[v]})
	}
	return out
}

func (e *env) ops(n *explore.Node, filter map[string]bool) []explore.Op {
	g := n.Ghost.(*ghost)
	if g.obs == nil {
		g.obs = e.observe(n.Ctx)
	}
	w := e.w
	var ops []explore.Op
	hasBatch := false
	for _, key := range sortedKeys(g.obs) {
		it := g.obs[key]
		key := key
		if !filter[key] {
			continue
		}
		hasBatch = hasBatch || it.Kind == "batch"
		switch it.Kind {
		case "msg":
			q, id := it.Queue, it.ID
			for vi, v := range w.Vals {
				vi, v := vi, v
				for _, at := range e.attempts(g, vi, key, it) {
					at := at
					ops = append(ops, e.step(fmt.Sprintf("Sign(%s,%s,%s)", v.Name, key, at.kind), opCtx{vi, key, "Sign/" + at.kind},
						func(ctx sdk.Context, g *ghost) (string, *explore.Fail) {
							return e.deliver(ctx, v, &ctypes.MsgAddMessagesSignatures{Metadata: world.Meta(v.Actor), SignedMessages: []*ctypes.ConsensusMessageSignature{{
								Id: id, QueueTypeName: q, Signature: at.sig, SignedByAddress: at.claimed,
							}}})
						}))
				}
				for _, gas := range e.estimateValues(it) {
					gas := gas
					ops = append(ops, e.step(fmt.Sprintf("Estimate(%s,%s,%d)", v.Name, key, gas), opCtx{-1, "", "Estimate"},
						func(ctx sdk.Context, g *ghost) (string, *explore.Fail) {
							return e.deliver(ctx, v, &ctypes.MsgAddMessageGasEstimates{Metadata: world.Meta(v.Actor), Estimates: []*ctypes.MsgAddMessageGasEstimates_GasEstimate{{
								MsgId: id, QueueTypeName: q, Value: gas, EstimatedByAddress: g.Lit[vi],
							}}})
						}))
				}
			}
		case "batch":
			nonce := it.ID
			for vi, v := range w.Vals {
				vi, v := vi, v
				for _, at := range e.attempts(g, vi, key, it) {
					at := at
					ops = append(ops, e.step(fmt.Sprintf("Confirm(%s,%s,%s)", v.Name, key, at.kind), opCtx{vi, key, "Confirm/" + at.kind},
						func(ctx sdk.Context, g *ghost) (string, *explore.Fail) {
							return e.deliver(ctx, v, &skywaytypes.MsgConfirmBatch{Nonce: nonce, TokenContract: e.token.GetAddress().Hex(), EthSigner: at.claimed,
								Orchestrator: v.Addr.String(), Signature: hex.EncodeToString(at.sig), Metadata: world.Meta(v.Actor)})
						}))
				}
				for _, gas := range e.estimateValues(it) {
					gas := gas
					ops = append(ops, e.step(fmt.Sprintf("EstBatch(%s,%s,%d)", v.Name, key, gas), opCtx{-1, "", "EstBatch"},
						func(ctx sdk.Context, g *ghost) (string, *explore.Fail) {
							return e.deliver(ctx, v, &skywaytypes.MsgEstimateBatchGas{Metadata: world.Meta(v.Actor), Nonce: nonce, TokenContract: e.token.GetAddress().Hex(), EthSigner: g.Lit[vi], Estimate: gas})
						}))
				}
			}
		}
	}
	ops = append(ops, e.step("EndCons", opCtx{-1, "", "EndCons"}, func(ctx sdk.Context, g *ghost) (string, *explore.Fail) {
		if err, panicked := world.Protect(func() error { return e.end(ctx) }); err != nil {
			return "", explore.Failf("harness-endblock", "end-block failed (panic=%v): %v", panicked, err)
		}
		return "ok", nil
	}))
	if hasBatch && g.Dep == 0 {
		// compass replacement through the activation function the evm keeper calls
		// when a deployment / handover is attested (same call world.AddChain makes)
		ops = append(ops, e.step("ReplaceCompass", opCtx{-1, "", "ReplaceCompass"}, func(ctx sdk.Context, g *ghost) (string, *explore.Fail) {
			err := w.App.EvmKeeper.ActivateChainReferenceID(ctx, ref, &evmtypes.SmartContract{Id: 2, AbiJSON: world.CompassABI(), Bytecode: []byte{0x60, 0x80}},
				"0x6B4E98aA540B2C3545120Ff8CA5C3B6a5D7Cf2f6", []byte("verif-compass-2"))
			if err != nil {
				return "", explore.Failf("harness", "ActivateChainReferenceID: %v", err)
			}
			g.Dep++
			return "ok", nil
		}))
	}
	if hasBatch {
		ops = append(ops, e.step("EndSky", opCtx{-1, "", "EndSky"}, func(ctx sdk.Context, g *ghost) (string, *explore.Fail) {
			w.SkywayEnd(ctx, nil)
			return "ok", nil
		}))
	}
	// key re-registration: own other key; the genesis key of the previous validator
	// (accepted by the chain only once that validator has moved away from it)
	for vi, v := range w.Vals {
		vi, v := vi, v
		p := (vi + len(w.Vals) - 1) % len(w.Vals)
		type cand struct {
			tag, addr, lit string
			pub            []byte
		}
		plain := func(tag, addr string) cand { return cand{tag, addr, addr, ethcommon.HexToAddress(addr).Bytes()} }
		cands := []cand{plain("own-first", e.orig[vi]), plain("own-second", e.alt[vi]), plain("first-of-"+w.Vals[p].Name, e.orig[p])}
		if vi < e.hostil {
			// the key the previous validator holds right now, spelled differently
			a := g.Reg[p]
			alias := func(tag, a string) cand {
				return cand{tag, a, strings.ToLower(a), append(make([]byte, 12), ethcommon.HexToAddress(a).Bytes()...)}
			}
			cands = append(cands, alias("alias-of-"+w.Vals[p].Name, a))
			if e.orig[p] != a {
				// ... and the key it has moved away from
				cands = append(cands, alias("alias-first-of-"+w.Vals[p].Name, e.orig[p]))
			}
		}
		for _, c := range cands {
			c := c
			if c.lit == g.Lit[vi] {
				continue
			}
			ops = append(ops, e.step(fmt.Sprintf("ReRegister(%s,%s)", v.Name, c.tag), opCtx{-1, "", "ReRegister/" + strings.SplitN(c.tag, "-", 2)[0]},
				func(ctx sdk.Context, g *ghost) (string, *explore.Fail) {
					out, f := e.deliver(ctx, v, &vtypes.MsgAddExternalChainInfoForValidator{Metadata: world.Meta(v.Actor), ChainInfos: []*vtypes.ExternalChainInfo{{
						ChainType: "evm", ChainReferenceID: ref, Address: c.lit, Pubkey: c.pub,
					}}})
					if f == nil && out == "ok" {
						g.Reg[vi], g.Lit[vi] = c.addr, c.lit
					}
					return out, f
				}))
		}
	}
	return ops
}
