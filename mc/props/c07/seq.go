package main

import (
	"fmt"
	"strings"
	"time"

	sdk "github.com/cosmos/cosmos-sdk/types"
	"github.com/palomachain/paloma/v2/zzverif/world"
)

// offerT: the transaction built for the kind's target message A (reference
// input, receipt variant Ev, envelope variant Tx) is offered as evidence for A
// or for A's twin.
type offerT struct {
	Twin bool
	Ev   string
	Tx   string
}

type seqT struct {
	Kind   string
	Name   string
	Blocks [][]offerT
}

func (q seqT) key() string {
	var bs []string
	for _, b := range q.Blocks {
		var os []string
		for _, o := range b {
			to := "A"
			if o.Twin {
				to = "twin"
			}
			os = append(os, fmt.Sprintf("T(%s%s)->%s", o.Ev, o.Tx, to))
		}
		bs = append(bs, strings.Join(os, "+"))
	}
	return fmt.Sprintf("seq|%s|%s|%s", q.Kind, q.Name, strings.Join(bs, " ; "))
}

func (e *env) sequences() []seqT {
	var out []seqT
	ok := offerT{Ev: "status=1"}
	okTwin := offerT{Twin: true, Ev: "status=1"}
	for _, k := range kinds {
		out = append(out,
			seqT{k, "evidence-for-attested-message", [][]offerT{{ok}, {ok}}},
			seqT{k, "second-transaction-for-attested-message", [][]offerT{{ok}, {{Ev: "status=1", Tx: "nonce+1"}}}},
			seqT{k, "absent-receipt-then-receipt", [][]offerT{{{Ev: "receipt-absent"}}, {ok}}},
			seqT{k, "failed-receipt-then-successful-receipt", [][]offerT{{{Ev: "status=0"}}, {ok}}},
		)
		if e.s.tw[k] == nil {
			continue
		}
		out = append(out,
			seqT{k, "twin-same-block", [][]offerT{{ok, okTwin}}},
			seqT{k, "twin-next-block", [][]offerT{{ok}, {okTwin}}},
			seqT{k, "twin-first", [][]offerT{{okTwin}, {ok}}},
			seqT{k, "twin-after-failed-receipt", [][]offerT{{{Ev: "status=0"}}, {okTwin}}},
			seqT{k, "twin-only", [][]offerT{{okTwin}}},
		)
		// replay product over the transaction envelope alphabet: A attested with the
		// transaction in envelope e1, the same reference input then offered for the
		// twin in envelope e2 (equal hash <=> same remote transaction: e1 == e2, or
		// the two encodings of the blob transaction)
		for _, e1 := range envelopes {
			for _, e2 := range envelopes {
				if k == kUpload && (strings.HasPrefix(e1, "blob") || strings.HasPrefix(e2, "blob")) {
					continue
				}
				out = append(out, seqT{k, "replay:" + e1 + "+" + e2, [][]offerT{{{Ev: "status=1", Tx: "env=" + e1}}, {{Twin: true, Ev: "status=1", Tx: "env=" + e2}}}})
			}
		}
	}
	return out
}

func (e *env) twinRefs(k string) map[string]int {
	if r, ok := e.twRefs[k]; ok {
		return r
	}
	t := e.s.tw[k]
	base := e.s.bases[t.Base]
	r := map[string]int{}
	if k == kUpload {
		d, err := e.s.reference(base, t, nil).pack(e.abi)
		must(err)
		r[string(d)] = 0
	} else {
		for n := 1; n <= len(t.Sigs); n++ {
			d, err := e.s.reference(base, t, t.Sigs[:n]).pack(e.abi)
			must(err)
			r[string(d)] = n
		}
	}
	e.twRefs[k] = r
	return r
}

func (e *env) runSeq(q seqT) {
	key := q.key()
	if e.replay != "" && key != e.replay {
		return
	}
	if e.capped {
		return
	}
	rep := map[string]interface{}{"case": key}
	A := e.s.tg[q.Kind]
	ctx := world.Fork(e.s.bases[A.Base])
	used := map[string]bool{}
	var trace []string
	cumExpected := 0
	e.r.Case(key)
	e.stats["sequences:"+q.Kind]++
	for bi, blk := range q.Blocks {
		if bi > 0 {
			ctx = world.Advance(ctx, 1, 2*time.Second)
		}
		// the same block without these offers
		cctx := world.Fork(ctx)
		e.endBlock(cctx)
		ctl := e.snapshot(cctx)
		type res struct {
			o       offerT
			t       *target
			hash    string
			valid   bool
			queued  bool
			evErr   string
			expect  bool
			removed bool
		}
		var rs []*res
		for _, o := range blk {
			c := caseT{Kind: q.Kind, Sigs: -1, Ev: o.Ev, Tx: o.Tx}
			data, _, err := e.input(c)
			must(err)
			p, tx := e.proof(c, data)
			t := A
			refs := e.refs[q.Kind]
			if o.Twin {
				t = e.s.tw[q.Kind]
				refs = e.twinRefs(q.Kind)
			}
			_, isRef := refs[string(data)]
			r := &res{o: o, t: t, hash: tx.Hash().Hex(), queued: e.queued(ctx, t.ID)}
			r.valid = isRef && o.Ev == "status=1"
			r.expect = r.valid && r.queued && !used[r.hash]
			for _, prev := range rs {
				// an earlier offer of this block to a message ahead in the queue is
				// attested first and uses the transaction up
				if prev.queued && prev.hash == r.hash && prev.t.ID < t.ID && strings.HasPrefix(prev.o.Ev, "status=") {
					r.expect = false
				}
			}
			r.evErr = e.offer(ctx, t.ID, p)
			if r.queued && r.evErr != "" {
				e.r.Violate("harness:evidence-tx-refused", fmt.Sprintf("%s block %d: %s", key, bi, r.evErr), rep)
				return
			}
			if !r.queued && r.evErr == "" {
				e.r.Violate("evidence-accepted-for-absent-message:"+q.Kind, fmt.Sprintf("%s block %d: MsgAddEvidence for message %d which is no longer queued succeeded", key, bi, t.ID), rep)
				return
			}
			rs = append(rs, r)
		}
		hits := e.endBlock(ctx)
		after := e.snapshot(ctx)
		anyExpected := false
		for i, r := range rs {
			r.removed = r.queued && !e.queued(ctx, r.t.ID)
			accepted := r.removed && len(hits) == 0
			if len(rs) == 2 && i == 0 {
				// A precedes its twin in the queue: a logged error stems from the twin
				// unless A itself is still queued
				accepted = r.removed
			}
			who := "A"
			if r.o.Twin {
				who = "twin"
			}
			trace = append(trace, fmt.Sprintf("block %d: T(%s%s) %s -> %s(id %d): valid-for-it=%v used-before=%v queued=%v => expected accept=%v; removed=%v log=%s",
				bi, r.o.Ev, r.o.Tx, r.hash[:10], who, r.t.ID, r.valid, used[r.hash], r.queued, r.expect, r.removed, rejectClass(hits)))
			if strings.HasPrefix(q.Name, "replay:") && r.expect && !accepted && bi > 0 {
				// a different, unused transaction for the twin: the statement does not
				// demand acceptance (the twin's own preconditions may be gone)
				e.stats["replay-product:fresh-transaction-not-accepted:"+q.Kind]++
				continue
			}
			if accepted != r.expect {
				sig := "reject-valid:" + q.Kind + ":" + q.Name
				if accepted {
					sig = "accept-invalid:" + q.Kind + ":tx-reuse:" + q.Name
					if !used[r.hash] {
						sig = "accept-invalid:" + q.Kind + ":" + q.Name
					} else if strings.HasPrefix(q.Name, "replay:") {
						sig = "replay:accepted-twice:" + strings.TrimPrefix(q.Name, "replay:")
					}
				}
				e.r.Violate(sig, strings.Join(trace, "\n"), rep)
				return
			}
			anyExpected = anyExpected || r.expect
			e.stats[fmt.Sprintf("seq-outcome:%s:accepted=%v", q.Kind, accepted)]++
		}
		// whatever was accepted, the chain is listed at most once per snapshot
		for _, r := range rs {
			if r.expect {
				cumExpected++
			}
		}
		for id, n := range after.ChainsOf {
			// (two messages legitimately accepted with two different transactions list it twice)
			if n > 1 && cumExpected <= 1 {
				e.r.Violate("effects-applied-twice:"+q.Kind+":"+q.Name, fmt.Sprintf("%s\nblock %d: snapshot %d lists the chain %d times", strings.Join(trace, "\n"), bi, id, n), rep)
				return
			}
		}
		// effects: present iff something was expected to be accepted in this or an earlier block
		if !anyExpected {
			var diff []string
			if d := diffMaps(ctl.Evm, after.Evm); len(d) > 0 {
				diff = append(diff, fmt.Sprintf("evm%v", d))
			}
			for _, st := range otherStores {
				if ctl.Digest[st] != after.Digest[st] {
					diff = append(diff, st)
				}
			}
			for id, n := range after.ChainsOf {
				if ctl.ChainsOf[id] != n {
					diff = append(diff, fmt.Sprintf("snapshot %d lists the chain %d times (was %d)", id, n, ctl.ChainsOf[id]))
				}
			}
			if len(diff) > 0 {
				e.r.Violate("side-effect-on-reject:"+q.Kind+":"+q.Name, fmt.Sprintf("%s\nblock %d changed state although nothing was to be accepted: %v", strings.Join(trace, "\n"), bi, diff), rep)
				return
			}
		}
		// a committed attestation result uses up the transaction
		cls := rejectClass(hits)
		for i, r := range rs {
			if !r.queued {
				continue
			}
			switch {
			case len(rs) == 1 && (cls == "none" || strings.HasSuffix(cls, "(flushed)")):
				used[r.hash] = true
			case len(rs) == 2 && i == 0 && r.removed:
				used[r.hash] = true
			}
		}
	}
	if len(e.seqSamples) < 4 {
		e.seqSamples = append(e.seqSamples, strings.Join(trace, " || "))
	}
}

// ---------------------------------------------------------------------------
// liveness measurement (not part of the property): does a message whose
// evidence makes the attester return an uncommitted error block the
// attestation of the messages behind it?

func (e *env) liveness(shard, nshards int) {
	w := e.s.w
	slc, twin, usc := e.s.tg[kSLC], e.s.tw[kSLC], e.s.tg[kUSC]
	if !(slc.ID < twin.ID && twin.ID < usc.ID) {
		if shard == 0 {
			e.r.Extra["liveness"] = "not measured: unexpected id order"
		}
		return
	}
	mk := func(k, ev string) (c caseT) { return caseT{Kind: k, Sigs: -1, Ev: ev} }
	slcData, _, err := e.input(mk(kSLC, "status=1"))
	must(err)
	uscData, _, err := e.input(mk(kUSC, "status=1"))
	must(err)
	pSLC, _ := e.proof(mk(kSLC, "status=1"), slcData)
	pSLCabsent, _ := e.proof(mk(kSLC, "receipt-absent"), slcData)
	pSLCgarbage, _ := e.proof(mk(kSLC, "receipt-garbage"), slcData)
	pUSC, _ := e.proof(mk(kUSC, "status=1"), uscData)
	pUSCnoEvent, _ := e.proof(mk(kUSC, "status=1,no-deployed-event"), uscData)
	out := map[string]interface{}{}

	follow := func(ctx sdk.Context, x, y uint64, yKind string, maxBlocks int) map[string]interface{} {
		res := map[string]interface{}{}
		errBlocks := 0
		for n := 1; n <= maxBlocks; n++ {
			if n > 1 {
				ctx = world.Advance(ctx, 1, 1500*time.Millisecond)
			}
			hits := e.endBlock(ctx)
			if len(hits) > 0 {
				errBlocks++
				if n == 1 {
					res["first_error"] = hits[0]
				}
			}
			xq, yq := e.queued(ctx, x), e.queued(ctx, y)
			if n == 1 {
				res["after_first_block"] = fmt.Sprintf("poisoned message queued=%v, message behind it queued=%v", xq, yq)
			}
			if !yq {
				eff, d := e.effect(ctx, yKind)
				if eff {
					res["message_behind"] = fmt.Sprintf("attested in block +%d (%s)", n-1, d)
				} else {
					res["message_behind"] = fmt.Sprintf("left the queue unattested in block +%d at height %d (%s)", n-1, ctx.BlockHeight(), d)
				}
				res["poisoned_message_still_queued"] = xq
				break
			}
			if n == maxBlocks {
				res["message_behind"] = fmt.Sprintf("still blocked after %d blocks", maxBlocks)
			}
		}
		res["blocks_with_attestation_error"] = errBlocks
		return res
	}

	var scen []func()
	// control: valid evidence for the user contract only
	scen = append(scen, func() {
		ctx := world.Fork(e.s.bases["B"])
		e.offer(ctx, usc.ID, pUSC)
		out["control(no poisoned message)"] = follow(ctx, twin.ID, usc.ID, kUSC, 3)
	})
	// (a) already-processed transaction offered for the SLC twin
	scen = append(scen, func() {
		ctx := world.Fork(e.s.bases["B"])
		e.offer(ctx, slc.ID, pSLC)
		e.endBlock(ctx)
		ctx = world.Advance(ctx, 1, 1500*time.Millisecond)
		e.offer(ctx, twin.ID, pSLC)
		e.offer(ctx, usc.ID, pUSC)
		out["already-processed tx offered for an earlier message"] = follow(ctx, twin.ID, usc.ID, kUSC, 700)
	})
	// (b) quorum evidence without receipt
	scen = append(scen, func() {
		ctx := world.Fork(e.s.bases["B"])
		e.offer(ctx, slc.ID, pSLCabsent)
		e.offer(ctx, usc.ID, pUSC)
		out["quorum evidence without receipt for an earlier message"] = follow(ctx, slc.ID, usc.ID, kUSC, 700)
	})
	// (c) ONE validator (the smallest) supplies an undecodable receipt, the others the valid proof
	scen = append(scen, func() {
		ctx := world.Fork(e.s.bases["B"])
		e.offer(ctx, slc.ID, pSLC)
		v := w.Vals[2]
		if r := w.DeliverTx(ctx, []*world.Actor{v.Actor}, world.Evidence(v, e.s.queue, slc.ID, pSLCgarbage)); !r.OK() {
			out["one validator with undecodable receipt"] = "evidence tx refused: " + r.Err.Error()
		} else {
			e.offer(ctx, usc.ID, pUSC)
			out["one validator (1/6 of the power) with undecodable receipt for an earlier message"] = follow(ctx, slc.ID, usc.ID, kUSC, 700)
		}
	})
	// (d) user contract receipt without the deployment event, a later message behind it
	scen = append(scen, func() {
		ctx := world.Fork(e.s.bases["B"])
		e.offer(ctx, usc.ID, pUSCnoEvent)
		vs := e.s.tw[kValset]
		vsData, _, err := e.input(mk(kValset, "status=1"))
		must(err)
		pVS, _ := e.proof(mk(kValset, "status=1"), vsData)
		e.offer(ctx, vs.ID, pVS)
		out["successful user-contract receipt without ContractDeployed event"] = follow(ctx, usc.ID, vs.ID, kValset, 700)
	})
	for i, f := range scen {
		// spread over the workers, last shards first (shard 0 has the set-up reporting)
		if (len(scen)-1-i)%nshards == (nshards-1-shard)%nshards {
			f()
		}
	}
	for k, v := range out {
		e.r.Extra["liveness: "+k] = v
	}
}

// ---------------------------------------------------------------------------
// replay at a distance: message A is attested with transaction T; `dist` blocks
// later the same remote transaction is offered for a message with the
// byte-identical reference input — either the twin that has been waiting in the
// queue, or a twin enqueued after the gap (a re-publication: same content, new
// id, estimated / signed / published again). It must be refused at every
// distance.

var replayDistances = []int64{1, 301, 601, 10_000}

func (e *env) distanceKey(kind string, dist int64, fresh bool) string {
	who := "waiting-twin"
	if fresh {
		who = "re-published-twin"
	}
	return fmt.Sprintf("replay-distance|%s|+%d blocks|%s", kind, dist, who)
}

func (e *env) runDistance(kind string, dist int64, fresh bool) {
	key := e.distanceKey(kind, dist, fresh)
	if e.replay != "" && key != e.replay {
		return
	}
	if e.capped {
		return
	}
	rep := map[string]interface{}{"case": key}
	s := e.s
	A, tw := s.tg[kind], s.tw[kind]
	ctx := world.Fork(s.bases[A.Base])
	c := caseT{Kind: kind, Sigs: -1, Ev: "status=1"}
	data, _, err := e.input(c)
	must(err)
	p, tx := e.proof(c, data)
	e.r.Case(key)
	e.stats["replay-distance:"+kind]++
	if ee := e.offer(ctx, A.ID, p); ee != "" {
		e.r.Violate("harness:evidence-tx-refused", key+": "+ee, rep)
		return
	}
	if hits := e.endBlock(ctx); len(hits) > 0 || e.queued(ctx, A.ID) {
		e.r.Violate("reject-valid:"+kind, fmt.Sprintf("%s: the reference transaction was not accepted for message %d: %v", key, A.ID, hits), rep)
		return
	}
	ctx = world.Advance(ctx, dist, time.Duration(dist)*1500*time.Millisecond)
	t := tw
	if fresh {
		nid := s.clone(ctx, tw.ID)
		s.estimate(ctx, 0)
		s.sign(ctx, variants[0].Order)
		t = nil
		for _, m := range s.w.Queue(ctx, s.queue) {
			if m.GetId() == nid {
				t = &target{Kind: kind, ID: nid, Base: A.Base, Msg: s.evmMsg(m), Sigs: m.GetSignData(), Gas: m.GetGasEstimate()}
				if pad := m.GetPublicAccessData(); pad != nil {
					t.PubVS = pad.GetValsetID()
				}
			}
		}
		if t == nil {
			e.r.Violate("harness:re-published-twin-missing", key, rep)
			return
		}
	}
	// the twin's reference encodings, from the twin itself in the present state
	identical := false
	if kind == kUpload {
		d, err := s.reference(ctx, t, nil).pack(e.abi)
		must(err)
		identical = string(d) == string(data)
	} else {
		for n := 1; n <= len(t.Sigs); n++ {
			d, err := s.reference(ctx, t, t.Sigs[:n]).pack(e.abi)
			must(err)
			identical = identical || string(d) == string(data)
		}
	}
	if !identical && kind != kSLC {
		e.r.Violate("harness:twin-not-identical", key+": the twin's reference input differs from the first message's", rep)
		return
	}
	cctx := world.Fork(ctx)
	e.endBlock(cctx)
	ctl := e.snapshot(cctx)
	if ee := e.offer(ctx, t.ID, p); ee != "" {
		e.r.Violate("harness:evidence-tx-refused", key+": "+ee, rep)
		return
	}
	hits := e.endBlock(ctx)
	after := e.snapshot(ctx)
	removed := !e.queued(ctx, t.ID)
	accepted := removed && len(hits) == 0
	trace := fmt.Sprintf("%s\n message %d attested with tx %s at height %d; at height %d the same transaction was offered (quorum) for message %d whose reference input is byte-identical=%v: removed=%v log=%s",
		key, A.ID, tx.Hash().Hex(), s.bases[A.Base].BlockHeight(), ctx.BlockHeight(), t.ID, identical, removed, rejectClass(hits))
	e.stats[fmt.Sprintf("replay-distance-outcome:%s:%s", kind, rejectClass(hits))]++
	if accepted {
		e.r.Violate(fmt.Sprintf("replay:accepted-twice:after-%d-blocks", dist), trace, rep)
		return
	}
	var diff []string
	if d := diffMaps(ctl.Evm, after.Evm); len(d) > 0 {
		diff = append(diff, fmt.Sprintf("evm%v", d))
	}
	for _, st := range otherStores {
		if ctl.Digest[st] != after.Digest[st] {
			diff = append(diff, st)
		}
	}
	for id, n := range after.ChainsOf {
		if ctl.ChainsOf[id] != n {
			diff = append(diff, fmt.Sprintf("snapshot %d lists the chain %d times (was %d)", id, n, ctl.ChainsOf[id]))
		}
	}
	if len(diff) > 0 {
		e.r.Violate(fmt.Sprintf("replay:effects-twice:after-%d-blocks", dist), trace+fmt.Sprintf("\n state changed: %v", diff), rep)
	}
}

type distT struct {
	Kind  string
	Dist  int64
	Fresh bool
}

func (e *env) distances() []distT {
	var out []distT
	for _, k := range kinds {
		if e.s.tw[k] == nil {
			continue
		}
		for _, d := range replayDistances {
			out = append(out, distT{k, d, false})
			if k != kSLC {
				out = append(out, distT{k, d, true})
			}
		}
	}
	return out
}
