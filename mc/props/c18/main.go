// C18 — light-node licence funds: escrowed 1:1, released once, vesting, to licensee.
//
// Explicit-state BFS over the REAL handlers (signed txs through ante + router,
// three validators' MsgLightNodeSaleClaim + the exported skyway end-blocker) on
// forked application state, against a boring ledger of licences / activations.
// Every licence-creating / activating operation is additionally executed once
// per collaborator call it makes in that state (bank, account, feegrant keeper
// of the paloma keeper) with that call failing: a second paloma keeper and a
// second skyway keeper are built with NewKeeper over the same store keys with
// counting / failing proxies.
package main

import (
	"context"
	"crypto/sha256"
	"encoding/hex"
	"encoding/json"
	"errors"
	"flag"
	"fmt"
	"math/big"
	"os"
	"runtime/debug"
	"runtime/pprof"
	"sort"
	"strings"
	"time"

	storetypes "cosmossdk.io/store/types"
	"cosmossdk.io/x/feegrant"
	"github.com/cosmos/cosmos-sdk/runtime"
	sdk "github.com/cosmos/cosmos-sdk/types"
	authcodec "github.com/cosmos/cosmos-sdk/x/auth/codec"
	authtypes "github.com/cosmos/cosmos-sdk/x/auth/types"
	vestingtypes "github.com/cosmos/cosmos-sdk/x/auth/vesting/types"
	chainparams "github.com/palomachain/paloma/v2/app/params"
	palomamodule "github.com/palomachain/paloma/v2/x/paloma"
	palomakeeper "github.com/palomachain/paloma/v2/x/paloma/keeper"
	palomatypes "github.com/palomachain/paloma/v2/x/paloma/types"
	skywaykeeper "github.com/palomachain/paloma/v2/x/skyway/keeper"
	skywaytypes "github.com/palomachain/paloma/v2/x/skyway/types"
	vtypes "github.com/palomachain/paloma/v2/x/valset/types"
	"github.com/palomachain/paloma/v2/zzverif/explore"
	"github.com/palomachain/paloma/v2/zzverif/report"
	"github.com/palomachain/paloma/v2/zzverif/world"

	sdkmath "cosmossdk.io/math"
)

const (
	ref           = "eth-main"
	ref2          = "bnb-main"                                   // second active chain; sorts before ref in the contract store
	saleContract  = "0x00000000000000000000000000000000000000c1" // authorised on ref
	saleContract2 = "0x00000000000000000000000000000000000000c3" // authorised on ref2
	otherContract = "0x00000000000000000000000000000000000000c2" // never authorised
	otherDenom    = "uother"                                     // second denom licences can be paid in
	saleMonths    = 24                                           // keeper.lightNodeSaleVestingMonths
	saleUnit      = 1_000_000                                    // sale amounts are GRAIN, licences are ugrain
	grantLimit    = 1_000_000
	tick          = 40*24*time.Hour + 7*time.Second
)

// ---------------------------------------------------------------------------
// fault proxies for the collaborators of the paloma keeper

type faultCtl struct {
	calls  int
	failAt int // 1-based; 0 = never
	site   string
}

var (
	chains   = []string{ref2, ref}
	denoms   = []string{world.BondDenom, otherDenom}
	ownSale  = map[string]string{ref: saleContract, ref2: saleContract2}
	contName = map[string]string{saleContract: "c-eth", saleContract2: "c-bnb", otherContract: "other", "": "empty", "0x": "0x"}
)

var errInjected = errors.New("verif: injected collaborator failure")

func (f *faultCtl) hit(site string) bool {
	f.calls++
	if f.calls == f.failAt {
		f.site = site
		return true
	}
	return false
}

type bankProxy struct {
	palomatypes.BankKeeper
	f *faultCtl
}

func (b bankProxy) SendCoinsFromModuleToAccount(ctx context.Context, m string, r sdk.AccAddress, amt sdk.Coins) error {
	if b.f.hit("bank.SendCoinsFromModuleToAccount") {
		return errInjected
	}
	return b.BankKeeper.SendCoinsFromModuleToAccount(ctx, m, r, amt)
}

func (b bankProxy) SendCoinsFromAccountToModule(ctx context.Context, s sdk.AccAddress, m string, amt sdk.Coins) error {
	if b.f.hit("bank.SendCoinsFromAccountToModule") {
		return errInjected
	}
	return b.BankKeeper.SendCoinsFromAccountToModule(ctx, s, m, amt)
}

// HasBalance has no error result: its failure answer is "no".
func (b bankProxy) HasBalance(ctx context.Context, a sdk.AccAddress, amt sdk.Coin) bool {
	if b.f.hit("bank.HasBalance") {
		return false
	}
	return b.BankKeeper.HasBalance(ctx, a, amt)
}

type accProxy struct {
	palomatypes.AccountKeeper
	f *faultCtl
}

// HasAccount has no error result: its conservative failure answer is "exists".
func (a accProxy) HasAccount(ctx context.Context, addr sdk.AccAddress) bool {
	if a.f.hit("account.HasAccount") {
		return true
	}
	return a.AccountKeeper.HasAccount(ctx, addr)
}

func (a accProxy) GetAccount(ctx context.Context, addr sdk.AccAddress) sdk.AccountI {
	if a.f.hit("account.GetAccount") {
		return nil
	}
	return a.AccountKeeper.GetAccount(ctx, addr)
}

// NewAccount / SetAccount fail the way the real account keeper fails: they panic.
func (a accProxy) NewAccount(ctx context.Context, acc sdk.AccountI) sdk.AccountI {
	if a.f.hit("account.NewAccount") {
		panic(errInjected)
	}
	return a.AccountKeeper.NewAccount(ctx, acc)
}

func (a accProxy) SetAccount(ctx context.Context, acc sdk.AccountI) {
	if a.f.hit("account.SetAccount") {
		panic(errInjected)
	}
	a.AccountKeeper.SetAccount(ctx, acc)
}

type feegrantProxy struct {
	palomatypes.FeegrantKeeper
	f *faultCtl
}

func (p feegrantProxy) GrantAllowance(ctx context.Context, granter, grantee sdk.AccAddress, al feegrant.FeeAllowanceI) error {
	if p.f.hit("feegrant.GrantAllowance") {
		return errInjected
	}
	return p.FeegrantKeeper.GrantAllowance(ctx, granter, grantee, al)
}

// ---------------------------------------------------------------------------
// ghost ledger

type lic struct {
	Amount int64
	Denom  string
	Months uint32
	Rend   string // rendering of the client address the licence record is keyed by
}

// renderings of one account address the bech32 address codec is offered
const (
	rLower = "lower" // canonical
	rUpper = "UPPER" // all upper case: accepted by bech32, decodes to the same account
	rMixed = "MiXed" // mixed case: rejected by bech32 (must-reject control)
)

func render(a *world.Actor, r string) string {
	s := a.Addr.String()
	switch r {
	case rUpper:
		return strings.ToUpper(s)
	case rMixed:
		b := []byte(s)
		for i := len(b) - 1; i >= 0; i-- {
			if b[i] >= 'a' && b[i] <= 'z' {
				b[i] -= 'a' - 'A'
				break
			}
		}
		return string(b)
	}
	return s
}

func tag(r string) string {
	if r == rLower {
		return ""
	}
	return "[" + r + "]"
}

// resolve maps an address string as stored / supplied to (actor name, rendering).
func (e *env) resolve(addr string) (name, rend string, ok bool) {
	acc, err := sdk.AccAddressFromBech32(addr)
	if err != nil {
		return addr, "undecodable", false
	}
	canon := acc.String()
	name = canon
	if a, known := e.byAddr[canon]; known {
		name = a.Name
	}
	switch addr {
	case canon:
		return name, rLower, true
	case strings.ToUpper(canon):
		return name, rUpper, true
	}
	return name, "other", true
}

type act struct {
	Amount     int64
	Denom      string
	Start, End int64
	LastAuth   int64
}

type ghost struct {
	Scn        string
	Lic        map[string]lic    // client name -> not yet activated licence
	Act        map[string]act    // client name -> activation
	Paid       map[string]int64  // "funder/denom" -> paid into escrow since the initial state
	Grants     map[string]bool   // client names holding the sale fee grant
	Nonce      map[string]uint64 `json:"-"` // chain -> skyway events voted so far == expected oracle cursor (not part of the state identity)
	Funders    bool
	Feegranter bool
	Contracts  map[string]bool // chains whose own sale contract the last governance proposal authorised
	dg         string          // digest of the state this ledger belongs to, when known (cache only)
}

func (g *ghost) Clone() explore.Ghost {
	n := &ghost{Scn: g.Scn, Lic: map[string]lic{}, Act: map[string]act{}, Paid: map[string]int64{}, Grants: map[string]bool{},
		Nonce: map[string]uint64{}, Funders: g.Funders, Feegranter: g.Feegranter, Contracts: map[string]bool{}}
	for k, v := range g.Nonce {
		n.Nonce[k] = v
	}
	for k, v := range g.Contracts {
		if v {
			n.Contracts[k] = v
		}
	}
	for k, v := range g.Lic {
		n.Lic[k] = v
	}
	for k, v := range g.Act {
		n.Act[k] = v
	}
	for k, v := range g.Paid {
		n.Paid[k] = v
	}
	for k, v := range g.Grants {
		n.Grants[k] = v
	}
	return n
}

func (g *ghost) Key() string { b, _ := json.Marshal(g); return string(b) }

func (g *ghost) configured(chain string) bool { return g.Funders && g.Feegranter && g.Contracts[chain] }

// ---------------------------------------------------------------------------

type env struct {
	w        *world.World
	r        *report.Run
	fc       *faultCtl
	fPaloma  *palomakeeper.Keeper
	fSkyway  skywaykeeper.Keeper
	F        []*world.Actor // funders F1, F2
	FG, U    *world.Actor
	clients  []*world.Actor          // fresh1, fresh2, L0 (licensed in the initial state), U (has an account)
	byAddr   map[string]*world.Actor // bech32 -> actor
	module   sdk.AccAddress
	init     map[string]map[string]*big.Int // scenario -> actor name -> initial ugrain balance
	al       alphabet
	thorough bool
	cnt      map[string]float64
	memo     map[string]string // raw account bytes -> canonical form
}

type pair struct {
	amt   int64
	mo    uint32
	denom string
}

type saleP struct {
	chain    string
	amt      int64
	contract string
}

// alphabet of the parameterised operations.
type alphabet struct {
	name    string
	create  []pair  // (amount, months, denom) of AddLicence for targets without an account
	reject  []pair  // the same for targets that have an account (licensed, activated, U)
	sales   []saleP // (chain, amount in GRAIN, reporting contract) of SaleQuorum
	govSets bool    // governance replaces the sale-contract set by any subset of {ref2, ref}; otherwise it toggles ref's contract
	// rends: renderings of the client address used by AddLicence, SaleQuorum, Register and Auth
	// (nil = canonical only); oneFunder: only F2 creates licences directly
	rends     []string
	oneFunder bool
}

func fullAlphabet() alphabet {
	var ps []pair
	for _, a := range []int64{0, 1, 5} {
		for _, m := range []uint32{0, 1, 24} {
			ps = append(ps, pair{a, m, world.BondDenom})
		}
	}
	ps = append(ps, pair{0, 1, otherDenom}, pair{1, 0, otherDenom}, pair{1, 24, otherDenom}, pair{5, 1, otherDenom})
	al := alphabet{name: "full", create: ps, reject: ps}
	for _, a := range []int64{0, 1, 5} {
		al.sales = append(al.sales, saleP{ref, a, saleContract}, saleP{ref, a, otherContract})
	}
	return al
}

// reducedAlphabet keeps every amount, every month value and both denoms but not their product.
func reducedAlphabet() alphabet {
	return alphabet{name: "reduced",
		create: []pair{{0, 1, world.BondDenom}, {1, 0, world.BondDenom}, {1, 24, world.BondDenom}, {5, 1, otherDenom}},
		reject: []pair{{1, 0, world.BondDenom}, {5, 24, otherDenom}},
		sales:  []saleP{{ref, 0, saleContract}, {ref, 1, saleContract}, {ref, 5, saleContract}, {ref, 5, otherContract}}}
}

// contractsAlphabet is the two-chain alphabet: sales reported from both chains by
// either chain's contract, governance replacing the authorised set.
func contractsAlphabet() alphabet {
	return alphabet{name: "contracts", govSets: true,
		create: []pair{{1, 1, world.BondDenom}},
		sales:  []saleP{{ref, 1, saleContract}, {ref, 1, saleContract2}, {ref2, 1, saleContract2}, {ref2, 1, saleContract}}}
}

// renderingsAlphabet: every client-naming operation under every rendering of the
// address (canonical, all upper case, mixed case as must-reject control), in all
// combinations buy-under-X / activate-under-Y / authenticate-under-Z.
func renderingsAlphabet() alphabet {
	return alphabet{name: "renderings", rends: []string{rLower, rUpper, rMixed}, oneFunder: true,
		create: []pair{{1, 1, world.BondDenom}},
		sales:  []saleP{{ref, 1, saleContract}}}
}

func alphabetByName(n string) alphabet {
	switch n {
	case "renderings":
		return renderingsAlphabet()
	case "full":
		return fullAlphabet()
	case "contracts":
		return contractsAlphabet()
	}
	return reducedAlphabet()
}

type scenario struct {
	name     string
	node     *explore.Node
	depthOff int
	weight   float64
}

func must(err error) {
	if err != nil {
		panic(err)
	}
}

func main() {
	replay := flag.String("replay", "", "replay file")
	flag.Parse()
	n := report.Workers()
	if report.Tier() != "thorough" && n > 8 {
		n = 8
	}
	report.Main("C18", "model_checking", n, func(r *report.Run, shard, nshards int) { run(r, shard, nshards, *replay) })
}

func run(r *report.Run, shard, nshards int, replayFile string) {
	if pf := os.Getenv("VERIF_PROF"); pf != "" && shard == 0 {
		f, _ := os.Create(pf)
		_ = pprof.StartCPUProfile(f)
		defer pprof.StopCPUProfile()
	}
	w := world.New(world.Config{Stakes: world.StakesOf(1_000_000, 1_000_000, 1_000_000),
		Users: []string{"F1", "F2", "FG", "U", "sink"}, Unfunded: []string{"fresh1", "fresh2", "L0"}, Height: 101,
		UserFunds: sdk.NewCoins(sdk.NewInt64Coin(world.BondDenom, 1_000_000_000_000), sdk.NewInt64Coin(otherDenom, 1_000_000_000_000))})
	must(w.StdChain(w.Root, ref))
	// a second ACTIVE chain, so that sale claims from it are tallied
	must(w.AddChain(w.Root, ref2, 2, 2))
	for _, v := range w.Vals {
		must(w.RegisterAccounts(w.Root, v, nil, ref, ref2))
	}
	if sn, err := w.Snapshot(w.Root); err == nil && sn != nil {
		_ = w.App.ValsetKeeper.SetSnapshotOnChain(w.Root, sn.Id, ref)
		_ = w.App.ValsetKeeper.SetSnapshotOnChain(w.Root, sn.Id, ref2)
	}
	a := w.App
	e := &env{w: w, r: r, fc: &faultCtl{}, F: []*world.Actor{w.User("F1"), w.User("F2")}, FG: w.User("FG"), U: w.User("U"),
		clients: []*world.Actor{w.User("fresh1"), w.User("fresh2"), w.User("L0"), w.User("U")},
		byAddr:  map[string]*world.Actor{}, init: map[string]map[string]*big.Int{},
		thorough: r.Thorough(), cnt: map[string]float64{}, memo: map[string]string{}}
	debug.SetGCPercent(400)
	for _, u := range w.Users {
		e.byAddr[u.Addr.String()] = u
	}
	e.module = a.AccountKeeper.GetModuleAddress(palomatypes.ModuleName)
	// second paloma keeper over the same store with failing collaborators, built as app.go builds the real one
	e.fPaloma = palomakeeper.NewKeeper(a.AppCodec(), runtime.NewKVStoreService(a.GetKey(palomatypes.StoreKey)),
		a.GetSubspace(palomatypes.ModuleName), "v5.1.6", world.BondDenom,
		accProxy{a.AccountKeeper, e.fc}, bankProxy{a.BankKeeper, e.fc}, feegrantProxy{a.FeeGrantKeeper, e.fc},
		a.ValsetKeeper, a.UpgradeKeeper, authcodec.NewBech32Codec(chainparams.ValidatorAddressPrefix), w.Gov)
	// second skyway keeper whose paloma collaborator is the faulty paloma keeper
	e.fSkyway = skywaykeeper.NewKeeper(a.AppCodec(), a.AccountKeeper, a.StakingKeeper, a.BankKeeper, a.SlashingKeeper,
		a.DistrKeeper, a.TransferKeeper, a.EvmKeeper, a.ConsensusKeeper, *e.fPaloma, a.TokenFactoryKeeper,
		skywaykeeper.NewSkywayStoreGetter(a.GetKey(skywaytypes.StoreKey)), w.Gov, authcodec.NewBech32Codec(chainparams.ValidatorAddressPrefix))

	r.Rule = "BFS from 5 (thorough 6) base states {sale fully configured × funder balances (first poor + second rich | exactly enough | none | first rich + second poor), fee granter never configured, two chains with a sale contract each} over " +
		"AddLicence(funder∈{F1,F2}, client∈{fresh1,fresh2,account holder U,licensed L0}, amount∈{0,1,5}, months∈{0,1,24}, denom∈{ugrain,uother}) as signed MsgAddLightNodeClientLicense txs; " +
		"SaleQuorum(chain, client, amount∈{0,1,5} GRAIN, reporting contract∈{the chain's own, another, empty string, \"0x\"}; the empty / blank ones on both chains in every base state, i.e. also on chains with no configured contract) = three validators' signed MsgLightNodeSaleClaim + skyway.EndBlocker; " +
		"Register(who) / Register with creator≠first signer / Register for a licensee signed by someone else, alone and behind a harmless first message of the same tx; Auth(who); " +
		"one base state with every client-naming operation (AddLicence, SaleQuorum, Register, Auth) under every rendering of the address (canonical, ALL-UPPER-CASE, mixed case as must-reject control) in all buy-under-X / activate-under-Y combinations; Tick(+40 d); governance: funders on/off, sale-contract set replaced through the real proposal handler " +
		"(one chain: on/off; two-chain base state: every subset of {bnb-main, eth-main}, sales reported from both chains by either contract); " +
		"every AddLicence, SaleQuorum and Register is also executed once per collaborator call (bank, account, feegrant keeper) with that call failing; " +
		"oracle in every state, per denom: escrow == Σ unactivated licences paid in that denom, licence / client / account-kind / vesting-schedule (original vesting = the licensed coin) / funder-balance / fee-grant sets equal the ledger, " +
		"stored sale contracts == the set the last proposal authorised; a sale from a chain / contract outside that set changes nothing; " +
		"plus a scale + genesis pass outside the BFS (collections are exercised beyond the SDK's default page size, 100): N ∈ {1, 99, 100, 101, 250} pending licences created by signed txs; listing (keeper and gRPC query) returns all N and Σ == escrow; paloma ExportGenesis → JSON → Validate → InitGenesis reproduces the module store byte-identically and re-exports identically; licensees last in creation order and last in key order activate afterwards; " +
		"a state is distinct by (paloma, bank, feegrant stores, canonical accounts, block time, ledger)"
	r.Assumptions = []string{
		"tx atomicity re-implemented as in baseapp.runTx (ante cache, msg cache, panic → tx error); fees are zero in this app (TxFeeSkipper), so the licensed address pays nothing and needs only the base account that licence creation gives it: Register/Auth are really signed txs by that address",
		"fault-injected variants run the same message through keeper.NewMsgServerImpl(faultyPalomaKeeper) in a tx-like cache (ante not re-run), resp. skyway.EndBlocker(faultySkywayKeeper) after the real votes; they are evaluated on forks of the pre-state with the same step oracle and invariant and are not extended further; failure answers of calls without an error result: HasBalance=false, HasAccount=true, GetAccount=nil, NewAccount/SetAccount panic",
		"'a failed operation changes nothing' = digest of bank, feegrant and paloma stores plus all accounts (address, kind, vesting schedule) unchanged; sequence number, public key and account number of accounts are not part of it (the signer's sequence legitimately advances when ante passes) and are dropped from the state hash: no explored handler reads them",
		"safety reading only: an operation may always be rejected; which configured funder pays a sale is not prescribed (exactly one configured funder pays exactly amount×10^6 ugrain)",
		"activation 'only by the licensed address itself' = the activated licence is the one of the message creator (anchor: activation keyed by message creator), and a tx naming a licensee as creator but signed by someone else is rejected",
		"vesting end = activation block time .AddDate(0, months, 0) (calendar months, as the keeper computes it); linearity checked at start, midpoint (±1) and end of the schedule",
		"fresh1/fresh2 symmetry: fresh2 becomes a creation target only once fresh1 has an account (handlers do not depend on address order)",
		"alphabets: 'renderings' (one base state) = one creating pair by F2 and 1-GRAIN sales under the three renderings, Register / Auth under the three renderings; 'full' = amounts × months in ugrain plus 4 (amount, months) pairs in uother, sales on eth-main by its own / another contract; 'reduced' = every amount, month value and denom but 4 creating and 2 must-be-rejected pairs; 'contracts' (two-chain base state only) = one creating pair, 1-GRAIN sales from both chains by either chain's contract, governance over all contract subsets",
		"address renderings: licence and client records are keyed by the address string as supplied, accounts by the decoded bytes; the oracle is evaluated on ACCOUNTS: at most one pending licence per account, an activation removes the pending licence record of that account whatever rendering it is keyed by, escrow == Σ of the stored pending records; under which string the client record is stored is not prescribed. Messages whose creator is a non-canonical rendering are run at the application's message server in a tx-like cache (RegisterMsgServer / AuthMsgServer): the ante chain admits such a creator only for a signer holding a fee grant from that account (delegation is not in the alphabet); the really signed variant is explored too and is rejected by ante",
		"'activated only by the licensed address itself' through the ante chain: a successful tx that activates X's licence must be signed by X (no fee grants from licensees exist in the alphabet), also when the activation is the second message behind a harmless first one (MsgAddStatusUpdate of the signer)",
		"SaleQuorum is a macro (three votes + end-blocker); vote interleavings are C02's subject; the skyway store is not part of the state identity: attestation records are not read by the explored handlers, and the last observed nonces only number the events — the harness always votes cursor+1 (checked: harness-cursor), so states that differ only in the cursors have the same futures up to renumbering (a sale without effect therefore leads back to the state it started from)",
	}

	jobs := e.jobs()
	if replayFile != "" {
		if shard == 0 {
			e.replay(r, jobs, replayFile)
		}
		return
	}
	end := r.Deadline(165*time.Second, 24*time.Minute)
	var wrest float64
	for _, j := range jobs {
		wrest += j.weight
	}
	e.cnt["activations_of_noncanonical_licence_by_signed_tx"] = 0
	// scale + genesis pass (sizes spread over the worker processes)
	e.scalePass(r, shard, nshards)
	for _, j := range jobs {
		spec := e.spec(j, shard, nshards)
		// thorough: every search gets its weight's share of the time that is left when it starts
		// (searches that finish early pass their time on); quick searches are sized to complete
		spec.Deadline = end
		if e.thorough {
			if left := time.Until(end); left > 0 {
				spec.Deadline = time.Now().Add(time.Duration(float64(left) * j.weight / wrest))
			}
		}
		wrest -= j.weight
		e.al = j.al
		t0 := time.Now()
		res := explore.Run(r, spec)
		if shard == 0 {
			r.Extra["depth_bound/"+spec.Name] = float64(spec.MaxDepth)
			r.Extra["wall_s_shard0/"+spec.Name] = float64(int(time.Since(t0).Seconds()))
		}
		// summed over the worker processes: equals worker_processes when every shard finished the
		// bound (otherwise caps_hit names the depth whose frontier was being expanded at the deadline)
		done := 0.0
		if !res.Capped {
			done = 1.0
		}
		r.Extra["workers_completed_bound/"+spec.Name] = done
	}
	for k, v := range e.cnt {
		r.Extra[k] = v
	}
}

type job struct {
	scn    scenario
	al     alphabet
	depth  int
	weight float64
}

// jobs lists the searches of this tier: (base state, alphabet, depth bound).
// Searches that complete come first, the deadline-capped deep ones last.
func (e *env) jobs() []job {
	sc := map[string]scenario{}
	for _, s := range e.scenarios() {
		sc[s.name] = s
	}
	full, red, con, rnd := fullAlphabet(), reducedAlphabet(), contractsAlphabet(), renderingsAlphabet()
	const (
		A  = "configured/F1-poor-F2-rich"
		B  = "configured/exactly-enough"
		C  = "no-feegranter/rich"
		E  = "configured/no-balance"
		A2 = "configured/F1-rich-F2-poor"
		T  = "two-chains/rich"
	)
	if !e.thorough {
		return []job{
			{sc[E], red, 4, 1}, {sc[T], con, 3, 2}, {sc[A2], rnd, 4, 3}, {sc[C], red, 3, 2}, {sc[B], red, 4, 5}, {sc[A], red, 4, 7},
			{sc[A], full, 2, 5}, // the full product at depth 3–4 is the thorough tier's
		}
	}
	return []job{
		{sc[E], full, 4, 1}, {sc[T], con, 5, 3}, {sc[A2], rnd, 6, 4}, {sc[C], full, 3, 2}, {sc[B], full, 3, 2}, {sc[A], full, 4, 10},
		{sc[E], red, 6, 1}, {sc[C], red, 5, 4}, {sc[A2], red, 5, 4},
		{sc[B], red, 6, 10}, {sc[A], red, 6, 16},
	}
}

func (e *env) spec(j job, shard, nshards int) explore.Spec {
	return explore.Spec{Name: j.scn.name + "#" + j.al.name, Init: []*explore.Node{j.scn.node}, Ops: e.ops, Hash: e.hash, Invariant: e.invariant,
		MaxDepth: j.depth, ShardDepth: 2, Shard: shard, NShards: nshards}
}

func (e *env) replay(r *report.Run, jobs []job, file string) {
	var v report.Violation
	b, err := os.ReadFile(file)
	if err == nil {
		err = json.Unmarshal(b, &v)
	}
	if err != nil {
		fmt.Fprintln(os.Stderr, err)
		os.Exit(2)
	}
	m := v.Replay.(map[string]interface{})
	var path []string
	if m["path"] != nil {
		for _, p := range m["path"].([]interface{}) {
			path = append(path, p.(string))
		}
	}
	name, _ := m["scenario"].(string)
	if name == scaleScenario {
		e.scalePass(r, 0, 1)
		if len(r.Violations) == 0 {
			fmt.Println("replay: no violation on this tree")
		}
		r.States, r.Transitions = 1, int64(len(scaleSizes))
		return
	}
	parts := strings.SplitN(name, "#", 2)
	for _, s := range e.scenarios() {
		if s.name != parts[0] {
			continue
		}
		e.al = reducedAlphabet()
		if len(parts) > 1 {
			e.al = alphabetByName(parts[1])
		}
		spec := e.spec(job{scn: s, al: e.al, depth: len(path)}, 0, 1)
		if f := explore.Replay(spec, path); f != nil {
			r.Violate(f.Signature, f.Message, v.Replay)
			fmt.Printf("replay: %s\n  %s\n", f.Signature, f.Message)
		} else {
			fmt.Println("replay: no violation on this tree")
		}
		r.States, r.Transitions = 1, int64(len(path))
		r.Sample(map[string]interface{}{"scenario": name, "path": path})
		return
	}
	fmt.Fprintln(os.Stderr, "unknown scenario", name)
	os.Exit(2)
}

// ---------------------------------------------------------------------------
// base states

func (e *env) setBalance(ctx sdk.Context, a *world.Actor, want int64) {
	w := e.w
	have := w.App.BankKeeper.GetBalance(ctx, a.Addr, world.BondDenom).Amount
	diff := have.Sub(sdkmath.NewInt(want))
	if diff.IsPositive() {
		must(w.App.BankKeeper.SendCoins(ctx, a.Addr, w.User("sink").Addr, sdk.NewCoins(sdk.NewCoin(world.BondDenom, diff))))
	} else if diff.IsNegative() {
		must(w.App.BankKeeper.SendCoins(ctx, w.User("sink").Addr, a.Addr, sdk.NewCoins(sdk.NewCoin(world.BondDenom, diff.Neg()))))
	}
}

func (e *env) setFunders(ctx sdk.Context, on bool) error {
	p := &palomatypes.SetLightNodeClientFundersProposal{Title: "funders", Description: "funders"}
	if on {
		p.FunderAccounts = []string{e.F[0].Addr.String(), e.F[1].Addr.String()}
	}
	return palomamodule.NewPalomaProposalHandler(e.w.App.PalomaKeeper)(ctx, p)
}

// setContracts replaces the sale-contract set through the real proposal handler:
// afterwards exactly the chains in set have their own contract authorised.
func (e *env) setContracts(ctx sdk.Context, set map[string]bool) error {
	p := &skywaytypes.SetLightNodeSaleContractsProposal{Title: "contracts", Description: "contracts"}
	for _, ch := range chains {
		if set[ch] {
			p.LightNodeSaleContracts = append(p.LightNodeSaleContracts, &skywaytypes.LightNodeSaleContract{ChainReferenceId: ch, ContractAddress: ownSale[ch]})
		}
	}
	return skywaykeeper.NewSkywayProposalHandler(e.w.App.SkywayKeeper)(ctx, p)
}

// contractsAgree compares the stored contract of every chain with the set the last proposal authorised.
func (e *env) contractsAgree(ctx sdk.Context, g *ghost) *explore.Fail {
	if os.Getenv("C18_SKIP_CONTRACT_ASSERT") != "" {
		return nil // demonstration only: shows that the sale oracle alone reports a stale contract
	}
	for _, ch := range chains {
		c, err := e.w.App.SkywayKeeper.LightNodeSaleContract(ctx, ch)
		if stored := err == nil && c != nil; stored != g.Contracts[ch] || stored && c.ContractAddress != ownSale[ch] {
			return explore.Failf("contract-set-after-proposal", "chain %s: stored sale contract %v (err=%v), but the last governance proposal authorised the set %v", ch, c, err, setName(g.Contracts))
		}
	}
	return nil
}

func setName(set map[string]bool) string {
	var out []string
	for _, ch := range chains {
		if set[ch] {
			out = append(out, ch)
		}
	}
	return "{" + strings.Join(out, ",") + "}"
}

func (e *env) scenarios() []scenario {
	w := e.w
	mk := func(name string, funders, feegranter bool, contracts []string, f1, f2 int64, depthOff int, weight float64) scenario {
		ctx := world.Fork(w.Root)
		// L0 holds a licence from the start: 5 ugrain, 1 month, paid by F2 through the real tx
		res := w.DeliverTx(ctx, []*world.Actor{e.F[1]}, &palomatypes.MsgAddLightNodeClientLicense{Metadata: world.Meta(e.F[1]),
			ClientAddress: w.User("L0").Addr.String(), Amount: sdk.NewInt64Coin(world.BondDenom, 5), VestingMonths: 1})
		must(res.Err)
		if funders {
			must(e.setFunders(ctx, true))
		}
		if feegranter {
			must(palomamodule.NewPalomaProposalHandler(w.App.PalomaKeeper)(ctx, &palomatypes.SetLightNodeClientFeegranterProposal{
				Title: "fg", Description: "fg", FeegranterAccount: e.FG.Addr.String()}))
		}
		cs := map[string]bool{}
		for _, ch := range contracts {
			cs[ch] = true
		}
		must(e.setContracts(ctx, cs))
		e.setBalance(ctx, e.F[0], f1)
		e.setBalance(ctx, e.F[1], f2)
		e.init[name] = map[string]*big.Int{}
		for _, u := range []*world.Actor{e.F[0], e.F[1], e.U, e.FG} {
			for _, d := range denoms {
				e.init[name][u.Name+"/"+d] = w.Balance(ctx, u.Addr, d)
			}
		}
		g := &ghost{Scn: name, Lic: map[string]lic{"L0": {5, world.BondDenom, 1, rLower}}, Act: map[string]act{}, Paid: map[string]int64{}, Grants: map[string]bool{},
			Nonce: map[string]uint64{}, Funders: funders, Feegranter: feegranter, Contracts: cs}
		return scenario{name: name, node: &explore.Node{Ctx: ctx, Ghost: g}, depthOff: depthOff, weight: weight}
	}
	const rich = 1_000_000_000_000
	out := []scenario{
		mk("configured/F1-poor-F2-rich", true, true, []string{ref}, 3, rich, 0, 10),
		mk("configured/exactly-enough", true, true, []string{ref}, 5*saleUnit, 0, 0, 6),
		mk("no-feegranter/rich", true, false, []string{ref}, rich, rich, -1, 3),
		mk("configured/no-balance", true, true, []string{ref}, 0, 0, 0, 1),
		mk("configured/F1-rich-F2-poor", true, true, []string{ref}, rich, 3, -1, 4),
		mk("two-chains/rich", true, true, []string{ref, ref2}, rich, rich, 0, 3),
	}
	return out
}

// ---------------------------------------------------------------------------
// observation

func (e *env) bal(ctx sdk.Context, a sdk.AccAddress, denom string) int64 {
	return e.w.App.BankKeeper.GetBalance(ctx, a, denom).Amount.Int64()
}

func coin(amt int64, denom string) sdk.Coin {
	return sdk.Coin{Denom: denom, Amount: sdkmath.NewInt(amt)}
}

func canonAccount(a sdk.AccountI) string {
	switch t := a.(type) {
	case *vestingtypes.ContinuousVestingAccount:
		return fmt.Sprintf("%s|continuous|%d|%d|%s|%s|%s", t.Address, t.StartTime, t.EndTime, t.OriginalVesting, t.DelegatedFree, t.DelegatedVesting)
	case *authtypes.BaseAccount:
		return t.Address + "|base"
	case *authtypes.ModuleAccount:
		return fmt.Sprintf("%s|module|%s|%v", t.Address, t.Name, t.Permissions)
	default:
		return fmt.Sprintf("%s|%T|%v", a.GetAddress(), a, a)
	}
}

// authCanon is the canonical form of all accounts: (address, kind, vesting
// schedule); account number, sequence and public key are dropped.
func (e *env) authCanon(ctx sdk.Context) string {
	st := ctx.MultiStore().GetKVStore(e.w.App.GetKey(authtypes.StoreKey))
	it := storetypes.KVStorePrefixIterator(st, authtypes.AddressStoreKeyPrefix.Bytes())
	defer it.Close()
	h := sha256.New()
	for ; it.Valid(); it.Next() {
		v := it.Value()
		c, ok := e.memo[string(v)]
		if !ok {
			var acc sdk.AccountI
			must(e.w.App.AppCodec().UnmarshalInterface(v, &acc))
			c = canonAccount(acc)
			e.memo[string(v)] = c
		}
		h.Write([]byte(c))
		h.Write([]byte{'\n'})
	}
	return hex.EncodeToString(h.Sum(nil)[:16])
}

// digest is what "changes nothing" observes.
func (e *env) digest(ctx sdk.Context) string {
	return e.w.StoreDigest(ctx, "bank", "feegrant", palomatypes.StoreKey) + "|" + e.authCanon(ctx)
}

// nodeDigest is the digest of a node's state (cached on the ledger by hash).
func (e *env) nodeDigest(n *explore.Node) string {
	g := n.Ghost.(*ghost)
	if g.dg == "" {
		g.dg = e.digest(n.Ctx)
	}
	return g.dg
}

func (e *env) cursor(ctx sdk.Context, chain string) uint64 {
	n, err := e.w.App.SkywayKeeper.GetLastObservedSkywayNonce(ctx, chain)
	must(err)
	return n
}

func (e *env) hash(n *explore.Node) string {
	return fmt.Sprintf("%s|%s|%d", n.Ghost.Key(), e.nodeDigest(n), n.Ctx.BlockTime().Unix())
}

func (e *env) name(addr string) string {
	n, _, _ := e.resolve(addr)
	return n
}

func (e *env) licences(ctx sdk.Context) (map[string]lic, *explore.Fail) {
	all, err := e.w.App.PalomaKeeper.AllLightNodeClientLicenses(ctx)
	if err != nil {
		return nil, explore.Failf("read-licences", "AllLightNodeClientLicenses: %v", err)
	}
	out := map[string]lic{}
	for _, l := range all {
		if !l.Amount.Amount.IsInt64() {
			return nil, explore.Failf("licence-set", "licence of %s holds %s", e.name(l.ClientAddress), l.Amount)
		}
		name, rend, ok := e.resolve(l.ClientAddress)
		if !ok {
			return nil, explore.Failf("licence-set", "licence record for the undecodable address %q", l.ClientAddress)
		}
		if _, dup := out[name]; dup {
			return nil, explore.Failf("licence-set", "two pending licence records for the account of %s", name)
		}
		out[name] = lic{l.Amount.Amount.Int64(), l.Amount.Denom, l.VestingMonths, rend}
	}
	return out, nil
}

func (e *env) describe(ctx sdk.Context) string {
	var sb strings.Builder
	fmt.Fprintf(&sb, "escrow=%s", e.w.App.BankKeeper.GetAllBalances(ctx, e.module))
	l, _ := e.licences(ctx)
	fmt.Fprintf(&sb, " licences=%v", l)
	cl, _ := e.w.App.PalomaKeeper.AllLightNodeClients(ctx)
	for _, c := range cl {
		fmt.Fprintf(&sb, " client(%s,act=%d,auth=%d)", e.name(c.ClientAddress), c.ActivatedAt.Unix(), c.LastAuthAt.Unix())
	}
	for _, a := range append(append([]*world.Actor{}, e.F...), e.clients...) {
		kind := "none"
		if acc := e.w.App.AccountKeeper.GetAccount(ctx, a.Addr); acc != nil {
			kind = strings.TrimPrefix(canonAccount(acc), a.Addr.String()+"|")
		}
		fmt.Fprintf(&sb, " %s[%s bal=%s]", a.Name, kind, e.w.App.BankKeeper.GetAllBalances(ctx, a.Addr))
	}
	_ = e.w.App.FeeGrantKeeper.IterateAllFeeAllowances(ctx, func(g feegrant.Grant) bool {
		fmt.Fprintf(&sb, " grant(%s->%s)", e.name(g.Granter), e.name(g.Grantee))
		return false
	})
	return sb.String()
}

// ---------------------------------------------------------------------------
// invariant (every state)

func (e *env) invariant(n *explore.Node) *explore.Fail {
	g := n.Ghost.(*ghost)
	ctx := n.Ctx
	w := e.w
	// I1 per denom: escrow == Σ unactivated licences paid in that denom (ledger), nothing else in escrow
	sum := sdk.NewCoins()
	for _, l := range g.Lic {
		if l.Amount > 0 {
			sum = sum.Add(coin(l.Amount, l.Denom))
		}
	}
	all := w.App.BankKeeper.GetAllBalances(ctx, e.module)
	recs, rerr := w.App.PalomaKeeper.AllLightNodeClientLicenses(ctx)
	if rerr != nil {
		return explore.Failf("read-licences", "AllLightNodeClientLicenses: %v", rerr)
	}
	recSum := sdk.NewCoins()
	for _, l := range recs {
		if l.Amount.IsPositive() {
			recSum = recSum.Add(l.Amount)
		}
	}
	if !all.Equal(recSum) {
		return explore.Failf("I1-escrow", "paloma module account holds %q, the not-yet-activated licence records total %q: %s", all, recSum, e.describe(ctx))
	}
	if !all.Equal(sum) {
		return explore.Failf("I1-escrow-ledger", "paloma module account holds %q, not-yet-activated licences of the ledger total %q: %s", all, sum, e.describe(ctx))
	}
	// I2 licence records == ledger
	got, f := e.licences(ctx)
	if f != nil {
		return f
	}
	if fmt.Sprint(got) != fmt.Sprint(g.Lic) {
		return explore.Failf("I2-licence-set", "licence records %v, ledger %v", got, g.Lic)
	}
	// I3 activated clients == ledger
	cl, err := w.App.PalomaKeeper.AllLightNodeClients(ctx)
	if err != nil {
		return explore.Failf("read-clients", "AllLightNodeClients: %v", err)
	}
	if len(cl) != len(g.Act) {
		return explore.Failf("I3-client-set", "%d activated client records, ledger has %d: %s", len(cl), len(g.Act), e.describe(ctx))
	}
	for _, c := range cl {
		a, ok := g.Act[e.name(c.ClientAddress)]
		if !ok || c.ActivatedAt.Unix() != a.Start || c.LastAuthAt.Unix() != a.LastAuth {
			return explore.Failf("I3-client-record", "client record %s activated %d last auth %d, ledger %+v (known=%v)", e.name(c.ClientAddress), c.ActivatedAt.Unix(), c.LastAuthAt.Unix(), a, ok)
		}
	}
	// I4 account kind, balances (every denom) and vesting schedule of every client address
	for _, c := range e.clients {
		acc := w.App.AccountKeeper.GetAccount(ctx, c.Addr)
		have := w.App.BankKeeper.GetAllBalances(ctx, c.Addr)
		if c == e.U {
			want := sdk.NewCoins()
			for _, d := range denoms {
				want = want.Add(sdk.NewCoin(d, sdkmath.NewIntFromBigInt(e.init[g.Scn]["U/"+d])))
			}
			if _, ok := acc.(*authtypes.BaseAccount); !ok || !have.Equal(want) {
				return explore.Failf("I4-account-holder", "U (never licensed) is %T with %q, was a base account with %q", acc, have, want)
			}
			continue
		}
		l, licensed := g.Lic[c.Name]
		a, activated := g.Act[c.Name]
		switch {
		case licensed:
			if _, ok := acc.(*authtypes.BaseAccount); !ok || !have.IsZero() {
				return explore.Failf("I4-licensed-account", "%s holds a licence of %d%s but its account is %T with %q (want plain base account, nothing)", c.Name, l.Amount, l.Denom, acc, have)
			}
		case activated:
			v, ok := acc.(*vestingtypes.ContinuousVestingAccount)
			if !ok {
				return explore.Failf("I4-vesting-kind", "%s activated a licence of %d%s but its account is %T, not continuous vesting", c.Name, a.Amount, a.Denom, acc)
			}
			want := sdk.NewCoins(coin(a.Amount, a.Denom))
			if !have.Equal(want) {
				return explore.Failf("I4-activated-balance", "%s activated a licence of %q but holds %q", c.Name, want, have)
			}
			if v.StartTime != a.Start || v.EndTime != a.End || !v.OriginalVesting.Equal(want) || !v.DelegatedFree.IsZero() || !v.DelegatedVesting.IsZero() {
				return explore.Failf("I4-vesting-schedule", "%s: vesting account start %d end %d original %q; want start %d (activation block time) end %d (start + licence months) original %q (the licensed coin)",
					c.Name, v.StartTime, v.EndTime, v.OriginalVesting, a.Start, a.End, want)
			}
		default:
			if acc != nil || !have.IsZero() {
				return explore.Failf("I4-fresh-account", "%s has neither licence nor activation in the ledger but has account %T and %q: %s", c.Name, acc, have, e.describe(ctx))
			}
		}
	}
	// I5 per denom: funders paid exactly what the ledger says; fee granter untouched
	for _, d := range denoms {
		for _, fd := range e.F {
			want := new(big.Int).Sub(e.init[g.Scn][fd.Name+"/"+d], big.NewInt(g.Paid[fd.Name+"/"+d]))
			if have := w.Balance(ctx, fd.Addr, d); have.Cmp(want) != 0 {
				return explore.Failf("I5-funder-balance", "%s holds %s %s, ledger (initial - escrowed) %s", fd.Name, have, d, want)
			}
		}
		if have := w.Balance(ctx, e.FG.Addr, d); have.Cmp(e.init[g.Scn]["FG/"+d]) != 0 {
			return explore.Failf("I5-feegranter-balance", "fee granter holds %s %s, initially %s", have, d, e.init[g.Scn]["FG/"+d])
		}
	}
	// I6 fee grants == sale licences of the ledger
	grants := map[string]bool{}
	var gf *explore.Fail
	_ = w.App.FeeGrantKeeper.IterateAllFeeAllowances(ctx, func(gr feegrant.Grant) bool {
		al, err := gr.GetGrant()
		ba, ok := al.(*feegrant.BasicAllowance)
		if err != nil || !ok || gr.Granter != e.FG.Addr.String() || ba.Expiration != nil ||
			!ba.SpendLimit.Equal(sdk.NewCoins(sdk.NewInt64Coin(world.BondDenom, grantLimit))) {
			gf = explore.Failf("I6-grant-shape", "unexpected fee grant %s -> %s: %v", e.name(gr.Granter), e.name(gr.Grantee), al)
			return true
		}
		grants[e.name(gr.Grantee)] = true
		return false
	})
	if gf != nil {
		return gf
	}
	if fmt.Sprint(grants) != fmt.Sprint(g.Grants) {
		return explore.Failf("I6-grant-set", "fee grants of the fee granter %v, ledger (sale licences) %v", grants, g.Grants)
	}
	// I7 configuration of the ledger is the real configuration; oracle cursors follow the votes
	fs, ferr := w.App.PalomaKeeper.LightNodeClientFunders(ctx)
	_, gerr := w.App.PalomaKeeper.LightNodeClientFeegranter(ctx)
	if (ferr == nil && len(fs.Accounts) > 0) != g.Funders || (gerr == nil) != g.Feegranter {
		return explore.Failf("harness-config", "configuration (funders err=%v, feegranter err=%v) does not match ledger %v/%v", ferr, gerr, g.Funders, g.Feegranter)
	}
	if f := e.contractsAgree(ctx, g); f != nil {
		return f
	}
	for _, ch := range chains {
		if c := e.cursor(ctx, ch); c != g.Nonce[ch] {
			return explore.Failf("harness-cursor", "%s: last observed skyway nonce %d, votes cast for %d", ch, c, g.Nonce[ch])
		}
	}
	return nil
}

// ---------------------------------------------------------------------------
// operations

type runner func(ctx *sdk.Context, g *ghost, faulty bool) *explore.Fail

// withFaults executes run once per collaborator call with that call failing,
// each on a throw-away fork of the pre-state, then the un-faulted run on ctx.
func (e *env) withFaults(ctx *sdk.Context, g *ghost, run runner) *explore.Fail {
	for i := 1; i <= 32; i++ {
		c := world.Fork(*ctx)
		gc := g.Clone().(*ghost)
		e.fc.calls, e.fc.failAt, e.fc.site = 0, i, ""
		f := run(&c, gc, true)
		fired, site := e.fc.calls >= i, e.fc.site
		e.fc.failAt = 0
		if !fired {
			break // fewer than i collaborator calls: this was a plain run through the proxy keeper
		}
		e.cnt["fault_variants_executed"]++
		if f == nil {
			f = e.invariant(&explore.Node{Ctx: c, Ghost: gc})
		}
		if f != nil {
			// prefer the plain classification when the un-faulted operation fails as well
			c2, g2 := world.Fork(*ctx), g.Clone().(*ghost)
			f2 := run(&c2, g2, false)
			if f2 == nil {
				f2 = e.invariant(&explore.Node{Ctx: c2, Ghost: g2})
			}
			if f2 != nil {
				return f2
			}
			f.Signature += "!fault@" + site
			f.Message = fmt.Sprintf("with collaborator call %d (%s) failing: %s", i, site, f.Message)
			return f
		}
	}
	return run(ctx, g, false)
}

// faultyMsg runs a message-server call of the faulty paloma keeper like a tx:
// own cache, written on success only, panic → error.
func (e *env) faultyMsg(ctx sdk.Context, call func(c sdk.Context, s palomatypes.MsgServer) error) (err error) {
	defer func() {
		if r := recover(); r != nil {
			err = fmt.Errorf("panic: %v", r)
		}
	}()
	c, write := ctx.CacheContext()
	if err = call(c, palomakeeper.NewMsgServerImpl(*e.fPaloma)); err == nil {
		write()
	}
	return err
}

func (e *env) ops(n *explore.Node) []explore.Op {
	w := e.w
	g0 := n.Ghost.(*ghost)
	var ops []explore.Op
	// digest of the state the operations start from (votes of a sale do not touch it)
	pre := e.nodeDigest(n)
	add := func(label string, do func(ctx *sdk.Context, g *ghost) *explore.Fail) {
		ops = append(ops, explore.Op{Label: label, Do: func(ctx *sdk.Context, gg explore.Ghost) *explore.Fail {
			g := gg.(*ghost)
			g.dg = ""
			return do(ctx, g)
		}})
	}
	fresh1Used := w.App.AccountKeeper.HasAccount(n.Ctx, e.clients[0].Addr)
	targets := []*world.Actor{e.clients[0]}
	if fresh1Used {
		targets = append(targets, e.clients[1])
	}
	targets = append(targets, e.clients[2], e.clients[3])

	rends := e.al.rends
	if rends == nil {
		rends = []string{rLower}
	}
	funders := e.F
	if e.al.oneFunder {
		funders = e.F[1:]
	}

	// --- direct licence creation
	for _, fd := range funders {
		for _, c := range targets {
			pairs := e.al.create
			if w.App.AccountKeeper.HasAccount(n.Ctx, c.Addr) {
				pairs = e.al.reject
			}
			for _, pr := range pairs {
				for _, rd := range rends {
					fd, c, amt, mo, dn, rd := fd, c, pr.amt, pr.mo, pr.denom, rd
					add(fmt.Sprintf("AddLicence(%s,%s%s,%d%s,%dmo)", fd.Name, c.Name, tag(rd), amt, dn, mo), func(ctx *sdk.Context, g *ghost) *explore.Fail {
						msg := &palomatypes.MsgAddLightNodeClientLicense{Metadata: world.Meta(fd), ClientAddress: render(c, rd),
							Amount: coin(amt, dn), VestingMonths: mo}
						return e.withFaults(ctx, g, func(ctx *sdk.Context, g *ghost, faulty bool) *explore.Fail {
							hadAcc := w.App.AccountKeeper.HasAccount(*ctx, c.Addr)
							_, hadLic := g.Lic[c.Name] // any rendering: the ledger is keyed by account
							preBal := w.App.BankKeeper.GetAllBalances(*ctx, fd.Addr)
							var err error
							if faulty {
								err = e.faultyMsg(*ctx, func(cc sdk.Context, s palomatypes.MsgServer) error {
									_, err := s.AddLightNodeClientLicense(cc, msg)
									return err
								})
							} else {
								res := w.DeliverTx(*ctx, []*world.Actor{fd}, msg)
								if res.Stage == "build" || res.Stage == "ante" || res.Stage == "validate" {
									return explore.Failf("harness", "funder tx rejected in %s: %v", res.Stage, res.Err)
								}
								err = res.Err
							}
							if err != nil {
								if !faulty {
									e.cnt["direct_rejected"]++
								}
								if g.dg = e.digest(*ctx); g.dg != pre {
									return explore.Failf("failed-op-changed-state:AddLicence", "rejected licence creation (%v) changed bank / account / feegrant / paloma state: %s", err, e.describe(*ctx))
								}
								return nil
							}
							if hadAcc {
								return explore.Failf("create-for-existing-account:direct", "licence created for %s which already had an account", c.Name)
							}
							if rd == rMixed {
								return explore.Failf("create-for-undecodable-address:direct", "licence created for the mixed-case address %q, which no account decodes from", render(c, rd))
							}
							if hadLic {
								return explore.Failf("create-for-licensed:direct", "licence created for the account of %s which already had a pending licence", c.Name)
							}
							paid, neg := preBal.SafeSub(w.App.BankKeeper.GetAllBalances(*ctx, fd.Addr)...)
							wantPaid := sdk.NewCoins()
							if amt > 0 {
								wantPaid = sdk.NewCoins(coin(amt, dn))
							}
							if neg || !paid.Equal(wantPaid) {
								return explore.Failf("direct-funding", "creator %s paid %q for a licence of %d%s", fd.Name, paid, amt, dn)
							}
							if !faulty {
								e.cnt["licences_created_direct"]++
							}
							g.Lic[c.Name] = lic{amt, dn, mo, rd}
							g.Paid[fd.Name+"/"+dn] += amt
							return nil
						})
					})
				}
			}
		}
	}

	// --- sale reported by the bridge
	type saleT struct {
		saleP
		c  *world.Actor
		rd string
	}
	var saleOps []saleT
	for _, c := range targets {
		for _, sp := range e.al.sales {
			for _, rd := range rends {
				saleOps = append(saleOps, saleT{sp, c, rd})
			}
		}
	}
	// claims whose smart_contract_address is empty / blank, on every chain (also chains
	// without any configured contract), for the first target a licence could be created for
	blankTarget := targets[0]
	for _, c := range targets {
		if !w.App.AccountKeeper.HasAccount(n.Ctx, c.Addr) {
			blankTarget = c
			break
		}
	}
	for _, ch := range chains {
		for _, blank := range []string{"", "0x"} {
			saleOps = append(saleOps, saleT{saleP{ch, 1, blank}, blankTarget, rLower})
		}
	}
	for _, so := range saleOps {
		{
			{
				c, amt, contract, chain, rd := so.c, so.amt, so.contract, so.chain, so.rd
				add(fmt.Sprintf("SaleQuorum(%s,%s%s,%d,%s)", chain, c.Name, tag(rd), amt, contName[contract]), func(ctx *sdk.Context, g *ghost) *explore.Fail {
					g.Nonce[chain]++
					nonce := g.Nonce[chain]
					for _, v := range w.Vals {
						res := w.DeliverTx(*ctx, []*world.Actor{v.Actor}, &skywaytypes.MsgLightNodeSaleClaim{Metadata: world.Meta(v.Actor),
							EventNonce: nonce, EthBlockHeight: 10 + nonce, Orchestrator: v.Addr.String(), ChainReferenceId: chain, SkywayNonce: nonce,
							ClientAddress: render(c, rd), Amount: sdkmath.NewInt(amt), SmartContractAddress: contract, CompassId: world.CompassID})
						if !res.OK() {
							return explore.Failf("harness-claim", "sale claim of %s rejected in %s: %v", v.Name, res.Stage, res.Err)
						}
					}
					return e.withFaults(ctx, g, func(ctx *sdk.Context, g *ghost, faulty bool) *explore.Fail {
						hadAcc := w.App.AccountKeeper.HasAccount(*ctx, c.Addr)
						_, hadLic := g.Lic[c.Name] // any rendering: the ledger is keyed by account
						preBal := []int64{e.bal(*ctx, e.F[0].Addr, world.BondDenom), e.bal(*ctx, e.F[1].Addr, world.BondDenom)}
						if faulty {
							w.SkywayEnd(*ctx, &e.fSkyway)
						} else {
							w.SkywayEnd(*ctx, nil)
						}
						if cur := e.cursor(*ctx, chain); cur != nonce {
							return explore.Failf("harness-cursor", "sale event %d of %s voted by all validators but last observed nonce is %d", nonce, chain, cur)
						}
						if g.dg = e.digest(*ctx); g.dg == pre {
							if !faulty {
								e.cnt["sales_without_effect"]++
							}
							return nil
						}
						l, err := w.App.PalomaKeeper.GetLightNodeClientLicense(*ctx, render(c, rd))
						if err != nil || hadLic || rd == rMixed {
							return explore.Failf("sale-partial-effect", "sale for %s changed bank / account / feegrant / paloma state without creating a licence: %s", c.Name, e.describe(*ctx))
						}
						if !g.Funders || !g.Feegranter {
							return explore.Failf("sale-unconfigured-effect", "sale created a licence although funders=%v feegranter=%v", g.Funders, g.Feegranter)
						}
						if !g.Contracts[chain] {
							return explore.Failf("sale-unauthorised-contract", "sale reported from chain %s (contract %s) created a licence, but the sale contracts currently authorised by governance are %s", chain, contName[contract], setName(g.Contracts))
						}
						if contract != ownSale[chain] {
							return explore.Failf("sale-unauthorised-contract", "sale reported on %s by contract %s created a licence; the contract authorised there is %s", chain, contName[contract], contName[ownSale[chain]])
						}
						if hadAcc {
							return explore.Failf("create-for-existing-account:sale", "sale licence created for %s which already had an account", c.Name)
						}
						want := amt * saleUnit
						if !l.Amount.Equal(coin(want, world.BondDenom)) || l.VestingMonths != saleMonths {
							return explore.Failf("sale-licence-record", "sale of %d GRAIN created licence %s / %d months", amt, l.Amount, l.VestingMonths)
						}
						payer := -1
						for i, fd := range e.F {
							switch d := preBal[i] - e.bal(*ctx, fd.Addr, world.BondDenom); {
							case d == 0:
							case d == want && payer < 0:
								payer = i
							default:
								return explore.Failf("sale-funding", "funder %s balance changed by %d for a sale of %d ugrain", fd.Name, -d, want)
							}
						}
						if payer < 0 && want != 0 {
							return explore.Failf("sale-funding", "no configured funder paid the sale licence of %d ugrain", want)
						}
						if !faulty {
							e.cnt["licences_created_sale"]++
						}
						g.Lic[c.Name] = lic{want, world.BondDenom, saleMonths, rd}
						if payer >= 0 {
							g.Paid[e.F[payer].Name+"/"+world.BondDenom] += want
						}
						g.Grants[c.Name] = true
						return nil
					})
				})
			}
		}
	}

	// --- activation
	// directMsg runs a paloma message through the application's own message
	// server in a tx-like cache (no ante): used for creators given in a
	// non-canonical rendering, which the ante chain admits only for fee-grant
	// delegates of that account.
	directMsg := func(ctx sdk.Context, call func(c sdk.Context, s palomatypes.MsgServer) error) (err error) {
		defer func() {
			if r := recover(); r != nil {
				err = fmt.Errorf("panic: %v", r)
			}
		}()
		c, write := ctx.CacheContext()
		if err = call(c, palomakeeper.NewMsgServerImpl(w.App.PalomaKeeper)); err == nil {
			write()
		}
		return err
	}
	type reg struct {
		label   string
		creator *world.Actor
		rend    string         // rendering of the creator address in the message
		signers []*world.Actor // tx signers; nil = message server called directly (no tx)
		first   sdk.Msg        // optional harmless first message of the same tx
	}
	var regs []reg
	for _, c := range e.clients {
		regs = append(regs, reg{label: fmt.Sprintf("Register(%s)", c.Name), creator: c, rend: rLower, signers: []*world.Actor{c}})
		for _, rd := range rends {
			if rd == rLower {
				continue
			}
			// creator in a non-canonical rendering: really signed by the account itself (ante decides), and directly at the message server
			regs = append(regs, reg{label: fmt.Sprintf("Register(%s%s,signedBy=%s)", c.Name, tag(rd), c.Name), creator: c, rend: rd, signers: []*world.Actor{c}})
			regs = append(regs, reg{label: fmt.Sprintf("RegisterMsgServer(%s%s)", c.Name, tag(rd)), creator: c, rend: rd})
		}
	}
	for _, c := range e.clients[:3] {
		// names the licensee as creator, signed by U alone
		regs = append(regs, reg{label: fmt.Sprintf("RegisterFor(%s,signedBy=U)", c.Name), creator: c, rend: rLower, signers: []*world.Actor{e.U}})
		// the same behind a harmless first message of U in one tx
		regs = append(regs, reg{label: fmt.Sprintf("RegisterBehind(StatusUpdate(U);%s,signedBy=U)", c.Name), creator: c, rend: rLower, signers: []*world.Actor{e.U},
			first: &palomatypes.MsgAddStatusUpdate{Status: "ok", Level: palomatypes.MsgAddStatusUpdate_LEVEL_INFO, Metadata: world.Meta(e.U)}})
		// creator U, first listed signer the licensee (both sign)
		regs = append(regs, reg{label: fmt.Sprintf("RegisterCo(creator=U,signers=%s+U)", c.Name), creator: e.U, rend: rLower, signers: []*world.Actor{c, e.U}})
	}
	for _, rg := range regs {
		rg := rg
		add(rg.label, func(ctx *sdk.Context, g *ghost) *explore.Fail {
			creatorStr := render(rg.creator, rg.rend)
			md := vtypes.MsgMetadata{Creator: creatorStr}
			for _, s := range rg.signers {
				md.Signers = append(md.Signers, s.Addr.String())
			}
			if rg.signers == nil {
				md.Signers = []string{rg.creator.Addr.String()}
			}
			msg := &palomatypes.MsgRegisterLightNodeClient{Metadata: md}
			// the fault variants call the message server with this creator: identical for every
			// signer set, so they are enumerated once, on the plain / direct form of the operation
			inject := e.withFaults
			if !(rg.signers == nil || len(rg.signers) == 1 && rg.signers[0] == rg.creator && rg.rend == rLower) {
				inject = func(ctx *sdk.Context, g *ghost, run runner) *explore.Fail { return run(ctx, g, false) }
			}
			return inject(ctx, g, func(ctx *sdk.Context, g *ghost, faulty bool) *explore.Fail {
				T := ctx.BlockTime()
				preBal := map[string]sdk.Coins{}
				for _, c := range e.clients {
					preBal[c.Name] = w.App.BankKeeper.GetAllBalances(*ctx, c.Addr)
				}
				var err error
				switch {
				case faulty:
					err = e.faultyMsg(*ctx, func(cc sdk.Context, s palomatypes.MsgServer) error {
						_, err := s.RegisterLightNodeClient(cc, msg)
						return err
					})
				case rg.signers == nil:
					err = directMsg(*ctx, func(cc sdk.Context, s palomatypes.MsgServer) error {
						_, err := s.RegisterLightNodeClient(cc, msg)
						return err
					})
				default:
					msgs := []sdk.Msg{msg}
					if rg.first != nil {
						msgs = []sdk.Msg{rg.first, msg}
					}
					res := w.DeliverTx(*ctx, rg.signers, msgs...)
					if res.Stage == "build" {
						return explore.Failf("harness", "tx build: %v", res.Err)
					}
					err = res.Err
				}
				if err != nil {
					if !faulty {
						e.cnt["register_rejected"]++
					}
					if g.dg = e.digest(*ctx); g.dg != pre {
						return explore.Failf("failed-op-changed-state:Register", "rejected activation (%v) changed bank / account / feegrant / paloma state: %s", err, e.describe(*ctx))
					}
					return nil
				}
				// everything below is evaluated on ACCOUNTS (decoded address bytes), not on address strings
				if rg.rend == rMixed {
					return explore.Failf("activation-undecodable-creator", "activation accepted for the mixed-case creator %q", creatorStr)
				}
				now, f := e.licences(*ctx)
				if f != nil {
					return f
				}
				var removed []string
				for name := range g.Lic {
					if _, still := now[name]; !still {
						removed = append(removed, name)
					}
				}
				sort.Strings(removed)
				for _, name := range removed {
					if name != rg.creator.Name {
						return explore.Failf("activation-not-by-licensee", "message of creator %s (signers %v) activated the licence(s) of %v", rg.creator.Name, md.Signers, removed)
					}
				}
				l, had := g.Lic[rg.creator.Name]
				if !had {
					if _, done := g.Act[rg.creator.Name]; done {
						return explore.Failf("double-activation", "%s activated a second time: %s", rg.creator.Name, e.describe(*ctx))
					}
					return explore.Failf("activate-without-licence", "activation by %s accepted without a licence: %s", rg.creator.Name, e.describe(*ctx))
				}
				if still, ok := now[rg.creator.Name]; ok {
					return explore.Failf("activated-licence-not-removed", "activation of %s (creator given as %s, licence bought under the %s rendering) paid out, but a pending licence record for that account is still stored (%+v): it is counted as not yet activated", rg.creator.Name, rg.rend, l.Rend, still)
				}
				if rg.signers != nil {
					signed := false
					for _, s := range rg.signers {
						signed = signed || s == rg.creator
					}
					if !signed {
						return explore.Failf("activation-not-signed-by-licensee", "licence of %s activated by a tx signed only by %v (no fee grant from the licensee)", rg.creator.Name, md.Signers)
					}
				}
				licensed := sdk.NewCoins(coin(l.Amount, l.Denom))
				for _, c := range e.clients {
					d, neg := w.App.BankKeeper.GetAllBalances(*ctx, c.Addr).SafeSub(preBal[c.Name]...)
					if neg || c == rg.creator && !d.Equal(licensed) || c != rg.creator && !d.IsZero() {
						return explore.Failf("activation-amount", "activation of %s's licence of %q changed the balance of %s by %q (must move exactly the licensed coin to the licensee)", rg.creator.Name, licensed, c.Name, d)
					}
				}
				end := T.AddDate(0, int(l.Months), 0)
				if v, ok := w.App.AccountKeeper.GetAccount(*ctx, rg.creator.Addr).(*vestingtypes.ContinuousVestingAccount); ok && v.StartTime == T.Unix() && v.EndTime == end.Unix() {
					// linear unlocking over [start, end]
					// (a zero-month licence has start == end: locked at that instant, free one second later)
					if !v.GetVestedCoins(T).IsZero() || !v.LockedCoins(end.Add(time.Second)).IsZero() {
						return explore.Failf("vesting-linear", "vested at start %s, locked after end %s", v.GetVestedCoins(T), v.LockedCoins(end.Add(time.Second)))
					}
					if l.Months > 0 {
						mid := time.Unix((T.Unix()+end.Unix())/2, 0)
						half := v.GetVestedCoins(mid).AmountOf(l.Denom).Int64()
						if 2*half < l.Amount-2 || 2*half > l.Amount+2 {
							return explore.Failf("vesting-linear", "vested at mid-schedule %d of %d", half, l.Amount)
						}
						if sp := w.App.BankKeeper.SpendableCoins(*ctx, rg.creator.Addr); !sp.IsZero() {
							return explore.Failf("vesting-linear", "spendable at activation %s", sp)
						}
					}
				} // kind / schedule mismatches are reported by the invariant (I4)
				if !faulty {
					e.cnt["activations"]++
					if rg.rend != rLower || l.Rend != rLower {
						e.cnt["activations_noncanonical_rendering"]++
					}
					if rg.signers != nil && l.Rend != rLower {
						// expected 0 on this tree: a licence keyed by a non-canonical rendering is out of reach of the licensee's own signed tx
						e.cnt["activations_of_noncanonical_licence_by_signed_tx"]++
					}
				}
				delete(g.Lic, rg.creator.Name)
				g.Act[rg.creator.Name] = act{Amount: l.Amount, Denom: l.Denom, Start: T.Unix(), End: end.Unix(), LastAuth: T.Unix()}
				return nil
			})
		})
	}

	// --- authentication
	for _, c := range e.clients {
		for _, rd := range rends {
			c, rd := c, rd
			label := fmt.Sprintf("Auth(%s)", c.Name)
			if rd != rLower {
				label = fmt.Sprintf("AuthMsgServer(%s%s)", c.Name, tag(rd))
			}
			add(label, func(ctx *sdk.Context, g *ghost) *explore.Fail {
				preNoPaloma := ""
				if _, isClient := g.Act[c.Name]; isClient {
					preNoPaloma = e.w.StoreDigest(*ctx, "bank", "feegrant") + e.authCanon(*ctx)
				}
				msg := &palomatypes.MsgAuthLightNodeClient{Metadata: vtypes.MsgMetadata{Creator: render(c, rd), Signers: []string{c.Addr.String()}}}
				var err error
				if rd == rLower {
					res := w.DeliverTx(*ctx, []*world.Actor{c}, msg)
					if res.Stage == "build" {
						return explore.Failf("harness", "tx build: %v", res.Err)
					}
					err = res.Err
				} else {
					err = directMsg(*ctx, func(cc sdk.Context, s palomatypes.MsgServer) error {
						_, err := s.AuthLightNodeClient(cc, msg)
						return err
					})
				}
				if err != nil {
					if g.dg = e.digest(*ctx); g.dg != pre {
						return explore.Failf("failed-op-changed-state:Auth", "rejected authentication (%v) changed state: %s", err, e.describe(*ctx))
					}
					return nil
				}
				a, ok := g.Act[c.Name]
				if !ok || rd == rMixed {
					return explore.Failf("auth-nonclient", "authentication of %s%s accepted, whose account never activated a licence", c.Name, tag(rd))
				}
				if e.w.StoreDigest(*ctx, "bank", "feegrant")+e.authCanon(*ctx) != preNoPaloma {
					return explore.Failf("auth-side-effect", "authentication changed bank / account / feegrant state: %s", e.describe(*ctx))
				}
				e.cnt["authentications"]++
				a.LastAuth = ctx.BlockTime().Unix()
				g.Act[c.Name] = a
				return nil
			})
		}
	}

	// --- time and governance
	add("Tick(+40d)", func(ctx *sdk.Context, g *ghost) *explore.Fail {
		*ctx = world.At(*ctx, ctx.BlockHeight()+1, ctx.BlockTime().Add(tick))
		return nil
	})
	add(fmt.Sprintf("GovFunders(%v)", !g0.Funders), func(ctx *sdk.Context, g *ghost) *explore.Fail {
		if err := e.setFunders(*ctx, !g.Funders); err != nil {
			return explore.Failf("harness", "funders proposal: %v", err)
		}
		g.Funders = !g.Funders
		return nil
	})
	govContracts := func(set map[string]bool) {
		add("GovSaleContracts("+setName(set)+")", func(ctx *sdk.Context, g *ghost) *explore.Fail {
			if err := e.setContracts(*ctx, set); err != nil {
				return explore.Failf("harness", "contracts proposal: %v", err)
			}
			g.Contracts = map[string]bool{}
			for ch, on := range set {
				if on {
					g.Contracts[ch] = true
				}
			}
			// the stored contracts must be exactly what this proposal said
			return e.contractsAgree(*ctx, g)
		})
	}
	if e.al.govSets {
		for _, set := range []map[string]bool{{}, {ref: true}, {ref2: true}, {ref: true, ref2: true}} {
			if setName(set) != setName(g0.Contracts) {
				govContracts(set)
			}
		}
	} else {
		govContracts(map[string]bool{ref: !g0.Contracts[ref]})
	}
	return ops
}
