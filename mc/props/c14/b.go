package main

func (e *env) partB(shard, nshards int) {}
func (e *env) replayB(path []int)       {}
