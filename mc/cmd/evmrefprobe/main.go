// evmrefprobe is the self-test of package evmref: on a StdChain world the
// proofs built by evmref.Proof take a SubmitLogicCall and an UpdateValset (and,
// as a bonus, a user contract upload, a compass upload and the compass
// handover) through the SUCCESS path of the real attesters.
package main

import (
	"encoding/json"
	"fmt"
	"os"

	sdkmath "cosmossdk.io/math"
	sdk "github.com/cosmos/cosmos-sdk/types"
	stakingtypes "github.com/cosmos/cosmos-sdk/x/staking/types"
	ctypes "github.com/palomachain/paloma/v2/x/consensus/types"
	evmtypes "github.com/palomachain/paloma/v2/x/evm/types"
	schedtypes "github.com/palomachain/paloma/v2/x/scheduler/types"
	vtypes "github.com/palomachain/paloma/v2/x/valset/types"
	"github.com/palomachain/paloma/v2/zzverif/evmref"
	"github.com/palomachain/paloma/v2/zzverif/world"
)

const ref = "eth-main"

var (
	w   *world.World
	lg  *world.CapLogger
	q   = world.TurnstoneQueue(ref)
	bad = 0
)

func must(err error) {
	if err != nil {
		panic(err)
	}
}

func ok(what string, r world.TxResult) {
	if !r.OK() {
		panic(fmt.Sprintf("%s: %s: %v", what, r.Stage, r.Err))
	}
}

func check(cond bool, format string, a ...interface{}) {
	if cond {
		fmt.Printf("OK   "+format+"\n", a...)
		return
	}
	bad++
	fmt.Printf("FAIL "+format+"\n", a...)
}

func queued(ctx sdk.Context, id uint64) ctypes.QueuedSignedMessageI {
	for _, m := range w.Queue(ctx, q) {
		if m.GetId() == id {
			return m
		}
	}
	return nil
}

func byKind(ctx sdk.Context, kind string) []uint64 {
	var ids []uint64
	for _, m := range w.Queue(ctx, q) {
		if evmref.Kind(w, m) == kind {
			ids = append(ids, m.GetId())
		}
	}
	return ids
}

func onChain(ctx sdk.Context) uint64 {
	s, err := w.App.ValsetKeeper.GetLatestSnapshotOnChain(ctx, ref)
	must(err)
	return s.GetId()
}

// prepare: estimates, election, signatures, public access data for every message of the queue.
func prepare(ctx sdk.Context) {
	need := false
	for _, m := range w.Queue(ctx, q) {
		if m.GetRequireGasEstimation() && m.GetGasEstimate() == 0 && len(m.GetGasEstimates()) == 0 {
			need = true
			for k, v := range w.Vals {
				ok("estimate", w.DeliverTx(ctx, []*world.Actor{v.Actor}, world.Estimate(v, q, m.GetId(), uint64(200000+100*k))))
			}
		}
	}
	if need {
		must(w.EndBlock(ctx))
	}
	for _, m := range w.Queue(ctx, q) {
		if len(m.GetSignData()) == 0 {
			for _, v := range w.Vals {
				ok("sign", w.DeliverTx(ctx, []*world.Actor{v.Actor}, w.SignQueued(v, q, m)))
			}
		}
		if m.GetPublicAccessData() == nil {
			cm, err := m.ConsensusMsg(w.App.AppCodec())
			must(err)
			for _, v := range w.Vals {
				if v.ValAddr.String() == cm.(*evmtypes.Message).Assignee {
					// the relayer names the valset that is live on the target chain
					ok("public access data", w.DeliverTx(ctx, []*world.Actor{v.Actor}, &ctypes.MsgSetPublicAccessData{
						MessageID: m.GetId(), QueueTypeName: q, Data: []byte{0xaa, byte(m.GetId())}, ValsetID: onChain(ctx), Metadata: world.Meta(v.Actor)}))
				}
			}
		}
	}
}

// attest: every validator submits the proof of evmref, the end-block attests.
func attest(ctx sdk.Context, id uint64) (removed bool, errs []string, success bool) {
	m := queued(ctx, id)
	if m == nil {
		return false, []string{"message not queued"}, false
	}
	kind := evmref.Kind(w, m)
	cm, _ := m.ConsensusMsg(w.App.AppCodec())
	assignee := cm.(*evmtypes.Message).Assignee
	p, err := evmref.Proof(w, ctx, ref, m)
	if err != nil {
		return false, []string{err.Error()}, false
	}
	for _, v := range w.Vals {
		ok("evidence", w.DeliverTx(ctx, []*world.Actor{v.Actor}, world.Evidence(v, q, id, p)))
	}
	lg.Reset()
	must(w.EndBlock(ctx))
	errs = append(errs, *lg.Hits...)
	removed = queued(ctx, id) == nil
	va, _ := sdk.ValAddressFromBech32(assignee)
	if h, _ := w.App.MetrixKeeper.GetValidatorHistory(ctx, va); h != nil {
		for _, r := range h.Records {
			success = success || (r.MessageId == id && r.Success)
		}
	}
	check(removed && len(errs) == 0 && success, "%s message %d left the queue through the success path (removed=%v, attestation errors=%v, metrix success record=%v)", kind, id, removed, errs, success)
	return
}

func main() {
	lg = world.NewCapLogger("error while attesting", "failed to process message for attestation", "failed to verify transaction integrity", "recovered panic")
	w = world.New(world.Config{Stakes: world.StakesOf(1_000_000, 1_000_000, 1_000_000), Users: []string{"U1"}, Height: 101, Logger: lg})
	ctx := w.Root
	must(w.StdChain(ctx, ref))
	must(w.App.EvmKeeper.SetSmartContractDeployer(ctx, ref, "0x00000000000000000000000000000000000000dd"))
	must(w.App.EvmKeeper.SetFeeManagerAddress(ctx, ref, "0x00000000000000000000000000000000000000fe"))
	u := w.User("U1")

	// without a compass record no transaction proof can be attested
	def, _ := json.Marshal(evmtypes.JobDefinition{Address: "0x00000000000000000000000000000000000000cc", ABI: "[]"})
	pay, _ := json.Marshal(evmtypes.JobPayload{HexPayload: "deadbeef"})
	job := &schedtypes.Job{ID: "job1", Routing: schedtypes.Routing{ChainType: "evm", ChainReferenceID: ref}, Definition: def, Payload: pay}
	ok("create job", w.DeliverTx(ctx, []*world.Actor{u}, &schedtypes.MsgCreateJob{Job: job, Metadata: world.Meta(u)}))
	exec := func() {
		ok("execute job", w.DeliverTx(ctx, []*world.Actor{u}, &schedtypes.MsgExecuteJob{JobID: "job1", Metadata: world.Meta(u)}))
	}
	exec()
	slc := byKind(ctx, evmref.KindLogicCall)
	check(len(slc) == 1, "job execution queued a SubmitLogicCall: %v", slc)
	_, err := evmref.Proof(w, ctx, ref, queued(ctx, slc[0]))
	check(err != nil, "Proof refuses while there is no compass record: %v", err)

	gov := func(bytecode string) {
		must(w.GovExec(ctx, &evmtypes.MsgDeployNewSmartContractProposalV2{Authority: w.Gov, AbiJSON: world.CompassABI(), BytecodeHex: bytecode,
			Metadata: vtypes.MsgMetadata{Creator: w.Gov, Signers: []string{w.Gov}}}))
	}
	gov("0x6080") // record of the running version (contract id 1 = the active one: nothing is deployed)
	check(len(byKind(ctx, evmref.KindUpload)) == 0, "compass record stored without triggering a deployment")
	_, err = evmref.Proof(w, ctx, ref, queued(ctx, slc[0]))
	check(err != nil, "Proof refuses before estimate / signatures / public access data: %v", err)

	// (1) logic call
	prepare(ctx)
	attest(ctx, slc[0])

	// (2) stake change => new snapshot => just-in-time UpdateValset at the next job execution
	before := onChain(ctx)
	ok("delegate", w.DeliverTx(ctx, []*world.Actor{u}, &stakingtypes.MsgDelegate{DelegatorAddress: u.Addr.String(), ValidatorAddress: w.Vals[1].ValAddr.String(), Amount: sdk.NewCoin(world.BondDenom, sdkmath.NewInt(2_000_000))}))
	must(w.EndBlock(ctx))
	sn, err := w.Snapshot(ctx)
	must(err)
	if sn == nil {
		// stake change not visible to the snapshot builder in this set-up: rotate a trait instead
		must(w.RegisterAccounts(ctx, w.Vals[2], []string{"mev"}, ref))
		sn, err = w.Snapshot(ctx)
		must(err)
		fmt.Println("note: snapshot forced by a trait change")
	}
	check(sn != nil && sn.GetId() != before, "new snapshot %d built (live on chain: %d)", sn.GetId(), before)
	exec()
	vs := byKind(ctx, evmref.KindValset)
	check(len(vs) == 1, "UpdateValset queued by the just-in-time publication: %v", vs)
	prepare(ctx)
	attest(ctx, vs[0])
	check(onChain(ctx) == sn.GetId(), "snapshot live on %s advanced %d -> %d", ref, before, onChain(ctx))
	for _, id := range byKind(ctx, evmref.KindLogicCall) {
		attest(ctx, id) // signed before the update, public access data names the old valset
	}

	// bonus: user contract upload, compass upload + handover
	ok("upload user contract", w.DeliverTx(ctx, []*world.Actor{u}, &evmtypes.MsgUploadUserSmartContractRequest{Metadata: world.Meta(u), Title: "c1", AbiJson: "[]", Bytecode: "0x6080", ConstructorInput: "0x"}))
	ok("deploy user contract", w.DeliverTx(ctx, []*world.Actor{u}, &evmtypes.MsgDeployUserSmartContractRequest{Metadata: world.Meta(u), Id: 1, TargetChain: ref}))
	gov("0x60806040")
	prepare(ctx)
	for _, id := range byKind(ctx, evmref.KindUserUpload) {
		attest(ctx, id)
		cs, _ := w.App.EvmKeeper.UserSmartContracts(ctx, sdk.ValAddress(u.Addr.Bytes()).String())
		check(len(cs) == 1 && len(cs[0].Deployments) == 1 && cs[0].Deployments[0].Status == evmtypes.UserSmartContract_Deployment_ACTIVE &&
			cs[0].Deployments[0].Address == evmref.UserContractAddress(id).String(), "user contract deployment active at %s", evmref.UserContractAddress(id))
	}
	up := byKind(ctx, evmref.KindUpload)
	check(len(up) == 1, "compass proposal queued an UploadSmartContract: %v", up)
	attest(ctx, up[0])
	ho := byKind(ctx, evmref.KindHandover)
	check(len(ho) == 1, "attested upload scheduled a CompassHandover: %v", ho)
	prepare(ctx)
	attest(ctx, ho[0])
	ci, err := w.App.EvmKeeper.GetChainInfo(ctx, ref)
	must(err)
	check(ci.ActiveSmartContractID == 2, "chain runs compass contract id %d at %s", ci.ActiveSmartContractID, ci.SmartContractAddr)
	if bad > 0 {
		fmt.Printf("%d checks failed\n", bad)
		os.Exit(1)
	}
	fmt.Println("evmrefprobe: all OK")
}
