// C04 — message consensus needs 2/3 of snapshot power on identical evidence;
// the elected gas estimate is the median of the submissions and is elected once.
//
// Bounded exhaustive input enumeration on the real functions against a math/big
// reference:
//
//	(a) libcons.ConsensusChecker.VerifyEvidence (exported constructor, hand-built
//	    snapshot, real codec of the application),
//	(b) libcons.ConsensusChecker.VerifyGasEstimates,
//	(c) the same decisions on a forked real application: signed MsgAddEvidence /
//	    MsgAddMessageGasEstimates transactions, consensus keeper end-block
//	    functions, queue contents and module state afterwards,
//	(d) identity of evidence: two different evidence values must never be
//	    grouped together.
package main

import (
	"bytes"
	"context"
	"encoding/json"
	"errors"
	"flag"
	"fmt"
	"math/big"
	"os"
	"reflect"
	"sort"
	"strings"
	"syscall"
	"time"

	"cosmossdk.io/log"
	sdkmath "cosmossdk.io/math"
	"github.com/cosmos/cosmos-sdk/codec"
	codectypes "github.com/cosmos/cosmos-sdk/codec/types"
	sdk "github.com/cosmos/cosmos-sdk/types"
	"github.com/cosmos/gogoproto/proto"
	"github.com/ethereum/go-ethereum/common"
	ethtypes "github.com/ethereum/go-ethereum/core/types"
	"github.com/palomachain/paloma/v2/util/libcons"
	"github.com/palomachain/paloma/v2/x/consensus/keeper/consensus"
	consensustypes "github.com/palomachain/paloma/v2/x/consensus/types"
	evmkeeper "github.com/palomachain/paloma/v2/x/evm/keeper"
	evmtypes "github.com/palomachain/paloma/v2/x/evm/types"
	valsettypes "github.com/palomachain/paloma/v2/x/valset/types"
	"github.com/palomachain/paloma/v2/zzverif/report"
	"github.com/palomachain/paloma/v2/zzverif/world"
)

const ref = "eth-main"

// ---------------------------------------------------------------------------
// alphabets

func pow2(n uint) *big.Int { return new(big.Int).Lsh(big.NewInt(1), n) }

var shareAlpha = []*big.Int{
	big.NewInt(1), big.NewInt(2), big.NewInt(3), big.NewInt(5),
	new(big.Int).Exp(big.NewInt(10), big.NewInt(18), nil), pow2(62), pow2(80),
}

var estAlpha = []uint64{1, 2, 3, 1 << 32, 1<<63 - 1, 1 << 63, 1<<63 + 1, ^uint64(0) - 1, ^uint64(0)}

func valAddr(i int) sdk.ValAddress {
	return sdk.ValAddress(bytes.Repeat([]byte{byte(0x11 * (i + 1))}, 20))
}

var outsiderAddr = sdk.ValAddress(bytes.Repeat([]byte{0xEE}, 20))

// proof families: the two evidence values A and B a validator may supply.
type family struct {
	Name string
	V    [3]proto.Message // index 1 = A, 2 = B
	url  [3]string
	bz   [3][]byte
}

func mustAny(m proto.Message) *codectypes.Any {
	a, err := codectypes.NewAnyWithValue(m)
	if err != nil {
		panic(err)
	}
	return a
}

// wireAny returns the Any as it comes out of a store or a transaction: type URL
// and bytes only, no cached Go value.
func wireAny(m proto.Message) *codectypes.Any {
	a := mustAny(m)
	return &codectypes.Any{TypeUrl: a.TypeUrl, Value: a.Value}
}

func newFamily(name string, a, b proto.Message) *family {
	f := &family{Name: name}
	f.V[1], f.V[2] = a, b
	for i := 1; i <= 2; i++ {
		x := mustAny(f.V[i])
		f.url[i], f.bz[i] = x.TypeUrl, x.Value
	}
	return f
}

func (f *family) any(v int) *codectypes.Any {
	return &codectypes.Any{TypeUrl: f.url[v], Value: f.bz[v]}
}

func families() []*family {
	tx := ethtypes.NewTx(&ethtypes.LegacyTx{Nonce: 7, GasPrice: big.NewInt(1), Gas: 21000, To: &common.Address{1}, Value: big.NewInt(5), Data: []byte{1, 2, 3}})
	txb, err := tx.MarshalBinary()
	if err != nil {
		panic(err)
	}
	rc := &ethtypes.Receipt{Type: ethtypes.LegacyTxType, Status: ethtypes.ReceiptStatusSuccessful, CumulativeGasUsed: 21000, Logs: []*ethtypes.Log{}}
	rcb, err := rc.MarshalBinary()
	if err != nil {
		panic(err)
	}
	return []*family{
		newFamily("error-proof A/B", &evmtypes.SmartContractExecutionErrorProof{ErrorMessage: "A"}, &evmtypes.SmartContractExecutionErrorProof{ErrorMessage: "B"}),
		newFamily("reference-block (200,0xaa)/(200,0xab)", &evmtypes.ReferenceBlockAttestationRes{BlockHeight: 200, BlockHash: "0xaa"}, &evmtypes.ReferenceBlockAttestationRes{BlockHeight: 200, BlockHash: "0xab"}),
		newFamily("balances(7,[1,2]) / error-proof", &evmtypes.ValidatorBalancesAttestationRes{BlockHeight: 7, Balances: []string{"1", "2"}}, &evmtypes.SmartContractExecutionErrorProof{ErrorMessage: "A"}),
		newFamily("tx-proof without / with receipt", &evmtypes.TxExecutedProof{SerializedTX: txb}, &evmtypes.TxExecutedProof{SerializedTX: txb, SerializedReceipt: rcb}),
	}
}

// ---------------------------------------------------------------------------
// reference (math/big)

// quorum: 3*s >= 2*t
func quorum(s, t *big.Int) bool {
	return new(big.Int).Mul(s, big.NewInt(3)).Cmp(new(big.Int).Mul(t, big.NewInt(2))) >= 0
}

// refWinner: shares of the snapshot validators, assign[i] in {0 none,1 A,2 B}.
func refWinner(shares []*big.Int, assign []int) (winner int, sA, sB, total *big.Int) {
	total, sA, sB = new(big.Int), new(big.Int), new(big.Int)
	for i, s := range shares {
		total.Add(total, s)
		switch assign[i] {
		case 1:
			sA.Add(sA, s)
		case 2:
			sB.Add(sB, s)
		}
	}
	switch {
	case quorum(sA, total):
		return 1, sA, sB, total
	case quorum(sB, total):
		return 2, sA, sB, total
	}
	return 0, sA, sB, total
}

// refMedian of a non-empty list: middle value, for even counts the mean of the
// two middle values rounded down.
func refMedian(vals []uint64) (med, min, max *big.Int) {
	w := append([]uint64(nil), vals...)
	sort.Slice(w, func(i, j int) bool { return w[i] < w[j] })
	min, max = new(big.Int).SetUint64(w[0]), new(big.Int).SetUint64(w[len(w)-1])
	c := len(w) / 2
	if len(w)%2 == 1 {
		return new(big.Int).SetUint64(w[c]), min, max
	}
	s := new(big.Int).Add(new(big.Int).SetUint64(w[c-1]), new(big.Int).SetUint64(w[c]))
	return s.Rsh(s, 1), min, max
}

// ---------------------------------------------------------------------------

type nopLogs struct{}

func (nopLogs) Logger(context.Context) log.Logger { return log.NewNopLogger() }

type checker struct {
	deadline       time.Time
	r              *report.Run
	shard, nshards int
	cdc            codec.Codec
	fams           []*family
	cnt            map[string]float64
	nsample        map[string]int
}

func (c *checker) count(k string) { c.cnt[k]++ }

// sample records one really evaluated case per kind (shard 0 only).
func (c *checker) sample(kind string, v map[string]interface{}) {
	if c.shard != 0 || c.nsample[kind] >= 1 {
		return
	}
	if c.nsample == nil {
		c.nsample = map[string]int{}
	}
	c.nsample[kind]++
	v["case"] = kind
	c.r.Sample(v)
}

// late: the internal deadline has passed; the run ends with exhaustive=false.
func (c *checker) late() bool {
	if time.Now().After(c.deadline) {
		c.r.Cap("internal deadline reached before the product was complete")
		return true
	}
	return false
}

func snapshotOf(shares []*big.Int) (*valsettypes.Snapshot, *big.Int) {
	t := new(big.Int)
	s := &valsettypes.Snapshot{Id: 1, Height: 10}
	for i, sh := range shares {
		t.Add(t, sh)
		s.Validators = append(s.Validators, valsettypes.Validator{Address: valAddr(i), ShareCount: sdkmath.NewIntFromBigInt(sh), State: valsettypes.ValidatorState_ACTIVE})
	}
	s.TotalShares = sdkmath.NewIntFromBigInt(t)
	return s, t
}

func newChecker(s *valsettypes.Snapshot, cdc codec.BinaryCodec) *libcons.ConsensusChecker {
	return libcons.New(func(context.Context) (*valsettypes.Snapshot, error) { return s, nil }, cdc)
}

func sharesStr(sh []*big.Int) []string {
	out := make([]string, len(sh))
	for i, s := range sh {
		out[i] = s.String()
	}
	return out
}

// forEachVector enumerates alphabet^n as index vectors.
func forEachVector(n, base int, f func(ix []int)) {
	ix := make([]int, n)
	for {
		f(ix)
		i := n - 1
		for i >= 0 {
			ix[i]++
			if ix[i] < base {
				break
			}
			ix[i] = 0
			i--
		}
		if i < 0 {
			return
		}
	}
}

// permute calls f with every permutation of a (in place; f must not keep it).
func permute(a []int, k int, f func([]int)) {
	if k == len(a) {
		f(a)
		return
	}
	for i := k; i < len(a); i++ {
		a[k], a[i] = a[i], a[k]
		permute(a, k+1, f)
		a[k], a[i] = a[i], a[k]
	}
}

// ---------------------------------------------------------------------------
// (a) VerifyEvidence

type caseA struct {
	Part     string   `json:"part"`
	Shares   []string `json:"shares"`
	Family   int      `json:"family"`
	Assign   []int    `json:"assign"`   // per snapshot validator: 0 none, 1 A, 2 B
	Outsider int      `json:"outsider"` // validator outside the snapshot: 0 none, 1 A, 2 B
	Order    []int    `json:"order"`    // submitters in slice order; index n = the outsider
}

func parseShares(ss []string) []*big.Int {
	out := make([]*big.Int, len(ss))
	for i, s := range ss {
		v, ok := new(big.Int).SetString(s, 10)
		if !ok {
			panic("bad share " + s)
		}
		out[i] = v
	}
	return out
}

// evalA runs one VerifyEvidence call and compares with the reference.
func (c *checker) evalA(chk *libcons.ConsensusChecker, fam *family, shares []*big.Int, assign []int, outsider int, order []int, want int, sA, sB, total *big.Int) {
	n := len(shares)
	evs := make([]libcons.Evidence, 0, len(order))
	for _, i := range order {
		if i == n {
			evs = append(evs, &consensustypes.Evidence{ValAddress: outsiderAddr, Proof: fam.any(outsider)})
		} else {
			evs = append(evs, &consensustypes.Evidence{ValAddress: valAddr(i), Proof: fam.any(assign[i])})
		}
	}
	res, err := chk.VerifyEvidence(context.Background(), evs)
	c.r.Evaluations++
	fail := func(sig, format string, a ...interface{}) {
		cs := caseA{Part: "a", Shares: sharesStr(shares), Family: indexOfFamily(c.fams, fam), Assign: append([]int(nil), assign...), Outsider: outsider, Order: append([]int(nil), order...)}
		c.r.Violate(sig, fmt.Sprintf(format, a...)+fmt.Sprintf("\ninput: shares=%v family=%q assignment=%v (0 none,1 A,2 B) outsider=%d order=%v; reference: A holds %s, B holds %s of total %s", cs.Shares, fam.Name, assign, outsider, order, sA, sB, total), cs)
	}
	got := 0
	switch {
	case err == nil:
		if res == nil || res.Winner == nil {
			fail("evidence:nil-winner:VerifyEvidence", "no error but no winner")
			return
		}
		w, ok := res.Winner.(proto.Message)
		if !ok {
			fail("evidence:winner-type:VerifyEvidence", "winner %T is not a proto message", res.Winner)
			return
		}
		for v := 1; v <= 2; v++ {
			if reflect.TypeOf(w) == reflect.TypeOf(fam.V[v]) && proto.Equal(w, fam.V[v]) {
				got = v
			}
		}
		if got == 0 {
			fail("evidence:unknown-winner:VerifyEvidence", "winner %v equals neither submitted value", w)
			return
		}
	case errors.Is(err, libcons.ErrConsensusNotAchieved):
		got = 0
	default:
		fail("evidence:error:VerifyEvidence", "unexpected error %v", err)
		return
	}
	if got == want && len(order) >= 3 && outsider != 0 {
		if want != 0 {
			c.sample("a: winner", map[string]interface{}{"shares": sharesStr(shares), "family": fam.Name, "assign": append([]int(nil), assign...), "outsider": outsider, "order": append([]int(nil), order...), "A_holds": sA.String(), "B_holds": sB.String(), "total": total.String(), "real_and_reference_winner": got})
		} else {
			c.sample("a: refused", map[string]interface{}{"shares": sharesStr(shares), "family": fam.Name, "assign": append([]int(nil), assign...), "outsider": outsider, "order": append([]int(nil), order...), "A_holds": sA.String(), "B_holds": sB.String(), "total": total.String(), "real": err.Error()})
		}
	}
	switch {
	case got == want:
	case want == 0:
		fail("evidence:declared-without-two-thirds:VerifyEvidence", "value %d declared the winner, reference says no value has 2/3 of the snapshot shares", got)
	case got == 0:
		fail("evidence:two-thirds-refused:VerifyEvidence", "consensus refused, reference says value %d has 2/3 of the snapshot shares", want)
	default:
		fail("evidence:wrong-winner:VerifyEvidence", "value %d declared the winner, reference says %d", got, want)
	}
	if res != nil && !res.TotalShares.IsNil() && res.TotalShares.BigInt().Cmp(total) != 0 {
		fail("evidence:total-shares:VerifyEvidence", "result.TotalShares %s, snapshot total %s", res.TotalShares, total)
	}
	if res != nil && !res.TotalVotes.IsNil() {
		if sum := new(big.Int).Add(sA, sB); res.TotalVotes.BigInt().Cmp(sum) != 0 {
			fail("evidence:total-votes:VerifyEvidence", "result.TotalVotes %s, snapshot shares of the submitters %s", res.TotalVotes, sum)
		}
	}
}

func indexOfFamily(fs []*family, f *family) int {
	for i := range fs {
		if fs[i] == f {
			return i
		}
	}
	return -1
}

// skipVector: in the quick tier the share vectors of four validators are taken
// up to renaming of the validators (non-decreasing index vectors); every
// assignment and every slice order is still enumerated for each of them, so
// each multiset of four shares meets each pattern. Thorough: all 7^4 (9^4).
func (c *checker) skipVector(ix []int) bool {
	if len(ix) < 4 || c.r.Thorough() {
		return false
	}
	for i := 1; i < len(ix); i++ {
		if ix[i] < ix[i-1] {
			return true
		}
	}
	return false
}

// alpha: share alphabet for n validators (thorough adds 7 and 2^64 for n <= 3).
func (c *checker) alpha(n int) []*big.Int {
	if c.r.Thorough() && n <= 3 {
		return append(append([]*big.Int(nil), shareAlpha...), big.NewInt(7), pow2(64))
	}
	return shareAlpha
}

func (c *checker) partA() {
	maxN := 4
	vec := 0
	for n := 1; n <= maxN; n++ {
		alpha := c.alpha(n)
		forEachVector(n, len(alpha), func(ix []int) {
			if c.skipVector(ix) || c.late() {
				return
			}
			vec++
			if vec%c.nshards != c.shard {
				return
			}
			shares := make([]*big.Int, n)
			for i, k := range ix {
				shares[i] = alpha[k]
			}
			snap, _ := snapshotOf(shares)
			chk := newChecker(snap, c.cdc)
			fams := c.fams
			if n == 4 {
				fams = c.fams[:1]
				if c.r.Thorough() {
					fams = []*family{c.fams[0], c.fams[3]}
				}
			}
			for _, fam := range fams {
				forEachVector(n, 3, func(assign []int) {
					want, sA, sB, total := refWinner(shares, assign)
					for outsider := 0; outsider <= 2; outsider++ {
						var subs []int
						for i, a := range assign {
							if a != 0 {
								subs = append(subs, i)
							}
						}
						if outsider != 0 {
							subs = append(subs, n)
						}
						c.r.DistinctN++
						switch {
						case want != 0:
							c.count("a_configs_with_winner")
							s := sA
							if want == 2 {
								s = sB
							}
							if new(big.Int).Mul(s, big.NewInt(3)).Cmp(new(big.Int).Mul(total, big.NewInt(2))) == 0 {
								c.count("a_configs_exactly_two_thirds")
							}
						case quorum(new(big.Int).Add(sA, sB), total):
							c.count("a_configs_split_vote_no_winner")
						default:
							c.count("a_configs_below_quorum")
						}
						if want == 0 && outsider != 0 {
							// would the outsider's copy tip the balance if it were counted with any validator's share?
							c.count("a_configs_outsider_present_no_winner")
						}
						permute(subs, 0, func(order []int) {
							c.evalA(chk, fam, shares, assign, outsider, order, want, sA, sB, total)
						})
					}
				})
			}
		})
	}
}

// ---------------------------------------------------------------------------
// (b) VerifyGasEstimates

type caseB struct {
	Part     string   `json:"part"`
	Shares   []string `json:"shares"`
	Submit   []bool   `json:"submit"`   // per snapshot validator
	Outsider bool     `json:"outsider"` // validator outside the snapshot submits too (last value)
	Values   []string `json:"values"`   // estimates in slice order: submitting validators by index, then the outsider
}

func (c *checker) evalB(chk *libcons.ConsensusChecker, shares []*big.Int, submit []bool, outsider bool, vals []uint64, haveQuorum bool, sIn, total *big.Int) {
	var ests []libcons.GasEstimate
	k := 0
	for i, s := range submit {
		if s {
			ests = append(ests, &consensustypes.GasEstimate{ValAddress: valAddr(i), Value: vals[k]})
			k++
		}
	}
	if outsider {
		ests = append(ests, &consensustypes.GasEstimate{ValAddress: outsiderAddr, Value: vals[k]})
	}
	got, err := chk.VerifyGasEstimates(context.Background(), nopLogs{}, ests)
	c.r.Evaluations++
	fail := func(sig, format string, a ...interface{}) {
		vs := make([]string, len(vals))
		for i, v := range vals {
			vs[i] = fmt.Sprint(v)
		}
		cs := caseB{Part: "b", Shares: sharesStr(shares), Submit: append([]bool(nil), submit...), Outsider: outsider, Values: vs}
		c.r.Violate(sig, fmt.Sprintf(format, a...)+fmt.Sprintf("\ninput: shares=%v submitting=%v outsider=%v estimates=%v; reference: submitters hold %s of total %s", cs.Shares, submit, outsider, vs, sIn, total), cs)
	}
	if !haveQuorum {
		switch {
		case err == nil:
			fail("estimate:elected-without-two-thirds:VerifyGasEstimates", "estimate %d elected, reference says the submitters hold less than 2/3 of the snapshot shares", got)
		case !errors.Is(err, libcons.ErrConsensusNotAchieved):
			fail("estimate:error:VerifyGasEstimates", "unexpected error %v", err)
		case got != 0:
			fail("estimate:value-with-refusal:VerifyGasEstimates", "refused but value %d returned", got)
		}
		return
	}
	med, min, max := refMedian(vals)
	if err != nil {
		if errors.Is(err, libcons.ErrConsensusNotAchieved) {
			fail("estimate:two-thirds-refused:VerifyGasEstimates", "refused (%v), reference says the submitters hold 2/3 of the snapshot shares", err)
		} else {
			fail("estimate:two-thirds-but-error:VerifyGasEstimates", "2/3 of the snapshot shares submitted estimates >= 1 but no estimate can be elected: %v; exact median is %s", err, med)
		}
		return
	}
	g := new(big.Int).SetUint64(got)
	if len(vals) == 4 && vals[0] != vals[3] && vals[3] > 1<<63 {
		c.sample("b: elected", map[string]interface{}{"shares": sharesStr(shares), "submit": append([]bool(nil), submit...), "outsider": outsider, "estimates": fmt.Sprint(vals), "real": fmt.Sprint(got), "reference_median": med.String()})
	}
	switch {
	case g.Cmp(min) < 0 || g.Cmp(max) > 0:
		fail("estimate:outside-submitted-range:VerifyGasEstimates", "elected estimate %d lies outside [lowest %s, highest %s] submitted; exact median is %s", got, min, max, med)
	case g.Cmp(med) != 0:
		fail("estimate:not-the-median:VerifyGasEstimates", "elected estimate %d, exact median is %s", got, med)
	}
}

// multisets enumerates the non-decreasing index tuples of size k over base.
func multisets(k, base int, f func(ix []int)) {
	ix := make([]int, k)
	var rec func(pos, from int)
	rec = func(pos, from int) {
		if pos == k {
			f(ix)
			return
		}
		for v := from; v < base; v++ {
			ix[pos] = v
			rec(pos+1, v)
		}
	}
	rec(0, 0)
}

func (c *checker) partB() {
	// precompute the multisets per size
	ms := map[int][][]uint64{}
	for k := 1; k <= 5; k++ {
		multisets(k, len(estAlpha), func(ix []int) {
			v := make([]uint64, k)
			for i, j := range ix {
				v[i] = estAlpha[j]
			}
			ms[k] = append(ms[k], v)
		})
	}
	vec := 0
	for n := 1; n <= 4; n++ {
		alpha := c.alpha(n)
		forEachVector(n, len(alpha), func(ix []int) {
			if c.skipVector(ix) || c.late() {
				return
			}
			vec++
			if vec%c.nshards != c.shard {
				return
			}
			shares := make([]*big.Int, n)
			for i, k := range ix {
				shares[i] = alpha[k]
			}
			snap, total := snapshotOf(shares)
			chk := newChecker(snap, c.cdc)
			submit := make([]bool, n)
			for mask := 0; mask < 1<<n; mask++ {
				sIn := new(big.Int)
				k := 0
				for i := range submit {
					submit[i] = mask&(1<<i) != 0
					if submit[i] {
						sIn.Add(sIn, shares[i])
						k++
					}
				}
				q := quorum(sIn, total)
				for _, outsider := range []bool{false, true} {
					kk := k
					if outsider {
						kk++
					}
					c.r.DistinctN++
					if q {
						c.count("b_patterns_with_quorum")
					} else {
						c.count("b_patterns_without_quorum")
					}
					if kk == 0 {
						c.evalB(chk, shares, submit, outsider, nil, q, sIn, total)
						continue
					}
					if n == 4 && kk == 5 && !c.r.Thorough() {
						// sizes 1..4 in the quick tier
						c.count("b_size5_skipped_quick")
						continue
					}
					rot := make([]uint64, kk)
					for _, v := range ms[kk] {
						c.evalB(chk, shares, submit, outsider, v, q, sIn, total)
						if kk > 1 && v[0] != v[kk-1] {
							// same multiset, slice not sorted: highest value first
							rot[0] = v[kk-1]
							copy(rot[1:], v[:kk-1])
							c.evalB(chk, shares, submit, outsider, rot, q, sIn, total)
						}
					}
				}
			}
		})
	}
}

// ---------------------------------------------------------------------------
// (d) identity of evidence: values that differ must not be grouped together.

type caseD struct {
	Part   string `json:"part"`
	First  string `json:"first_submitted_by_outsider"`
	Quorum string `json:"submitted_by_all_snapshot_validators"`
}

func identityAlphabet() []proto.Message {
	var out []proto.Message
	for _, h := range []uint64{1, 12} {
		for _, s := range []string{"", "2", "23", "3", "0xab"} {
			out = append(out, &evmtypes.ReferenceBlockAttestationRes{BlockHeight: h, BlockHash: s})
		}
		for _, b := range [][]string{nil, {"1"}, {"2"}, {"1", "2"}, {"1\n2"}, {""}, {"", ""}} {
			out = append(out, &evmtypes.ValidatorBalancesAttestationRes{BlockHeight: h, Balances: b})
		}
	}
	for _, s := range []string{"", "1", "12", "A", "B", "1\n2"} {
		out = append(out, &evmtypes.SmartContractExecutionErrorProof{ErrorMessage: s})
	}
	return out
}

func describe(m proto.Message) string {
	return fmt.Sprintf("%T%s", m, mustJSON(m))
}

func mustJSON(v interface{}) string {
	b, _ := json.Marshal(v)
	return string(b)
}

// partD: three equal snapshot validators all supply x; a validator outside the
// snapshot supplied y != x first. Whatever is declared must be x.
func (c *checker) partD() {
	if c.shard != 0 {
		return
	}
	shares := []*big.Int{big.NewInt(1), big.NewInt(1), big.NewInt(1)}
	snap, _ := snapshotOf(shares)
	chk := newChecker(snap, c.cdc)
	al := identityAlphabet()
	for _, x := range al {
		for _, y := range al {
			if reflect.TypeOf(x) == reflect.TypeOf(y) && proto.Equal(x, y) {
				continue
			}
			evs := []libcons.Evidence{&consensustypes.Evidence{ValAddress: outsiderAddr, Proof: wireAny(y)}}
			for i := range shares {
				evs = append(evs, &consensustypes.Evidence{ValAddress: valAddr(i), Proof: wireAny(x)})
			}
			res, err := chk.VerifyEvidence(context.Background(), evs)
			c.r.Evaluations++
			c.r.DistinctN++
			c.count("d_pairs")
			cs := caseD{Part: "d", First: describe(y), Quorum: describe(x)}
			if err != nil {
				c.r.Violate("identity:error:VerifyEvidence", fmt.Sprintf("all snapshot validators supplied %s, an outsider supplied %s first: error %v", describe(x), describe(y), err), cs)
				continue
			}
			w, _ := res.Winner.(proto.Message)
			if w == nil || reflect.TypeOf(w) != reflect.TypeOf(x) || !proto.Equal(w, x) {
				kind := "same-type"
				if reflect.TypeOf(x) != reflect.TypeOf(y) {
					kind = "cross-type"
				}
				c.r.Violate("identity:different-evidence-grouped:"+kind+":VerifyEvidence",
					fmt.Sprintf("all snapshot validators (3/3 of the shares) supplied %s; a validator outside the snapshot supplied the different value %s first; declared winner is %s, which no snapshot validator supplied (both values give the same BytesToHash)", describe(x), describe(y), describe(w)), cs)
			}
		}
	}
}

// ---------------------------------------------------------------------------
// (c) integration on the real application

type integ struct {
	c       *checker
	w       *world.World
	stakes  []*big.Int // v0..v3 in the snapshot; v4 bonded but outside
	total   *big.Int
	refQ    string
	turnQ   string
	baseRef sdk.Context
	refID   uint64
	baseSLC sdk.Context
	slcID   uint64
}

type caseC struct {
	Part    string   `json:"part"`
	Kind    string   `json:"kind"`    // reference-block | logic-call | estimates
	Assign  []int    `json:"assign"`  // v0..v3, v4 (outsider): evidence 0 none,1 A,2 B / estimates: index into values, 0 none
	Variant string   `json:"variant"` // direct | flip (first the other value, then this one) | twice
	Reverse bool     `json:"reverse"` // validators submit in descending index order
	Values  []string `json:"values,omitempty"`
}

var (
	refA = &evmtypes.ReferenceBlockAttestationRes{BlockHeight: 200, BlockHash: "0x" + strings.Repeat("aa", 32)}
	refB = &evmtypes.ReferenceBlockAttestationRes{BlockHeight: 300, BlockHash: "0x" + strings.Repeat("bb", 32)}
	errA = &evmtypes.SmartContractExecutionErrorProof{ErrorMessage: "execution reverted: A"}
	errB = &evmtypes.SmartContractExecutionErrorProof{ErrorMessage: "execution reverted: B"}
)

func (c *checker) setupInteg(w *world.World) (*integ, error) {
	in := &integ{c: c, w: w, total: new(big.Int)}
	ctx := w.Root
	if err := w.AddChain(ctx, ref, 1, 1); err != nil {
		return nil, fmt.Errorf("add chain: %w", err)
	}
	for i, v := range w.Vals[:4] {
		if err := w.RegisterAccounts(ctx, v, nil, ref); err != nil {
			return nil, err
		}
		if err := w.SetFee(ctx, v, ref, "1.0"); err != nil {
			return nil, err
		}
		in.stakes = append(in.stakes, v.Stake.BigInt())
		in.total.Add(in.total, v.Stake.BigInt())
		_ = i
	}
	if err := w.App.TreasuryKeeper.SetCommunityFundFee(ctx, "0.01"); err != nil {
		return nil, err
	}
	if err := w.App.TreasuryKeeper.SetSecurityFee(ctx, "0.01"); err != nil {
		return nil, err
	}
	snap, err := w.Snapshot(ctx)
	if err != nil || snap == nil {
		return nil, fmt.Errorf("snapshot: %v %v", snap, err)
	}
	if len(snap.Validators) != 4 || snap.TotalShares.BigInt().Cmp(in.total) != 0 {
		return nil, fmt.Errorf("snapshot has %d validators / total %s, scenario expects 4 / %s", len(snap.Validators), snap.TotalShares, in.total)
	}
	if _, found := snap.GetValidator(w.Vals[4].ValAddr); found {
		return nil, fmt.Errorf("outsider is in the snapshot")
	}
	if err := w.App.ValsetKeeper.CanAcceptValidator(ctx, w.Vals[4].ValAddr); err != nil {
		return nil, fmt.Errorf("outsider is not a bonded validator: %w", err)
	}
	in.refQ = consensustypes.Queue(evmkeeper.ConsensusGetReferenceBlock, "evm", ref)
	in.turnQ = consensustypes.Queue(evmtypes.ConsensusTurnstoneMessage, "evm", ref)

	in.baseRef = world.Fork(ctx)
	if err := w.App.EvmKeeper.ScheduleReferenceBlockForChain(in.baseRef, ref); err != nil {
		return nil, fmt.Errorf("schedule reference block: %w", err)
	}
	ms, err := w.App.ConsensusKeeper.GetMessagesFromQueue(in.baseRef, in.refQ, 0)
	if err != nil || len(ms) != 1 {
		return nil, fmt.Errorf("reference block queue: %d messages, %v", len(ms), err)
	}
	in.refID = ms[0].GetId()

	in.baseSLC = world.Fork(ctx)
	ci, err := w.App.EvmKeeper.GetChainInfo(in.baseSLC, ref)
	if err != nil {
		return nil, err
	}
	in.slcID, err = w.App.EvmKeeper.AddSmartContractExecutionToConsensus(in.baseSLC, ref, string(ci.GetSmartContractUniqueID()), &evmtypes.SubmitLogicCall{
		HexContractAddress: "0x" + strings.Repeat("51", 20),
		Abi:                []byte(`[]`),
		Payload:            []byte{0xde, 0xad, 0xbe, 0xef},
		Deadline:           in.baseSLC.BlockTime().Unix() + 600,
		SenderAddress:      w.Vals[0].Addr,
	})
	if err != nil {
		return nil, fmt.Errorf("enqueue logic call: %w", err)
	}
	return in, nil
}

func (in *integ) evidenceTx(ctx sdk.Context, v *world.Val, q string, id uint64, m proto.Message) world.TxResult {
	return in.w.DeliverTx(ctx, []*world.Actor{v.Actor}, &consensustypes.MsgAddEvidence{
		Proof: wireAny(m), MessageID: id, QueueTypeName: q, Metadata: world.Meta(v.Actor),
	})
}

func (in *integ) findMsg(ctx sdk.Context, q string, id uint64) (consensustypes.QueuedSignedMessageI, []consensustypes.QueuedSignedMessageI, error) {
	ms, err := in.w.App.ConsensusKeeper.GetMessagesFromQueue(ctx, q, 0)
	if err != nil {
		return nil, nil, err
	}
	for _, m := range ms {
		if m.GetId() == id {
			return m, ms, nil
		}
	}
	return nil, ms, nil
}

// runEvidence: one evidence scenario on a fork.
func (in *integ) runEvidence(cs caseC) {
	w, r := in.w, in.c.r
	var base sdk.Context
	var q string
	var id uint64
	var vals [3]proto.Message
	switch cs.Kind {
	case "reference-block":
		base, q, id, vals = in.baseRef, in.refQ, in.refID, [3]proto.Message{nil, refA, refB}
	case "logic-call":
		base, q, id, vals = in.baseSLC, in.turnQ, in.slcID, [3]proto.Message{nil, errA, errB}
	}
	fail := func(sig, format string, a ...interface{}) {
		r.Violate(sig, fmt.Sprintf(format, a...)+fmt.Sprintf("\nscenario: %s queue, stakes v0..v3=%v (snapshot total %s), v4 bonded outside the snapshot; assignment=%v (0 none,1 A,2 B) variant=%s reverse=%v", cs.Kind, sharesStr(in.stakes), in.total, cs.Assign, cs.Variant, cs.Reverse), cs)
	}
	ctx := debugCtx(world.Fork(base))
	order := []int{0, 1, 2, 3, 4}
	if cs.Reverse {
		order = []int{4, 3, 2, 1, 0}
	}
	ntx := 0
	submit := func(i, v int) bool {
		res := in.evidenceTx(ctx, w.Vals[i], q, id, vals[v])
		ntx++
		if !res.OK() {
			fail("harness:evidence-tx-rejected", "MsgAddEvidence of v%d rejected at %s: %v", i, res.Stage, res.Err)
			return false
		}
		return true
	}
	if cs.Variant == "flip" {
		for _, i := range order {
			if cs.Assign[i] != 0 && !submit(i, 3-cs.Assign[i]) {
				return
			}
		}
	}
	for _, i := range order {
		if cs.Assign[i] != 0 && !submit(i, cs.Assign[i]) {
			return
		}
	}
	if cs.Variant == "twice" {
		for _, i := range order {
			if cs.Assign[i] != 0 && !submit(i, cs.Assign[i]) {
				return
			}
		}
	}
	in.c.cnt["c_transitions"] += float64(ntx)
	// stored evidence: one entry per submitter, holding its latest value
	m, _, err := in.findMsg(ctx, q, id)
	if err != nil || m == nil {
		fail("harness:message-lost-before-processing", "message %d not in queue before processing: %v", id, err)
		return
	}
	nsub := 0
	for i, a := range cs.Assign {
		if a == 0 {
			continue
		}
		nsub++
		cnt := 0
		for _, e := range m.GetEvidence() {
			if e.ValAddress.Equals(w.Vals[i].ValAddr) {
				cnt++
				want := wireAny(vals[a])
				if e.Proof.TypeUrl != want.TypeUrl || !bytes.Equal(e.Proof.Value, want.Value) {
					fail("resubmission:stored-evidence-not-latest:AddEvidence", "stored evidence of v%d is not its latest submission", i)
				}
			}
		}
		if cnt != 1 {
			fail("resubmission:validator-stored-more-than-once:AddEvidence", "v%d has %d evidence entries on the message after its submissions, want 1", i, cnt)
		}
	}
	if len(m.GetEvidence()) != nsub {
		fail("resubmission:evidence-count:AddEvidence", "message holds %d evidence entries for %d submitters", len(m.GetEvidence()), nsub)
	}
	want, sA, sB, _ := refWinner(in.stakes, cs.Assign[:4])
	// process
	before := w.StoreDump(ctx, "evm", nil)
	err, panicked := world.Protect(func() error { return w.App.ConsensusKeeper.CheckAndProcessAttestedMessages(ctx) })
	in.c.cnt["c_transitions"]++
	if panicked {
		fail("attest:panic:CheckAndProcessAttestedMessages", "panic: %v", err)
		return
	}
	if err != nil {
		fail("attest:error:CheckAndProcessAttestedMessages", "error: %v", err)
		return
	}
	after, all, err := in.findMsg(ctx, q, id)
	if err != nil {
		fail("harness:queue-read", "%v", err)
		return
	}
	evmDiff := world.DiffDumps(before, w.StoreDump(ctx, "evm", nil))
	ci, _ := w.App.EvmKeeper.GetChainInfo(ctx, ref)
	ci0, _ := w.App.EvmKeeper.GetChainInfo(base, ref)
	ref3 := func(s *big.Int) string { return fmt.Sprintf("%s of %s", s, in.total) }
	if cs.Variant == "flip" && cs.Assign[4] != 0 && sA.Sign() > 0 && sB.Sign() > 0 {
		in.c.sample("c: "+cs.Kind, map[string]interface{}{"assign_v0_v3_outsider": cs.Assign, "variant": cs.Variant, "A_holds": ref3(sA), "B_holds": ref3(sB), "reference_winner": want, "message_removed": after == nil, "chain_reference_block": fmt.Sprintf("(%d,%s)", ci.ReferenceBlockHeight, ci.ReferenceBlockHash), "queue_length": len(all)})
	}
	if want == 0 {
		if after == nil {
			fail("attest:removed-without-two-thirds:"+cs.Kind, "message removed from the queue; reference: A holds %s, B holds %s — no value has 2/3", ref3(sA), ref3(sB))
			return
		}
		if len(evmDiff) != 0 {
			fail("attest:effects-without-two-thirds:"+cs.Kind, "message kept but evm state changed: %v", evmDiff)
		}
		if len(all) != 1 {
			fail("attest:effects-without-two-thirds:"+cs.Kind, "queue now holds %d messages", len(all))
		}
		return
	}
	if after != nil {
		fail("attest:two-thirds-not-processed:"+cs.Kind, "message still queued; reference: value %d holds 2/3 (A %s, B %s)", want, ref3(sA), ref3(sB))
		return
	}
	switch cs.Kind {
	case "reference-block":
		wv := vals[want].(*evmtypes.ReferenceBlockAttestationRes)
		if ci.ReferenceBlockHeight != wv.BlockHeight || ci.ReferenceBlockHash != wv.BlockHash {
			fail("attest:wrong-effect:reference-block", "chain reference block is (%d,%s), 2/3 supplied (%d,%s); before (%d,%s)", ci.ReferenceBlockHeight, ci.ReferenceBlockHash, wv.BlockHeight, wv.BlockHash, ci0.ReferenceBlockHeight, ci0.ReferenceBlockHash)
		}
	case "logic-call":
		// an attested execution error re-queues the call once more (Retries 0 -> 1)
		if len(all) != 1 {
			fail("attest:wrong-effect:logic-call", "queue holds %d messages after the attested error, want the one retry", len(all))
			return
		}
		cm, err := all[0].ConsensusMsg(w.App.AppCodec())
		if err != nil {
			fail("harness:unpack", "%v", err)
			return
		}
		slc := cm.(*evmtypes.Message).GetSubmitLogicCall()
		if slc == nil || slc.Retries != 1 || all[0].GetId() == id || len(all[0].GetEvidence()) != 0 {
			fail("attest:wrong-effect:logic-call", "retry message is %v", all[0])
		}
	}
}

func (in *integ) partCEvidence() {
	idx := 0
	for _, kind := range []string{"reference-block", "logic-call"} {
		variants := []string{"direct", "flip", "twice"}
		for _, variant := range variants {
			for _, rev := range []bool{false, true} {
				if kind == "logic-call" && (variant == "twice" || rev) && !in.c.r.Thorough() {
					continue
				}
				forEachVector(5, 3, func(assign []int) {
					idx++
					if idx%in.c.nshards != in.c.shard || in.c.late() {
						return
					}
					cs := caseC{Part: "c", Kind: kind, Assign: append([]int(nil), assign...), Variant: variant, Reverse: rev}
					in.c.r.DistinctN++
					in.c.count("c_evidence_scenarios")
					in.runEvidence(cs)
				})
			}
		}
	}
}

// debugCtx attaches a printing logger when VERIF_DEBUG is set (replays).
func debugCtx(ctx sdk.Context) sdk.Context {
	if os.Getenv("VERIF_DEBUG") != "" {
		return ctx.WithLogger(log.NewLogger(os.Stderr))
	}
	return ctx
}

// runIdentity: the (d) situation through real transactions. All (or 13/15 of
// the) snapshot shares supply x; one validator supplied a different value y with
// the same BytesToHash first. What is applied must be x.
func (in *integ) runIdentity(cs caseC) {
	w, r := in.w, in.c.r
	fail := func(sig, format string, a ...interface{}) {
		r.Violate(sig, fmt.Sprintf(format, a...)+fmt.Sprintf("\nscenario: identity/%s, stakes v0..v3=%v (snapshot total %s), v4 bonded outside the snapshot", cs.Variant, sharesStr(in.stakes), in.total), cs)
	}
	hash := "0x" + strings.Repeat("cd", 32)
	var x, y proto.Message
	base, q, id := in.baseRef, in.refQ, in.refID
	first := 4
	switch cs.Variant {
	case "outsider-first":
		x, y = &evmtypes.ReferenceBlockAttestationRes{BlockHeight: 1234, BlockHash: hash}, &evmtypes.ReferenceBlockAttestationRes{BlockHeight: 123, BlockHash: "4" + hash}
	case "minority-first":
		first = 0
		x, y = &evmtypes.ReferenceBlockAttestationRes{BlockHeight: 1234, BlockHash: hash}, &evmtypes.ReferenceBlockAttestationRes{BlockHeight: 123, BlockHash: "4" + hash}
	case "cross-type-outsider-first":
		base, q, id = in.baseSLC, in.turnQ, in.slcID
		x, y = &evmtypes.SmartContractExecutionErrorProof{ErrorMessage: "5 reverted"}, &evmtypes.ReferenceBlockAttestationRes{BlockHeight: 5, BlockHash: " reverted"}
	}
	ctx := debugCtx(world.Fork(base))
	if res := in.evidenceTx(ctx, w.Vals[first], q, id, y); !res.OK() {
		fail("harness:evidence-tx-rejected", "v%d: %v", first, res.Err)
		return
	}
	for i := 0; i < 4; i++ {
		if i == first {
			continue
		}
		if res := in.evidenceTx(ctx, w.Vals[i], q, id, x); !res.OK() {
			fail("harness:evidence-tx-rejected", "v%d: %v", i, res.Err)
			return
		}
	}
	in.c.cnt["c_transitions"] += 5
	err, panicked := world.Protect(func() error { return w.App.ConsensusKeeper.CheckAndProcessAttestedMessages(ctx) })
	if panicked {
		fail("attest:panic:CheckAndProcessAttestedMessages", "panic: %v", err)
		return
	}
	after, all, _ := in.findMsg(ctx, q, id)
	ci, _ := w.App.EvmKeeper.GetChainInfo(ctx, ref)
	switch x := x.(type) {
	case *evmtypes.ReferenceBlockAttestationRes:
		if err != nil || after != nil || ci.ReferenceBlockHeight != x.BlockHeight || ci.ReferenceBlockHash != x.BlockHash {
			fail("identity:different-evidence-grouped:same-type:CheckAndProcessAttestedMessages",
				"v%d supplied %s first, the other snapshot validators (>= 2/3) supplied %s; chain reference block is now (%d,%q) (err=%v, message still queued=%v)",
				first, describe(y), describe(x), ci.ReferenceBlockHeight, ci.ReferenceBlockHash, err, after != nil)
		}
	default:
		if err != nil || after != nil || len(all) != 1 {
			fail("identity:different-evidence-grouped:cross-type:CheckAndProcessAttestedMessages",
				"v%d supplied %s first, all snapshot validators supplied %s; CheckAndProcessAttestedMessages: err=%v, message still queued=%v, queue length %d (want: nil, removed, 1 retry)",
				first, describe(y), describe(x), err, after != nil, len(all))
		}
	}
}

func (in *integ) partCIdentity() {
	if in.c.shard != 0 {
		return
	}
	for _, v := range []string{"outsider-first", "minority-first", "cross-type-outsider-first"} {
		in.c.r.DistinctN++
		in.c.count("c_identity_scenarios")
		in.runIdentity(caseC{Part: "c", Kind: "identity", Variant: v})
	}
}

var cEst = []uint64{0, 3, 1<<63 + 1, ^uint64(0)}

// queueFor builds the real consensus.Queue over the consensus module's store,
// the way the keeper's unexported getConsensusQueue does.
func (in *integ) queueFor(ctx sdk.Context, name string) (consensus.Queue, error) {
	sq, err := in.w.App.EvmKeeper.SupportedQueues(ctx)
	if err != nil {
		return consensus.Queue{}, err
	}
	for _, o := range sq {
		if o.QueueTypeName == name {
			o.Sg = in.w.App.ConsensusKeeper
			o.Cdc = in.w.App.AppCodec()
			return consensus.NewQueue(o.QueueOptions)
		}
	}
	return consensus.Queue{}, fmt.Errorf("queue %s not supported", name)
}

func (in *integ) runEstimates(cs caseC) {
	w, r := in.w, in.c.r
	fail := func(sig, format string, a ...interface{}) {
		r.Violate(sig, fmt.Sprintf(format, a...)+fmt.Sprintf("\nscenario: logic-call message, stakes v0..v3=%v (snapshot total %s), v4 bonded outside the snapshot; estimates per validator v0..v4=%v (0 = none) reverse=%v", sharesStr(in.stakes), in.total, cs.Values, cs.Reverse), cs)
	}
	ctx := debugCtx(world.Fork(in.baseSLC))
	order := []int{0, 1, 2, 3, 4}
	if cs.Reverse {
		order = []int{4, 3, 2, 1, 0}
	}
	var vals []uint64
	sIn := new(big.Int)
	for _, i := range order {
		v := cEst[cs.Assign[i]]
		if v == 0 {
			continue
		}
		res := w.DeliverTx(ctx, []*world.Actor{w.Vals[i].Actor}, &consensustypes.MsgAddMessageGasEstimates{
			Metadata:  world.Meta(w.Vals[i].Actor),
			Estimates: []*consensustypes.MsgAddMessageGasEstimates_GasEstimate{{MsgId: in.slcID, QueueTypeName: in.turnQ, Value: v, EstimatedByAddress: w.Vals[i].EthAddr()}},
		})
		in.c.cnt["c_transitions"]++
		if !res.OK() {
			fail("harness:estimate-tx-rejected", "MsgAddMessageGasEstimates of v%d rejected at %s: %v", i, res.Stage, res.Err)
			return
		}
		vals = append(vals, v)
		if i < 4 {
			sIn.Add(sIn, in.stakes[i])
		}
	}
	err, panicked := world.Protect(func() error { return w.App.ConsensusKeeper.CheckAndProcessEstimatedMessages(ctx) })
	in.c.cnt["c_transitions"]++
	if panicked || err != nil {
		fail("estimate:panic-or-error:CheckAndProcessEstimatedMessages", "%v (panic=%v)", err, panicked)
		return
	}
	m, _, err := in.findMsg(ctx, in.turnQ, in.slcID)
	if err != nil || m == nil {
		fail("estimate:message-lost:CheckAndProcessEstimatedMessages", "message gone after estimate processing: %v", err)
		return
	}
	got := m.GetGasEstimate()
	if len(vals) == 0 || !quorum(sIn, in.total) {
		if got != 0 {
			fail("estimate:elected-without-two-thirds:CheckAndProcessEstimatedMessages", "estimate %d elected; submitters hold %s of %s snapshot shares", got, sIn, in.total)
		}
		return
	}
	med, min, max := refMedian(vals)
	g := new(big.Int).SetUint64(got)
	switch {
	case got == 0:
		fail("estimate:two-thirds-but-not-elected:CheckAndProcessEstimatedMessages", "submitters hold %s of %s snapshot shares, no estimate elected; exact median is %s", sIn, in.total, med)
		return
	case g.Cmp(min) < 0 || g.Cmp(max) > 0:
		fail("estimate:outside-submitted-range:CheckAndProcessEstimatedMessages", "elected estimate %d lies outside [lowest %s, highest %s] submitted; exact median is %s", got, min, max, med)
	case g.Cmp(med) != 0:
		fail("estimate:not-the-median:CheckAndProcessEstimatedMessages", "elected estimate %d, exact median is %s", got, med)
	}
	in.c.count("c_estimates_elected")
	// elected once: (i) the queue refuses a second election
	q, err := in.queueFor(ctx, in.turnQ)
	if err != nil {
		fail("harness:queue", "%v", err)
		return
	}
	c2 := world.Fork(ctx)
	other := got + 1
	if other == 0 {
		other = 7
	}
	err2 := q.SetElectedGasEstimate(c2, in.slcID, other)
	in.c.cnt["c_transitions"]++
	m2, _, _ := in.findMsg(c2, in.turnQ, in.slcID)
	if err2 == nil {
		fail("estimate:second-election-accepted:SetElectedGasEstimate", "SetElectedGasEstimate(%d) accepted after %d was elected; stored estimate now %d", other, got, m2.GetGasEstimate())
	} else if m2 == nil || m2.GetGasEstimate() != got {
		fail("estimate:changed-after-election:SetElectedGasEstimate", "second election refused (%v) but the stored estimate changed from %d", err2, got)
	}
	// (ii) late estimates and further end-blocks do not change it
	c3 := world.Fork(ctx)
	for _, i := range order {
		if cEst[cs.Assign[i]] != 0 {
			continue
		}
		res := w.DeliverTx(c3, []*world.Actor{w.Vals[i].Actor}, &consensustypes.MsgAddMessageGasEstimates{
			Metadata:  world.Meta(w.Vals[i].Actor),
			Estimates: []*consensustypes.MsgAddMessageGasEstimates_GasEstimate{{MsgId: in.slcID, QueueTypeName: in.turnQ, Value: 1, EstimatedByAddress: w.Vals[i].EthAddr()}},
		})
		in.c.cnt["c_transitions"]++
		_ = res // a refusal of a late estimate is fine too
	}
	err, panicked = world.Protect(func() error { return w.App.ConsensusKeeper.CheckAndProcessEstimatedMessages(c3) })
	in.c.cnt["c_transitions"]++
	if panicked || err != nil {
		fail("estimate:panic-or-error:CheckAndProcessEstimatedMessages", "second run: %v (panic=%v)", err, panicked)
		return
	}
	m3, _, _ := in.findMsg(c3, in.turnQ, in.slcID)
	if m3 == nil || m3.GetGasEstimate() != got {
		fail("estimate:changed-after-election:CheckAndProcessEstimatedMessages", "elected estimate %d changed after late estimates and another end-block", got)
	}
}

func (in *integ) partCEstimates() {
	idx := 0
	for _, rev := range []bool{false, true} {
		forEachVector(5, len(cEst), func(assign []int) {
			idx++
			if idx%in.c.nshards != in.c.shard || in.c.late() {
				return
			}
			vs := make([]string, 5)
			for i, a := range assign {
				vs[i] = fmt.Sprint(cEst[a])
			}
			cs := caseC{Part: "c", Kind: "estimates", Assign: append([]int(nil), assign...), Reverse: rev, Values: vs}
			in.c.r.DistinctN++
			in.c.count("c_estimate_scenarios")
			in.runEstimates(cs)
		})
	}
}

// ---------------------------------------------------------------------------
// (e) submission sequences through the real path, with re-submission by the
// same validator (same value / different value, any number of times, before
// and after the election): a tree of forks; every node is one signed tx (or
// the consensus end-block functions), and at every node the election /
// attestation is run on a throw-away fork and compared with the reference
// over DISTINCT submitters.

type caseE struct {
	Part string   `json:"part"`
	Kind string   `json:"kind"` // seq-estimates | seq-evidence
	Path []string `json:"path"` // "v2=X" (validator 2 submits value X), "E" (consensus end-block functions)
}

var seqEst = []uint64{50_000, 70_000} // X, Y
var seqNames = [2][2]string{{"X", "Y"}, {"A", "B"}}

type seqOp struct {
	V, X  int // validator 0..4 (4 = outside the snapshot), value index 0/1; V < 0: end-block
	Label string
}

func seqOps(kind int) []seqOp {
	var ops []seqOp
	for v := 0; v < 5; v++ {
		for x := 0; x < 2; x++ {
			ops = append(ops, seqOp{V: v, X: x, Label: fmt.Sprintf("v%d=%s", v, seqNames[kind][x])})
		}
	}
	return append(ops, seqOp{V: -1, Label: "E"})
}

type estGhost struct {
	Sub     [5][]uint64 // values of the accepted (tx OK) submissions per validator
	Elected uint64      // as stored after a committed end-block
}

func (g estGhost) clone() estGhost {
	n := g
	for i := range g.Sub {
		n.Sub[i] = append([]uint64(nil), g.Sub[i]...)
	}
	return n
}

func (in *integ) seqFail(kind string, path []string) func(sig, format string, a ...interface{}) {
	return func(sig, format string, a ...interface{}) {
		cs := caseE{Part: "e", Kind: kind, Path: append([]string(nil), path...)}
		in.c.r.Violate(sig, fmt.Sprintf(format, a...)+fmt.Sprintf("\nsequence: %v (stakes v0..v3=%v, snapshot total %s, v4 bonded outside the snapshot; X=%d Y=%d; E = CheckAndProcessEstimatedMessages + CheckAndProcessAttestedMessages)", path, sharesStr(in.stakes), in.total, seqEst[0], seqEst[1]), cs)
	}
}

// estCheck runs the election on a throw-away fork of ctx and judges it.
func (in *integ) estCheck(ctx sdk.Context, g estGhost, path []string) {
	w := in.w
	fail := in.seqFail("seq-estimates", path)
	c := world.Fork(ctx)
	err, panicked := world.Protect(func() error { return w.App.ConsensusKeeper.CheckAndProcessEstimatedMessages(c) })
	in.c.r.Evaluations++
	in.c.count("e_estimate_nodes")
	if panicked || err != nil {
		fail("estimate:panic-or-error:CheckAndProcessEstimatedMessages", "%v (panic=%v)", err, panicked)
		return
	}
	m, _, err := in.findMsg(c, in.turnQ, in.slcID)
	if err != nil || m == nil {
		fail("estimate:message-lost:CheckAndProcessEstimatedMessages", "message gone: %v", err)
		return
	}
	got := m.GetGasEstimate()
	if g.Elected != 0 {
		if got != g.Elected {
			fail("estimate:changed-after-election:CheckAndProcessEstimatedMessages", "estimate %d was elected, now %d", g.Elected, got)
		}
		return
	}
	sIn := new(big.Int)
	var who []int
	for i, s := range g.Sub {
		if len(s) == 0 {
			continue
		}
		who = append(who, i)
		if i < 4 {
			sIn.Add(sIn, in.stakes[i])
		}
	}
	q := len(who) > 0 && quorum(sIn, in.total)
	stored := make([]string, 0, len(m.GetGasEstimates()))
	for _, e := range m.GetGasEstimates() {
		for i, v := range w.Vals {
			if e.ValAddress.Equals(v.ValAddr) {
				stored = append(stored, fmt.Sprintf("v%d:%d", i, e.Value))
			}
		}
	}
	switch {
	case got == 0 && !q:
		in.c.count("e_estimate_nodes_refused")
	case got == 0:
		fail("estimate:two-thirds-but-not-elected:CheckAndProcessEstimatedMessages", "distinct submitters %v hold %s of %s snapshot shares, nothing elected (stored estimates %v)", who, sIn, in.total, stored)
	case !q:
		fail("estimate:elected-without-two-thirds-of-distinct-submitters:CheckAndProcessEstimatedMessages", "estimate %d elected; the distinct submitters %v hold only %s of %s snapshot shares (stored estimates %v)", got, who, sIn, in.total, stored)
	default:
		in.c.count("e_estimate_nodes_elected")
		// one value per distinct submitter: any of the values it got accepted
		ok := false
		var meds []string
		choice := make([]uint64, len(who))
		var rec func(k int)
		rec = func(k int) {
			if k == len(who) {
				med, _, _ := refMedian(choice)
				meds = append(meds, med.String())
				if med.IsUint64() && med.Uint64() == got {
					ok = true
				}
				return
			}
			seen := map[uint64]bool{}
			for _, v := range g.Sub[who[k]] {
				if !seen[v] {
					seen[v] = true
					choice[k] = v
					rec(k + 1)
				}
			}
		}
		rec(0)
		if !ok {
			fail("estimate:not-median-of-one-value-per-submitter:CheckAndProcessEstimatedMessages", "elected %d; medians over one accepted value per distinct submitter: %v (stored estimates %v)", got, meds, stored)
		}
	}
}

func (in *integ) estApply(ctx sdk.Context, g *estGhost, op seqOp) {
	w := in.w
	if op.V < 0 {
		_, _ = world.Protect(func() error {
			if err := w.App.ConsensusKeeper.CheckAndProcessEstimatedMessages(ctx); err != nil {
				return err
			}
			return w.App.ConsensusKeeper.CheckAndProcessAttestedMessages(ctx)
		})
		if m, _, _ := in.findMsg(ctx, in.turnQ, in.slcID); m != nil && g.Elected == 0 {
			g.Elected = m.GetGasEstimate()
		}
		in.c.cnt["c_transitions"]++
		return
	}
	res := w.DeliverTx(ctx, []*world.Actor{w.Vals[op.V].Actor}, world.Estimate(w.Vals[op.V], in.turnQ, in.slcID, seqEst[op.X]))
	in.c.cnt["c_transitions"]++
	if res.OK() {
		g.Sub[op.V] = append(g.Sub[op.V], seqEst[op.X])
		if len(g.Sub[op.V]) > 1 {
			in.c.count("e_resubmissions_accepted")
		}
	} else if len(g.Sub[op.V]) > 0 {
		in.c.count("e_resubmissions_rejected")
	}
}

type evGhost struct {
	Latest  [5]int // 0 none, 1 A, 2 B: latest accepted submission
	Removed bool
}

func (in *integ) evCheck(ctx sdk.Context, g evGhost, path []string) {
	w := in.w
	fail := in.seqFail("seq-evidence", path)
	vals := [3]proto.Message{nil, refA, refB}
	in.c.r.Evaluations++
	in.c.count("e_evidence_nodes")
	m, _, err := in.findMsg(ctx, in.refQ, in.refID)
	if err != nil || m == nil {
		fail("harness:message-lost-before-processing", "message not in queue: %v", err)
		return
	}
	nsub := 0
	for i, a := range g.Latest {
		if a == 0 {
			continue
		}
		nsub++
		cnt := 0
		for _, e := range m.GetEvidence() {
			if e.ValAddress.Equals(w.Vals[i].ValAddr) {
				cnt++
				want := wireAny(vals[a])
				if e.Proof.TypeUrl != want.TypeUrl || !bytes.Equal(e.Proof.Value, want.Value) {
					fail("resubmission:stored-evidence-not-latest:AddEvidence", "stored evidence of v%d is not its latest submission", i)
				}
			}
		}
		if cnt != 1 {
			fail("resubmission:validator-stored-more-than-once:AddEvidence", "v%d has %d evidence entries on the message, want 1", i, cnt)
		}
	}
	if len(m.GetEvidence()) != nsub {
		fail("resubmission:evidence-count:AddEvidence", "message holds %d evidence entries for %d distinct submitters", len(m.GetEvidence()), nsub)
	}
	want, sA, sB, _ := refWinner(in.stakes, g.Latest[:4])
	c := world.Fork(ctx)
	before := w.StoreDump(c, "evm", nil)
	err, panicked := world.Protect(func() error { return w.App.ConsensusKeeper.CheckAndProcessAttestedMessages(c) })
	if panicked || err != nil {
		fail("attest:panic-or-error:CheckAndProcessAttestedMessages", "%v (panic=%v)", err, panicked)
		return
	}
	after, _, _ := in.findMsg(c, in.refQ, in.refID)
	ci, _ := w.App.EvmKeeper.GetChainInfo(c, ref)
	if want == 0 {
		in.c.count("e_evidence_nodes_refused")
		if after == nil {
			fail("attest:removed-without-two-thirds:reference-block", "message removed; latest submissions of distinct snapshot validators: A holds %s, B holds %s of %s", sA, sB, in.total)
		} else if d := world.DiffDumps(before, w.StoreDump(c, "evm", nil)); len(d) != 0 {
			fail("attest:effects-without-two-thirds:reference-block", "message kept but evm state changed: %v", d)
		}
		return
	}
	in.c.count("e_evidence_nodes_declared")
	wv := vals[want].(*evmtypes.ReferenceBlockAttestationRes)
	if after != nil {
		fail("attest:two-thirds-not-processed:reference-block", "message still queued; value %d holds 2/3 (A %s, B %s of %s)", want, sA, sB, in.total)
	} else if ci.ReferenceBlockHeight != wv.BlockHeight || ci.ReferenceBlockHash != wv.BlockHash {
		fail("attest:wrong-effect:reference-block", "chain reference block is (%d,%s), 2/3 supplied (%d,%s)", ci.ReferenceBlockHeight, ci.ReferenceBlockHash, wv.BlockHeight, wv.BlockHash)
	}
}

func (in *integ) evApply(ctx sdk.Context, g *evGhost, op seqOp) {
	w := in.w
	in.c.cnt["c_transitions"]++
	if op.V < 0 {
		_, _ = world.Protect(func() error {
			if err := w.App.ConsensusKeeper.CheckAndProcessEstimatedMessages(ctx); err != nil {
				return err
			}
			return w.App.ConsensusKeeper.CheckAndProcessAttestedMessages(ctx)
		})
		m, _, _ := in.findMsg(ctx, in.refQ, in.refID)
		g.Removed = m == nil
		return
	}
	vals := [3]proto.Message{nil, refA, refB}
	if res := in.evidenceTx(ctx, w.Vals[op.V], in.refQ, in.refID, vals[op.X+1]); res.OK() {
		if g.Latest[op.V] != 0 {
			in.c.count("e_resubmissions_accepted")
		}
		g.Latest[op.V] = op.X + 1
	}
}

// seqTree explores every op sequence up to maxDepth (depth-first over forks).
func (in *integ) seqTree(kind int, maxDepth int) {
	ops := seqOps(kind)
	shardIdx := 0
	var recE func(ctx sdk.Context, g estGhost, path []string)
	var recV func(ctx sdk.Context, g evGhost, path []string)
	mine := func(depth int) (check, descend bool) {
		if in.c.late() {
			return false, false
		}
		switch {
		case depth < 2:
			return in.c.shard == 0, true
		case depth == 2:
			shardIdx++
			ok := shardIdx%in.c.nshards == in.c.shard
			return ok, ok
		}
		return true, true
	}
	recE = func(ctx sdk.Context, g estGhost, path []string) {
		check, descend := mine(len(path))
		if check {
			in.estCheck(ctx, g, path)
			in.c.r.DistinctN++
		}
		if !descend || len(path) == maxDepth {
			return
		}
		for _, op := range ops {
			c, ng := world.Fork(ctx), g.clone()
			in.estApply(c, &ng, op)
			recE(c, ng, append(path[:len(path):len(path)], op.Label))
		}
	}
	recV = func(ctx sdk.Context, g evGhost, path []string) {
		if g.Removed {
			return
		}
		check, descend := mine(len(path))
		if check {
			in.evCheck(ctx, g, path)
			in.c.r.DistinctN++
		}
		if !descend || len(path) == maxDepth {
			return
		}
		for _, op := range ops {
			c, ng := world.Fork(ctx), g
			in.evApply(c, &ng, op)
			recV(c, ng, append(path[:len(path):len(path)], op.Label))
		}
	}
	if kind == 0 {
		recE(debugCtx(world.Fork(in.baseSLC)), estGhost{}, nil)
	} else {
		recV(debugCtx(world.Fork(in.baseRef)), evGhost{}, nil)
	}
}

func (in *integ) partE() {
	depth := 4
	if in.c.r.Thorough() {
		depth = 5
	}
	in.seqTree(0, depth)
	in.seqTree(1, depth)
}

// replaySeq re-executes one path, judging every node on it.
func (in *integ) replaySeq(cs caseE) {
	kind := 0
	if cs.Kind == "seq-evidence" {
		kind = 1
	}
	byLabel := map[string]seqOp{}
	for _, op := range seqOps(kind) {
		byLabel[op.Label] = op
	}
	if kind == 0 {
		ctx, g := debugCtx(world.Fork(in.baseSLC)), estGhost{}
		in.estCheck(ctx, g, nil)
		for i, l := range cs.Path {
			in.estApply(ctx, &g, byLabel[l])
			in.estCheck(ctx, g, cs.Path[:i+1])
		}
		return
	}
	ctx, g := debugCtx(world.Fork(in.baseRef)), evGhost{}
	in.evCheck(ctx, g, nil)
	for i, l := range cs.Path {
		in.evApply(ctx, &g, byLabel[l])
		if g.Removed {
			return
		}
		in.evCheck(ctx, g, cs.Path[:i+1])
	}
}

// ---------------------------------------------------------------------------

func main() {
	replay := flag.String("replay", "", "replay file")
	flag.Parse()
	n := report.Workers()
	if *replay != "" {
		n = 1
	}
	report.Main("C04", "exploration", n, func(r *report.Run, shard, nshards int) {
		run(r, shard, nshards, *replay)
	})
}

func run(r *report.Run, shard, nshards int, replayFile string) {
	stakes := world.StakesOf(2_000_000, 3_000_000, 5_000_000, 5_000_000, 10_000_000)
	w := world.New(world.Config{Stakes: stakes})
	c := &checker{deadline: r.Deadline(150*time.Second, 25*time.Minute), r: r, shard: shard, nshards: nshards, cdc: w.App.AppCodec(), fams: families(), cnt: map[string]float64{}}
	r.Rule = "complete products, every element evaluated on the real function and compared with a math/big reference. " +
		"(a) VerifyEvidence: n=1..4 snapshot validators x shares^n over {1,2,3,5,10^18,2^62,2^80} (thorough: + 7, 2^64 for n<=3; quick: for n=4 the vectors up to renaming of validators) x every assignment to {A,B,none} x a validator outside the snapshot {absent,A,B} x every order of the evidence slice x proof families (4 for n<=3; n=4: error-proof, thorough + tx-proof without/with receipt). " +
		"(b) VerifyGasEstimates: the same share vectors x every subset of submitting validators x outsider {absent,present} x every multiset of estimates of that size (1..4 quick, 1..5 thorough) over {1,2,3,2^32,2^63-1,2^63,2^63+1,2^64-2,2^64-1}, ascending and highest-first. " +
		"(c) real application, 4 snapshot validators with stakes 2,3,5,5 (x10^6; 10 of 15 is exactly 2/3) + 1 bonded validator outside: every assignment of the 5 to {A,B,none} delivered as signed MsgAddEvidence txs (direct / first the other value then this one / twice; ascending and descending order) on the reference-block and the turnstone queue, then CheckAndProcessAttestedMessages; every assignment of the 5 to estimates {none,3,2^63+1,2^64-1} as signed MsgAddMessageGasEstimates, then CheckAndProcessEstimatedMessages, then a second SetElectedGasEstimate and late estimates. " +
		"(e) real application, same validators: every sequence of up to 4 (thorough 5) steps over {v0..v4 submits estimate X or Y as a signed MsgAddMessageGasEstimates, consensus end-block functions} on the logic-call message, and over {v0..v4 submits evidence A or B as a signed MsgAddEvidence, end-block functions} on the reference-block message - so every re-submission pattern by the same validator (same value, different value, 2..5 times, before and after the election, interleaved with others); after every step the election / attestation is run on a fork and compared with the reference over DISTINCT submitters (one value per submitter; latest evidence per submitter). " +
		"(d) every ordered pair of different evidence values from a small separator-aware alphabet: outsider supplies y first, all snapshot validators supply x."
	r.Assumptions = []string{
		"2/3 is read as 3*sum >= 2*total on the snapshot's shares (exactly 2/3 suffices)",
		"estimates of validators outside the snapshot take part in the median (only the quorum is required to come from snapshot shares); the property demands min <= elected <= max of all submitted values and that it is their median",
		"median of an even count = mean of the two middle values rounded down",
		"at the libcons level each validator appears at most once in the slice (AddEvidence / AddGasEstimate guarantee it; (c) checks that guarantee through real transactions)",
		"identical evidence (d) = equal proto messages of the same type",
		"(e) an elected estimate must be the median over one accepted value per distinct submitter (any of the values that validator got accepted, should a re-submission be accepted); a refused re-submission is fine",
	}
	if replayFile != "" {
		if shard == 0 {
			c.replay(w, replayFile)
		}
		return
	}
	t0 := cpuSeconds()
	c.partD()
	in, err := c.setupInteg(w)
	if err != nil {
		if shard == 0 {
			r.Violate("harness:integration-setup", err.Error(), nil)
		}
	} else {
		in.partCEvidence()
		in.partCEstimates()
		in.partCIdentity()
		te := cpuSeconds()
		in.partE()
		c.cnt["cpu_s_part_e"] = cpuSeconds() - te
	}
	t1 := cpuSeconds()
	c.cnt["cpu_s_part_c_d"] = t1 - t0
	c.partB()
	t2 := cpuSeconds()
	c.cnt["cpu_s_part_b"] = t2 - t1
	c.partA()
	c.cnt["cpu_s_part_a"] = cpuSeconds() - t2
	for k, v := range c.cnt {
		r.Extra[k] = v
	}
}

func cpuSeconds() float64 {
	var ru syscall.Rusage
	if err := syscall.Getrusage(syscall.RUSAGE_SELF, &ru); err != nil {
		return 0
	}
	return float64(ru.Utime.Sec+ru.Stime.Sec) + float64(ru.Utime.Usec+ru.Stime.Usec)/1e6
}

func (c *checker) replay(w *world.World, file string) {
	b, err := os.ReadFile(file)
	var v struct {
		Replay json.RawMessage `json:"replay"`
	}
	if err == nil {
		err = json.Unmarshal(b, &v)
	}
	var head struct {
		Part string `json:"part"`
	}
	if err == nil {
		err = json.Unmarshal(v.Replay, &head)
	}
	if err != nil {
		fmt.Fprintln(os.Stderr, err)
		os.Exit(2)
	}
	switch head.Part {
	case "a":
		var cs caseA
		_ = json.Unmarshal(v.Replay, &cs)
		shares := parseShares(cs.Shares)
		snap, _ := snapshotOf(shares)
		want, sA, sB, total := refWinner(shares, cs.Assign)
		c.evalA(newChecker(snap, c.cdc), c.fams[cs.Family], shares, cs.Assign, cs.Outsider, cs.Order, want, sA, sB, total)
	case "b":
		var cs caseB
		_ = json.Unmarshal(v.Replay, &cs)
		shares := parseShares(cs.Shares)
		snap, total := snapshotOf(shares)
		sIn := new(big.Int)
		for i, s := range cs.Submit {
			if s {
				sIn.Add(sIn, shares[i])
			}
		}
		var vals []uint64
		for _, s := range cs.Values {
			var x uint64
			fmt.Sscan(s, &x)
			vals = append(vals, x)
		}
		c.evalB(newChecker(snap, c.cdc), shares, cs.Submit, cs.Outsider, vals, quorum(sIn, total), sIn, total)
	case "c":
		var cs caseC
		_ = json.Unmarshal(v.Replay, &cs)
		in, err := c.setupInteg(w)
		if err != nil {
			fmt.Fprintln(os.Stderr, err)
			os.Exit(2)
		}
		if cs.Kind == "estimates" {
			in.runEstimates(cs)
		} else if cs.Kind == "identity" {
			in.runIdentity(cs)
		} else {
			in.runEvidence(cs)
		}
	case "e":
		var cs caseE
		_ = json.Unmarshal(v.Replay, &cs)
		in, err := c.setupInteg(w)
		if err != nil {
			fmt.Fprintln(os.Stderr, err)
			os.Exit(2)
		}
		in.replaySeq(cs)
	case "d":
		// the pair is identified by its description; re-run the (small) part
		c.partD()
	default:
		fmt.Fprintln(os.Stderr, "unknown replay part", head.Part)
		os.Exit(2)
	}
	c.r.Sample(json.RawMessage(v.Replay))
}
