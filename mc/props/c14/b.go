package main

import (
	"fmt"
	"sort"
	"strings"

	sdkmath "cosmossdk.io/math"
	sdk "github.com/cosmos/cosmos-sdk/types"
	"github.com/palomachain/paloma/v2/x/consensus/keeper/consensus"
	ctypes "github.com/palomachain/paloma/v2/x/consensus/types"
	evmtypes "github.com/palomachain/paloma/v2/x/evm/types"
	"github.com/palomachain/paloma/v2/zzverif/world"
)

// ---------------------------------------------------------------------------
// (b) relay gating

const (
	actS1 = iota // SubmitLogicCall sent by S1
	actS2        // SubmitLogicCall sent by S2
	actUV        // UpdateValset
)

const (
	estNone        = iota // estimate required, none elected yet
	estElected            // estimate required and elected (3 estimates + real election)
	estNotRequired        // message put without the gas-estimation flag (thorough tier)
)

const (
	repNone = iota
	repPublic
	repError
)

type slot struct{ Act, Assignee, Rep, Est int }

func decodeSlot(s int) slot {
	return slot{Act: s % 3, Assignee: (s / 3) % 2, Rep: (s / 6) % 3, Est: s / 18}
}

func (s slot) String() string {
	return []string{"SLC(S1)", "SLC(S2)", "UpdateValset"}[s.Act] + fmt.Sprintf("->v%d", s.Assignee) +
		[]string{",est:none", ",est:elected", ",est:not-required"}[s.Est] + []string{"", ",public-data", ",error-data"}[s.Rep]
}

type ghostMsg struct {
	ID uint64
	S  slot
}

func (e *env) nSlots() int {
	if e.r.Thorough() {
		return 54
	}
	return 36
}

// baseB: prepared state + relayer fee 1.0 for every validator (the election of
// a fee-paying message needs the assignee's fee record).
func (e *env) baseB() sdk.Context {
	ctx := world.Fork(e.w.Root)
	for _, v := range e.w.Vals {
		must(e.w.SetFee(ctx, v, target, "1.0"))
	}
	return ctx
}

// addMessage appends one message in the given state to the queue in ctx using
// the queue API the evm keeper uses, the estimate / report transactions and the
// real estimate election.
func (e *env) addMessage(ctx sdk.Context, s slot, seq int) (uint64, error) {
	id, err := e.addStem(ctx, s, seq)
	if err != nil {
		return 0, err
	}
	return id, e.addReport(ctx, s, id)
}

// addStem: put + (when asked for) estimates and the real election.
func (e *env) addStem(ctx sdk.Context, s slot, seq int) (uint64, error) {
	w := e.w
	v := w.Vals[s.Assignee]
	m := &evmtypes.Message{TurnstoneID: world.CompassID, ChainReferenceID: target, Assignee: v.ValAddr.String(),
		AssigneeRemoteAddress: e.snapA[s.Assignee], AssignedAtBlockHeight: sdkmath.NewInt(ctx.BlockHeight())}
	switch s.Act {
	case actS1, actS2:
		sender := e.s1
		if s.Act == actS2 {
			sender = e.s2
		}
		m.Action = &evmtypes.Message_SubmitLogicCall{SubmitLogicCall: &evmtypes.SubmitLogicCall{
			HexContractAddress: "0x00000000000000000000000000000000000000cc", Abi: []byte("[]"), Payload: []byte{0xde, 0xad, byte(seq)},
			Deadline: ctx.BlockTime().Unix() + 600, SenderAddress: sender.Addr}}
	default:
		m.Action = &evmtypes.Message_UpdateValset{UpdateValset: &evmtypes.UpdateValset{Valset: &evmtypes.Valset{
			Validators: e.snapA, Powers: []uint64{1431655765, 1431655765, 1431655765}, ValsetID: uint64(100 + seq)}}}
	}
	id, err := w.App.ConsensusKeeper.PutMessageInQueue(ctx, e.queue, m, &consensus.PutOptions{RequireSignatures: true, RequireGasEstimation: s.Est != estNotRequired})
	if err != nil {
		return 0, fmt.Errorf("put: %w", err)
	}
	if s.Est == estElected {
		for _, val := range w.Vals {
			if res := w.DeliverTx(ctx, []*world.Actor{val.Actor}, world.Estimate(val, e.queue, id, 21000)); !res.OK() {
				return 0, fmt.Errorf("estimate by %s: %w", val.Name, res.Err)
			}
		}
		if err := w.App.ConsensusKeeper.CheckAndProcessEstimatedMessages(ctx); err != nil {
			return 0, fmt.Errorf("election: %w", err)
		}
	}
	return id, nil
}

// addReport: the assignee's delivery / error report transaction.
func (e *env) addReport(ctx sdk.Context, s slot, id uint64) error {
	w := e.w
	v := w.Vals[s.Assignee]
	switch s.Rep {
	case repPublic:
		if res := w.DeliverTx(ctx, []*world.Actor{v.Actor}, &ctypes.MsgSetPublicAccessData{MessageID: id, QueueTypeName: e.queue, Data: []byte{0xab, 0xcd}, ValsetID: e.baseSnap.Id, Metadata: world.Meta(v.Actor)}); !res.OK() {
			return fmt.Errorf("public access data: %w", res.Err)
		}
	case repError:
		if res := w.DeliverTx(ctx, []*world.Actor{v.Actor}, &ctypes.MsgSetErrorData{MessageID: id, QueueTypeName: e.queue, Data: []byte("reverted"), Metadata: world.Meta(v.Actor)}); !res.OK() {
			return fmt.Errorf("error data: %w", res.Err)
		}
	}
	return nil
}

// children builds the successors of a queue state lazily: the three report
// variants of a slot share one stem (put + election), forked per variant.
type children struct {
	e      *env
	parent sdk.Context
	seq    int
	stems  map[int]stem
}

type stem struct {
	ctx sdk.Context
	id  uint64
	err error
}

func (e *env) childrenOf(parent sdk.Context, seq int) *children {
	return &children{e: e, parent: parent, seq: seq, stems: map[int]stem{}}
}

func (c *children) get(si int) (sdk.Context, uint64, error) {
	s := decodeSlot(si)
	key := si - 6*s.Rep // same act, assignee, est; report none
	st, ok := c.stems[key]
	if !ok {
		st.ctx = world.Fork(c.parent)
		st.id, st.err = c.e.addStem(st.ctx, s, c.seq)
		c.stems[key] = st
	}
	if st.err != nil {
		return st.ctx, 0, st.err
	}
	ctx := world.Fork(st.ctx)
	return ctx, st.id, c.e.addReport(ctx, s, st.id)
}

// verifyStored checks that the stored queue is exactly what the ghost says
// (harness self-check: the state under test is the state described).
func (e *env) verifyStored(ctx sdk.Context, gs []ghostMsg) error {
	msgs := e.w.Queue(ctx, e.queue)
	if len(msgs) != len(gs) {
		return fmt.Errorf("%d messages stored, ghost has %d", len(msgs), len(gs))
	}
	for i, m := range msgs {
		g := gs[i]
		if m.GetId() != g.ID {
			return fmt.Errorf("position %d: id %d, ghost %d", i, m.GetId(), g.ID)
		}
		if (m.GetGasEstimate() > 0) != (g.S.Est == estElected) || m.GetRequireGasEstimation() != (g.S.Est != estNotRequired) {
			return fmt.Errorf("message %d: estimate %d require=%v, ghost %s", g.ID, m.GetGasEstimate(), m.GetRequireGasEstimation(), g.S)
		}
		if (m.GetPublicAccessData() != nil) != (g.S.Rep == repPublic) || (m.GetErrorData() != nil) != (g.S.Rep == repError) {
			return fmt.Errorf("message %d: report state differs from ghost %s", g.ID, g.S)
		}
		cm, err := m.ConsensusMsg(e.w.App.AppCodec())
		em, _ := cm.(*evmtypes.Message)
		if err != nil || em == nil || em.Assignee != e.w.Vals[g.S.Assignee].ValAddr.String() {
			return fmt.Errorf("message %d: assignee differs from ghost %s", g.ID, g.S)
		}
		if g.S.Est == estElected && g.S.Act != actUV {
			if f := em.GetSubmitLogicCall().GetFees(); f == nil || f.RelayerFee != 21000 {
				return fmt.Errorf("message %d: elected but fees %v", g.ID, f)
			}
		}
	}
	return nil
}

// reference decides, from the ghost alone, whether message k is to be offered
// to validator caller; reason names the first failing condition.
func reference(gs []ghostMsg, k, caller int) (bool, string) {
	g := gs[k]
	if g.S.Assignee != caller {
		return false, "not-the-assignee"
	}
	if g.S.Est == estNone {
		return false, "estimate-not-elected"
	}
	if g.S.Rep != repNone {
		return false, "already-reported"
	}
	for _, o := range gs {
		if o.S.Act == actUV { // oldest UpdateValset still in the queue
			if g.ID > o.ID {
				return false, "ahead-of-older-valset-update"
			}
			break
		}
	}
	if g.S.Act != actUV {
		for _, o := range gs[:k] {
			if o.S.Act == g.S.Act && o.S.Rep == repNone {
				return false, "older-message-of-same-sender-pending"
			}
		}
	}
	return true, ""
}

func describe(gs []ghostMsg) string {
	var p []string
	for _, g := range gs {
		p = append(p, fmt.Sprintf("#%d %s", g.ID, g.S))
	}
	return "[" + strings.Join(p, " | ") + "]"
}

func (e *env) checkB(ctx sdk.Context, gs []ghostMsg, path []int) {
	w, r := e.w, e.r
	rec := replayRec{Part: "b", B: append([]int(nil), path...)}
	if err := e.verifyStored(ctx, gs); err != nil {
		r.Violate("harness:b:queue-differs-from-ghost", fmt.Sprintf("queue %s: %v", describe(gs), err), rec)
		return
	}
	e.count("b_queues")
	for caller, v := range w.Vals {
		if caller == 2 && !r.Thorough() {
			continue // quick tier: v2 (never an assignee) is only queried in the thorough tier
		}
		r.Case("")
		nontrivial := false
		got := map[uint64]bool{}
		msgs, err := w.App.ConsensusKeeper.GetMessagesForRelaying(ctx, e.queue, v.ValAddr)
		if err != nil {
			r.Violate("gating:query-failed", fmt.Sprintf("queue %s caller v%d: %v", describe(gs), caller, err), rec)
			continue
		}
		for _, m := range msgs {
			got[m.GetId()] = true
		}
		// the gRPC query: every caller in the thorough tier, the first assignee's in quick
		grpc := got
		if r.Thorough() || caller == gs[0].S.Assignee {
			resp, err := w.App.ConsensusKeeper.QueuedMessagesForRelaying(ctx, &ctypes.QueryQueuedMessagesForRelayingRequest{QueueTypeName: e.queue, ValAddress: v.ValAddr})
			if err != nil {
				r.Violate("gating:grpc-query-failed", fmt.Sprintf("queue %s caller v%d: %v", describe(gs), caller, err), rec)
				continue
			}
			grpc = map[uint64]bool{}
			for _, m := range resp.Messages {
				grpc[m.Id] = true
			}
			e.count("b_grpc_queries")
		}
		offered := 0
		for k, g := range gs {
			if g.S.Assignee == caller {
				nontrivial = true
			}
			want, reason := reference(gs, k, caller)
			if got[g.ID] != grpc[g.ID] {
				r.Violate("gating:grpc-differs-from-keeper", fmt.Sprintf("queue %s caller v%d message #%d: keeper offered=%v grpc offered=%v", describe(gs), caller, g.ID, got[g.ID], grpc[g.ID]), rec)
			}
			switch {
			case got[g.ID] && !want:
				r.Violate("gating:offered:"+reason, fmt.Sprintf("queue %s: message #%d is offered to v%d although: %s", describe(gs), g.ID, caller, reason), rec)
			case !got[g.ID] && want:
				r.Violate("gating:withheld-eligible", fmt.Sprintf("queue %s: message #%d satisfies every condition for v%d but is not offered", describe(gs), g.ID, caller), rec)
			}
			if got[g.ID] {
				offered++
			}
		}
		if len(got) != offered {
			r.Violate("gating:offered-unknown-message", fmt.Sprintf("queue %s caller v%d: %d messages offered, %d of them in the queue", describe(gs), caller, len(got), offered), rec)
		}
		if nontrivial {
			r.DistinctN++
		}
		e.count(fmt.Sprintf("b_queries_offering_%d", offered))
		if len(gs) == 3 && caller == 0 && offered == 2 && path[0] == 19 && path[2]%5 == 0 {
			e.sample("b", map[string]interface{}{"part": "b", "queue": describe(gs), "caller": "v0", "offered": keys(got)})
		}
	}
}

func keys(m map[uint64]bool) []uint64 {
	var out []uint64
	for k := range m {
		out = append(out, k)
	}
	sort.Slice(out, func(i, j int) bool { return out[i] < out[j] })
	return out
}

func (e *env) partB(shard, nshards int) {
	n := e.nSlots()
	base := e.baseB()
	e.r.Extra["b_slot_options"] = fmt.Sprintf("%d per message, queues of 1..3", n)
	k1 := e.childrenOf(base, 1)
	for s1 := 0; s1 < n; s1++ {
		var c1 sdk.Context
		var g1 []ghostMsg
		var k2 *children
		for s2 := 0; s2 < n; s2++ {
			if (s1*n+s2)%nshards != shard {
				continue
			}
			if e.expired("b") {
				return
			}
			if k2 == nil { // first use of this depth-1 queue by this shard
				var id1 uint64
				var err error
				c1, id1, err = k1.get(s1)
				if err != nil {
					e.r.Violate("harness:b:build", fmt.Sprintf("cannot build %s: %v", decodeSlot(s1), err), replayRec{Part: "b", B: []int{s1}})
					break
				}
				g1 = []ghostMsg{{id1, decodeSlot(s1)}}
				k2 = e.childrenOf(c1, 2)
				if s1%nshards == shard {
					e.checkB(c1, g1, []int{s1})
				}
			}
			c2, id2, err := k2.get(s2)
			if err != nil {
				e.r.Violate("harness:b:build", fmt.Sprintf("cannot build %s after %s: %v", decodeSlot(s2), describe(g1), err), replayRec{Part: "b", B: []int{s1, s2}})
				continue
			}
			g2 := append(append([]ghostMsg(nil), g1...), ghostMsg{id2, decodeSlot(s2)})
			e.checkB(c2, g2, []int{s1, s2})
			k3 := e.childrenOf(c2, 3)
			for s3 := 0; s3 < n; s3++ {
				c3, id3, err := k3.get(s3)
				if err != nil {
					e.r.Violate("harness:b:build", fmt.Sprintf("cannot build %s after %s: %v", decodeSlot(s3), describe(g2), err), replayRec{Part: "b", B: []int{s1, s2, s3}})
					continue
				}
				g3 := append(append([]ghostMsg(nil), g2...), ghostMsg{id3, decodeSlot(s3)})
				e.checkB(c3, g3, []int{s1, s2, s3})
			}
		}
		if k2 == nil && s1%nshards == shard { // depth-1 queue owned by this shard but no depth-2 prefix is
			c1, id1, err := k1.get(s1)
			if err == nil {
				e.checkB(c1, []ghostMsg{{id1, decodeSlot(s1)}}, []int{s1})
			}
		}
	}
}

func (e *env) replayB(path []int) {
	ctx := e.baseB()
	var gs []ghostMsg
	for i, s := range path {
		id, err := e.addMessage(ctx, decodeSlot(s), i+1)
		if err != nil {
			e.r.Violate("harness:b:build", err.Error(), replayRec{Part: "b", B: path})
			return
		}
		gs = append(gs, ghostMsg{id, decodeSlot(s)})
		e.checkB(ctx, gs, path[:i+1])
	}
}
