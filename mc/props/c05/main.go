// C05 — what validators sign binds the whole message; message ids are never
// reused.
//
// Part 1 (bounded input enumeration): for every action type the full Cartesian
// product of small per-field alphabets over the values that are handed to the
// bridge contract on delivery is evaluated on the real signing-bytes functions
// (QueuedSignedMessage.GetBytesToSign after a store round trip for the five
// turnstone actions, NewInternalOutgingTxBatch / GetCheckpoint for the skyway
// batch); the map tuple -> bytes must be injective on the whole product.
//
// Part 2 (explicit-state BFS): Put / Replace / Remove through the real
// ConsensusKeeper on the four EVM queue types of two chains; every freshly
// allocated id must exceed every id ever allocated, in every queue of every
// chain, and an id must never live in two queues or come back after removal.
package main

import (
	"crypto/sha256"
	"encoding/hex"
	"encoding/json"
	"flag"
	"fmt"
	"math"
	"math/big"
	"os"
	"runtime"
	"runtime/debug"
	"sort"
	"strings"
	"sync"
	"time"

	sdkmath "cosmossdk.io/math"
	"github.com/cosmos/cosmos-sdk/codec"
	codectypes "github.com/cosmos/cosmos-sdk/codec/types"
	sdk "github.com/cosmos/cosmos-sdk/types"
	"github.com/cosmos/gogoproto/proto"
	xchain "github.com/palomachain/paloma/v2/internal/x-chain"
	"github.com/palomachain/paloma/v2/x/consensus/keeper/consensus"
	consensustypes "github.com/palomachain/paloma/v2/x/consensus/types"
	evmkeeper "github.com/palomachain/paloma/v2/x/evm/keeper"
	evmtypes "github.com/palomachain/paloma/v2/x/evm/types"
	skywaytypes "github.com/palomachain/paloma/v2/x/skyway/types"
	"github.com/palomachain/paloma/v2/zzverif/explore"
	"github.com/palomachain/paloma/v2/zzverif/report"
	"github.com/palomachain/paloma/v2/zzverif/world"
)

func main() {
	replay := flag.String("replay", "", "replay file")
	flag.Parse()
	n := report.Workers()
	report.Main("C05", "exploration", n, func(r *report.Run, shard, nshards int) { run(r, shard, nshards, *replay) })
}

func must(err error) {
	if err != nil {
		panic(err)
	}
}

func run(r *report.Run, shard, nshards int, replayFile string) {
	w := world.New(world.Config{Stakes: world.StakesOf(1_000_000, 1_000_000, 1_000_000), Users: []string{"adm", "U1"}, Height: 101})
	must(w.StdChain(w.Root, chainRefs[0]))
	// part 2 runs on a fork with a second chain, part 3 on a fork with live items
	idRoot := world.Fork(w.Root)
	must(w.AddChain(idRoot, chainRefs[1], 56, 1))

	r.Rule = "part 1: per action type (SubmitLogicCall, UpdateValset, CompassHandover, UploadUserSmartContract, UploadSmartContract, skyway batch) the full Cartesian product of per-field alphabets over the values handed to the bridge contract on delivery (plus turnstone id where the scheme hashes it) is evaluated on the real QueuedSignedMessage.GetBytesToSign (after the Marshal/UnmarshalInterface round trip the queue store performs) resp. NewInternalOutgingTxBatch/GetCheckpoint; tuple -> signing bytes must be injective on the whole product (hash-set collision check, evaluations = tuples, distinct = distinct signing bytes). part 2: BFS over Put / Replace / Remove / Replace-of-removed-id / Replace-of-foreign-id through ConsensusKeeper.PutMessageInQueue and DeleteJob on the four EVM queue types of two chains; every freshly allocated id > every id ever allocated, ids of all queues pairwise distinct and equal to the reference sets (states/transitions in coverage.id_states / id_transitions). part 3 (views): BFS over Sign / Estimate x3 + election + fee attachment / ReassignTo (real Queue.ReassignValidator) / ReassignOrphaned (real keeper path) / Replace / Remove / Enqueue (scheduler job) / ReplaceCompass (ActivateChainReferenceID, new deployment id) / Confirm / EstimateBatch x3 + skyway end-blocker, from a state with an open batch, a SubmitLogicCall and an UpdateValset, on the application's own keepers; the signing queries (QueuedMessagesForSigning per validator, MessagesInQueue, LastPendingBatchRequestByAddr per validator, BatchRequestByNonce) are polled before and after every operation and must return the reference bytes of each item as it now stands; after every operation a validator that never signs submits, on throw-away forks, really signed MsgAddMessagesSignatures / MsgConfirmBatch txs over the reference bytes (must be accepted) and over the reference with one delivered field changed - relayer (the previous one after a reassignment), deployment id, message id / batch nonce, gas estimate, payload / valset id / amount, fees, deadline / timeout - (must be rejected)"
	r.Assumptions = []string{
		"'delivered' values are the arguments VerifyAgainstTX packs for the compass call of each action (eth_txable.go) and the submit_batch arguments for a batch; turnstone id is added where the present scheme hashes it (SubmitLogicCall, UpdateValset, UploadUserSmartContract, batch; not CompassHandover)",
		"domains are at the level of the delivered value: 20-byte addresses (not hex spellings), bytes32 turnstone ids; fee payers are raw account bytes of 20 and 32 bytes (32-byte values that differ only in their first / only in their last 12 bytes, and one that ends in a 20-byte payer), pairwise distinct after the left-padding to bytes32 that VerifyAgainstTX applies (asserted at start-up), gas estimate and fees over elected/computed values (>= 1, Fees non-nil) - 0 / nil mean 'not yet elected' and collide with the pigeon defaults 300000 / 100000 by design; both defaults are in the alphabets",
		"UploadSmartContract is a plain contract-creation transaction: no compass call, no signature is handed to any contract. Only bytecode and message id are required to influence the bytes; Abi, ConstructorInput (appended to the creation code, compared byte-for-byte by VerifyAgainstTX) and Retries are NOT covered by the signing bytes and are excluded",
		"address-typed values carried as hex strings (contract, deployer, validators, forward-call targets, relayer) reach the hashers and VerifyAgainstTX only through common.HexToAddress, so their delivered domain is 20 bytes; SubmitLogicCall.ContractAddress ([]byte) is read by neither side",
		"not delivered, therefore excluded: SubmitLogicCall.Abi/ContractAddress/ExecutionRequirements/Retries, UploadUserSmartContract.BlockHeight/Id/Retries, CompassHandover.Id, Message.ChainReferenceID/CompassAddr/Assignee/AssignedAtBlockHeight, message id and turnstone id for CompassHandover, gas estimate for SubmitLogicCall/UploadUserSmartContract, batch PalomaBlockCreated/ChainReferenceID/Assignee and transfer id/sender/bridge tax",
		"views: the reference bytes of an item are computed by this check from the item's current field values (read as fields from the stored item, re-assembled into fresh structs, hashed by the real hashers which part 1 shows to be injective). For a queue message the deployment id is the message's own stored TurnstoneID field (a compass replacement does not rewrite queued messages; their bytes stay bound to the deployment they were created for, and that is what AddSignature verifies). For a batch the ACCEPTED bytes must be the checkpoint under the chain's CURRENT deployment id",
		"views, weaker reading for what the batch queries publish: the tree does not re-issue the stored BytesToSign of an open batch when the compass is replaced (only at the next estimate election), so after a replacement the published checkpoint is still the one bound to the previous deployment id while ConfirmBatch accepts only the current one (validators that sign what is published are refused until the batch is re-estimated or times out; no signature is collected for the wrong deployment). The published checkpoint is therefore compared with the reference for the deployment id at its last (re)issue, and polls of a checkpoint that is stale in this sense are counted (views_info_batch_checkpoint_polled_while_bound_to_previous_deployment), not judged - same reading as C06",
		"views: probes are signed by the last validator, which never signs or confirms through an operation (so a rejection is never a duplicate-signature rejection); the in-memory state of the keepers is shared by all explored branches, which is intended (a query-side memo must not change what is handed out)",
		"replace (PutOptions.MsgIDToReplace) keeps the id of the replaced message by design: it must return exactly that id, allocate nothing, and fail for an id that is not live in that very queue",
		"BatchQueue (separate counter consensus-batch-queue-counter-) is instantiated by no module registered on this tree (no caller of WithBatch); only the plain Queue is explored",
		"BFS nodes do not retain their forked context (memory): hash and invariant are evaluated on the real forked state right after the operation; a node that is expanded gets its state rebuilt by re-executing its state-changing calls on a fresh fork of the root and must hash to the recorded value (harness panic otherwise)",
		"BFS state hash = reference id sets + key set of the consensus store + id counter values; message bodies are dropped from the hash (id allocation reads only the counter and key presence)",
	}

	if replayFile != "" {
		if shard == 0 {
			doReplay(r, w, idRoot, replayFile)
		}
		return
	}

	// C05_ONLY=inj|ids restricts a run to one part (used for mutation demos only;
	// such a run reports exhaustive=false).
	only := os.Getenv("C05_ONLY")
	if only != "" {
		r.Cap("C05_ONLY=" + only)
	}

	// ---- part 1
	acts := actions(w.App.AppCodec(), r.Thorough())
	var total, distinct int64
	for i, a := range acts {
		if i%nshards != shard || only == "ids" || only == "views" {
			continue
		}
		n, d := checkInjective(r, a)
		total += n
		distinct += d
		r.Extra["alphabet_sizes_"+a.Name] = fieldSizes(a)
		r.Extra["tuples_"+a.Name] = float64(n)
	}
	if shard == 0 && only != "ids" && only != "views" {
		// informational (see Assumptions): the constructor input of a plain compass
		// deployment is not covered by the signing bytes.
		r.Extra["info_UploadSmartContract_bytes_ignore_constructor_input"] = uscIgnoresConstructorInput(w.App.AppCodec())
		n, d := checkPooled(r, acts)
		r.Extra["cross_action_pooled_tuples"] = float64(n)
		r.Extra["cross_action_pooled_distinct"] = float64(d)
	}
	r.Evaluations += total
	r.DistinctN += distinct
	if extMismatch > 0 {
		r.Extra["batch_external_checkpoint_mismatches"] = float64(extMismatch)
	}

	if only == "inj" {
		return
	}

	// ---- part 3 (before part 2: it is the smaller search)
	if only != "ids" {
		ve := newViewEnv(w, r, w.Root)
		vspec := ve.spec(shard, nshards)
		vres := explore.Run(r, vspec)
		ve.export(r, vres, shard, vspec)
		r.Evaluations += ve.askedChecked + ve.probes
		r.DistinctN += vres.States
	}
	if only == "views" {
		return
	}

	// ---- part 2
	e := newIDEnv(w, idRoot, r.Thorough())
	spec := e.spec(r, shard, nshards)
	debug.SetGCPercent(200)
	res := explore.Run(r, spec)
	r.Extra["id_states"] = float64(res.States)
	r.Extra["id_transitions"] = float64(res.Transitions)
	r.Extra["id_fresh_ids_checked"] = float64(e.fresh)
	r.Extra["id_replace_ok"] = float64(e.replaced)
	r.Extra["id_replace_refused"] = float64(e.refused)
	r.Extra["id_removed"] = float64(e.removed)
	r.Extra["id_states_rebuilt_and_rehashed"] = float64(e.rebuilt)
	if shard == 0 {
		r.Extra["id_depth_completed"] = float64(res.DepthCompleted)
		r.Extra["id_depth_bound"] = float64(spec.MaxDepth)
	}
	r.Evaluations += res.Transitions
	r.DistinctN += res.States
	// this check is an input enumeration + a small BFS; the report level is
	// "exploration", so fold the BFS counters into evaluations only.
}

// ===========================================================================
// part 1: injectivity of the signing bytes

type field struct {
	Name string
	N    int
	Show func(i int) string
}

type action struct {
	Name   string
	Fields []field
	// Eval computes the real signing bytes of the tuple ix (one index per field).
	Eval func(ix []int) ([]byte, error)
}

func fieldSizes(a action) map[string]int {
	m := map[string]int{}
	for _, f := range a.Fields {
		m[f.Name] = f.N
	}
	return m
}

func (a action) size() int {
	n := 1
	for _, f := range a.Fields {
		n *= f.N
	}
	return n
}

func (a action) decode(lin int) []int {
	ix := make([]int, len(a.Fields))
	for i := len(a.Fields) - 1; i >= 0; i-- {
		ix[i] = lin % a.Fields[i].N
		lin /= a.Fields[i].N
	}
	return ix
}

func (a action) show(ix []int) map[string]string {
	m := map[string]string{}
	for i, f := range a.Fields {
		m[f.Name] = f.Show(ix[i])
	}
	return m
}

func (a action) diff(x, y []int) []string {
	var d []string
	for i := range x {
		if x[i] != y[i] {
			d = append(d, a.Fields[i].Name)
		}
	}
	return d
}

// evalAll computes the signing bytes of tuples [0,n) in parallel.
func evalAll(a action, lins []int) ([][32]byte, []error) {
	out := make([][32]byte, len(lins))
	errs := make([]error, len(lins))
	g := runtime.GOMAXPROCS(0)
	if g > 16 {
		g = 16
	}
	var wg sync.WaitGroup
	for k := 0; k < g; k++ {
		wg.Add(1)
		go func(k int) {
			defer wg.Done()
			for j := k; j < len(lins); j += g {
				func() {
					defer func() {
						if p := recover(); p != nil {
							errs[j] = fmt.Errorf("panic: %v", p)
						}
					}()
					b, err := a.Eval(a.decode(lins[j]))
					if err == nil && len(b) != 32 {
						err = fmt.Errorf("signing bytes have length %d, want 32", len(b))
					}
					if err != nil {
						errs[j] = err
						return
					}
					copy(out[j][:], b)
				}()
			}
		}(k)
	}
	wg.Wait()
	return out, errs
}

func collisionReplay(a action, x, y []int, hx [32]byte) map[string]interface{} {
	return map[string]interface{}{
		"kind": "injectivity", "action": a.Name, "tuple_a": a.show(x), "tuple_b": a.show(y),
		"index_a": x, "index_b": y, "signing_bytes": hex.EncodeToString(hx[:]),
	}
}

func checkInjective(r *report.Run, a action) (n, distinct int64) {
	size := a.size()
	lins := make([]int, size)
	for i := range lins {
		lins[i] = i
	}
	hs, errs := evalAll(a, lins)
	seen := make(map[[32]byte]int32, size)
	for i := 0; i < size; i++ {
		if errs[i] != nil {
			r.Violate("eval-error:"+a.Name, fmt.Sprintf("%s: signing bytes of %v cannot be computed: %v", a.Name, a.show(a.decode(i)), errs[i]),
				map[string]interface{}{"kind": "eval", "action": a.Name, "index_a": a.decode(i)})
			continue
		}
		if j, ok := seen[hs[i]]; ok {
			x, y := a.decode(int(j)), a.decode(i)
			d := a.diff(x, y)
			r.Violate("not-injective:"+a.Name+":"+strings.Join(d, "+"),
				fmt.Sprintf("%s: two messages that differ in {%s} have the same signing bytes %x\n A = %v\n B = %v", a.Name, strings.Join(d, ", "), hs[i][:], a.show(x), a.show(y)),
				collisionReplay(a, x, y, hs[i]))
			continue
		}
		seen[hs[i]] = int32(i)
		if i == size/3 || i == size-1 {
			r.Sample(map[string]interface{}{"action": a.Name, "tuple": a.show(a.decode(i)), "signing_bytes": hex.EncodeToString(hs[i][:])})
		}
	}
	return int64(size), int64(len(seen))
}

// checkPooled puts the sub-product {first two values of every field} of all
// action types into one set: signing bytes of different action types must differ.
func checkPooled(r *report.Run, acts []action) (n, distinct int64) {
	type origin struct {
		a   int
		lin int
	}
	seen := map[[32]byte]origin{}
	for ai, a := range acts {
		var lins []int
		size := a.size()
		for lin := 0; lin < size; lin++ {
			ok := true
			for _, v := range a.decode(lin) {
				if v > 1 {
					ok = false
					break
				}
			}
			if ok {
				lins = append(lins, lin)
			}
		}
		hs, errs := evalAll(a, lins)
		for i, lin := range lins {
			if errs[i] != nil {
				continue // reported by checkInjective
			}
			n++
			if o, ok := seen[hs[i]]; ok {
				if o.a != ai {
					b := acts[o.a]
					r.Violate("cross-action:"+b.Name+"/"+a.Name,
						fmt.Sprintf("a %s and a %s have the same signing bytes %x\n A = %v\n B = %v", b.Name, a.Name, hs[i][:], b.show(b.decode(o.lin)), a.show(a.decode(lin))),
						map[string]interface{}{"kind": "cross-action", "action_a": b.Name, "action_b": a.Name, "index_a": b.decode(o.lin), "index_b": a.decode(lin)})
				}
				continue
			}
			seen[hs[i]] = origin{ai, lin}
		}
	}
	return n, int64(len(seen))
}

// --------------------------------------------------------------------------
// alphabets (values at the level of what the contract receives)

func pick[T any](thorough bool, quick []T, extra ...T) []T {
	if thorough {
		return append(append([]T{}, quick...), extra...)
	}
	return quick
}

func scalar[T any](name string, vals []T, show func(T) string) field {
	return field{Name: name, N: len(vals), Show: func(i int) string { return show(vals[i]) }}
}

func showStr(s string) string      { return fmt.Sprintf("%q", s) }
func showU64(u uint64) string      { return fmt.Sprintf("%d", u) }
func showI64(u int64) string       { return fmt.Sprintf("%d", u) }
func showBytes(b []byte) string    { return fmt.Sprintf("0x%x(%dB)", b, len(b)) }
func showAddr(s string) string     { return s }
func showInt(i sdkmath.Int) string { return i.String() }

// seqs lists every sequence over {0..k-1} with minLen <= length <= maxLen.
func seqs(k, minLen, maxLen int) [][]int {
	var out [][]int
	cur := [][]int{{}}
	for l := 0; l <= maxLen; l++ {
		if l >= minLen {
			out = append(out, cur...)
		}
		var next [][]int
		for _, s := range cur {
			for v := 0; v < k; v++ {
				next = append(next, append(append([]int{}, s...), v))
			}
		}
		cur = next
	}
	return out
}

func listField(name string, ss [][]int, showElem func(int) string) field {
	return field{Name: name, N: len(ss), Show: func(i int) string {
		var p []string
		for _, v := range ss[i] {
			p = append(p, showElem(v))
		}
		return "[" + strings.Join(p, " ") + "]"
	}}
}

// mustDistinctPadded: the alphabet must be pairwise distinct at the level of
// the delivered value (left-padded to bytes32 exactly as eth_txable.go does).
func mustDistinctPadded(vals [][]byte) {
	seen := map[[32]byte]int{}
	for i, v := range vals {
		if len(v) > 32 {
			panic("harness: fee payer longer than 32 bytes")
		}
		padded := [32]byte(append(rep(0, 32-len(v)), v...))
		if j, dup := seen[padded]; dup {
			panic(fmt.Sprintf("harness: fee payer values %d and %d are the same bytes32", j, i))
		}
		seen[padded] = i
	}
}

func be64(u uint64) []byte {
	b := make([]byte, 8)
	for i := 7; i >= 0; i-- {
		b[i] = byte(u)
		u >>= 8
	}
	return b
}

func rep(b byte, n int) []byte { return []byte(strings.Repeat(string([]byte{b}), n)) }

var fixedTime = time.Unix(1_700_000_000, 0).UTC()

// turnstoneBytes is the real path from a turnstone message to the bytes the
// validators are given: pack into Any, store encoding (Queue.save), store
// decoding (Queue.GetMsgByID), QueuedSignedMessage.GetBytesToSign.
func turnstoneBytes(cdc codec.Codec, msg *evmtypes.Message, id, gas uint64) ([]byte, error) {
	anyMsg, err := codectypes.NewAnyWithValue(msg)
	if err != nil {
		return nil, err
	}
	q := &consensustypes.QueuedSignedMessage{
		Id: id, Msg: anyMsg, SignData: []*consensustypes.SignData{}, GasEstimates: []*consensustypes.GasEstimate{},
		AddedAtBlockHeight: 101, AddedAt: fixedTime, RequireSignatures: true,
		FlagMask: consensustypes.BuildFlagMask(true), GasEstimate: gas,
	}
	bz, err := cdc.MarshalInterface(q)
	if err != nil {
		return nil, err
	}
	var sm consensustypes.QueuedSignedMessageI
	if err := cdc.UnmarshalInterface(bz, &sm); err != nil {
		return nil, err
	}
	return sm.GetBytesToSign(cdc)
}

func baseMessage(turnstone, relayer string) *evmtypes.Message {
	return &evmtypes.Message{
		TurnstoneID: turnstone, ChainReferenceID: chainRefs[0], CompassAddr: world.CompassAddr,
		Assignee: "palomavaloper1verif", AssignedAtBlockHeight: sdkmath.NewInt(101), AssigneeRemoteAddress: relayer,
	}
}

var extMismatch int64
var extMu sync.Mutex

func actions(cdc codec.Codec, thorough bool) []action {
	addrs := pick(thorough,
		[]string{"0x0000000000000000000000000000000000000001", "0xFFfFfFffFFfffFFfFFfFFFFFffFFFffffFfFFFfF", "0x5A3E98aA540B2C3545120Ff8CA5C3B6a5D7Cf1e5"},
		"0x0100000000000000000000000000000000000000")
	relayers := pick(thorough,
		[]string{"0x0000000000000000000000000000000000000002", "0xFFfFfFffFFfffFFfFFfFFFFFffFFFffffFfFFFfE", "0x28E9e9bfedEd29747FCc33ccA25b4B75f05E434B"},
		"0x0000000000000000000000000000000000000001")
	word1 := append(rep(0, 31), 1)
	payloads := pick(thorough,
		[][]byte{{}, {0xa9, 0x05, 0x9c, 0xbb}, word1},
		append(append([]byte{}, word1...), word1...), rep(0, 31), rep(0, 33))
	fees := pick(thorough, []uint64{1, 100_000, math.MaxUint64}, 2)
	// Fee payer = SenderAddress, raw account bytes (20-byte key accounts, 32-byte
	// contract / module-derived accounts) that both the hashers and
	// VerifyAgainstTX left-pad with zeroes to bytes32; the contract is handed all
	// 32 bytes. P32 ends in the 20-byte payer p20 (differs from the padded p20 in
	// its first 12 bytes only); P32last / P32first differ from P32 only in the
	// last / first 12 bytes.
	p20 := rep(0x11, 20)
	p32 := append(rep(0xaa, 12), p20...)
	p32last := append(append(rep(0xaa, 12), rep(0x11, 8)...), rep(0xbb, 12)...)
	p32first := append(rep(0xcc, 12), p20...)
	payers := pick(thorough,
		[][]byte{p20, append(rep(0x11, 19), 0x12), p32, p32last, p32first},
		[]byte{}, append(append([]byte{}, p32[:31]...), 0x10))
	mustDistinctPadded(payers)
	ids := pick(thorough, []uint64{1, 256, 1 << 63}, math.MaxUint64)
	deadlines := pick(thorough, []int64{1, 1_700_000_600, math.MaxInt64}, 0)
	turnstones := pick(thorough,
		[]string{world.CompassID, "verif-compass-2", "0123456789abcdef0123456789abcdef"},
		"")
	gases := pick(thorough, []uint64{1, 300_000, math.MaxUint64}, 21_000, 299_999)
	valsetIDs := pick(thorough, []uint64{1, 2, 1 << 63}, 0)
	powers := pick(thorough, []uint64{1, 1 << 32}, 0)
	bytecodes := pick(thorough,
		[][]byte{{0x60, 0x80}, {}, append([]byte{0x60, 0x80}, be64(1)...)},
		rep(0xfe, 33))

	var acts []action

	// ---- SubmitLogicCall: contract, payload, three fees, fee payer, message id, deadline, relayer, turnstone id
	acts = append(acts, action{
		Name: "SubmitLogicCall",
		Fields: []field{
			scalar("contract", addrs, showAddr), scalar("payload", payloads, showBytes),
			scalar("relayer_fee", fees, showU64), scalar("community_fee", fees, showU64), scalar("security_fee", fees, showU64),
			scalar("fee_payer", payers, showBytes), scalar("message_id", ids, showU64), scalar("deadline", deadlines, showI64),
			scalar("relayer", relayers, showAddr), scalar("turnstone_id", turnstones, showStr),
		},
		Eval: func(ix []int) ([]byte, error) {
			m := baseMessage(turnstones[ix[9]], relayers[ix[8]])
			m.Action = &evmtypes.Message_SubmitLogicCall{SubmitLogicCall: &evmtypes.SubmitLogicCall{
				HexContractAddress: addrs[ix[0]], Abi: []byte("[]"), Payload: payloads[ix[1]],
				Deadline: deadlines[ix[7]], SenderAddress: payers[ix[5]],
				Fees: &evmtypes.Fees{RelayerFee: fees[ix[2]], CommunityFee: fees[ix[3]], SecurityFee: fees[ix[4]]},
			}}
			return turnstoneBytes(cdc, m, ids[ix[6]], 21_000)
		},
	})

	// ---- UpdateValset: each validator, each power, valset id, relayer, gas estimate, turnstone id
	vseq := seqs(len(addrs), 0, 3)
	pseq := seqs(len(powers), 0, 3)
	acts = append(acts, action{
		Name: "UpdateValset",
		Fields: []field{
			listField("validators", vseq, func(i int) string { return addrs[i] }),
			listField("powers", pseq, func(i int) string { return showU64(powers[i]) }),
			scalar("valset_id", valsetIDs, showU64), scalar("relayer", relayers, showAddr),
			scalar("gas_estimate", gases, showU64), scalar("turnstone_id", turnstones, showStr),
		},
		Eval: func(ix []int) ([]byte, error) {
			m := baseMessage(turnstones[ix[5]], relayers[ix[3]])
			vs := &evmtypes.Valset{ValsetID: valsetIDs[ix[2]]}
			for _, v := range vseq[ix[0]] {
				vs.Validators = append(vs.Validators, addrs[v])
			}
			for _, p := range pseq[ix[1]] {
				vs.Powers = append(vs.Powers, powers[p])
			}
			m.Action = &evmtypes.Message_UpdateValset{UpdateValset: &evmtypes.UpdateValset{Valset: vs}}
			return turnstoneBytes(cdc, m, 7, gases[ix[4]])
		},
	})

	// ---- CompassHandover: each forward call (address, payload), deadline, relayer, gas estimate
	fcAddrs, fcPayloads := addrs[:3], payloads[:3]
	nElem := len(fcAddrs) * len(fcPayloads)
	fseq := seqs(nElem, 0, 3)
	acts = append(acts, action{
		Name: "CompassHandover",
		Fields: []field{
			listField("forward_calls", fseq, func(i int) string {
				return "(" + fcAddrs[i/len(fcPayloads)] + "," + showBytes(fcPayloads[i%len(fcPayloads)]) + ")"
			}),
			scalar("deadline", deadlines, showI64), scalar("relayer", relayers, showAddr), scalar("gas_estimate", gases, showU64),
		},
		Eval: func(ix []int) ([]byte, error) {
			m := baseMessage(world.CompassID, relayers[ix[2]])
			h := &evmtypes.CompassHandover{Deadline: deadlines[ix[1]], Id: 3}
			for _, e := range fseq[ix[0]] {
				h.ForwardCallArgs = append(h.ForwardCallArgs, evmtypes.CompassHandover_ForwardCallArgs{
					HexContractAddress: fcAddrs[e/len(fcPayloads)], Payload: fcPayloads[e%len(fcPayloads)],
				})
			}
			m.Action = &evmtypes.Message_CompassHandover{CompassHandover: h}
			return turnstoneBytes(cdc, m, 7, gases[ix[3]])
		},
	})

	// ---- UploadUserSmartContract: deployer, bytecode, three fees, fee payer, message id, deadline, relayer, turnstone id
	acts = append(acts, action{
		Name: "UploadUserSmartContract",
		Fields: []field{
			scalar("deployer", addrs, showAddr), scalar("bytecode", bytecodes, showBytes),
			scalar("relayer_fee", fees, showU64), scalar("community_fee", fees, showU64), scalar("security_fee", fees, showU64),
			scalar("fee_payer", payers, showBytes), scalar("message_id", ids, showU64), scalar("deadline", deadlines, showI64),
			scalar("relayer", relayers, showAddr), scalar("turnstone_id", turnstones, showStr),
		},
		Eval: func(ix []int) ([]byte, error) {
			m := baseMessage(turnstones[ix[9]], relayers[ix[8]])
			m.Action = &evmtypes.Message_UploadUserSmartContract{UploadUserSmartContract: &evmtypes.UploadUserSmartContract{
				DeployerAddress: addrs[ix[0]], Bytecode: bytecodes[ix[1]], Deadline: deadlines[ix[7]], SenderAddress: payers[ix[5]],
				BlockHeight: 101, Id: 5,
				Fees: &evmtypes.Fees{RelayerFee: fees[ix[2]], CommunityFee: fees[ix[3]], SecurityFee: fees[ix[4]]},
			}}
			return turnstoneBytes(cdc, m, ids[ix[6]], 21_000)
		},
	})

	// ---- UploadSmartContract: bytecode, message id. The scheme is
	// keccak(bytecode ++ be64(id)); the alphabet holds byte strings that are
	// prefixes / extensions of each other by exactly such 8-byte words.
	uscCodes := [][]byte{
		{0x60, 0x80}, {}, be64(1), append([]byte{0x60, 0x80}, be64(1)...), append(append([]byte{0x60, 0x80}, be64(1)...), be64(1)...),
		append([]byte{0x60, 0x80}, be64(256)...), append([]byte{0x60, 0x80}, 0, 0, 0, 0), {0x60, 0x80, 0}, {0x60}, rep(0, 8), rep(0, 16), rep(0xfe, 33),
	}
	uscIDs := []uint64{1, 2, 256, 1 << 56, 0x6080 << 48, 1 << 63, math.MaxUint64, 0x0000000100000000}
	acts = append(acts, action{
		Name:   "UploadSmartContract",
		Fields: []field{scalar("bytecode", uscCodes, showBytes), scalar("message_id", uscIDs, showU64)},
		Eval: func(ix []int) ([]byte, error) {
			m := baseMessage(world.CompassID, relayers[0])
			m.Action = &evmtypes.Message_UploadSmartContract{UploadSmartContract: &evmtypes.UploadSmartContract{
				Bytecode: uscCodes[ix[0]], Abi: "[]", ConstructorInput: []byte{1, 2, 3}, Id: 9,
			}}
			return turnstoneBytes(cdc, m, uscIDs[ix[1]], 0)
		},
	})

	// ---- skyway batch: token, each receiver, each amount, nonce, turnstone id, timeout, relayer, gas estimate
	recv := addrs[:2]
	amounts := pick(thorough,
		[]sdkmath.Int{sdkmath.NewInt(1), sdkmath.NewIntFromBigInt(new(big.Int).Sub(new(big.Int).Lsh(big.NewInt(1), 256), big.NewInt(1)))},
		sdkmath.NewIntFromUint64(1<<63))
	nTx := len(recv) * len(amounts)
	tseq := seqs(nTx, 0, 3)
	nonces := pick(thorough, []uint64{1, 2, 1 << 63}, 0)
	timeouts := pick(thorough, []uint64{1, 1_700_000_600, 1 << 63}, 0)
	acts = append(acts, action{
		Name: "SkywayBatch",
		Fields: []field{
			scalar("token", addrs, showAddr),
			listField("transfers(receiver,amount)", tseq, func(i int) string {
				return "(" + recv[i/len(amounts)] + "," + showInt(amounts[i%len(amounts)]) + ")"
			}),
			scalar("batch_nonce", nonces, showU64), scalar("turnstone_id", turnstones, showStr), scalar("timeout", timeouts, showU64),
			scalar("relayer", relayers, showAddr), scalar("gas_estimate", gases, showU64),
		},
		Eval: func(ix []int) ([]byte, error) {
			token, err := skywaytypes.NewEthAddress(addrs[ix[0]])
			if err != nil {
				return nil, err
			}
			var txs []*skywaytypes.InternalOutgoingTransferTx
			for k, e := range tseq[ix[1]] {
				dest, err := skywaytypes.NewEthAddress(recv[e/len(amounts)])
				if err != nil {
					return nil, err
				}
				tok, err := skywaytypes.NewInternalERC20Token(amounts[e%len(amounts)], addrs[ix[0]], chainRefs[0])
				if err != nil {
					return nil, err
				}
				txs = append(txs, &skywaytypes.InternalOutgoingTransferTx{
					Id: uint64(k + 1), Sender: sdk.AccAddress(rep(0x33, 20)), DestAddress: dest, Erc20Token: tok, BridgeTaxAmount: sdkmath.ZeroInt(),
				})
			}
			rel, err := skywaytypes.NewEthAddress(relayers[ix[5]])
			if err != nil {
				return nil, err
			}
			// exactly what BuildOutgoingTXBatch / UpdateBatchGasEstimate do
			b, err := skywaytypes.NewInternalOutgingTxBatch(nonces[ix[2]], timeouts[ix[4]], txs, *token, 101, chainRefs[0],
				turnstones[ix[3]], "palomavaloper1verif", rel, gases[ix[6]])
			if err != nil {
				return nil, err
			}
			// what ConfirmBatch / evidence checks recompute from the stored (external) batch
			ext := b.ToExternal()
			again, err := ext.GetCheckpoint(turnstones[ix[3]])
			if err != nil || string(again) != string(b.BytesToSign) {
				extMu.Lock()
				extMismatch++
				extMu.Unlock()
			}
			return b.BytesToSign, nil
		},
	})
	return acts
}

func uscIgnoresConstructorInput(cdc codec.Codec) bool {
	var hs [2][]byte
	for i, in := range [][]byte{{1, 2, 3}, {4, 5, 6, 7}} {
		m := baseMessage(world.CompassID, "0x0000000000000000000000000000000000000002")
		m.Action = &evmtypes.Message_UploadSmartContract{UploadSmartContract: &evmtypes.UploadSmartContract{
			Bytecode: []byte{0x60, 0x80}, Abi: "[]", ConstructorInput: in, Id: 9,
		}}
		hs[i], _ = turnstoneBytes(cdc, m, 1, 0)
	}
	return string(hs[0]) == string(hs[1])
}

// ===========================================================================
// part 2: message ids

var chainRefs = []string{"eth-main", "bnb-main"}

// opRec is one state-changing operation (P put, R replace, D delete).
type opRec struct {
	K  byte
	Q  int
	ID uint64
}

type ghost struct {
	Max  uint64     // largest id ever handed out
	Live [][]uint64 // per queue: ids currently in the queue, ascending

	// Not part of the state: how to rebuild the application state of this node
	// (see idEnv.materialise) and the hash / invariant verdict computed on it.
	path  []opRec
	light bool
	hash  string
	inv   *explore.Fail
}

func (g *ghost) Clone() explore.Ghost {
	n := &ghost{Max: g.Max, Live: make([][]uint64, len(g.Live)), path: append([]opRec{}, g.path...)}
	for i, l := range g.Live {
		n.Live[i] = append([]uint64{}, l...)
	}
	return n
}

func (g *ghost) Key() string {
	b, _ := json.Marshal(g) // Max and Live only
	return string(b)
}

func (g *ghost) isLive(id uint64) (int, bool) {
	for q, l := range g.Live {
		for _, x := range l {
			if x == id {
				return q, true
			}
		}
	}
	return 0, false
}

// largest id that was handed out and is in no queue any more (0 = none)
func (g *ghost) lastDead() uint64 {
	for id := g.Max; id >= 1; id-- {
		if _, ok := g.isLive(id); !ok {
			return id
		}
	}
	return 0
}

type queueDef struct {
	name  string
	short string
	msg   func(variant int) proto.Message
}

type idEnv struct {
	w        *world.World
	root     sdk.Context
	qs       []queueDef
	thorough bool
	last     *explore.Node // node whose rebuilt context is still held

	fresh, replaced, refused, removed, rebuilt int64
}

func newIDEnv(w *world.World, root sdk.Context, thorough bool) *idEnv {
	e := &idEnv{w: w, root: root, thorough: thorough}
	for ci, ref := range chainRefs {
		ref := ref
		mk := func(sub string) string {
			return consensustypes.Queue(sub, xchain.Type("evm"), xchain.ReferenceID(ref))
		}
		c := fmt.Sprintf("c%d", ci)
		e.qs = append(e.qs,
			queueDef{mk(evmtypes.ConsensusTurnstoneMessage), c + ".msg", func(v int) proto.Message {
				m := baseMessage(world.CompassID, "0x0000000000000000000000000000000000000002")
				m.ChainReferenceID = ref
				m.Action = &evmtypes.Message_SubmitLogicCall{SubmitLogicCall: &evmtypes.SubmitLogicCall{
					HexContractAddress: "0x0000000000000000000000000000000000000001", Abi: []byte("[]"), Payload: []byte{byte(v)},
					Deadline: 1_700_000_600, SenderAddress: rep(0x11, 20), Fees: &evmtypes.Fees{RelayerFee: 1, CommunityFee: 1, SecurityFee: 1},
				}}
				return m
			}},
			queueDef{mk(evmkeeper.ConsensusGetValidatorBalances), c + ".bal", func(v int) proto.Message {
				return &evmtypes.ValidatorBalancesAttestation{FromBlockTime: fixedTime.Add(time.Duration(v) * time.Second)}
			}},
			queueDef{mk(evmkeeper.ConsensusCollectFundEvents), c + ".fund", func(v int) proto.Message {
				return &evmtypes.CollectFunds{FromBlockHeight: 1, ToBlockHeight: uint64(2 + v)}
			}},
			queueDef{mk(evmkeeper.ConsensusGetReferenceBlock), c + ".ref", func(v int) proto.Message {
				return &evmtypes.ReferenceBlockAttestation{FromBlockTime: fixedTime.Add(time.Duration(v) * time.Second)}
			}},
		)
	}
	return e
}

func (e *idEnv) spec(r *report.Run, shard, nshards int) explore.Spec {
	g0 := &ghost{Live: make([][]uint64, len(e.qs))}
	spec := explore.Spec{
		Name: "ids", Init: []*explore.Node{{Ctx: e.root, Ghost: g0}}, Ops: e.ops, Hash: e.hash, Invariant: e.invariant,
		MaxDepth: 6, Deadline: r.Deadline(140*time.Second, 25*time.Minute),
		ShardDepth: 3, Shard: shard, NShards: nshards,
	}
	if e.thorough {
		spec.MaxDepth = 7
	}
	return spec
}

// --- the three real state-changing calls (used by the operations and by materialise)

func (e *idEnv) put(ctx sdk.Context, qi int) (uint64, error) {
	return e.w.App.ConsensusKeeper.PutMessageInQueue(ctx, e.qs[qi].name, e.qs[qi].msg(0),
		&consensus.PutOptions{RequireSignatures: true, RequireGasEstimation: qi%4 == 0})
}

func (e *idEnv) replace(ctx sdk.Context, qi int, id uint64, variant int) (uint64, error) {
	return e.w.App.ConsensusKeeper.PutMessageInQueue(ctx, e.qs[qi].name, e.qs[qi].msg(variant), &consensus.PutOptions{MsgIDToReplace: id})
}

func (e *idEnv) remove(ctx sdk.Context, qi int, id uint64) error {
	return e.w.App.ConsensusKeeper.DeleteJob(ctx, e.qs[qi].name, id)
}

// Memory: a forked context costs ~20 kB and keeps its ancestors alive, so the
// search does not keep them. After an operation the hash and the invariant
// verdict are computed on the real forked state and the fork is dropped; when
// the node is expanded its state is rebuilt by re-executing its (<= depth)
// state-changing calls on a fresh fork of the root, and the rebuilt state must
// hash to the recorded value.
func (e *idEnv) settle(ctx *sdk.Context, g *ghost) {
	n := &explore.Node{Ctx: *ctx, Ghost: g}
	g.inv = e.realInvariant(n)
	g.hash = e.realHash(n)
	g.light = true
	*ctx = e.root
}

func (e *idEnv) materialise(n *explore.Node) {
	if e.last != nil && e.last != n {
		if lg := e.last.Ghost.(*ghost); lg.hash != "" {
			e.last.Ctx, lg.light = e.root, true
		}
	}
	e.last = n
	g := n.Ghost.(*ghost)
	if !g.light {
		return
	}
	ctx := world.Fork(e.root)
	for _, o := range g.path {
		var err error
		switch o.K {
		case 'P':
			var id uint64
			if id, err = e.put(ctx, o.Q); err == nil && id != o.ID {
				err = fmt.Errorf("put returned %d, recorded %d", id, o.ID)
			}
		case 'R':
			_, err = e.replace(ctx, o.Q, o.ID, 1)
		case 'D':
			err = e.remove(ctx, o.Q, o.ID)
		}
		if err != nil {
			panic(fmt.Sprintf("harness: cannot rebuild state %v: %v", g.path, err))
		}
	}
	n.Ctx, g.light = ctx, false
	e.rebuilt++
	if h := e.realHash(n); h != g.hash {
		panic(fmt.Sprintf("harness: rebuilt state of %v hashes differently", g.path))
	}
}

func (e *idEnv) hash(n *explore.Node) string {
	if g := n.Ghost.(*ghost); g.light {
		return g.hash
	}
	return e.realHash(n)
}

func (e *idEnv) invariant(n *explore.Node) *explore.Fail {
	if g := n.Ghost.(*ghost); g.light {
		return g.inv
	}
	return e.realInvariant(n)
}

func (e *idEnv) realHash(n *explore.Node) string {
	var sb strings.Builder
	sb.WriteString(n.Ghost.Key())
	it := n.Ctx.KVStore(e.w.App.GetKey(consensustypes.StoreKey)).Iterator(nil, nil)
	defer it.Close()
	for ; it.Valid(); it.Next() {
		k := it.Key()
		sb.WriteByte('|')
		sb.WriteString(hex.EncodeToString(k))
		if strings.HasPrefix(string(k), "generated-ids-") {
			sb.WriteByte('=')
			sb.WriteString(hex.EncodeToString(it.Value()))
		}
	}
	h := sha256.Sum256([]byte(sb.String()))
	return string(h[:20])
}

const queueStorePrefix = "consensus-queue-signing-type--"

// invariant (every state, read straight from the consensus store): the ids
// stored under each queue's prefix equal the reference sets; no id lives in two
// queues; no stored id exceeds the largest id handed out.
func (e *idEnv) realInvariant(n *explore.Node) *explore.Fail {
	g := n.Ghost.(*ghost)
	got := make([][]uint64, len(e.qs))
	owner := map[uint64]int{}
	it := n.Ctx.KVStore(e.w.App.GetKey(consensustypes.StoreKey)).Iterator(nil, nil)
	defer it.Close()
	for ; it.Valid(); it.Next() {
		k := string(it.Key())
		if !strings.HasPrefix(k, queueStorePrefix) {
			continue
		}
		qi := -1
		for i, q := range e.qs {
			if len(k) == len(queueStorePrefix)+len(q.name)+8 && strings.HasPrefix(k[len(queueStorePrefix):], q.name) {
				qi = i
			}
		}
		if qi < 0 {
			return explore.Failf("harness:key", "unexpected queue key %q", k)
		}
		id := sdk.BigEndianToUint64([]byte(k[len(k)-8:]))
		if o, dup := owner[id]; dup {
			return explore.Failf("id-in-two-queues", "id %d is live in %s and in %s", id, e.qs[o].short, e.qs[qi].short)
		}
		owner[id] = qi
		if id > g.Max {
			return explore.Failf("id-beyond-counter", "id %d in %s exceeds the largest id handed out (%d)", id, e.qs[qi].short, g.Max)
		}
		got[qi] = append(got[qi], id)
	}
	for qi := range e.qs {
		if fmt.Sprint(got[qi]) != fmt.Sprint(g.Live[qi]) {
			return explore.Failf("queue-content", "queue %s holds ids %v, reference %v", e.qs[qi].short, got[qi], g.Live[qi])
		}
	}
	return nil
}

// listed compares what the real keeper lists for queue qi with the reference.
func (e *idEnv) listed(ctx sdk.Context, g *ghost, qi int) *explore.Fail {
	msgs, err := e.w.App.ConsensusKeeper.GetMessagesFromQueue(ctx, e.qs[qi].name, 0)
	if err != nil {
		return explore.Failf("harness:list", "GetMessagesFromQueue(%s): %v", e.qs[qi].name, err)
	}
	var got []uint64
	for _, m := range msgs {
		got = append(got, m.GetId())
	}
	sort.Slice(got, func(i, j int) bool { return got[i] < got[j] })
	if fmt.Sprint(got) != fmt.Sprint(g.Live[qi]) {
		return explore.Failf("queue-listing", "keeper lists ids %v for %s, reference %v", got, e.qs[qi].short, g.Live[qi])
	}
	return nil
}

func (e *idEnv) ops(n *explore.Node) []explore.Op {
	e.materialise(n)
	g0 := n.Ghost.(*ghost)
	var ops []explore.Op
	// op wraps a step: run it on the forked state, then settle (hash + invariant
	// on the real state, drop the fork).
	op := func(label string, do func(ctx sdk.Context, g *ghost) *explore.Fail) {
		ops = append(ops, explore.Op{Label: label, Do: func(ctx *sdk.Context, gg explore.Ghost) *explore.Fail {
			g := gg.(*ghost)
			if f := do(*ctx, g); f != nil {
				return f
			}
			e.settle(ctx, g)
			return nil
		}})
	}
	dead := g0.lastDead()
	for qi, q := range e.qs {
		qi, q := qi, q
		// Put: a fresh id, larger than every id ever handed out anywhere.
		op("Put("+q.short+")", func(ctx sdk.Context, g *ghost) *explore.Fail {
			id, err := e.put(ctx, qi)
			if err != nil {
				return explore.Failf("harness:put", "PutMessageInQueue(%s): %v", q.name, err)
			}
			e.fresh++
			if id <= g.Max {
				where := "removed earlier"
				if oq, live := g.isLive(id); live {
					where = "still live in " + e.qs[oq].short
				}
				return explore.Failf("id-not-fresh", "Put into %s returned id %d, but ids up to %d were already handed out (id %d: %s); live ids %v",
					q.short, id, g.Max, id, where, g.Live)
			}
			g.Max = id
			g.Live[qi] = append(g.Live[qi], id)
			g.path = append(g.path, opRec{'P', qi, id})
			return nil
		})
		if len(g0.Live[qi]) > 0 {
			// Replace the newest message of the queue: same id, nothing allocated.
			target := g0.Live[qi][len(g0.Live[qi])-1]
			op(fmt.Sprintf("Replace(%s,%d)", q.short, target), func(ctx sdk.Context, g *ghost) *explore.Fail {
				id, err := e.replace(ctx, qi, target, 1)
				if err != nil {
					return explore.Failf("harness:replace", "replace of live id %d in %s: %v", target, q.short, err)
				}
				e.replaced++
				if id != target {
					return explore.Failf("replace-changed-id", "replace of id %d in %s returned id %d", target, q.short, id)
				}
				g.path = append(g.path, opRec{'R', qi, target})
				return e.listed(ctx, g, qi)
			})
			// Remove the oldest (and, thorough, the newest) message.
			victims := []uint64{g0.Live[qi][0]}
			if e.thorough && len(g0.Live[qi]) > 1 {
				victims = append(victims, target)
			}
			for _, v := range victims {
				v := v
				op(fmt.Sprintf("Remove(%s,%d)", q.short, v), func(ctx sdk.Context, g *ghost) *explore.Fail {
					if err := e.remove(ctx, qi, v); err != nil {
						return explore.Failf("harness:remove", "DeleteJob(%s,%d): %v", q.short, v, err)
					}
					e.removed++
					var keep []uint64
					for _, x := range g.Live[qi] {
						if x != v {
							keep = append(keep, x)
						}
					}
					g.Live[qi] = keep
					g.path = append(g.path, opRec{'D', qi, v})
					return e.listed(ctx, g, qi)
				})
			}
		}
		// Replace with the id of a removed message: must be refused (no id comes back).
		if dead != 0 && (qi%4 == 0 || e.thorough) {
			op(fmt.Sprintf("ReplaceRemoved(%s,%d)", q.short, dead), func(ctx sdk.Context, g *ghost) *explore.Fail {
				id, err := e.replace(ctx, qi, dead, 2)
				if err == nil {
					return explore.Failf("removed-id-reused", "replace with removed id %d in %s succeeded and returned id %d", dead, q.short, id)
				}
				e.refused++
				return nil
			})
		}
		// Replace with an id that lives in another queue: must be refused.
		if qi%4 == 0 || e.thorough {
			var foreign uint64
			for oq, l := range g0.Live {
				if oq != qi && len(l) > 0 && l[len(l)-1] > foreign {
					foreign = l[len(l)-1]
				}
			}
			if foreign != 0 {
				op(fmt.Sprintf("ReplaceForeign(%s,%d)", q.short, foreign), func(ctx sdk.Context, g *ghost) *explore.Fail {
					id, err := e.replace(ctx, qi, foreign, 2)
					if err == nil {
						return explore.Failf("foreign-id-reused", "replace in %s with id %d that lives in another queue succeeded (returned %d)", q.short, foreign, id)
					}
					e.refused++
					return nil
				})
			}
		}
	}
	return ops
}

// ===========================================================================
// replay

func doReplay(r *report.Run, w *world.World, idRoot sdk.Context, file string) {
	var v report.Violation
	b, err := os.ReadFile(file)
	if err == nil {
		err = json.Unmarshal(b, &v)
	}
	if err != nil {
		fmt.Fprintln(os.Stderr, err)
		os.Exit(2)
	}
	m, _ := v.Replay.(map[string]interface{})
	ints := func(x interface{}) []int {
		var out []int
		l, _ := x.([]interface{})
		for _, e := range l {
			f, _ := e.(float64)
			out = append(out, int(f))
		}
		return out
	}
	if p, ok := m["path"]; ok {
		var path []string
		for _, s := range p.([]interface{}) {
			path = append(path, s.(string))
		}
		spec := newIDEnv(w, idRoot, r.Thorough()).spec(r, 0, 1)
		if m["scenario"] == "views" {
			spec = newViewEnv(w, r, w.Root).spec(0, 1)
		}
		if f := explore.Replay(spec, path); f != nil {
			r.Violate(f.Signature, f.Message, v.Replay)
		}
		r.Evaluations, r.DistinctN = int64(len(path)), 2
		r.Sample(path)
		return
	}
	// the replay file records indices into the alphabets of the tier it was found in
	for _, thorough := range []bool{r.Thorough(), !r.Thorough()} {
		acts := actions(w.App.AppCodec(), thorough)
		find := func(name interface{}) *action {
			for i := range acts {
				if acts[i].Name == name {
					return &acts[i]
				}
			}
			return nil
		}
		a, bb := find(m["action"]), find(m["action"])
		if m["kind"] == "cross-action" {
			a, bb = find(m["action_a"]), find(m["action_b"])
		}
		if a == nil || bb == nil {
			break
		}
		x, y := ints(m["index_a"]), ints(m["index_b"])
		if len(x) != len(a.Fields) || len(y) != len(bb.Fields) {
			break
		}
		if want, ok := m["tuple_a"].(map[string]interface{}); ok && fmt.Sprint(want) != fmt.Sprint(toIface(a.show(x))) {
			continue // other tier's alphabet
		}
		hx, errx := a.Eval(x)
		hy, erry := bb.Eval(y)
		r.Evaluations, r.DistinctN = 2, 1
		r.Sample(map[string]interface{}{"A": a.show(x), "bytes_A": hex.EncodeToString(hx), "B": bb.show(y), "bytes_B": hex.EncodeToString(hy)})
		if errx != nil || erry != nil {
			r.Violate(v.Signature, fmt.Sprintf("signing bytes cannot be computed: %v / %v", errx, erry), v.Replay)
		} else if string(hx) == string(hy) {
			r.Violate(v.Signature, fmt.Sprintf("%s %v and %s %v have the same signing bytes %x", a.Name, a.show(x), bb.Name, bb.show(y), hx), v.Replay)
		} else {
			r.DistinctN = 2
		}
		return
	}
	fmt.Fprintln(os.Stderr, "replay file not understood")
	os.Exit(2)
}

func toIface(m map[string]string) map[string]interface{} {
	o := map[string]interface{}{}
	for k, v := range m {
		o[k] = v
	}
	return o
}
