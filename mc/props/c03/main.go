// C03 — only the principal (or governance) can change state held in its name.
//
// Exhaustive input enumeration on the real application: every sdk.Msg type of
// palomachain.paloma.* found in the application's interface registry, every
// identity-bearing leaf of a template instance that is valid in the prepared
// world, every assignment of the actors {A attacker, B validator, U user,
// G governance, L licensee} to those leaves and to metadata.creator, always
// signed by A alone, delivered through the real ante chain and router. The
// oracle is differential: the projection of everything attributed to B, U, G, L
// (and M) before and after the delivery.
package main

import (
	"encoding/json"
	"flag"
	"fmt"
	"os"
	"reflect"
	"sort"
	"strings"
	"time"
	"unsafe"

	sdkmath "cosmossdk.io/math"
	wasmkeeper "github.com/CosmWasm/wasmd/x/wasm/keeper"
	wasmvmtypes "github.com/CosmWasm/wasmvm/v2/types"
	sdk "github.com/cosmos/cosmos-sdk/types"
	"github.com/cosmos/cosmos-sdk/x/authz"
	"github.com/cosmos/gogoproto/proto"
	icatypes "github.com/cosmos/ibc-go/v8/modules/apps/27-interchain-accounts/types"
	channeltypes "github.com/cosmos/ibc-go/v8/modules/core/04-channel/types"
	consensustypes "github.com/palomachain/paloma/v2/x/consensus/types"
	skywaytypes "github.com/palomachain/paloma/v2/x/skyway/types"
	tftypes "github.com/palomachain/paloma/v2/x/tokenfactory/types"
	"github.com/palomachain/paloma/v2/zzverif/report"
	"github.com/palomachain/paloma/v2/zzverif/world"
)

func main() {
	replay := flag.String("replay", "", "replay file")
	dump := flag.Bool("dump", false, "print the prepared world's records and their attribution")
	flag.Parse()
	report.Main("C03", "exploration", 1, func(r *report.Run, shard, nshards int) {
		run(r, *replay, *dump)
	})
}

// caseSpec identifies one delivery.
type caseSpec struct {
	Type    string            `json:"type"`
	Variant string            `json:"variant"` // plain | grant | wasm
	SigVar  string            `json:"sigvar,omitempty"`
	Assign  map[string]string `json:"assign"` // leaf path -> actor name
	// Attacker: the only signer. "" = A (plain account); "V" = a bonded validator
	// with registered chain accounts (w.Vals[1]); the wasm variant uses contract C.
	Attacker string `json:"attacker,omitempty"`
	// Pos: "" = the forged message is the only message of the tx; "second" /
	// "third" = it follows one / two harmless messages created and signed by the
	// attacker in the same tx; "first" = it precedes one (control).
	Pos string `json:"pos,omitempty"`
	// Subst (variant "take"): scalar leaf path -> value written into the attacker's
	// own otherwise valid message.
	Subst map[string]string `json:"subst,omitempty"`
	// Nest: number of authz.MsgExec envelopes around the message (variant "authz":
	// at least one; variant "wasm": the contract dispatches the envelope).
	Nest int `json:"nest,omitempty"`
	// Later: delivered one day (14400 blocks) after the block time at which the
	// prepared world was built - records that carry a time stamp only differ then.
	Later bool `json:"later,omitempty"`
}

func (c caseSpec) with(path, actor string) caseSpec {
	n := c
	n.Assign = map[string]string{}
	for k, v := range c.Assign {
		n.Assign[k] = v
	}
	if path != "" {
		n.Assign[path] = actor
	}
	return n
}

func (c caseSpec) String() string {
	var ks []string
	for k := range c.Assign {
		ks = append(ks, k)
	}
	sort.Strings(ks)
	var sb strings.Builder
	sb.WriteString(shortType(c.Type) + "[" + c.Variant)
	if c.Attacker != "" {
		sb.WriteString(",attacker=" + c.Attacker)
	}
	if c.Pos != "" {
		sb.WriteString(",pos=" + c.Pos)
	}
	if c.Nest > 0 {
		sb.WriteString(fmt.Sprintf(",msgexec*%d", c.Nest))
	}
	if c.Later {
		sb.WriteString(",t0+1d")
	}
	if c.SigVar != "" {
		sb.WriteString(",sig=" + c.SigVar)
	}
	sb.WriteString("]")
	for _, k := range ks {
		sb.WriteString(" " + k + "=" + c.Assign[k])
	}
	for k, v := range c.Subst {
		sb.WriteString(fmt.Sprintf(" %s<-%q", k, v))
	}
	return sb.String()
}

func shortType(url string) string { return strings.TrimPrefix(url, "/palomachain.paloma.") }

type change struct {
	ID     string
	Kind   string
	Op     string // add | alter | remove
	Victim string
}

type sigVariant struct {
	Name  string
	Apply func(e *env, m sdk.Msg)
}

// ethKeyOf returns the external-chain key of an attacker: A's is registered
// nowhere, V's is its registered chain account.
func (e *env) ethKeyOf(attacker string) *world.Val {
	if attacker == "V" {
		return e.w.Vals[1]
	}
	return world.NewVal("A", sdkmath.ZeroInt())
}

// variantsOf: messages carrying an external-chain signature are enumerated with
// B's genuine signature (the template), the attacker's own signature over the
// same item and, for batch confirmations, B's genuine signature over another item.
func (e *env) variantsOf(url, attacker string) []sigVariant {
	av := e.ethKeyOf(attacker)
	switch url {
	case "/palomachain.paloma.skyway.MsgConfirmBatch":
		return []sigVariant{
			{Name: "valid", Apply: func(e *env, m sdk.Msg) {}},
			{Name: "attacker-key", Apply: func(e *env, m sdk.Msg) {
				m.(*skywaytypes.MsgConfirmBatch).Signature = world.SignCheckpoint(av, e.cp2)
			}},
			{Name: "other-item", Apply: func(e *env, m sdk.Msg) {
				// B's genuine signature, but over batch 1: not "the exact item"
				m.(*skywaytypes.MsgConfirmBatch).Signature = world.SignCheckpoint(e.w.Vals[0], e.cp1)
			}},
		}
	case "/palomachain.paloma.consensus.MsgAddMessagesSignatures":
		return []sigVariant{
			{Name: "valid", Apply: func(e *env, m sdk.Msg) {}},
			{Name: "attacker-key", Apply: func(e *env, m sdk.Msg) {
				m.(*consensustypes.MsgAddMessagesSignatures).SignedMessages[0].Signature = e.signQueued(e.rootPlain, av, e.msgFresh)
			}},
		}
	}
	return []sigVariant{{Name: ""}}
}

type checker struct {
	e      *env
	r      *report.Run
	tmpls  map[string]tmpl
	fields map[string][]idField
	before map[string]projection
	// counters
	stage          map[string]int
	accepted       int
	changedA       int
	unattrib       map[string]int
	exempted       map[string]int
	deliveries     int
	wasmForgeable  map[string]bool
	panics         []string
	acceptedBy     map[string]float64
	multiForgeable map[string]bool
	authzForgeable map[string]bool
	icaForgeable   map[string]bool
	ownViaICA      map[string]string
	messenger      wasmkeeper.Messenger
	ownViaWasm     map[string]string // positive control: contract acting for itself
}

func run(r *report.Run, replayFile string, dump bool) {
	initSkywayKinds()
	e := newEnv()
	e.stores = e.storeKeys()
	e.principals = []*principal{
		mkPrincipal(e.B, []byte(sdk.ConsAddress(e.w.Vals[0].Cons.PubKey().Address()))),
		mkPrincipal(e.U), mkPrincipal(e.G), mkPrincipal(e.L), mkPrincipal(e.M), mkPrincipal(e.R), mkPrincipal(e.A), mkPrincipal(e.C), mkPrincipal(e.I),
		mkPrincipal(e.V, []byte(sdk.ConsAddress(e.w.Vals[1].Cons.PubKey().Address()))),
	}
	c := &checker{e: e, r: r, tmpls: e.templates(), fields: map[string][]idField{}, before: map[string]projection{},
		wasmForgeable: map[string]bool{}, acceptedBy: map[string]float64{}, multiForgeable: map[string]bool{}, authzForgeable: map[string]bool{}, icaForgeable: map[string]bool{}, ownViaICA: map[string]string{}, ownViaWasm: map[string]string{}, stage: map[string]int{}, unattrib: map[string]int{}, exempted: map[string]int{}}
	if dump {
		c.dump()
		return
	}
	r.Rule = "for every palomachain.paloma.* sdk.Msg type in the interface registry: a template valid in the prepared world (3 validators, active chain, B's keep-alive / chain account / relayer fee / bridge vote / batch estimate+confirm / message signature+estimate+evidence+delivery report, U's pooled transfer / batches / job / denoms / user contract, M's pending licence, R's light-node client registration, governance settings incl. a compass deployment in flight); every assignment of {A,B,U,G,L} to every identity-bearing leaf (string/bytes leaf equal to an acc-bech32 / valoper-bech32 / raw / eth encoding of an actor) and to metadata.creator, signers=[attacker], really signed by the attacker (A, a plain account) and delivered through ante + router; MsgConfirmBatch additionally with {B's valid signature, attacker-key signature, B's signature over another batch}; everything repeated with a fee grant B->A; the product again with the forged message as SECOND message of a tx whose first message is a harmless denom creation by the attacker (third position and forged-first control: one case per actor with all leaves set to it; full products in the thorough tier); the product again with a second attacker V that is itself a bonded validator with registered chain accounts (w.Vals[1]: signer, creator candidate, own external-chain key and valid signatures; signature-carrying messages MsgConfirmBatch / MsgAddMessagesSignatures with {B's, attacker's own} signature); every routable message type as the attacker's own valid message with no victim-naming field at all, at t0 and at t0+1d: no victim-owned record may change (a broadcast / maintenance message must be idempotent on the records of others; victims include R, a registered light-node client holding the feegranter's grant); second pass 'resource takeover': for every type the attacker's own valid message with each scalar leaf set to the victim's resource names and spelling variants; nested dispatch: the full product with the forged message inside authz.MsgExec{grantee: A} (no grant exists; one extra case per type with two envelopes), and the product (one case per actor in quick, full in thorough) dispatched as CosmosMsg::Any by a contract C through the application's own x/wasm messenger, also wrapped in authz.MsgExec{grantee: C}; positive control: C acting for itself must be accepted; the same product sent as an interchain-accounts EXECUTE_TX packet for an interchain account I through ICAHostKeeper.OnRecvPacket (positive control: I acting for itself). Oracle: projection of all records attributed to B,U,G,L,M before/after"
	r.Assumptions = []string{
		"attribution: a record belongs to a principal when its key or value contains the principal's account bytes, account bech32, operator bech32 or consensus address (B); an external-chain address inside a record is content (destination, token contract, registered account) and does not attribute it; governance owns the params stores and an explicit list of setting families (chain infos, compass contracts and deployments, bridge tax / limits, sale contracts, observed-nonce cursor, pigeon requirements, light-node feegranter/funders)",
		"a denom string factory/<address>/<sub> mentions its creator; outside the denom-owned families (tokenfactory records, bank denom metadata and supply, skyway denom<->erc20 mappings) such a mention does not attribute a record (e.g. A's own pooled transfer of U's token)",
		"stored values shared by several principals are split: attestation -> one part per vote + body; queued consensus message -> per-validator signature / evidence / gas estimate, delivery report, error report, body; the body is attributed to the job caller / contract author, never to the assignee chosen by the chain",
		"a record filed under a principal's address (the key carries it) belongs to that principal only; identities mentioned in its value are content (e.g. an external address B registers); only records keyed by ids / hashes / names are attributed through their value",
		"giftable (not violations): bank balance of a victim not decreasing; a new auth account; tokenfactory admin hand-over to someone (C16); a new light-node licence for someone else with its account (C18)",
		"out of scope: staking / slashing / distribution stores and valset jail reasons (jailing is C13); MsgSubmitBadSignatureEvidence is enumerated but its jailing effect is not judged here",
		"with a fee grant B->A every transaction signed by A is authorised by B in the property's wording ('an address holding a fee grant from it'): B's records are then free, U/G/L/M stay protected; additionally the template with creator=B must not be refused by the ante chain",
		"MsgConfirmBatch carrying B's own external-chain signature over the exact checkpoint of that batch may add B's confirmation for that batch (property text); any other signature may not",
		"MsgSetLegacyLightNodeClients is a parameterless maintenance trigger anybody may send: importing fee-grantees of the light-node feegranter that are neither registered nor licensed is its purpose and the prepared world contains no such grantee; the grantees present (R registered, M licensed in the takeover world) must not be touched by it",
		"time: the prepared world is built at block time t0 (R registered at t0); plans marked t0+1d deliver at t0 + 1 day / 14400 blocks so that records carrying a time stamp differ when rewritten",
		"message types registered as sdk.Msg without a router handler cannot be delivered (baseapp refuses them) and are listed as unroutable",
		"multi-message transactions: the harmless companion messages are tokenfactory MsgCreateDenom in the attacker's own namespace (they only create records keyed by the attacker); a violation that needs the companion (the forged message alone is refused) is keyed multimsg:*, otherwise the single-message signature is reported",
		"validator attacker V: its own records (keyed by V, or parts of split values carrying V's operator address) are its own; violations found with V carry the suffix :by-validator",
		"takeover pass: the attacker's own message is derived from the template (identity leaves = attacker, the victim's denoms / token contracts / job ids / transfer and contract ids replaced by the attacker's own siblings; validator-scoped messages are sent by the validator attacker V with its own signatures); every string leaf and numeric id is then set to the victim's value and its spellings (upper / lower / first letter flipped / leading / trailing blank; for addresses also 0x-less, lower, checksummed, upper, 0X); the same ownership projection decides. Operations the code leaves public are not violations by construction of the oracle: executing somebody's job enqueues a message attributed to the caller and leaves the job record unchanged; sending a victim-created token the attacker holds moves the attacker's coins only",
		"Any-typed sub-messages (evidence proofs, bad-signature subjects) are not searched for identities",
		"contract path: messages are dispatched through the application's own messenger (app.wasmKeeper.messenger, read with reflect/unsafe) inside a cache context as wasmd's dispatcher does for a sub-message; no wasm byte code runs, the custom-binding messengers are not exercised; contract C is modelled as a funded account with a classic contract address",
		"interchain-accounts host path: no IBC handshake is run; the state a completed handshake leaves on the host is written through exported setters (OPEN ORDERED channel icahost/channel-0 whose version metadata names account I with protobuf encoding, owner->account mapping, active channel); I is an existing funded account; the packet goes to ICAHostKeeper.OnRecvPacket on a cached context written only on success, after the host-enabled check the IBC module wrapper makes; host params are the ones the world's default genesis leaves (reported in evidence); relayer / light-client verification of the packet is out of scope (any controller chain can open such a channel permissionlessly)",
		"authz path: a real signed tx carrying authz.MsgExec{grantee: attacker}; no authz grant and no fee grant exists in that variant",
	}
	for s, why := range excludedStores {
		r.Assumptions = append(r.Assumptions, "store "+s+" not projected: "+why)
	}
	sort.Strings(r.Assumptions[18:])

	if replayFile != "" {
		c.replay(replayFile)
		return
	}
	c.enumerate()
}

func (c *checker) types() (routable, unroutable, untemplated []string) {
	reg := c.e.w.App.InterfaceRegistry()
	impls := reg.ListImplementations("cosmos.base.v1beta1.Msg")
	sort.Strings(impls)
	for _, url := range impls {
		if !strings.HasPrefix(url, "/palomachain.paloma.") {
			continue
		}
		m, err := reg.Resolve(url)
		if err != nil {
			unroutable = append(unroutable, shortType(url)+" (unresolvable)")
			continue
		}
		msg, ok := m.(sdk.Msg)
		if !ok || c.e.w.App.MsgServiceRouter().Handler(msg) == nil {
			unroutable = append(unroutable, shortType(url))
			continue
		}
		if _, ok := c.tmpls[url]; !ok {
			untemplated = append(untemplated, shortType(url))
			continue
		}
		routable = append(routable, url)
	}
	return
}

func (c *checker) attacker(cs caseSpec) *actor {
	switch {
	case cs.Variant == "wasm":
		return c.e.C
	case cs.Variant == "ica":
		return c.e.I
	case cs.Attacker == "V":
		return c.e.V
	}
	return c.e.A
}

// actorsOf: the identities written into messages; the first is the attacker.
func (c *checker) actorsOf(cs caseSpec) []*actor {
	return append([]*actor{c.attacker(cs)}, c.e.actors[1:]...)
}

func isAttacker(name string) bool { return name == "A" || name == "C" || name == "V" || name == "I" }

func (c *checker) root(variant string) sdk.Context {
	switch variant {
	case "grant":
		return c.e.rootGrant
	case "take":
		return c.e.rootTake
	}
	return c.e.rootPlain
}

// prepared returns a fresh fork of the variant's root with the template's
// scenario step applied, and the projection of that state.
func (c *checker) prepared(url, variant string) (sdk.Context, projection) {
	ctx := world.Fork(c.root(variant))
	if p := c.tmpls[url].Prep; p != nil {
		p(ctx)
	}
	k := url + "|" + variant
	if _, ok := c.before[k]; !ok {
		c.before[k] = c.e.project(ctx)
	}
	return ctx, c.before[k]
}

func (c *checker) idFields(url string) []idField {
	if f, ok := c.fields[url]; ok {
		return f
	}
	msg := c.tmpls[url].Build()
	f := detect(msg, c.e.actors)
	has := false
	for _, x := range f {
		if x.Path == "Metadata.Creator" {
			has = true
		}
	}
	if !has {
		// creator is identity-bearing by definition
		f = append([]idField{{Path: "Metadata.Creator", Kind: kAcc, Orig: c.tmpls[url].Principal}}, f...)
	}
	c.fields[url] = f
	return f
}

func (c *checker) build(cs caseSpec) sdk.Msg {
	if cs.Variant == "take" {
		msg := c.takeBase(cs)
		for p, v := range cs.Subst {
			if !setScalar(msg, p, v) {
				panic("takeover: cannot set " + p)
			}
		}
		return msg
	}
	t := c.tmpls[cs.Type]
	msg := t.Build()
	for _, f := range c.idFields(cs.Type) {
		if name, ok := cs.Assign[f.Path]; ok {
			assign(msg, f, c.e.byName[name])
		}
	}
	// the attacker is the only signer
	assign(msg, idField{Path: "Metadata.Signers[0]", Kind: kAcc}, c.attacker(cs))
	for _, v := range c.e.variantsOf(cs.Type, cs.Attacker) {
		if v.Name == cs.SigVar && v.Apply != nil {
			v.Apply(c.e, msg)
		}
	}
	return msg
}

type outcome struct {
	Res     world.TxResult
	Viol    []change
	Changed []string // kinds of all changed records
	OwnA    int
}

func (c *checker) deliver(cs caseSpec) outcome {
	ctx, before := c.prepared(cs.Type, cs.Variant)
	if cs.Later {
		ctx = world.Advance(ctx, 14400, 24*time.Hour)
	}
	msg := c.build(cs)
	var res world.TxResult
	if cs.Variant == "wasm" {
		// nested: the contract (the grantee and only signer) dispatches MsgExec envelopes
		res = c.dispatchFromContract(ctx, c.wrapExec(msg, c.e.C, cs.Nest))
	} else if cs.Variant == "ica" {
		res = c.recvICAPacket(ctx, c.wrapExec(msg, c.e.I, cs.Nest))
	} else if cs.Variant == "authz" {
		// no grant of any kind exists: x/authz accepts an inner message implicitly
		// when its only signer is the grantee
		n := cs.Nest
		if n < 1 {
			n = 1
		}
		att := c.attacker(cs)
		res = c.e.w.DeliverTx(ctx, []*world.Actor{c.e.keys[att.Name]}, c.wrapExec(msg, att, n))
	} else {
		att := c.attacker(cs)
		msgs := []sdk.Msg{msg}
		switch cs.Pos {
		case "second":
			msgs = []sdk.Msg{c.harmless(att, 1), msg}
		case "third":
			msgs = []sdk.Msg{c.harmless(att, 1), c.harmless(att, 2), msg}
		case "first":
			msgs = []sdk.Msg{msg, c.harmless(att, 1)}
		}
		res = c.e.w.DeliverTx(ctx, []*world.Actor{c.e.keys[att.Name]}, msgs...)
	}
	c.deliveries++
	after := c.e.project(ctx)
	free := map[string]bool{}
	if cs.Variant == "grant" {
		free["B"] = true
	}
	var allow func(ch change) bool
	if m, ok := msg.(*skywaytypes.MsgConfirmBatch); ok {
		b := c.e.w.Vals[0]
		if m.Signature == world.SignCheckpoint(b, c.e.cp2) && m.Nonce == c.e.batch2.BatchNonce && strings.EqualFold(m.TokenContract, erc20s[1]) {
			allow = func(ch change) bool { return ch.Victim == "B" && ch.Op == "add" && ch.Kind == "skyway/batch-confirm" }
		}
	}
	o := outcome{Res: res}
	o.Viol, o.Changed, o.OwnA = c.judge(before, after, free, allow)
	return o
}

// recvICAPacket delivers msg the way the interchain-accounts host delivers the
// transaction of a controller chain: ICAHostKeeper.OnRecvPacket (EXECUTE_TX) on a
// cached context written only on success, as the IBC module wrapper does after
// checking that the host is enabled. The interchain account I is the only signer;
// no ante handler runs.
func (c *checker) recvICAPacket(ctx sdk.Context, msg sdk.Msg) (res world.TxResult) {
	defer func() {
		if r := recover(); r != nil {
			res = world.TxResult{Err: fmt.Errorf("panic: %v", r), Stage: "panic"}
		}
	}()
	app := c.e.w.App
	if !app.ICAHostKeeper.GetParams(ctx).HostEnabled {
		return world.TxResult{Err: fmt.Errorf("interchain accounts host disabled"), Stage: "ica"}
	}
	data, err := icatypes.SerializeCosmosTx(app.AppCodec(), []proto.Message{msg.(proto.Message)}, icatypes.EncodingProtobuf)
	if err != nil {
		return world.TxResult{Err: err, Stage: "build"}
	}
	packet := channeltypes.Packet{Sequence: 1, SourcePort: icaOwnerPort, SourceChannel: icaChannel, DestinationPort: icatypes.HostPortID, DestinationChannel: icaChannel,
		Data: icatypes.InterchainAccountPacketData{Type: icatypes.EXECUTE_TX, Data: data}.GetBytes()}
	cc, write := ctx.CacheContext()
	cc = cc.WithEventManager(sdk.NewEventManager())
	if _, err := app.ICAHostKeeper.OnRecvPacket(cc, packet); err != nil {
		return world.TxResult{Err: err, Stage: "ica"}
	}
	write()
	return world.TxResult{}
}

// wrapExec wraps msg in n authz.MsgExec envelopes with the given grantee.
func (c *checker) wrapExec(msg sdk.Msg, grantee *actor, n int) sdk.Msg {
	for i := 0; i < n; i++ {
		m := authz.NewMsgExec(grantee.Acc, []sdk.Msg{msg})
		msg = &m
	}
	return msg
}

// harmless is a message the attacker is fully entitled to send: a denom in its
// own namespace, created and signed by itself.
func (c *checker) harmless(att *actor, i int) sdk.Msg {
	return &tftypes.MsgCreateDenom{Subdenom: fmt.Sprintf("harmless%d", i), Metadata: meta(att.Acc.String(), att.Acc.String())}
}

// appMessenger returns the application's own x/wasm messenger (the libwasm
// router decorating wasmd's default handler chain). app.wasmKeeper and the
// keeper's messenger field are unexported; reading them needs no hook in /repo.
func (c *checker) appMessenger() wasmkeeper.Messenger {
	if c.messenger != nil {
		return c.messenger
	}
	k := reflect.ValueOf(c.e.w.App).Elem().FieldByName("wasmKeeper")
	if !k.IsValid() {
		panic("app.wasmKeeper not found")
	}
	f := k.FieldByName("messenger")
	if !f.IsValid() {
		panic("wasm keeper has no messenger field")
	}
	m, ok := reflect.NewAt(f.Type(), unsafe.Pointer(f.UnsafeAddr())).Elem().Interface().(wasmkeeper.Messenger)
	if !ok || m == nil {
		panic("wasm keeper messenger is not a Messenger")
	}
	c.messenger = m
	return m
}

// dispatchFromContract delivers msg the way x/wasm delivers a CosmosMsg::Any
// returned by contract C: through the application's real messenger (libwasm
// router -> wasmd default handler chain -> SDKMessageHandler: ValidateBasic,
// signers == contract address, router handler) inside a cache context, as
// wasmd's dispatcher does for a sub-message. No ante handler runs.
func (c *checker) dispatchFromContract(ctx sdk.Context, msg sdk.Msg) (res world.TxResult) {
	defer func() {
		if r := recover(); r != nil {
			res = world.TxResult{Err: fmt.Errorf("panic: %v", r), Stage: "panic"}
		}
	}()
	app := c.e.w.App
	bz, err := app.AppCodec().Marshal(msg.(proto.Message))
	if err != nil {
		return world.TxResult{Err: err, Stage: "build"}
	}
	cc, write := ctx.CacheContext()
	cc = cc.WithEventManager(sdk.NewEventManager())
	_, _, _, err = c.appMessenger().DispatchMsg(cc, c.e.C.Acc, "", wasmvmtypes.CosmosMsg{Any: &wasmvmtypes.AnyMsg{TypeURL: sdk.MsgTypeURL(msg), Value: bz}})
	if err != nil {
		return world.TxResult{Err: err, Stage: "wasm"}
	}
	write()
	return world.TxResult{}
}

var denomOwnedKinds = map[string]bool{
	"skyway/denom-to-erc20": true, "skyway/erc20-to-denom": true,
}

// attrOwners attributes a record. A record filed under a principal's address
// (the key carries it) belongs to that principal only: identities mentioned in
// its value are content. Only records keyed by something else (ids, hashes,
// names) are attributed through their value. In the denom-owned families the
// denom's creator (in the key) and the admin (in the value) both own the record.
func (c *checker) attrOwners(r *rec) map[string]bool {
	if r == nil {
		return map[string]bool{}
	}
	denomOwned := r.Store == "tokenfactory" || (r.Store == "bank" && (strings.HasPrefix(r.Kind, "bank/0x00") || strings.HasPrefix(r.Kind, "bank/0x01"))) || denomOwnedKinds[r.Kind]
	strip := func(b []byte) []byte {
		if denomOwned {
			return b
		}
		// denom mentions outside denom-owned families do not attribute
		for _, p := range c.e.principals {
			b = []byte(strings.ReplaceAll(string(b), "factory/"+p.Acc.String(), "factory/~"))
		}
		return b
	}
	if r.explicit {
		cp := *r
		cp.Attr = strip(r.Attr)
		return c.e.owners(&cp)
	}
	kr := *r
	kr.Attr = strip(r.Key)
	ko := c.e.owners(&kr)
	named := false
	for o := range ko {
		if o != "G" {
			named = true
		}
	}
	if named && r.Store != "tokenfactory" {
		return ko
	}
	vr := *r
	vr.Attr = strip(append(append([]byte{}, r.Key...), r.Val...))
	return c.e.owners(&vr)
}

func (c *checker) judge(before, after projection, free map[string]bool, allow func(change) bool) (viol []change, changedKinds []string, ownA int) {
	ids := map[string]bool{}
	for id, r := range before {
		if a, ok := after[id]; !ok || string(a.Val) != string(r.Val) {
			ids[id] = true
		}
	}
	for id := range after {
		if _, ok := before[id]; !ok {
			ids[id] = true
		}
	}
	sorted := make([]string, 0, len(ids))
	for id := range ids {
		sorted = append(sorted, id)
	}
	sort.Strings(sorted)
	kinds := map[string]bool{}
	for _, id := range sorted {
		rb, ra := before[id], after[id]
		var kind string
		if rb != nil {
			kind = rb.Kind
		} else {
			kind = ra.Kind
		}
		if kind == "valset/jail-reasons" {
			continue
		}
		ob, oa := c.attrOwners(rb), c.attrOwners(ra)
		op := "alter"
		if rb == nil {
			op = "add"
		} else if ra == nil {
			op = "remove"
		}
		kinds[op+" "+kind] = true
		attributed := false
		for _, v := range []string{"B", "U", "G", "L", "M", "R"} {
			var ch *change
			switch {
			case rb != nil && ob[v]:
				ch = &change{ID: id, Kind: kind, Op: op, Victim: v}
			case ra != nil && oa[v]:
				ch = &change{ID: id, Kind: kind, Op: "add", Victim: v}
			}
			if ch == nil {
				continue
			}
			attributed = true
			if free[v] {
				c.exempted["fee-grant:"+kind]++
				continue
			}
			if allow != nil && allow(*ch) {
				c.exempted["own-external-signature:"+kind]++
				continue
			}
			if why := c.giftable(*ch, rb, ra); why != "" {
				c.exempted[why]++
				continue
			}
			viol = append(viol, *ch)
		}
		if ob["A"] || oa["A"] || ob["C"] || oa["C"] || ob["V"] || oa["V"] || ob["I"] || oa["I"] {
			ownA++
			attributed = true
		}
		if !attributed {
			c.unattrib[op+" "+kind]++
		}
	}
	for k := range kinds {
		changedKinds = append(changedKinds, k)
	}
	sort.Strings(changedKinds)
	return
}

// giftable returns a reason when the change is of a kind the properties define
// as something anyone may do FOR someone else.
func (c *checker) giftable(ch change, rb, ra *rec) string {
	switch {
	case ch.Kind == "bank/0x02": // balances
		if ra == nil {
			return ""
		}
		var nb, na sdkmath.Int
		if err := na.Unmarshal(ra.Val); err != nil {
			return ""
		}
		if rb == nil {
			return "gift:bank-balance"
		}
		if err := nb.Unmarshal(rb.Val); err != nil {
			return ""
		}
		if na.GTE(nb) {
			return "gift:bank-balance"
		}
	case ch.Kind == "bank/0x03" && ch.Op == "add": // denom -> holder index of a received coin
		return "gift:bank-balance-index"
	case ch.Kind == "acc/0x01" && ch.Op == "add" && rb == nil: // a new account
		return "gift:new-account"
	case ch.Kind == "acc/accountNumber" && ch.Op == "add" && rb == nil: // account number index
		return "gift:new-account"
	case strings.HasPrefix(ch.Kind, "tokenfactory/") && ch.Op == "add" && rb != nil && !c.attrOwners(rb)[ch.Victim]:
		return "gift:denom-admin-handover"
	case ch.Kind == "paloma-store/light-node-client-license" && ch.Op == "add" && rb == nil:
		return "gift:licence"
	}
	return ""
}

func errClass(res world.TxResult) string {
	if res.OK() {
		return "accepted"
	}
	s := res.Err.Error()
	if len(s) > 60 {
		s = s[:60]
	}
	return res.Stage + ":" + s
}

func (c *checker) describe(cs caseSpec, o outcome) string {
	var sb strings.Builder
	att := c.attacker(cs)
	by := "signed by " + att.Name + " only (" + att.Role + ")"
	switch cs.Pos {
	case "second":
		by += "; tx = [harmless denom creation by " + att.Name + ", this message]"
	case "third":
		by += "; tx = [harmless denom creation by " + att.Name + ", another one, this message]"
	case "first":
		by += "; tx = [this message, harmless denom creation by " + att.Name + "]"
	}
	if cs.Variant == "wasm" {
		by = "dispatched as CosmosMsg::Any by contract C through the application's messenger (signers=[C], no ante)"
		if cs.Nest > 0 {
			by += fmt.Sprintf("; wrapped in %d authz.MsgExec{grantee: C}", cs.Nest)
		}
	}
	if cs.Variant == "ica" {
		by = "sent as EXECUTE_TX packet by the controller of interchain account I through ICAHostKeeper.OnRecvPacket (signers=[I], no ante)"
		if cs.Nest > 0 {
			by += fmt.Sprintf("; wrapped in %d authz.MsgExec{grantee: I}", cs.Nest)
		}
	}
	if cs.Variant == "authz" {
		n := cs.Nest
		if n < 1 {
			n = 1
		}
		by += fmt.Sprintf("; tx = [%d x authz.MsgExec{grantee: %s}[this message]], no grant exists", n, att.Name)
	}
	fmt.Fprintf(&sb, "%s\n  %s; result: %s\n", cs, by, errClass(o.Res))
	for _, v := range o.Viol {
		fmt.Fprintf(&sb, "  %s %s of %s (%s): %s\n", v.Op, v.Kind, v.Victim, c.e.byNameOrM(v.Victim).Role, v.ID)
	}
	return sb.String()
}

func (e *env) byNameOrM(n string) *actor {
	if n == "M" {
		return e.M
	}
	return e.byName[n]
}

func victims(v []change) string {
	m := map[string]bool{}
	for _, x := range v {
		m[x.Victim] = true
	}
	var out []string
	for k := range m {
		out = append(out, k)
	}
	sort.Strings(out)
	return strings.Join(out, ",")
}

// shrink resets non-attacker leaves to A while the same victims stay violated.
func (c *checker) shrink(cs caseSpec, o outcome) (caseSpec, outcome) {
	want := victims(o.Viol)
	paths := make([]string, 0, len(cs.Assign))
	for p := range cs.Assign {
		paths = append(paths, p)
	}
	sort.Strings(paths)
	att := c.attacker(cs).Name
	for _, p := range paths {
		if cs.Assign[p] == att {
			continue
		}
		try := cs.with(p, att)
		if o2 := c.deliver(try); len(o2.Viol) > 0 && victims(o2.Viol) == want {
			cs, o = try, o2
		}
	}
	return cs, o
}

// signature classifies the defect by its site: the message type and the leaves
// through which somebody other than the signer is named (after shrinking).
func (c *checker) signature(cs caseSpec, o outcome) string {
	var fs []string
	for p, a := range cs.Assign {
		if a != c.attacker(cs).Name {
			fs = append(fs, p)
		}
	}
	sort.Strings(fs)
	if len(fs) == 0 {
		fs = []string{"-"}
	}
	if cs.Variant == "wasm" {
		// one defect class, keyed separately: x/wasm routes a contract's message to the
		// handler without the ante chain, so neither metadata.creator nor any other
		// named principal is authenticated on that path
		return "wasm:principal-unauthenticated"
	}
	if cs.Variant == "ica" {
		// one defect class: the interchain-accounts host routes the messages of a
		// controller chain's transaction to the handlers after checking only that the
		// interchain account is their signer
		return "ica:principal-unauthenticated"
	}
	if cs.Variant == "authz" {
		// one defect class: x/authz executes the messages nested in a MsgExec whose
		// grantee is their only signer without any grant, and the ante decorator only
		// looks at the envelope
		return "authz:principal-unauthenticated"
	}
	s := "forge:" + shortType(cs.Type) + ":" + strings.Join(fs, ",")
	if cs.SigVar != "" && cs.SigVar != "valid" {
		s += ":sig=" + cs.SigVar
	}
	if cs.Attacker == "V" {
		s += ":by-validator"
	}
	if cs.Pos != "" {
		// the same message alone is authorised correctly (otherwise the single-message
		// signature is used, see evalCase): the defect is not in the message's handler
		// but in how a multi-message transaction is authorised - one site, one signature
		if cs.Pos == "first" {
			return "multimsg:first-message-unauthorised"
		}
		return "multimsg:later-message-unauthorised"
	}
	return s
}

func (c *checker) countOutcome(cs caseSpec, o outcome) {
	c.stage[o.Res.Stage]++
	if o.Res.Stage == "panic" {
		c.panics = append(c.panics, cs.String()+": "+o.Res.Err.Error())
	}
	if o.Res.OK() {
		c.accepted++
		c.acceptedBy[cs.Variant+",attacker="+c.attacker(cs).Name+",pos="+cs.Pos]++
	}
	if o.OwnA > 0 {
		c.changedA++
	}
	key := ""
	if o.Res.OK() || len(o.Changed) > 0 {
		key = cs.Type + "|" + cs.Variant + "|" + cs.Attacker + "|" + cs.Pos + fmt.Sprint(cs.Later) + "|" + errClass(o.Res) + "|" + strings.Join(o.Changed, ",")
	} else {
		key = cs.Type + "|" + cs.Attacker + "|" + cs.Pos + "|" + errClass(o.Res)
	}
	c.r.Case(key)
}

// a contract acting for itself (creator == the contract) must keep working:
// positive control for repairs of the contract path
var wasmOwnControls = map[string]bool{
	"/palomachain.paloma.tokenfactory.MsgCreateDenom": true,
	"/palomachain.paloma.scheduler.MsgCreateJob":      true,
	"/palomachain.paloma.scheduler.MsgExecuteJob":     true,
}

func (c *checker) evalCase(cs caseSpec) {
	o := c.deliver(cs)
	c.countOutcome(cs, o)
	if cs.Variant == "wasm" && cs.Nest == 0 && wasmOwnControls[cs.Type] {
		own := true
		for _, a := range cs.Assign {
			if a != "C" {
				own = false
			}
		}
		if own {
			c.ownViaWasm[shortType(cs.Type)] = errClass(o.Res)
			if !o.Res.OK() {
				c.r.Violate("wasm:own-message-refused", "contract C dispatching its own message (creator = C, signers = [C]) is refused: "+o.Res.Err.Error()+"\n"+cs.String(), cs)
			}
		}
	}
	if cs.Variant == "ica" && cs.Nest == 0 && wasmOwnControls[cs.Type] {
		own := true
		for _, a := range cs.Assign {
			if a != "I" {
				own = false
			}
		}
		if own {
			c.ownViaICA[shortType(cs.Type)] = errClass(o.Res)
			if !o.Res.OK() {
				c.r.Violate("ica:own-message-refused", "interchain account I sending its own message (creator = I, signers = [I]) is refused: "+o.Res.Err.Error()+"\n"+cs.String(), cs)
			}
		}
	}
	if len(o.Viol) > 0 {
		min, mo := c.shrink(cs, o)
		if min.Pos != "" {
			// does the message alone do the same? then it is the single-message defect
			single := min
			single.Pos = ""
			if so := c.deliver(single); len(so.Viol) > 0 {
				min, mo = single, so
			}
		}
		sig := c.signature(min, mo)
		c.r.Violate(sig, c.describe(min, mo), min)
		if min.Pos != "" {
			c.multiForgeable[shortType(cs.Type)] = true
		}
		if cs.Variant == "wasm" {
			c.wasmForgeable[shortType(cs.Type)] = true
		}
		if cs.Variant == "authz" {
			c.authzForgeable[shortType(cs.Type)] = true
		}
		if cs.Variant == "ica" {
			c.icaForgeable[shortType(cs.Type)] = true
		}
	}
	// the fee grant must be honoured for the plain "act for B" case
	if cs.Variant == "grant" && cs.Pos == "" && o.Res.Stage == "ante" {
		allOrig := true
		for _, f := range c.idFields(cs.Type) {
			if cs.Assign[f.Path] != f.Orig {
				allOrig = false
			}
		}
		if allOrig && c.tmpls[cs.Type].Principal == "B" && (cs.SigVar == "" || cs.SigVar == "valid") {
			c.r.Violate("grant-refused:"+shortType(cs.Type), "A holds a fee grant from B but the ante chain refused A acting for creator B: "+o.Res.Err.Error()+"\n"+cs.String(), cs)
		}
	}
	if len(c.r.Samples) < 6 && (c.deliveries%97 == 1) {
		c.r.Sample(map[string]interface{}{"case": cs.String(), "result": errClass(o.Res), "changed": o.Changed})
	}
}

func (c *checker) enumerate() {
	r := c.r
	routable, unroutable, untemplated := c.types()
	r.Extra["message_types_discovered"] = float64(len(routable) + len(unroutable) + len(untemplated))
	r.Extra["message_types_enumerated"] = float64(len(routable))
	r.Extra["unroutable"] = unroutable
	r.Extra["untemplated"] = untemplated
	if len(c.e.setupLog) > 0 {
		r.Extra["setup_notes"] = c.e.setupLog
	}
	// templates must be valid for their legitimate principal (non-vacuity)
	var invalid []string
	valid := 0
	for _, url := range routable {
		if err := c.legit(url); err != nil {
			invalid = append(invalid, shortType(url)+": "+err.Error())
		} else {
			valid++
		}
	}
	r.Extra["templates_accepted_from_legitimate_principal"] = float64(valid)
	r.Extra["templates_rejected_from_legitimate_principal"] = invalid

	// plans: (attacker, variant, position of the forged message in the tx, product)
	// diag = every identity leaf set to the same actor (one case per actor) instead
	// of the full product
	// product: "full" = every assignment; "diag" = every identity leaf set to the same
	// actor (one case per actor); "orig" = the template's own assignment (creator and
	// principals = the legitimate principal), attacker signs
	type plan struct {
		attacker, variant, pos string
		product                string
		nest                   int
		later                  bool
	}
	th := r.Thorough()
	red := "diag"
	if th {
		red = "full"
	}
	plans := []plan{
		{"", "plain", "", "full", 0, false},
		{"", "grant", "", "full", 0, false},
		{"", "plain", "second", "full", 0, false},
		{"", "plain", "third", red, 0, false},
		{"", "plain", "first", red, 0, false},
		{"V", "plain", "", "full", 0, false},
		{"V", "plain", "second", red, 0, false},
		{"", "authz", "", "full", 1, false},
		{"", "authz", "", "orig", 2, false},
		{"", "wasm", "", red, 0, false},
		{"", "wasm", "", "diag", 1, false},
		{"", "ica", "", red, 0, false},
		{"", "ica", "", "diag", 1, false},
		{"", "plain", "", "diag", 0, true},
		{"V", "plain", "", "diag", 0, true},
	}
	if th {
		plans = append(plans,
			plan{"", "grant", "second", "full", 0, false},
			plan{"V", "plain", "third", "diag", 0, false},
		)
	}
	deadline := r.Deadline(150*time.Second, 25*time.Minute)
	fieldReport := map[string][]string{}
	perPlan := map[string]float64{}
	for _, url := range routable {
		fs := c.idFields(url)
		for _, f := range fs {
			fieldReport[shortType(url)] = append(fieldReport[shortType(url)], f.Path+":"+f.Kind)
		}
		for _, pl := range plans {
			if only := os.Getenv("C03_ONLY"); only != "" && only != pl.variant { // development aid
				continue
			}
			for _, sv := range c.e.variantsOf(url, pl.attacker) {
				proto := caseSpec{Type: url, Variant: pl.variant, SigVar: sv.Name, Attacker: pl.attacker, Pos: pl.pos, Nest: pl.nest, Later: pl.later}
				acts := c.actorsOf(proto)
				n := 1
				switch pl.product {
				case "diag":
					n = len(acts)
				case "full":
					for range fs {
						n *= len(acts)
					}
				}
				for i := 0; i < n; i++ {
					if time.Now().After(deadline) {
						r.Cap("deadline")
						goto done
					}
					cs := proto.with("", "")
					x := i
					for _, f := range fs {
						switch pl.product {
						case "diag":
							cs.Assign[f.Path] = acts[i].Name
						case "orig":
							cs.Assign[f.Path] = f.Orig
						default:
							cs.Assign[f.Path] = acts[x%len(acts)].Name
							x /= len(acts)
						}
					}
					c.evalCase(cs)
					name := pl.variant
					if pl.attacker != "" {
						name += ",attacker=" + pl.attacker
					}
					if pl.pos != "" {
						name += ",pos=" + pl.pos
					}
					if pl.nest > 0 {
						name += fmt.Sprintf(",msgexec*%d", pl.nest)
					}
					if pl.later {
						name += ",t0+1d"
					}
					perPlan[name]++
				}
			}
		}
	}
done:
	c.takeover(routable, deadline)
	r.Extra["identity_fields"] = fieldReport
	r.Extra["deliveries"] = float64(c.deliveries)
	r.Extra["cases_per_plan"] = perPlan
	r.Extra["accepted_per_plan"] = c.acceptedBy
	r.Extra["accepted"] = float64(c.accepted)
	r.Extra["deliveries_changing_attackers_own_records"] = float64(c.changedA)
	st := map[string]float64{}
	for k, v := range c.stage {
		if k == "" {
			k = "accepted"
		}
		st[k] = float64(v)
	}
	r.Extra["result_stage"] = st
	r.Extra["unattributed_changes"] = c.unattrib
	r.Extra["exemptions_used"] = c.exempted
	if len(c.panics) > 0 {
		r.Extra["handler_panics_recovered"] = c.panics
	}
	if len(c.multiForgeable) > 0 {
		var ts []string
		for t := range c.multiForgeable {
			ts = append(ts, t)
		}
		sort.Strings(ts)
		r.Extra["multimsg_message_types_forgeable_only_inside_a_multi_message_tx"] = ts
	}
	if len(c.authzForgeable) > 0 {
		var ts []string
		for t := range c.authzForgeable {
			ts = append(ts, t)
		}
		sort.Strings(ts)
		r.Extra["authz_message_types_with_forgeable_principal"] = ts
	}
	r.Extra["wasm_contract_acting_for_itself"] = c.ownViaWasm
	r.Extra["ica_account_acting_for_itself"] = c.ownViaICA
	r.Extra["ica_host_params_from_genesis"] = c.e.icaParams
	if len(c.icaForgeable) > 0 {
		var ts []string
		for t := range c.icaForgeable {
			ts = append(ts, t)
		}
		sort.Strings(ts)
		r.Extra["ica_message_types_with_forgeable_principal"] = ts
	}
	if len(c.wasmForgeable) > 0 {
		var ts []string
		for t := range c.wasmForgeable {
			ts = append(ts, t)
		}
		sort.Strings(ts)
		r.Extra["wasm_message_types_with_forgeable_principal"] = ts
	}
}

// legit delivers the template as its legitimate principal would.
func (c *checker) legit(url string) error {
	t := c.tmpls[url]
	ctx := world.Fork(c.e.rootPlain)
	if t.Prep != nil {
		t.Prep(ctx)
	}
	msg := t.Build()
	if t.Principal == "G" {
		if err := c.e.w.GovExec(ctx, msg); err != nil {
			return err
		}
	} else {
		res := c.e.w.DeliverTx(ctx, []*world.Actor{c.e.keys[t.Principal]}, msg)
		if !res.OK() {
			return fmt.Errorf("[%s] %v", res.Stage, res.Err)
		}
	}
	return nil
}

func (c *checker) replay(file string) {
	var v report.Violation
	b, err := os.ReadFile(file)
	if err == nil {
		err = json.Unmarshal(b, &v)
	}
	if err != nil {
		fmt.Fprintln(os.Stderr, err)
		os.Exit(2)
	}
	raw, _ := json.Marshal(v.Replay)
	var cs caseSpec
	if err := json.Unmarshal(raw, &cs); err != nil {
		fmt.Fprintln(os.Stderr, err)
		os.Exit(2)
	}
	if _, ok := c.tmpls[cs.Type]; !ok {
		fmt.Fprintln(os.Stderr, "no template for", cs.Type)
		os.Exit(2)
	}
	o := c.deliver(cs)
	c.r.Case(cs.String())
	c.r.Sample(map[string]interface{}{"case": cs.String(), "result": errClass(o.Res), "changed": o.Changed})
	fmt.Println(c.describe(cs, o))
	if len(o.Viol) > 0 {
		c.r.Violate(c.signature(cs, o), c.describe(cs, o), cs)
	}
}

func (c *checker) dump() {
	p := c.e.project(c.e.rootPlain)
	ids := make([]string, 0, len(p))
	for id := range p {
		ids = append(ids, id)
	}
	sort.Strings(ids)
	hist := map[string]int{}
	for _, id := range ids {
		r := p[id]
		var os []string
		for o := range c.attrOwners(r) {
			os = append(os, o)
		}
		sort.Strings(os)
		hist[r.Kind+" -> "+strings.Join(os, ",")]++
	}
	var ks []string
	for k := range hist {
		ks = append(ks, k)
	}
	sort.Strings(ks)
	for _, k := range ks {
		fmt.Printf("%4d %s\n", hist[k], k)
	}
	fmt.Println("records:", len(p))
}
