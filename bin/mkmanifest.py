#!/usr/bin/env python3
"""Regenerates MANIFEST.json from bin/manifest_src.json (claimed checks) + properties.jsonl."""
import json, os
root = os.path.dirname(os.path.dirname(os.path.abspath(__file__)))
src = json.load(open(os.path.join(root, 'bin', 'manifest_src.json')))
props = [json.loads(l) for l in open(os.path.join(root, 'properties.jsonl'))]
checks = []
na = []
for p in props:
    pid = p['id']
    c = src['checks'].get(pid)
    if not c:
        na.append({'property_id': pid, 'reason': src.get('not_applicable', {}).get(pid, 'check not built yet (work in progress); nothing is claimed for this property')})
        continue
    checks.append({
        'property_id': pid,
        'quick_cmd': f'bin/check {pid} quick',
        'thorough_cmd': f'bin/check {pid} thorough',
        'evidence_file': f'/verif/evidence/{pid}.json',
        'replay_cmd_template': f'bin/check {pid} quick --replay {{path}}',
        'engine': c['engine'],
        'level_claimed': {'category': c['level'], 'text': c['text'], 'design_ref': c['design_ref']},
        'level_note': c['note'],
        'technique': c['technique'],
    })
m = {
    'version': 1,
    'setup_cmd': 'bin/setup',
    'hooks': src['hooks'],
    'engines': src['engines'],
    'checks': checks,
    'notes': src['notes'],
    'not_applicable': na,
}
json.dump(m, open(os.path.join(root, 'MANIFEST.json'), 'w'), indent=1)
print('checks:', len(checks), 'not_applicable:', len(na))
