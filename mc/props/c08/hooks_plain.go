//go:build !verifrt

package main

// Build without the patched runtime: no control over map iteration order or the wall clock.
func mapHookAvailable() bool     { return false }
func mapBegin(d dev, h *history) {}
func mapEnd(d dev, h *history)   {}
func setClockSkew(sec int64)     {}
