package world

import (
	codectypes "github.com/cosmos/cosmos-sdk/codec/types"
	sdk "github.com/cosmos/cosmos-sdk/types"
	"github.com/cosmos/gogoproto/proto"
	ethcrypto "github.com/ethereum/go-ethereum/crypto"
	ctypes "github.com/palomachain/paloma/v2/x/consensus/types"
)

// TurnstoneQueue is the consensus queue of turnstone (compass) messages of a chain.
func TurnstoneQueue(ref string) string { return "evm/" + ref + "/evm-turnstone-message" }

// Queue returns all messages of a consensus queue.
func (w *World) Queue(ctx sdk.Context, q string) []ctypes.QueuedSignedMessageI {
	msgs, err := w.App.ConsensusKeeper.GetMessagesFromQueue(ctx, q, 0)
	if err != nil {
		return nil
	}
	return msgs
}

// SignQueued is validator v's signature message over the current signing bytes of m.
func (w *World) SignQueued(v *Val, q string, m ctypes.QueuedSignedMessageI) *ctypes.MsgAddMessagesSignatures {
	bts, err := m.GetBytesToSign(w.App.AppCodec())
	if err != nil {
		panic(err)
	}
	return &ctypes.MsgAddMessagesSignatures{Metadata: Meta(v.Actor), SignedMessages: []*ctypes.ConsensusMessageSignature{{
		Id: m.GetId(), QueueTypeName: q, Signature: SignConsensusBytes(v, bts), SignedByAddress: v.EthAddr(),
	}}}
}

// SignConsensusBytes signs bytes-to-sign the way pigeon does (eth personal-sign prefix).
func SignConsensusBytes(v *Val, bts []byte) []byte {
	digest := ethcrypto.Keccak256(append([]byte("\x19Ethereum Signed Message:\n32"), bts...))
	sig, err := ethcrypto.Sign(digest, v.Eth)
	if err != nil {
		panic(err)
	}
	return sig
}

// Estimate is validator v's gas estimate message for queued message id.
func Estimate(v *Val, q string, id, value uint64) *ctypes.MsgAddMessageGasEstimates {
	return &ctypes.MsgAddMessageGasEstimates{Metadata: Meta(v.Actor), Estimates: []*ctypes.MsgAddMessageGasEstimates_GasEstimate{{
		MsgId: id, QueueTypeName: q, Value: value, EstimatedByAddress: v.EthAddr(),
	}}}
}

// Evidence is validator v's evidence message carrying proof for queued message id.
func Evidence(v *Val, q string, id uint64, proof proto.Message) *ctypes.MsgAddEvidence {
	a, err := codectypes.NewAnyWithValue(proof)
	if err != nil {
		panic(err)
	}
	return &ctypes.MsgAddEvidence{Proof: a, MessageID: id, QueueTypeName: q, Metadata: Meta(v.Actor)}
}
