#!/bin/bash
# Builds the C08 checker against a patched copy of the Go runtime (map iteration
# order and wall clock behind hooks) — all through `go build -overlay`; neither
# GOROOT nor /repo is modified.
set -eu
. "$(dirname "$0")/../../../bin/env.sh"
GR=$(go env GOROOT)
RT="$VERIF_BUILD_DIR/rt"
mkdir -p "$RT"
sed -e 's/r := uintptr(rand())/r := uintptr(verifMapIterRand(h.count))/' \
    -e 's/h\.hash0 = uint32(rand())/h.hash0 = verifMapSeed()/' "$GR/src/runtime/map.go" > "$RT/map.go"
sed -e 's/^\tsec, nsec, mono := now()$/\tsec, nsec, mono := now()\n\tsec += VerifSkewSeconds/' "$GR/src/time/time.go" > "$RT/time.go"
grep -q 'verifMapIterRand(h.count)' "$RT/map.go" || { echo "runtime patch (mapiterinit) did not apply" >&2; exit 1; }
[ "$(grep -c 'verifMapSeed()' "$RT/map.go")" -ge 4 ] || { echo "runtime patch (hash0) did not apply" >&2; exit 1; }
grep -q 'sec += VerifSkewSeconds' "$RT/time.go" || { echo "time patch did not apply" >&2; exit 1; }
ov=$(genoverlay)
python3 - "$ov" "$GR" "$RT" "$VERIF_DIR" <<'PY'
import json,sys
ov,gr,rt,vd=sys.argv[1:5]
d=json.load(open(ov))
d['Replace'][gr+'/src/runtime/map.go']=rt+'/map.go'
d['Replace'][gr+'/src/runtime/zz_verif.go']=vd+'/overlay/runtime_zz_verif.go'
d['Replace'][gr+'/src/time/time.go']=rt+'/time.go'
d['Replace'][gr+'/src/time/zz_verif.go']=vd+'/overlay/time_zz_verif.go'
json.dump(d,open(ov.replace('overlay.json','overlay-rt.json'),'w'))
PY
cd "$REPO_DIR"
go build -overlay "$VERIF_BUILD_DIR/overlay-rt.json" -tags verifrt -o "$VERIF_BUILD_DIR/c08" ./zzverif/props/c08
