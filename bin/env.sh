# sourced by bin/setup and bin/check
export GOFLAGS=-mod=mod GOPROXY=off GOSUMDB=off GOTOOLCHAIN=local
export VERIF_DIR="${VERIF_DIR:-$(cd "$(dirname "${BASH_SOURCE[0]}")/.." && pwd)}"
export REPO_DIR="${REPO_DIR:-/repo}"
# the harness module tracks /repo's own go.mod (same dependency versions), with
# the repository replaced by the working tree
genmod() {
  ( cd "$VERIF_DIR/mc" &&
    sed 's#^module .*#module verif/mc#' "$REPO_DIR/go.mod" > go.mod.new &&
    cp "$REPO_DIR/go.sum" go.sum &&
    printf '\nrequire github.com/palomachain/paloma/v2 v2.0.0\nreplace github.com/palomachain/paloma/v2 => %s\n' "$REPO_DIR" >> go.mod.new &&
    { cmp -s go.mod.new go.mod || mv go.mod.new go.mod; rm -f go.mod.new; } )
}
