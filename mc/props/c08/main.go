// C08 — determinism. A fixed block history is executed through the real ABCI
// surface (InitChain / FinalizeBlock / Commit) and its per-block digest
// (AppHash, tx results, events) is compared with twin executions that deviate
// in exactly one (thorough: also two) environment answers: process environment
// variables, a restart or a round of read-only queries between two blocks, the
// wall clock, and — in the build with the patched Go runtime — the iteration
// order of one map range statement executed by paloma code.
package main

import (
	"encoding/json"
	"flag"
	"fmt"
	"os"
	"sort"
	"strings"
	"time"

	abci "github.com/cometbft/cometbft/abci/types"
	sdk "github.com/cosmos/cosmos-sdk/types"
	"github.com/palomachain/paloma/v2/zzverif/hist"
	"github.com/palomachain/paloma/v2/zzverif/report"
)

// deviation from the default environment
type dev struct {
	Kind string `json:"kind"` // none | rerun | env | tz | restart | query | histquery | restart+histquery | clock | map | seed
	// env
	Env []string `json:"env,omitempty"`
	// restart / query: before block index At (0-based in the history)
	At int `json:"at,omitempty"`
	// clock skew: seconds; PerBlock: skew changes with every block
	Skew     int64 `json:"skew,omitempty"`
	PerBlock bool  `json:"per_block,omitempty"`
	// map iteration: dynamic occurrence index (1-based) among paloma-called range statements, rotation value
	MapIndex int    `json:"map_index,omitempty"`
	MapRot   uint64 `json:"map_rot,omitempty"`
	MapSite  string `json:"map_site,omitempty"`
	Seed     uint32 `json:"seed,omitempty"`
}

func (d dev) String() string { b, _ := json.Marshal(d); return string(b) }

// resumable deviations begin with a restart of the node.
func (d dev) resumable() bool { return d.Kind == "restart" || d.Kind == "restart+histquery" }

type blockDigest = hist.BlockDigest

func main() {
	replay := flag.String("replay", "", "replay file")
	flag.Parse()
	n := report.Workers()
	report.Main("C08", "model_checking", n, func(r *report.Run, shard, nshards int) { run(r, shard, nshards, *replay) })
}

var envNames = []string{"PALOMA_FF_PIGEON_STATUS_UPDATE", "PPROF_LISTEN", "PIGEON_HEALTHCHECK_PORT"} // every literal passed to os.Getenv / os.LookupEnv in the tree; TZ is covered by the tz deviations

func run(r *report.Run, shard, nshards int, replayFile string) {
	r.Rule = "one fixed ~310-block history (relay lifecycle with score ties, bridge lifecycle, valset lifecycle, status updates with every level) executed through InitChain/FinalizeBlock/Commit; every twin execution deviates in one environment answer (env-var subset, process time zone, restart / query round against the latest state / query round against three historical versions (warm and right after a restart) at a block boundary, wall-clock skew, one map-range rotation in paloma code) and must reproduce the baseline's per-block digest; a state = one (deviation, block) pair, a transition = one executed block"
	r.Assumptions = []string{
		"histories are not enumerated: the quantifier 'all block histories' is covered by this one driver history only",
		"digest = AppHash + per-tx (code, codespace, data, gas used, events) + block events; tx log strings are excluded (not consensus relevant)",
		"map-iteration deviations exist only in the binary built against the patched runtime (bin/check builds it); rotations are exactly what runtime.mapiterinit can produce; only range statements over maps with at least two entries are deviation points",
		"the process time zone (TZ) is deviated by replacing time.Local with fixed zones +9h and -11h for a whole execution (chain time starts on a January 31st evening so month arithmetic differs between zones)",
		"the default wall clock sits at chain time (a node executing live); clock deviations are +40 days, +1100 days (a node replaying later), -400 days and a per-block jitter",
	}
	h := newHistory()
	if replayFile != "" {
		if shard != 0 {
			return
		}
		var v report.Violation
		b, err := os.ReadFile(replayFile)
		if err == nil {
			err = json.Unmarshal(b, &v)
		}
		if err != nil {
			fmt.Fprintln(os.Stderr, err)
			os.Exit(2)
		}
		var d dev
		bb, _ := json.Marshal(v.Replay)
		_ = json.Unmarshal(bb, &d)
		base := h.execute(dev{Kind: "none"})
		got := h.execute(d) // kind "rerun": a second plain execution in this process
		compare(r, d, base, got)
		r.States, r.Transitions = int64(len(base)), int64(2*len(base))
		r.Sample(d)
		return
	}
	// baseline twice: the harness itself must be deterministic
	t0 := time.Now()
	h.events = map[string]int{}
	base := h.execute(dev{Kind: "none"})
	if shard == 0 {
		ev := map[string]int{}
		for k, v := range h.events {
			if strings.Contains(k, "paloma") || strings.Contains(k, "skyway") {
				ev[k] = v
			}
		}
		r.Extra["baseline_paloma_event_types"] = ev
	}
	h.events = nil
	if shard == 0 {
		r.Extra["baseline_exec_s"] = time.Since(t0).Seconds()
	}
	baseCount := h.lastMapCount
	again := h.execute(dev{Kind: "none"})
	if h.lastMapCount != baseCount {
		fmt.Fprintf(os.Stderr, "harness error: number of paloma map range executions not reproducible (%d vs %d)\n", baseCount, h.lastMapCount)
		os.Exit(2)
	}
	for i := range base {
		if i >= len(again) || base[i].Hash != again[i].Hash {
			// the same history executed a second time in the same process (a fresh application over a fresh
			// database, but whatever the first execution left in process memory is still there) gives another
			// result: state depends on something outside the chain history. The harness's own script is
			// deterministic (it has no state of its own between executions), so this is a verdict.
			if shard == 0 {
				d := dev{Kind: "rerun"}
				msg := fmt.Sprintf("deviation %s: the history re-executed in the same process (package-level / in-memory state surviving from the first execution) differs from the first execution at block %d", d, base[i].Height)
				if i < len(again) {
					msg += "\n first: " + strings.Join(base[i].Detail, " | ") + "\n again: " + strings.Join(again[i].Detail, " | ")
				}
				r.Violate("rerun:process-memory", msg, d)
			}
			return
		}
	}
	if shard == 0 {
		r.States += int64(len(base))
		r.Transitions += int64(2 * len(base))
		r.Extra["blocks"] = float64(len(base))
		r.Extra["txs_in_history"] = float64(h.txCount)
		r.Extra["txs_ok"] = float64(h.txOK)
		r.Sample(map[string]interface{}{"baseline_last_block": base[len(base)-1]})
	}
	devs := h.deviations(r, base)
	if only := os.Getenv("VERIF_C08_ONLY"); only != "" {
		// experiments only (never set by bin/check): restrict the menu to one kind
		var keep []dev
		for _, d := range devs {
			if d.Kind == only {
				keep = append(keep, d)
			}
		}
		devs = keep
		r.Cap("VERIF_C08_ONLY=" + only)
	}
	deadline := r.Deadline(150*time.Second, 27*time.Minute)
	outcomes := map[string]bool{}
	judge := func(i int, d dev, got []blockDigest) {
		r.States += int64(len(got))
		r.Transitions += int64(len(got))
		r.Case(d.String())
		if i%53 == 0 {
			r.Sample(d)
		}
		compare(r, d, base, got)
		outcomes[got[len(got)-1].Hash] = true
	}
	// (1) deviations of a node that keeps running: the whole history is re-executed. Environment,
	// clock, map-order and seed deviations come first; the (numerous) query rounds at block
	// boundaries come last, after the restart deviations, and are what a deadline cuts.
	var resumable, warmBoundary []int
	hard := time.Now().Add(2 * time.Until(deadline))
	envCapped := false
	rank := [3]int{} // deviations are dealt to the shards round-robin within each of the three groups
	for i, d := range devs {
		g := 0
		switch {
		case d.resumable():
			g = 1
		case d.Kind == "query" || d.Kind == "histquery":
			g = 2
		}
		rank[g]++
		if (rank[g]-1)%nshards != shard {
			continue
		}
		switch g {
		case 1:
			resumable = append(resumable, i)
		case 2:
			warmBoundary = append(warmBoundary, i)
		default:
			if time.Now().After(hard) {
				if !envCapped {
					r.Cap(fmt.Sprintf("deadline: environment deviations executed up to index %d of %d in shard", i, len(devs)))
					envCapped = true
				}
				continue
			}
			judge(i, d, h.execute(d))
		}
	}
	// (2) deviations that begin with a restart: the node's process state is discarded at that block
	// boundary anyway, so the twin is a fresh application over a copy of the database taken there
	// during one more plain execution; only the rest of the history is executed
	const chunk = 64 // database copies held at a time
	for c := 0; c < len(resumable); c += chunk {
		if time.Now().After(hard) {
			r.Cap(fmt.Sprintf("deadline: %d of %d restart deviations executed in shard", c, len(resumable)))
			break
		}
		part := resumable[c:min(c+chunk, len(resumable))]
		want := map[int][]int{}
		last := 0
		for _, i := range part {
			want[devs[i].At] = append(want[devs[i].At], i)
			last = max(last, devs[i].At)
		}
		snaps := map[int]*hist.Snapshot{}
		vehicle, _ := hist.Execute(hist.Hooks{Blocks: last + 1, BeforeBlock: func(bi int, run *hist.Run) {
			for _, i := range want[bi] {
				snaps[i] = run.Snapshot(bi)
				h.snapBytes = max(h.snapBytes, snaps[i].Bytes)
			}
		}})
		bad := false
		for k := range vehicle {
			if k >= len(base) || vehicle[k].Hash != base[k].Hash {
				d := dev{Kind: "rerun"}
				r.Violate("rerun:process-memory", fmt.Sprintf("deviation %s: a further plain execution of the history in the same process differs from the first at block index %d", d, k), d)
				bad = true
				break
			}
		}
		if bad {
			break
		}
		for _, i := range part {
			d := devs[i]
			got := append(append([]blockDigest{}, base[:d.At]...), h.resume(d, snaps[i])...)
			delete(snaps, i)
			if h.crossChecked < 2 && time.Now().Before(hard) {
				// the shortcut is validated against the long way: the same deviation with the whole history
				// re-executed and the application re-created in place must give the same digests
				h.crossChecked++
				full := h.execute(d)
				for k := range full {
					if k >= len(got) || full[k].Hash != got[k].Hash {
						fmt.Fprintf(os.Stderr, "harness error: %s resumed from a database copy differs from the full re-execution at block %d\n", d, full[k].Height)
						os.Exit(2)
					}
				}
			}
			judge(i, d, got)
			h.resumed++
		}
	}
	// (3) query rounds served by a node that keeps running
	for k, i := range warmBoundary {
		if time.Now().After(deadline) {
			r.Cap(fmt.Sprintf("deadline: %d of %d query-round deviations executed in shard", k, len(warmBoundary)))
			break
		}
		judge(i, devs[i], h.execute(devs[i]))
	}
	r.Extra["deviations_"+fmt.Sprint(shard)] = float64(0)
	delete(r.Extra, "deviations_"+fmt.Sprint(shard))
	if shard == 0 {
		r.Extra["restart_twins_resumed_from_database_copy_in_shard_0"] = float64(h.resumed)
		r.Extra["database_copy_bytes_max"] = float64(h.snapBytes)
		r.Extra["restart_twins_cross_checked_against_full_re_execution_in_shard_0"] = float64(h.crossChecked)
		r.Extra["historical_queries_answered_in_shard_0"] = float64(h.histAnswered)
		r.Extra["deviations_total"] = float64(len(devs))
		kinds := map[string]int{}
		for _, d := range devs {
			kinds[d.Kind]++
		}
		r.Extra["deviations_by_kind"] = kinds
	}
}

func compare(r *report.Run, d dev, base, got []blockDigest) {
	for i := range base {
		if i >= len(got) || base[i].Hash != got[i].Hash {
			msg := fmt.Sprintf("deviation %s: block %d digest differs from baseline", d, base[i].Height)
			if i < len(got) {
				msg += "\n baseline: " + strings.Join(base[i].Detail, " | ") + "\n deviated: " + strings.Join(got[i].Detail, " | ")
			}
			sig := d.Kind
			switch d.Kind {
			case "env":
				sig += ":" + strings.Join(d.Env, "+")
			case "map":
				sig += ":" + d.MapSite
			}
			r.Violate(sig, msg, d)
			return
		}
	}
}

// ---------------------------------------------------------------------------

type history struct {
	txCount, txOK int
	events        map[string]int
	mapSites      []mapSite // recorded during the baseline in the patched build
	lastMapCount  int
	histAnswered  int // queries against historical versions answered without error
	resumed       int
	crossChecked  int
	snapBytes     int
}

type mapSite struct {
	Index int
	Site  string
	Count int // entries of the map at that range statement
}

func newHistory() *history { return &history{} }

// deviations enumerates the deviation menu for this tier.
func (h *history) deviations(r *report.Run, base []blockDigest) []dev {
	var out []dev
	// env: every subset of size 1 and 2
	for i := range envNames {
		out = append(out, dev{Kind: "env", Env: []string{envNames[i]}})
		for j := i + 1; j < len(envNames); j++ {
			out = append(out, dev{Kind: "env", Env: []string{envNames[i], envNames[j]}})
		}
	}
	// process time zone (what TZ selects on a node)
	out = append(out, dev{Kind: "tz", Skew: 9 * 3600}, dev{Kind: "tz", Skew: -11 * 3600})
	// clock (patched runtime only)
	if mapHookAvailable() {
		// default: wall clock = chain time; deviations: a node replaying the history 40 days / 3 years later, one whose clock is behind, a jittering clock
		out = append(out, dev{Kind: "clock", Skew: 40 * 86400}, dev{Kind: "clock", Skew: 1100 * 86400}, dev{Kind: "clock", Skew: -400 * 86400}, dev{Kind: "clock", Skew: 3600, PerBlock: true})
	}
	// restart / queries at block boundaries (appended last: they are the most numerous, and a
	// deadline cap should cut them rather than the environment / clock / map deviations)
	var boundary []dev
	interesting := func(i int) bool {
		if r.Thorough() {
			return true
		}
		hh := base[i].Height
		return len(base[i].Detail) > 0 || (i > 0 && len(base[i-1].Detail) > 0) || hh%50 <= 1 || hh%10 == 0 && hh < 120 || hh >= 299
	}
	for i := 1; i < len(base); i++ {
		if interesting(i) {
			boundary = append(boundary, dev{Kind: "restart", At: i}, dev{Kind: "query", At: i})
			if i > 2 {
				// a node that serves queries against historical versions, warm and right after a restart
				boundary = append(boundary, dev{Kind: "histquery", At: i}, dev{Kind: "restart+histquery", At: i})
			}
		}
	}
	// map iteration (patched runtime only)
	if mapHookAvailable() {
		seenSite := map[string]int{}
		for _, s := range h.mapSites {
			seenSite[s.Site]++
			// quick: first three dynamic occurrences (over maps with >= 2 entries) per static site; thorough: up to 40 per site
			limit := 3
			if r.Thorough() {
				limit = 40
			}
			if seenSite[s.Site] > limit {
				continue
			}
			// a map of n <= 8 entries lives in one bucket: the start offsets 1..n-1 are all its rotations
			// (larger maps: a fixed menu that also varies the start bucket)
			var rots []uint64
			if s.Count <= 8 {
				for o := 1; o < s.Count; o++ {
					rots = append(rots, uint64(o))
				}
			} else {
				rots = []uint64{1, 2, 3, 5, 7}
			}
			for _, rot := range rots {
				out = append(out, dev{Kind: "map", MapIndex: s.Index, MapRot: rot * 0x0101010101010101, MapSite: s.Site})
			}
		}
		out = append(out, dev{Kind: "seed", Seed: 0x9e3779b9}, dev{Kind: "seed", Seed: 0x7f4a7c15})
		if s, _ := report.Shard(); s == 0 {
			r.Extra["map_range_static_sites"] = float64(len(seenSite))
			r.Extra["map_range_dynamic_occurrences"] = float64(len(h.mapSites))
			var names []string
			for k := range seenSite {
				names = append(names, k)
			}
			sort.Strings(names)
			r.Extra["map_range_sites"] = names
		}
	} else {
		r.Extra["map_hook"] = "unavailable in this build"
	}
	return append(out, boundary...)
}

// execute runs the whole history under deviation d and returns per-block digests.
func (h *history) execute(d dev) []blockDigest {
	for _, e := range envNames {
		os.Unsetenv(e)
	}
	if d.Kind == "env" {
		for _, e := range d.Env {
			os.Setenv(e, "1")
		}
		defer func() {
			for _, e := range d.Env {
				os.Unsetenv(e)
			}
		}()
	}
	if d.Kind == "tz" {
		old := time.Local
		time.Local = time.FixedZone("verif", int(d.Skew))
		defer func() { time.Local = old }()
	}
	setClockSkew(0)
	if d.Kind == "clock" && !d.PerBlock {
		setClockSkew(d.Skew)
	}
	defer setClockSkew(0)
	mapBegin(d, h)
	defer mapEnd(d, h)
	out, run := hist.Execute(hist.Hooks{
		BeforeBlock: func(i int, r *hist.Run) {
			if (d.Kind == "restart" || d.Kind == "restart+histquery") && d.At == i {
				r.Restart()
			}
			if (d.Kind == "histquery" || d.Kind == "restart+histquery") && d.At == i {
				// committed heights are 1..r.Height-1... the versions asked for: an early one, a middle one, the one before the latest
				last := r.Height - 1
				n := r.Script.QueriesAt(2, (last+1)/2, last-1)
				h.histAnswered += n
			}
			if d.Kind == "query" && d.At == i {
				r.Script.Queries(r.Height+1, r.Time)
			}
			if d.Kind == "clock" && d.PerBlock {
				setClockSkew(d.Skew * int64(i%7-3))
			}
		},
		OnBlock: func(i int, height int64, resp *abci.ResponseFinalizeBlock) {
			if h.events != nil {
				for _, r := range resp.TxResults {
					for _, e := range r.Events {
						h.events[e.Type]++
					}
				}
				for _, e := range resp.Events {
					h.events[e.Type]++
				}
			}
		},
	})
	if run.Panic != nil && run.PanicStage == "script" {
		fmt.Fprintf(os.Stderr, "harness error: script panicked under %s at height %d: %v\n", d, run.PanicAt, run.Panic)
		os.Exit(2)
	}
	if run.Panic != nil {
		out = append(out, blockDigest{Height: run.PanicAt, Hash: fmt.Sprintf("panic: %v", run.Panic)})
	}
	h.txCount, h.txOK = run.TxCount, run.TxOK
	return out
}

// resume runs the rest of the history on a fresh application over the database copy sn.
func (h *history) resume(d dev, sn *hist.Snapshot) []blockDigest {
	for _, e := range envNames {
		os.Unsetenv(e)
	}
	setClockSkew(0)
	mapBegin(d, h)
	defer mapEnd(d, h)
	out, run := hist.Resume(sn, hist.Hooks{
		BeforeBlock: func(i int, r *hist.Run) {
			if d.Kind == "restart+histquery" && d.At == i {
				last := r.Height - 1
				h.histAnswered += r.Script.QueriesAt(2, (last+1)/2, last-1)
			}
		},
	})
	if run.Panic != nil && run.PanicStage == "script" {
		fmt.Fprintf(os.Stderr, "harness error: script panicked under %s at height %d: %v\n", d, run.PanicAt, run.Panic)
		os.Exit(2)
	}
	if run.Panic != nil {
		out = append(out, blockDigest{Height: run.PanicAt, Hash: fmt.Sprintf("panic: %v", run.Panic)})
	}
	return out
}

var _ = sort.Strings
var _ sdk.Context
