package main

import (
	"bytes"
	"fmt"
	"reflect"
	"strings"

	sdk "github.com/cosmos/cosmos-sdk/types"
)

// actor is one of the principals whose identity can be written into a message.
type actor struct {
	Name   string // A, B, U, G, L
	Role   string // attacker | validator | user | governance | licensee
	Acc    sdk.AccAddress
	EthHex string // 0x... (checksummed)
	EthRaw []byte
}

// encoding kinds of an identity inside a message leaf
const (
	kAcc     = "acc"     // bech32 account address (string)
	kValoper = "valoper" // bech32 operator address (string)
	kEthHex  = "ethhex"  // 0x-hex external-chain address (string, case-insensitive)
	kRaw     = "raw"     // 20 raw address bytes
	kEthRaw  = "ethraw"  // 20 raw external-chain address bytes
)

func (a *actor) str(kind string) string {
	switch kind {
	case kAcc:
		return a.Acc.String()
	case kValoper:
		return sdk.ValAddress(a.Acc).String()
	case kEthHex:
		return a.EthHex
	}
	panic("kind " + kind)
}

func (a *actor) raw(kind string) []byte {
	switch kind {
	case kRaw:
		return append([]byte{}, a.Acc...)
	case kEthRaw:
		return append([]byte{}, a.EthRaw...)
	}
	panic("kind " + kind)
}

// leaf is a string / bytes leaf of a message reached through exported fields.
type leaf struct {
	Path string
	V    reflect.Value
}

// walk visits every string and []byte leaf reachable through exported struct
// fields, pointers and slices.
func walk(v reflect.Value, path string, f func(l leaf)) {
	switch v.Kind() {
	case reflect.Ptr, reflect.Interface:
		if v.IsNil() {
			return
		}
		walk(v.Elem(), path, f)
	case reflect.Struct:
		t := v.Type()
		for i := 0; i < t.NumField(); i++ {
			sf := t.Field(i)
			if sf.PkgPath != "" || strings.HasPrefix(sf.Name, "XXX_") {
				continue
			}
			p := sf.Name
			if path != "" {
				p = path + "." + sf.Name
			}
			walk(v.Field(i), p, f)
		}
	case reflect.Slice:
		if v.Type().Elem().Kind() == reflect.Uint8 {
			f(leaf{path, v})
			return
		}
		for i := 0; i < v.Len(); i++ {
			walk(v.Index(i), fmt.Sprintf("%s[%d]", path, i), f)
		}
	case reflect.String:
		f(leaf{path, v})
	}
}

// idField is an identity-bearing leaf of a template message.
type idField struct {
	Path string
	Kind string
	Orig string // actor name found in the template
}

// detect lists the identity-bearing leaves of msg: leaves whose value equals an
// encoding of one of the actors. metadata.signers is the authorisation itself
// and is not enumerated (fixed to the attacker).
func detect(msg interface{}, actors []*actor) []idField {
	var out []idField
	walk(reflect.ValueOf(msg), "", func(l leaf) {
		if strings.HasPrefix(l.Path, "Metadata.Signers") {
			return
		}
		for _, a := range actors {
			if l.V.Kind() == reflect.String {
				s := l.V.String()
				if s == "" {
					continue
				}
				switch {
				case s == a.str(kAcc):
					out = append(out, idField{l.Path, kAcc, a.Name})
				case s == a.str(kValoper):
					out = append(out, idField{l.Path, kValoper, a.Name})
				case strings.EqualFold(s, a.EthHex):
					out = append(out, idField{l.Path, kEthHex, a.Name})
				default:
					continue
				}
				return
			}
			b := l.V.Bytes()
			switch {
			case bytes.Equal(b, a.Acc):
				out = append(out, idField{l.Path, kRaw, a.Name})
			case bytes.Equal(b, a.EthRaw):
				out = append(out, idField{l.Path, kEthRaw, a.Name})
			default:
				continue
			}
			return
		}
	})
	return out
}

// assign writes actor a (in the field's encoding) into the leaf at f.Path.
func assign(msg interface{}, f idField, a *actor) {
	done := false
	walk(reflect.ValueOf(msg), "", func(l leaf) {
		if l.Path != f.Path || done {
			return
		}
		done = true
		if l.V.Kind() == reflect.String {
			l.V.SetString(a.str(f.Kind))
		} else {
			l.V.SetBytes(a.raw(f.Kind))
		}
	})
	if !done {
		panic("assign: no leaf " + f.Path)
	}
}
