package main

// Genesis round trip: attestations (claim + votes) must still be pooled by
// (chain, nonce, claim hash) after the skyway state went through
// ExportGenesis -> JSON -> ValidateBasic -> InitGenesis, whatever the order of
// the exported attestation list. Scenario per routable claim type, with the two
// bridged chains in both roles: chain X has nonce 1 observed and nonce 2 pending
// (2 votes), chain Y has two competing claims pending at nonce 1 and the same
// remote height (2 votes + 1 vote). The exported list is imported as exported
// and reversed into a fork whose skyway store was emptied. Then
//   G1  every imported attestation record is stored under the key recomputed
//       from the claim body it persists, and the records (votes, observed
//       flag), observed nonces and per-validator nonces equal the exporting
//       state's;
//   G2  finishing the votes to quorum after the import gives the same
//       acceptance and effects as finishing them without the import.

import (
	"fmt"
	"sort"
	"strings"

	sdk "github.com/cosmos/cosmos-sdk/types"
	skywaykeeper "github.com/palomachain/paloma/v2/x/skyway/keeper"
	skywaytypes "github.com/palomachain/paloma/v2/x/skyway/types"
	"github.com/palomachain/paloma/v2/zzverif/world"
)

// observable skyway / bank state for the round-trip comparison
func (e *env) genesisObs(ctx sdk.Context, chains []string) []string {
	w := e.w
	var out []string
	recs := e.records(ctx)
	var keys []string
	for k := range recs {
		keys = append(keys, k)
	}
	sort.Strings(keys)
	for _, k := range keys {
		out = append(out, fmt.Sprintf("record %x votes=%v observed=%v", k, recs[k].Votes, recs[k].Observed))
	}
	for _, c := range chains {
		n, err := w.App.SkywayKeeper.GetLastObservedSkywayNonce(ctx, c)
		out = append(out, fmt.Sprintf("last observed nonce %s = %d %v", c, n, err))
		for _, v := range w.Vals {
			vn, err := w.App.SkywayKeeper.GetLastSkywayNonceByValidator(ctx, v.ValAddr, c)
			out = append(out, fmt.Sprintf("nonce of %s on %s = %d %v", v.Name, c, vn, err))
		}
	}
	for _, s := range plainStores {
		out = append(out, s+" "+w.StoreDigest(ctx, s))
	}
	return out
}

func diffLines(a, b []string) []string {
	var out []string
	for i := 0; i < len(a) || i < len(b); i++ {
		var x, y string
		if i < len(a) {
			x = a[i]
		}
		if i < len(b) {
			y = b[i]
		}
		if x != y {
			out = append(out, "  without import: "+x, "  with import:    "+y)
		}
	}
	return out
}

func (e *env) genesisPass(shard int, want string) {
	if shard != 0 || want != "" && !strings.HasPrefix(want, "genesis|") {
		return
	}
	w := e.w
	r := e.r
	k := w.App.SkywayKeeper
	// base: tokens on both chains, sale configured
	var base sdk.Context
	for _, b := range e.bases {
		if b.Name == "token+sale" {
			base = world.Fork(b.Ctx)
		}
	}
	if _, err := w.BridgeToken(base, w.User("adm"), "t9", ref2, erc1, 1000, w.User("U1")); err != nil {
		panic(fmt.Sprintf("harness: bridging a token on %s: %v", ref2, err))
	}
	var trips, exported float64
	for _, t := range e.types {
		if w.App.MsgServiceRouter().Handler(e.build(t, nil, w.Vals[0])) == nil {
			continue
		}
		if t.byName["ChainReferenceId"] == nil || t.byName["SkywayNonce"] == nil {
			r.Cap("genesis round trip: " + t.Name + " has no ChainReferenceId / SkywayNonce field, skipped")
			continue
		}
		// a competing claim: one other field changed, same chain, nonce, height and compass, different key
		def := e.build(t, nil, w.Vals[0]).(skywaytypes.EthereumClaim)
		var alt map[string]interface{}
		for _, f := range t.Fields {
			if len(f.Dom) < 2 {
				continue
			}
			c := e.build(t, map[string]interface{}{f.Name: f.Dom[1]}, w.Vals[0]).(skywaytypes.EthereumClaim)
			if c.GetChainReferenceId() == def.GetChainReferenceId() && c.GetSkywayNonce() == def.GetSkywayNonce() &&
				c.GetEthBlockHeight() == def.GetEthBlockHeight() && c.GetCompassID() == def.GetCompassID() &&
				string(attKey(c.(sdk.Msg))) != string(attKey(def.(sdk.Msg))) {
				alt = map[string]interface{}{f.Name: f.Dom[1]}
				break
			}
		}
		if alt == nil {
			r.Cap("genesis round trip: no competing claim found for " + t.Name)
			continue
		}
		for _, roles := range [][2]string{{ref2, ref}, {ref, ref2}} {
			X, Y := roles[0], roles[1]
			on := func(chain string, nonce uint64, extra map[string]interface{}) map[string]interface{} {
				ov := map[string]interface{}{"ChainReferenceId": chain, "SkywayNonce": nonce}
				for k, v := range extra {
					ov[k] = v
				}
				return ov
			}
			var trace []string
			vote := func(ctx sdk.Context, label string, ov map[string]interface{}, vals ...int) {
				for _, vi := range vals {
					v := w.Vals[vi]
					res := w.DeliverTx(ctx, []*world.Actor{v.Actor}, e.build(t, ov, v))
					if res.Stage == "build" {
						panic(res.Err)
					}
					trace = append(trace, fmt.Sprintf("%s votes %s: %s", v.Name, label, stage(res)))
				}
			}
			s0 := world.Fork(base)
			vote(s0, "X#1", on(X, 1, nil), 0, 1, 2, 3)
			w.SkywayEnd(s0, nil)
			vote(s0, "X#2", on(X, 2, nil), 0, 1)
			vote(s0, "Y#1 A", on(Y, 1, nil), 0, 1)
			vote(s0, "Y#1 A'", on(Y, 1, alt), 2)
			setupTrace := strings.Join(trace, "; ")
			chains := []string{X, Y}
			finish := func(ctx sdk.Context) []string {
				trace = nil
				vote(ctx, "Y#1 A", on(Y, 1, nil), 3, 4)
				vote(ctx, "X#2", on(X, 2, nil), 2, 3)
				w.SkywayEnd(ctx, nil)
				return append(append([]string{}, trace...), e.genesisObs(ctx, chains)...)
			}
			refObs := e.genesisObs(s0, chains)
			refFinish := finish(world.Fork(s0))

			gs := skywaykeeper.ExportGenesis(s0, k)
			bz, err := w.App.AppCodec().MarshalJSON(&gs)
			must(err)
			for _, order := range []string{"as-exported", "reversed"} {
				var in skywaytypes.GenesisState
				must(w.App.AppCodec().UnmarshalJSON(bz, &in))
				must(in.ValidateBasic())
				if order == "reversed" {
					for i, j := 0, len(in.Attestations)-1; i < j; i, j = i+1, j-1 {
						in.Attestations[i], in.Attestations[j] = in.Attestations[j], in.Attestations[i]
					}
				}
				var nonces []string
				for i := range in.Attestations {
					c, err := k.UnpackAttestationClaim(&in.Attestations[i])
					must(err)
					nonces = append(nonces, fmt.Sprintf("%s#%d", c.GetChainReferenceId(), c.GetSkywayNonce()))
				}
				exported += float64(len(in.Attestations))
				trips++
				id := fmt.Sprintf("genesis|%s|X=%s|%s", t.Name, X, order)
				r.Case(id)
				head := fmt.Sprintf("%s, chain X=%s (nonce 1 observed, nonce 2 pending), chain Y=%s (claims A and A' = A with %s pending at nonce 1); %s; skyway genesis exported, attestation list %s %v, imported into a fork with an empty skyway store:",
					t.Name, X, Y, showOv(alt), setupTrace, order, nonces)
				imp := world.Fork(s0)
				st := imp.KVStore(w.App.GetKey(skywaytypes.StoreKey))
				var all [][]byte
				it := st.Iterator(nil, nil)
				for ; it.Valid(); it.Next() {
					all = append(all, append([]byte{}, it.Key()...))
				}
				it.Close()
				for _, key := range all {
					st.Delete(key)
				}
				if err, panicked := world.Protect(func() error { skywaykeeper.InitGenesis(imp, k, in); return nil }); panicked {
					r.Violate("genesis:"+order+":init-genesis-panics", head+"\nInitGenesis panicked: "+err.Error(), map[string]interface{}{"case": id})
					continue
				}
				// G1a: stored body vs key
				bad := false
				recs := e.records(imp)
				var keys []string
				for key := range recs {
					keys = append(keys, key)
				}
				sort.Strings(keys)
				for _, key := range keys {
					a := recs[key]
					claim, err := k.UnpackAttestationClaim(&a)
					if err != nil {
						continue
					}
					if own := string(attKey(claim.(sdk.Msg))); own != key {
						r.Violate("genesis:"+order+":stored-claim-under-other-key",
							fmt.Sprintf("%s\nthe imported attestation record under store key %x (votes %v, observed %v) stores the claim %s#%d %v, whose own key is %x: the votes are attached to another claim's key and later votes for that claim are pooled onto this body",
								head, key, a.Votes, a.Observed, claim.GetChainReferenceId(), claim.GetSkywayNonce(), claim, own),
							map[string]interface{}{"case": id})
						bad = true
						break
					}
				}
				if bad {
					continue
				}
				// G1b: same records / nonces as the exporting state
				if d := diffLines(refObs, e.genesisObs(imp, chains)); len(d) > 0 {
					r.Violate("genesis:"+order+":imported-state-differs", head+"\nattestation records / nonces after the import differ from the exporting state:\n"+strings.Join(d, "\n"), map[string]interface{}{"case": id})
					continue
				}
				// G2: finishing the votes
				if d := diffLines(refFinish, finish(imp)); len(d) > 0 {
					r.Violate("genesis:"+order+":continuation-differs", head+"\nfinishing the votes (v3, v4 vote A on Y; v2, v3 vote X#2; tally) gives a different result after the import:\n"+strings.Join(d, "\n"), map[string]interface{}{"case": id})
				}
			}
		}
	}
	r.Extra["genesis_round_trips"] = trips
	r.Extra["genesis_attestations_imported"] = exported
}
