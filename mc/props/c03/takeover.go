package main

// Second pass, "resource takeover": the attacker's own, correctly signed and
// otherwise valid message names a resource that belongs to somebody else. No
// creator / principal is forged; what varies is every string (and numeric id)
// leaf that can name a resource: ids, denoms, token / contract addresses, chain
// reference ids, external addresses - set to the victim's value and to
// spelling variants of it (case, surrounding blanks, hex notations).

import (
	"fmt"
	"reflect"
	"regexp"
	"sort"
	"strconv"
	"strings"
	"time"

	"cosmossdk.io/x/feegrant"
	codectypes "github.com/cosmos/cosmos-sdk/codec/types"
	sdk "github.com/cosmos/cosmos-sdk/types"
	"github.com/ethereum/go-ethereum/common"
	evmtypes "github.com/palomachain/paloma/v2/x/evm/types"
	schedtypes "github.com/palomachain/paloma/v2/x/scheduler/types"
	skywaytypes "github.com/palomachain/paloma/v2/x/skyway/types"
	tftypes "github.com/palomachain/paloma/v2/x/tokenfactory/types"
	"github.com/palomachain/paloma/v2/zzverif/world"
)

// the attacker's own token contracts (siblings of erc20s)
var aErc20s = []string{"0xA1a1A1a1a1A1A1a1A1a1a1a1a1a1A1A1a1A1a1a1", "0xa2A2a2A2A2a2A2a2a2a2A2a2A2a2a2A2a2a2a2a2"}

// setupTakeover extends the prepared world: the attacker A gets a sibling of
// every resource the victim user owns (denoms t1,t2 bridged to its own token
// contracts, a fresh unbound denom t3, funds, a pooled transfer, a job, a user
// contract); the victim additionally has a fee grant on record.
func (e *env) setupTakeover() {
	w := e.w
	ctx := world.Fork(e.rootPlain)
	A := e.keys["A"]
	for i := 0; i < 2; i++ {
		_, err := w.BridgeToken(ctx, A, fmt.Sprintf("t%d", i+1), ref, aErc20s[i], 1000, A)
		must(err)
	}
	e.tx(ctx, "take denom t3", A, &tftypes.MsgCreateDenom{Subdenom: "t3", Metadata: world.Meta(A)})
	aDenom := "factory/" + e.A.Acc.String() + "/t1"
	e.tx(ctx, "take send", A, &skywaytypes.MsgSendToRemote{EthDest: otherEth, Amount: sdk.NewInt64Coin(aDenom, 9), ChainReferenceId: ref, Metadata: world.Meta(A)})
	pool, err := w.App.SkywayKeeper.GetUnbatchedTransactions(ctx)
	must(err)
	for _, t := range pool {
		if t.Sender.Equals(e.A.Acc) {
			e.aPendingTx = t.Id
		}
	}
	if e.aPendingTx == 0 {
		panic("takeover setup: attacker's pooled transfer missing")
	}
	e.tx(ctx, "take job", A, &schedtypes.MsgCreateJob{Job: e.job("ajob1", nil), Metadata: world.Meta(A)})
	e.tx(ctx, "take upload", A, e.uploadMsg(e.A, "A"))
	cs, err := w.App.EvmKeeper.UserSmartContracts(ctx, sdk.ValAddress(e.A.Acc).String())
	must(err)
	if len(cs) != 1 {
		panic("takeover setup: attacker's user smart contract missing")
	}
	e.aContractID = cs[0].Id
	must(w.App.FeeGrantKeeper.GrantAllowance(ctx, e.U.Acc, e.M.Acc, &feegrant.BasicAllowance{}))
	e.rootTake = ctx
}

// scalar leaves: strings and unsigned integers reachable through exported fields
func walkScalars(v reflect.Value, path string, f func(path string, v reflect.Value)) {
	switch v.Kind() {
	case reflect.Ptr, reflect.Interface:
		if !v.IsNil() {
			walkScalars(v.Elem(), path, f)
		}
	case reflect.Struct:
		t := v.Type()
		if t == reflect.TypeOf(codectypes.Any{}) {
			return // packed sub-messages are not searched (their type URL is not a resource name)
		}
		for i := 0; i < t.NumField(); i++ {
			sf := t.Field(i)
			if sf.PkgPath != "" || strings.HasPrefix(sf.Name, "XXX_") {
				continue
			}
			p := sf.Name
			if path != "" {
				p = path + "." + sf.Name
			}
			walkScalars(v.Field(i), p, f)
		}
	case reflect.Slice:
		if v.Type().Elem().Kind() == reflect.Uint8 {
			return
		}
		for i := 0; i < v.Len(); i++ {
			walkScalars(v.Index(i), fmt.Sprintf("%s[%d]", path, i), f)
		}
	case reflect.String, reflect.Uint64, reflect.Uint32:
		f(path, v)
	}
}

func scalarString(v reflect.Value) string {
	if v.Kind() == reflect.String {
		return v.String()
	}
	return strconv.FormatUint(v.Uint(), 10)
}

func setScalar(msg interface{}, path, val string) bool {
	done := false
	walkScalars(reflect.ValueOf(msg), "", func(p string, v reflect.Value) {
		if p != path || done {
			return
		}
		done = true
		if v.Kind() == reflect.String {
			v.SetString(val)
			return
		}
		n, err := strconv.ParseUint(val, 10, 64)
		if err != nil {
			done = false
			return
		}
		v.SetUint(n)
	})
	return done
}

// takeAttacker: validator-scoped messages are sent by the validator attacker
// (a plain account can never send them validly), all others by A.
func (c *checker) takeAttacker(url string) string {
	if c.tmpls[url].Principal == "B" {
		return "V"
	}
	return ""
}

// takeBase derives the attacker's own version of the template: every identity
// leaf is the attacker, every resource the template names is replaced by the
// attacker's sibling, signatures are the attacker's own.
func (c *checker) takeBase(cs caseSpec) sdk.Msg {
	e := c.e
	att := c.attacker(cs)
	base := caseSpec{Type: cs.Type, Variant: "plain", Attacker: cs.Attacker, Assign: map[string]string{}}
	for _, f := range c.idFields(cs.Type) {
		base.Assign[f.Path] = att.Name
	}
	if len(e.variantsOf(cs.Type, cs.Attacker)) > 1 {
		base.SigVar = "attacker-key"
	}
	msg := c.build(base)
	sib := map[string]string{strings.ToLower(erc20s[0]): aErc20s[0], strings.ToLower(erc20s[1]): aErc20s[1]}
	walkScalars(reflect.ValueOf(msg), "", func(p string, v reflect.Value) {
		if v.Kind() != reflect.String || strings.HasPrefix(p, "Metadata.") {
			return
		}
		s := v.String()
		if att.Name == "A" {
			s = strings.ReplaceAll(s, e.U.Acc.String(), e.A.Acc.String())
			if m, ok := sib[strings.ToLower(s)]; ok {
				s = m
			}
			if strings.HasPrefix(s, "ujob") {
				s = "ajob" + s[4:]
			}
		}
		v.SetString(s)
	})
	switch m := msg.(type) {
	case *skywaytypes.MsgCancelSendToRemote:
		m.TransactionId = e.aPendingTx
	case *evmtypes.MsgRemoveUserSmartContractRequest:
		m.Id = e.aContractID
	case *evmtypes.MsgDeployUserSmartContractRequest:
		m.Id = e.aContractID
	}
	return msg
}

var (
	reHex   = regexp.MustCompile(`^0x[0-9a-fA-F]{40}$`)
	reAlpha = regexp.MustCompile(`[A-Za-z]`)
)

func shapeOf(s string) string {
	switch {
	case reHex.MatchString(s):
		return "hexaddr"
	case strings.HasPrefix(s, "factory/"):
		return "denom"
	case strings.HasPrefix(s, "paloma"):
		return "bech32"
	}
	return "text"
}

// spellings of a resource name that a careless lookup might treat as the same
func spellings(v string) []string {
	out := []string{v, strings.ToUpper(v), strings.ToLower(v), " " + v, v + " "}
	if loc := reAlpha.FindStringIndex(v); loc != nil {
		// flip the case of the first letter only
		ch := v[loc[0]:loc[1]]
		fl := strings.ToUpper(ch)
		if fl == ch {
			fl = strings.ToLower(ch)
		}
		out = append(out, v[:loc[0]]+fl+v[loc[1]:])
	}
	if reHex.MatchString(v) {
		out = append(out, v[2:], strings.ToLower(v[2:]), common.HexToAddress(v).Hex(), "0x"+strings.ToUpper(v[2:]), "0X"+v[2:])
	}
	seen := map[string]bool{}
	var uniq []string
	for _, s := range out {
		if !seen[s] {
			seen[s] = true
			uniq = append(uniq, s)
		}
	}
	return uniq
}

type takeField struct {
	Path   string
	Values []string
}

// takeFields lists, per scalar leaf of the attacker's base message, the values
// to substitute: the spellings of what the victim's template has in that leaf
// and - for token / contract / external addresses and denoms - of every such
// resource the victims hold in the prepared world.
func (c *checker) takeFields(url string, base sdk.Msg) []takeField {
	e := c.e
	victim := map[string]string{}
	walkScalars(reflect.ValueOf(c.tmpls[url].Build()), "", func(p string, v reflect.Value) { victim[p] = scalarString(v) })
	pool := map[string][]string{
		"hexaddr": {erc20s[0], erc20s[1], e.B.EthHex, world.CompassAddr},
		"denom":   {e.denoms[0], e.denoms[1]},
		// named resources of the victims that are plain text: job ids
		"text": {"ujob1"},
	}
	var ids []string
	for _, n := range []uint64{e.msgSigned, e.msgErr, e.pendingTx, e.contractID} {
		ids = append(ids, strconv.FormatUint(n, 10))
	}
	var out []takeField
	walkScalars(reflect.ValueOf(base), "", func(p string, v reflect.Value) {
		if strings.HasPrefix(p, "Metadata.") {
			return
		}
		own := scalarString(v)
		vv, ok := victim[p]
		if !ok {
			return
		}
		var vals []string
		if v.Kind() != reflect.String {
			// numeric ids: the victim template's value and the ids of resources the
			// victims hold (queued messages carrying B's delivery / error report, U's
			// pooled transfer and user contract)
			seen := map[string]bool{own: true}
			for _, n := range append([]string{vv}, ids...) {
				if !seen[n] {
					seen[n] = true
					vals = append(vals, n)
				}
			}
		} else {
			cands := []string{vv}
			for _, sh := range []string{shapeOf(own), shapeOf(vv)} {
				cands = append(cands, pool[sh]...)
			}
			seen := map[string]bool{own: true}
			for _, cnd := range cands {
				if cnd == "" {
					continue
				}
				for _, s := range spellings(cnd) {
					if !seen[s] {
						seen[s] = true
						vals = append(vals, s)
					}
				}
			}
		}
		if len(vals) > 0 {
			out = append(out, takeField{Path: p, Values: vals})
		}
	})
	return out
}

func (c *checker) takeover(routable []string, deadline time.Time) {
	r := c.r
	var baseRejected []string
	baseOK := 0
	cases := 0
	fieldReport := map[string][]string{}
	type job struct{ url, attacker string }
	var jobs []job
	for _, url := range routable {
		jobs = append(jobs, job{url, c.takeAttacker(url)})
		if c.takeAttacker(url) == "V" {
			// validator-scoped messages also from the plain account (its own message is
			// refused as it stands; what matters is that no spelling gets through)
			jobs = append(jobs, job{url, ""})
		}
	}
	for _, j := range jobs {
		url := j.url
		proto := caseSpec{Type: url, Variant: "take", Attacker: j.attacker}
		// the attacker's own message must be acceptable as it stands (non-vacuity)
		bo := c.deliver(proto)
		c.countOutcome(proto, bo)
		if bo.Res.OK() {
			if j.attacker == c.takeAttacker(url) {
				baseOK++
			}
		} else if j.attacker == c.takeAttacker(url) {
			baseRejected = append(baseRejected, shortType(url)+": "+errClass(bo.Res))
		}
		if len(bo.Viol) > 0 {
			c.r.Violate("takeover:"+shortType(url)+":-", c.describe(proto, bo), proto)
		}
		// the same message one day later: a message that names nobody must leave the
		// records of others alone whenever it is sent
		later := proto
		later.Later = true
		lo := c.deliver(later)
		c.countOutcome(later, lo)
		cases++
		if len(lo.Viol) > 0 {
			c.r.Violate("takeover:"+shortType(url)+":-", c.describe(later, lo), later)
		}
		for _, f := range c.takeFields(url, c.takeBase(proto)) {
			if j.attacker == c.takeAttacker(url) {
				fieldReport[shortType(url)] = append(fieldReport[shortType(url)], fmt.Sprintf("%s(%d)", f.Path, len(f.Values)))
			}
			for _, val := range f.Values {
				if time.Now().After(deadline) {
					r.Cap("deadline")
					return
				}
				cs := proto
				cs.Subst = map[string]string{f.Path: val}
				o := c.deliver(cs)
				c.countOutcome(cs, o)
				cases++
				if len(o.Viol) > 0 {
					c.r.Violate("takeover:"+shortType(url)+":"+f.Path, c.describe(cs, o), cs)
				}
			}
		}
	}
	sort.Strings(baseRejected)
	r.Extra["takeover_cases"] = float64(cases)
	r.Extra["takeover_own_messages_accepted"] = float64(baseOK)
	r.Extra["takeover_own_messages_rejected"] = baseRejected
	r.Extra["takeover_fields"] = fieldReport
}
