// Package evmref builds, for a queued turnstone message, the remote transaction
// and receipt that a correct relayer would produce, packed as the
// TxExecutedProof the chain's attesters accept. It is what a pigeon does:
// the compass ABI comes from the chain's compass record, the validator set of
// the consensus argument from the valset query (EvmKeeper.GetValsetByID) for
// the valset id named in the message's public access data, signatures from the
// message's SignData. It does not call any VerifyAgainstTX helper.
//
// (mc/props/c07 keeps its own, independent encoder and corruption menus; this
// package is the small "happy path" for scripted histories.)
package evmref

import (
	"errors"
	"fmt"
	"math/big"
	"strings"

	sdk "github.com/cosmos/cosmos-sdk/types"
	"github.com/ethereum/go-ethereum/accounts/abi"
	ethcommon "github.com/ethereum/go-ethereum/common"
	ethtypes "github.com/ethereum/go-ethereum/core/types"
	ethcrypto "github.com/ethereum/go-ethereum/crypto"
	ctypes "github.com/palomachain/paloma/v2/x/consensus/types"
	evmtypes "github.com/palomachain/paloma/v2/x/evm/types"
	"github.com/palomachain/paloma/v2/zzverif/world"
)

const (
	KindLogicCall  = "logic-call"
	KindValset     = "valset"
	KindUpload     = "upload"
	KindHandover   = "handover"
	KindUserUpload = "user-upload"
)

// quorum of the bridge contract: 2/3 of 2^32
const powerThreshold = 2_863_311_530

type sigT struct {
	V *big.Int
	R *big.Int
	S *big.Int
}

type valsetT struct {
	Validators []ethcommon.Address
	Powers     []*big.Int
	ValsetId   *big.Int
}

type consT struct {
	Valset     valsetT
	Signatures []sigT
}

type callT struct {
	LogicContractAddress ethcommon.Address
	Payload              []byte
}

type feeT struct {
	RelayerFee            *big.Int
	CommunityFee          *big.Int
	SecurityFee           *big.Int
	FeePayerPalomaAddress [32]byte
}

func message(w *world.World, m ctypes.QueuedSignedMessageI) *evmtypes.Message {
	cm, err := m.ConsensusMsg(w.App.AppCodec())
	if err != nil {
		return nil
	}
	em, _ := cm.(*evmtypes.Message)
	return em
}

// Kind returns "logic-call" | "valset" | "upload" | "handover" | "user-upload",
// or "" when m is not a turnstone message.
func Kind(w *world.World, m ctypes.QueuedSignedMessageI) string {
	em := message(w, m)
	if em == nil {
		return ""
	}
	switch em.GetAction().(type) {
	case *evmtypes.Message_SubmitLogicCall:
		return KindLogicCall
	case *evmtypes.Message_UpdateValset:
		return KindValset
	case *evmtypes.Message_UploadSmartContract:
		return KindUpload
	case *evmtypes.Message_CompassHandover:
		return KindHandover
	case *evmtypes.Message_UploadUserSmartContract:
		return KindUserUpload
	}
	return ""
}

func toValset(v *evmtypes.Valset) valsetT {
	out := valsetT{ValsetId: new(big.Int).SetUint64(v.GetValsetID())}
	for i, a := range v.GetValidators() {
		out.Validators = append(out.Validators, ethcommon.HexToAddress(a))
		out.Powers = append(out.Powers, new(big.Int).SetUint64(v.GetPowers()[i]))
	}
	return out
}

func leftPad32(b []byte) (out [32]byte) {
	if len(b) > 32 {
		b = b[len(b)-32:]
	}
	copy(out[32-len(b):], b)
	return
}

// consensusArg: signatures in valset order, (0,0,0) for a validator that has
// not signed; also the power that signed.
func consensusArg(vs valsetT, sigs []*ctypes.SignData) (consT, uint64) {
	c := consT{Valset: vs}
	var power uint64
	for i, val := range vs.Validators {
		var found *ctypes.SignData
		for _, sd := range sigs {
			if ethcommon.HexToAddress(sd.GetExternalAccountAddress()) == val && len(sd.GetSignature()) >= 65 {
				found = sd
			}
		}
		if found == nil {
			c.Signatures = append(c.Signatures, sigT{new(big.Int), new(big.Int), new(big.Int)})
			continue
		}
		sg := found.Signature
		c.Signatures = append(c.Signatures, sigT{
			V: big.NewInt(int64(sg[64]) + 27),
			R: new(big.Int).SetBytes(sg[:32]),
			S: new(big.Int).SetBytes(sg[32:64]),
		})
		power += vs.Powers[i].Uint64()
	}
	return c, power
}

// NewContractAddress is the address the compass deployed by the proof for
// upload message id gets (CREATE of the relayer's account with the proof's nonce).
func NewContractAddress(relayer string, id uint64) ethcommon.Address {
	return ethcrypto.CreateAddress(ethcommon.HexToAddress(relayer), id)
}

// UserContractAddress is the child address reported by the ContractDeployed
// event of the proof for user-upload message id.
func UserContractAddress(id uint64) ethcommon.Address {
	return ethcommon.BigToAddress(new(big.Int).Add(new(big.Int).Lsh(big.NewInt(0xc0de), 64), new(big.Int).SetUint64(id)))
}

// Proof builds the TxExecutedProof that the chain's attester accepts for the
// queued turnstone message m of chain ref in state ctx: the exact reference
// input for its kind carrying all signatures collected so far (valset order),
// sent to the chain's compass (contract creation for an upload) by the
// assignee's registered account with the chain's id, transaction nonce = message
// id, and a receipt with status 1 (plus the compass' ContractDeployed event for
// a user upload, child address UserContractAddress(id)).
//
// It returns an error ("not ready") unless
//   - the evm keeper has a compass record (GetLastCompassContract),
//   - the assignee's remote address belongs to one of w.Vals,
//   - a gas estimate has been elected if the message requires one (fees are
//     attached at the same moment; signatures given before are discarded),
//   - (all kinds but upload) the message has public access data with a non-zero
//     ValsetID of an existing snapshot, and the signatures present reach the
//     bridge quorum (2/3 of 2^32) in that valset.
//
// All validators must submit the SAME proof bytes: build it once per message
// from one state and reuse it.
func Proof(w *world.World, ctx sdk.Context, ref string, m ctypes.QueuedSignedMessageI) (*evmtypes.TxExecutedProof, error) {
	em := message(w, m)
	kind := Kind(w, m)
	if em == nil || kind == "" {
		return nil, errors.New("evmref: not a turnstone message")
	}
	ci, err := w.App.EvmKeeper.GetChainInfo(ctx, ref)
	if err != nil {
		return nil, fmt.Errorf("evmref: chain info: %w", err)
	}
	// the attesters re-encode with the ABI of the last compass record
	compass, err := w.App.EvmKeeper.GetLastCompassContract(ctx)
	if err != nil || compass == nil {
		return nil, fmt.Errorf("evmref: the evm keeper has no compass contract record (GetLastCompassContract: %v); every attestation of a transaction proof fails without one", err)
	}
	// the relayer
	var rel *world.Val
	for _, v := range w.Vals {
		if v.Eth != nil && strings.EqualFold(v.EthAddr(), em.GetAssigneeRemoteAddress()) {
			rel = v
		}
	}
	if rel == nil {
		return nil, fmt.Errorf("evmref: no validator key for the assignee's remote address %q", em.GetAssigneeRemoteAddress())
	}
	if m.GetRequireGasEstimation() && m.GetGasEstimate() == 0 {
		return nil, errors.New("evmref: not ready: no gas estimate elected yet (signatures are reset at election)")
	}

	var data []byte
	var to *ethcommon.Address
	var logs []*ethtypes.Log
	compassAddr := ethcommon.HexToAddress(ci.GetSmartContractAddr())
	chainID := new(big.Int).SetUint64(ci.GetChainID())

	if kind == KindUpload {
		a := em.GetUploadSmartContract()
		data = append(append([]byte(nil), a.GetBytecode()...), a.GetConstructorInput()...)
	} else {
		cabi, err := abi.JSON(strings.NewReader(compass.GetAbiJSON()))
		if err != nil {
			return nil, fmt.Errorf("evmref: compass ABI: %w", err)
		}
		pad := m.GetPublicAccessData()
		if pad == nil || pad.GetValsetID() == 0 {
			return nil, errors.New("evmref: not ready: no public access data naming a valset id (the attester takes the validator set of the consensus argument from it)")
		}
		res, err := w.App.EvmKeeper.GetValsetByID(ctx, &evmtypes.QueryGetValsetByIDRequest{ValsetID: pad.GetValsetID(), ChainReferenceID: ref})
		if err != nil {
			return nil, fmt.Errorf("evmref: valset %d: %w", pad.GetValsetID(), err)
		}
		cons, power := consensusArg(toValset(res.GetValset()), m.GetSignData())
		if power < powerThreshold {
			return nil, fmt.Errorf("evmref: not ready: signatures of %d/%d power only (quorum %d)", power, uint64(1)<<32, uint64(powerThreshold))
		}
		relayer := ethcommon.HexToAddress(em.GetAssigneeRemoteAddress())
		id := new(big.Int).SetUint64(m.GetId())
		gas := new(big.Int).SetUint64(m.GetGasEstimate())
		fees := func(f *evmtypes.Fees, sender []byte) (feeT, error) {
			if f == nil {
				return feeT{}, errors.New("evmref: not ready: no fees attached yet")
			}
			return feeT{new(big.Int).SetUint64(f.RelayerFee), new(big.Int).SetUint64(f.CommunityFee), new(big.Int).SetUint64(f.SecurityFee), leftPad32(sender)}, nil
		}
		switch kind {
		case KindLogicCall:
			a := em.GetSubmitLogicCall()
			f, err := fees(a.GetFees(), a.GetSenderAddress())
			if err != nil {
				return nil, err
			}
			data, err = cabi.Pack("submit_logic_call", cons, callT{ethcommon.HexToAddress(a.GetHexContractAddress()), a.GetPayload()}, f, id, big.NewInt(a.GetDeadline()), relayer)
			if err != nil {
				return nil, err
			}
		case KindValset:
			a := em.GetUpdateValset()
			data, err = cabi.Pack("update_valset", cons, toValset(a.GetValset()), relayer, gas)
			if err != nil {
				return nil, err
			}
		case KindHandover:
			a := em.GetCompassHandover()
			fwd := []callT{}
			for _, f := range a.GetForwardCallArgs() {
				fwd = append(fwd, callT{ethcommon.HexToAddress(f.GetHexContractAddress()), f.GetPayload()})
			}
			data, err = cabi.Pack("compass_update_batch", cons, fwd, big.NewInt(a.GetDeadline()), gas, relayer)
			if err != nil {
				return nil, err
			}
		case KindUserUpload:
			a := em.GetUploadUserSmartContract()
			f, err := fees(a.GetFees(), a.GetSenderAddress())
			if err != nil {
				return nil, err
			}
			data, err = cabi.Pack("deploy_contract", cons, ethcommon.HexToAddress(a.GetDeployerAddress()), a.GetBytecode(), f, id, big.NewInt(a.GetDeadline()), relayer)
			if err != nil {
				return nil, err
			}
			// the attester reads the new contract's address from the compass'
			// ContractDeployed(child, deployer, event_id) event, decoded with the ABI in the chain info
			ciABI, err := abi.JSON(strings.NewReader(ci.GetAbi()))
			if err != nil {
				return nil, fmt.Errorf("evmref: chain info ABI: %w", err)
			}
			ev, ok := ciABI.Events["ContractDeployed"]
			if !ok {
				return nil, errors.New("evmref: the chain's compass ABI has no ContractDeployed event")
			}
			ld, err := ev.Inputs.NonIndexed().Pack(UserContractAddress(m.GetId()), ethcommon.HexToAddress(a.GetDeployerAddress()), id)
			if err != nil {
				return nil, err
			}
			logs = []*ethtypes.Log{{Address: compassAddr, Topics: []ethcommon.Hash{ev.ID}, Data: ld}}
		}
		to = &compassAddr
	}

	// a distinct nonce per message keeps the transaction hashes distinct even for
	// content-identical messages (the chain accepts a transaction once)
	tx, err := ethtypes.SignNewTx(rel.Eth, ethtypes.NewLondonSigner(chainID), &ethtypes.DynamicFeeTx{
		ChainID: chainID, Nonce: m.GetId(), GasTipCap: big.NewInt(1_000_000_000), GasFeeCap: big.NewInt(30_000_000_000),
		Gas: 3_000_000, To: to, Value: new(big.Int), Data: data,
	})
	if err != nil {
		return nil, err
	}
	raw, err := tx.MarshalBinary()
	if err != nil {
		return nil, err
	}
	rc := &ethtypes.Receipt{Type: tx.Type(), Status: ethtypes.ReceiptStatusSuccessful, CumulativeGasUsed: 1_000_000, Logs: logs}
	if rc.Logs == nil {
		rc.Logs = []*ethtypes.Log{}
	}
	rc.Bloom = ethtypes.CreateBloom(ethtypes.Receipts{rc})
	rraw, err := rc.MarshalBinary()
	if err != nil {
		return nil, err
	}
	return &evmtypes.TxExecutedProof{SerializedTX: raw, SerializedReceipt: rraw}, nil
}
