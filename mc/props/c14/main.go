// C14 — messages are assigned to, and only relayable by, an eligible relayer.
//
// Three exhaustive enumerations on the real application (forked world states):
//
//	(a) assignment: every eligibility table of three validators x MEV requirement
//	    x block time, request through a really signed MsgExecuteJob;
//	(b) relay gating: every queue of <= 3 messages over action x sender x assignee
//	    x estimate state x report state, built with the real queue / estimate
//	    election / report handlers, queried with GetMessagesForRelaying and the
//	    gRPC QueuedMessagesForRelaying for every validator;
//	(d) assignment on the retry path: the message of a request is failed through
//	    the real relay lifecycle; each re-enqueued message is judged like a first
//	    assignment;
//	(c) fees: relayer multiplier x elected gas x community rate x security rate
//	    through the real election (3 estimates + the module manager's EndBlock)
//	    against big.Rat ceilings.
package main

import (
	"crypto/sha256"
	"encoding/json"
	"flag"
	"fmt"
	"math/big"
	"os"
	"runtime/pprof"
	"time"

	storetypes "cosmossdk.io/store/types"
	sdk "github.com/cosmos/cosmos-sdk/types"
	ethcommon "github.com/ethereum/go-ethereum/common"
	ethcrypto "github.com/ethereum/go-ethereum/crypto"
	evmtypes "github.com/palomachain/paloma/v2/x/evm/types"
	schedtypes "github.com/palomachain/paloma/v2/x/scheduler/types"
	vtypes "github.com/palomachain/paloma/v2/x/valset/types"
	"github.com/palomachain/paloma/v2/zzverif/report"
	"github.com/palomachain/paloma/v2/zzverif/world"
)

const (
	target = "eth-main" // target chain of every job / message
	other  = "bnb-main" // a second chain every validator also supports
	jobN   = "jobn"     // job without MEV requirement
	jobM   = "jobm"     // job with EnforceMEVRelay
)

type env struct {
	w     *world.World
	r     *report.Run
	queue string
	// addresses on the target chain: snapA[i] as recorded in the snapshot,
	// driftA[i] registered AFTER the snapshot; otherA[i] on the other chain.
	snapA, driftA, otherA []string
	baseSnap              *vtypes.Snapshot
	s1, s2                *world.Actor
	deadline              time.Time
	capped                bool
	dupMode               bool // part (a): snapshot entries list two accounts on the target chain
	samples               map[string]int
}

func must(err error) {
	if err != nil {
		panic(err)
	}
}

func ethAddrOf(seed string) string {
	h := sha256.Sum256([]byte(seed))
	k, err := ethcrypto.ToECDSA(h[:])
	must(err)
	return ethcrypto.PubkeyToAddress(k.PublicKey).Hex()
}

func chainInfo(ref, addr string, mev bool) *vtypes.ExternalChainInfo {
	ci := &vtypes.ExternalChainInfo{ChainType: "evm", ChainReferenceID: ref, Address: addr, Pubkey: ethcommon.HexToAddress(addr).Bytes()}
	if mev {
		ci.Traits = []string{vtypes.PIGEON_TRAIT_MEV}
	}
	return ci
}

// setup prepares the world shared by all three parts: two active chains, three
// validators registered on both, a real snapshot (live on both chains), the two
// jobs, treasury rates 0.01. No relayer-fee and no metrics records exist in the
// prepared state (parts write them per case).
func setup(r *report.Run) *env {
	w := world.New(world.Config{Stakes: world.StakesOf(1_000_000, 1_000_000, 1_000_000), Users: []string{"S1", "S2"}, Height: 101})
	e := &env{w: w, r: r, queue: world.TurnstoneQueue(target), s1: w.User("S1"), s2: w.User("S2")}
	ctx := w.Root
	// chains as world.AddChain makes them, but with a minimal compass ABI: the
	// chain record is decoded on every queue access and the ABI plays no role here
	for i, ref := range []string{target, other} {
		must(w.App.EvmKeeper.AddSupportForNewChain(ctx, ref, uint64(1+55*i), 100, "0x"+fmt.Sprintf("%064x", 1+55*i), big.NewInt(0)))
		must(w.App.EvmKeeper.ActivateChainReferenceID(ctx, ref, &evmtypes.SmartContract{Id: uint64(i + 1), AbiJSON: "[]", Bytecode: []byte{0x60, 0x80}}, world.CompassAddr, []byte(world.CompassID)))
	}
	for _, v := range w.Vals {
		e.snapA = append(e.snapA, v.EthAddr())
		e.driftA = append(e.driftA, ethAddrOf("c14-drift-"+v.Name))
		e.otherA = append(e.otherA, ethAddrOf("c14-other-"+v.Name))
	}
	for i, v := range w.Vals {
		must(w.App.ValsetKeeper.AddExternalChainInfo(ctx, v.ValAddr, []*vtypes.ExternalChainInfo{
			chainInfo(target, e.snapA[i], false), chainInfo(other, e.otherA[i], false)}))
	}
	s, err := w.Snapshot(ctx)
	must(err)
	if s == nil || len(s.Validators) != len(w.Vals) {
		panic("setup: snapshot not built with all validators")
	}
	must(w.App.ValsetKeeper.SetSnapshotOnChain(ctx, s.Id, target))
	must(w.App.ValsetKeeper.SetSnapshotOnChain(ctx, s.Id, other))
	must(w.App.TreasuryKeeper.SetCommunityFundFee(ctx, "0.01"))
	must(w.App.TreasuryKeeper.SetSecurityFee(ctx, "0.01"))
	e.baseSnap, err = w.App.ValsetKeeper.GetCurrentSnapshot(ctx)
	must(err)
	// the snapshot listener created metrics records; the prepared state has none
	e.deleteAllMetrics(ctx)
	def, _ := json.Marshal(evmtypes.JobDefinition{Address: "0x00000000000000000000000000000000000000cc", ABI: "[]"})
	pay, _ := json.Marshal(evmtypes.JobPayload{HexPayload: "deadbeef"})
	for _, id := range []string{jobN, jobM} {
		res := w.DeliverTx(ctx, []*world.Actor{e.s1}, &schedtypes.MsgCreateJob{Job: &schedtypes.Job{ID: id,
			Routing: schedtypes.Routing{ChainType: "evm", ChainReferenceID: target}, Definition: def, Payload: pay,
			EnforceMEVRelay: id == jobM}, Metadata: world.Meta(e.s1)})
		must(res.Err)
	}
	if n := len(w.Queue(ctx, e.queue)); n != 0 {
		panic(fmt.Sprintf("setup: %d messages queued", n))
	}
	return e
}

// deleteAllMetrics removes every validator metrics record. x/metrix exports no
// way to delete a record, so the store keys are deleted directly.
func (e *env) deleteAllMetrics(ctx sdk.Context) {
	st := ctx.KVStore(e.w.App.GetKey("metrix"))
	pfx := []byte("metrics")
	it := st.Iterator(pfx, storetypes.PrefixEndBytes(pfx))
	var keys [][]byte
	for ; it.Valid(); it.Next() {
		keys = append(keys, append([]byte(nil), it.Key()...))
	}
	it.Close()
	for _, k := range keys {
		st.Delete(k)
	}
	resp, err := e.w.App.MetrixKeeper.Validators(ctx, nil)
	must(err)
	if len(resp.ValMetrics) != 0 {
		panic("setup: metrics records left")
	}
}

func (e *env) valIndex(valAddr string) int {
	for i, v := range e.w.Vals {
		if v.ValAddr.String() == valAddr {
			return i
		}
	}
	return -1
}

// expired reports (once) that the internal deadline has passed.
func (e *env) expired(part string) bool {
	if e.capped {
		return true
	}
	if time.Now().After(e.deadline) {
		e.capped = true
		e.r.Cap("internal deadline reached in part " + part)
		return true
	}
	return false
}

// sample records at most two samples per part and worker, so that the merged
// evidence shows all three parts.
func (e *env) sample(part string, v interface{}) {
	if e.samples == nil {
		e.samples = map[string]int{}
	}
	if e.samples[part] < 2 {
		e.samples[part]++
		e.r.Sample(v)
	}
}

func (e *env) count(k string) {
	f, _ := e.r.Extra[k].(float64)
	e.r.Extra[k] = f + 1
}

type replayRec struct {
	Part string `json:"part"`
	A    *caseA `json:"a,omitempty"`
	B    []int  `json:"b,omitempty"`
	C    *caseC `json:"c,omitempty"`
	D    *caseD `json:"d,omitempty"`
}

func main() {
	replay := flag.String("replay", "", "replay file")
	flag.Parse()
	n := report.Workers()
	if *replay != "" {
		n = 1
	}
	report.Main("C14", "exploration", n, func(r *report.Run, shard, nshards int) {
		run(r, shard, nshards, *replay)
	})
}

func run(r *report.Run, shard, nshards int, replayFile string) {
	if f := os.Getenv("C14_PPROF"); f != "" && shard == 0 { // development aid
		if fh, err := os.Create(f); err == nil {
			_ = pprof.StartCPUProfile(fh)
			defer pprof.StopCPUProfile()
		}
	}
	e := setup(r)
	e.deadline = r.Deadline(150*time.Second, 27*time.Minute)
	r.Rule = "(a) every table of 3 validators x {in snapshot, account on target chain in the snapshot entry, relayer fee none/0.5/1.0, metrics record, MEV trait} (48^3 tables) x job MEV requirement x consecutive block times, written into a fork of the prepared state with keeper APIs, request = signed MsgExecuteJob; " +
		"(b) every queue of <=3 messages over {SubmitLogicCall of S1/S2, UpdateValset} x assignee {v0,v1} x estimate state x report {none, public access data, error data}, built with PutMessageInQueue + estimate txs + CheckAndProcessEstimatedMessages + report txs, queried for v0, v1 (and v2, never an assignee, in the thorough tier); " +
		"(c) relayer multiplier x elected gas x community rate x security rate through 3 estimate txs + ModuleManager.EndBlock; " +
		"(d) retry path: tables over the rows missing at most one condition x MEV requirement x start time; the request's message is failed through the real lifecycle (estimate txs, end-block election, signature txs, error-data tx, SmartContractExecutionErrorProof evidence txs, end-block attestation) three times and every re-enqueued message is judged like a first assignment (assignee eligible, snapshot address, requirement carried, call byte-identical apart from the retry counter), nothing enqueued after the second retry; " +
		"one evaluation = one (table, requirement, time) request (with its whole retry lifecycle in d) / one (queue, caller) query / one election"
	r.Assumptions = []string{
		"(b) 'an older message from the same sender is still pending' is read as 'has no public-access (delivery) or error report yet'; the stronger reading (still in the queue, i.e. not yet attested) would flag the present, intended behaviour",
		"(b) 'pending validator-set update' is read as the code does: any UpdateValset message still in the chain's queue (reported or not); a message is blocked iff its id is greater than the id of the oldest such update",
		"(b) besides the property's 'only' direction the check also demands that a message satisfying all five conditions IS offered (signature gating:withheld-eligible)",
		"(a) the snapshot table is written with ValsetKeeper.SaveModifiedSnapshot (same id, so no valset-update message is triggered by PreJobExecution); metrics records are created by MetrixKeeper.OnSnapshotBuilt (feature-set score follows the MEV traits), absent records are really absent; every snapshot entry lists the other chain first, with the opposite MEV trait (a trait or address read from the wrong chain's entry shows); the three forms of 'no relayer fee for the chain' (no record, empty record, record for another chain only) are spread over v0, v1, v2",
		"(a) in the 'drifted' registration mode every validator has, after the snapshot, re-registered a different address on the target chain with the opposite MEV trait (validators without an account in the snapshot have registered one since); eligibility and the signed relayer address must still follow the snapshot",
		"3 validators: the pick index blockTime % min(n,5) only ever uses n<=3; consecutive block times cover every index for every n<=3",
		"tx atomicity re-implemented as in baseapp.runTx (ante cache, msg cache)",
	}
	if replayFile != "" {
		if shard != 0 {
			return
		}
		var v report.Violation
		b, err := os.ReadFile(replayFile)
		if err == nil {
			err = json.Unmarshal(b, &v)
		}
		var rec replayRec
		if err == nil {
			var rb []byte
			rb, _ = json.Marshal(v.Replay)
			err = json.Unmarshal(rb, &rec)
		}
		if err != nil {
			fmt.Fprintln(os.Stderr, err)
			os.Exit(2)
		}
		switch rec.Part {
		case "a":
			e.replayA(*rec.A)
		case "b":
			e.replayB(rec.B)
		case "c":
			e.replayC(*rec.C)
		case "d":
			e.replayD(*rec.D)
		default:
			fmt.Fprintln(os.Stderr, "unknown replay part", rec.Part)
			os.Exit(2)
		}
		r.Sample(rec)
		return
	}
	only := os.Getenv("C14_PART") // development aid: run one part only
	if only == "" || only == "c" {
		e.partC(shard, nshards)
	}
	if only == "" || only == "d" {
		e.partD(shard, nshards)
	}
	if only == "" || only == "b" {
		e.partB(shard, nshards)
	}
	if only == "" || only == "a" {
		e.partA(shard, nshards)
	}
}
