package main

import (
	"fmt"
	"time"

	sdk "github.com/cosmos/cosmos-sdk/types"
	"github.com/palomachain/paloma/v2/zzverif/explore"
	"github.com/palomachain/paloma/v2/zzverif/report"
	"github.com/palomachain/paloma/v2/zzverif/world"
)

// search is explore.Run (breadth-first, dedup on the canonical hash, depth
// bound, same sharding and counting) with two changes that bound memory — a
// forked context of this application costs ~125 kB (one cache layer per store):
//
//   - states of the last level are hashed and counted but not kept;
//   - only states up to keepDepth keep their context; deeper ones keep
//     (parent, operation label, ghost) and are re-derived by re-executing the
//     operation(s) when they are expanded. The re-derived state must hash to the
//     value recorded when it was first reached (determinism self-check).
const keepDepth = 3

type snode struct {
	ctx    *sdk.Context
	ghost  explore.Ghost
	parent *snode
	label  string
	path   []string // retained nodes only
	hash   string
}

type sresult struct {
	States, Transitions int64
	DepthCompleted      int
	Reexec              int64
}

func (n *snode) fullPath() []string {
	if n.ctx != nil {
		return n.path
	}
	return append(append([]string{}, n.parent.fullPath()...), n.label)
}

func search(r *report.Run, spec explore.Spec) sresult {
	var res sresult
	seen := map[string]struct{}{}
	var frontier []*snode
	for _, n := range spec.Init {
		k := spec.Hash(n)
		if _, ok := seen[k]; ok {
			continue
		}
		seen[k] = struct{}{}
		res.States++
		c := n.Ctx
		frontier = append(frontier, &snode{ctx: &c, ghost: n.Ghost, path: n.Path, hash: k})
	}
	depth := 0
	count := func() bool { return spec.NShards <= 1 || spec.Shard == 0 || depth >= spec.ShardDepth }
	if !count() {
		res.States = 0
	}
	var ctxOf func(n *snode) sdk.Context
	ctxOf = func(n *snode) sdk.Context {
		if n.ctx != nil {
			return *n.ctx
		}
		pctx := ctxOf(n.parent)
		pn := &explore.Node{Ctx: pctx, Ghost: n.parent.ghost}
		for _, op := range spec.Ops(pn) {
			if op.Label != n.label {
				continue
			}
			c := world.Fork(pctx)
			g := n.parent.ghost.Clone()
			res.Reexec++
			if f := op.Do(&c, g); f != nil {
				panic(fmt.Sprintf("non-deterministic re-execution of %v: %s", n.fullPath(), f.Message))
			}
			if h := spec.Hash(&explore.Node{Ctx: c, Ghost: g}); h != n.hash {
				panic(fmt.Sprintf("non-deterministic re-execution of %v: state hash differs", n.fullPath()))
			}
			return c
		}
		panic(fmt.Sprintf("re-execution: operation %s no longer enabled after %v", n.label, n.parent.fullPath()))
	}
	for depth < spec.MaxDepth && len(frontier) > 0 {
		if spec.NShards > 1 && depth == spec.ShardDepth {
			var mine []*snode
			for i, n := range frontier {
				if i%spec.NShards == spec.Shard {
					mine = append(mine, n)
				}
			}
			frontier = mine
		}
		var next []*snode
		for _, n := range frontier {
			if !spec.Deadline.IsZero() && time.Now().After(spec.Deadline) {
				r.Cap(fmt.Sprintf("%s: deadline at depth %d", spec.Name, depth))
				goto done
			}
			ctx := ctxOf(n)
			npath := n.fullPath()
			for _, op := range spec.Ops(&explore.Node{Ctx: ctx, Ghost: n.ghost, Path: npath}) {
				c := world.Fork(ctx)
				g := n.ghost.Clone()
				path := append(append([]string{}, npath...), op.Label)
				if count() {
					res.Transitions++
				}
				if f := op.Do(&c, g); f != nil {
					r.Violate(f.Signature, f.Message, map[string]interface{}{"scenario": spec.Name, "path": path})
					continue
				}
				k := spec.Hash(&explore.Node{Ctx: c, Ghost: g})
				if _, ok := seen[k]; ok {
					continue
				}
				seen[k] = struct{}{}
				if count() {
					res.States++
				}
				if res.States%9973 == 1 {
					r.Sample(map[string]interface{}{"scenario": spec.Name, "path": path})
				}
				if depth+1 >= spec.MaxDepth {
					continue // last level: nothing below it is explored
				}
				sn := &snode{ghost: g, hash: k}
				if depth+1 <= keepDepth {
					cc := c
					sn.ctx, sn.path = &cc, path
				} else {
					sn.parent, sn.label = n, op.Label
				}
				next = append(next, sn)
			}
		}
		depth++
		res.DepthCompleted = depth
		frontier = next
	}
done:
	r.States += res.States
	r.Transitions += res.Transitions
	return res
}
