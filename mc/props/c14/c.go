package main

import (
	"fmt"
	"math/big"

	sdk "github.com/cosmos/cosmos-sdk/types"
	evmtypes "github.com/palomachain/paloma/v2/x/evm/types"
	schedtypes "github.com/palomachain/paloma/v2/x/scheduler/types"
	"github.com/palomachain/paloma/v2/zzverif/world"
)

// ---------------------------------------------------------------------------
// (c) fees

type caseC struct {
	Mult string `json:"relayer_multiplier"`
	Gas  string `json:"elected_gas"`
	RC   string `json:"community_rate"`
	RS   string `json:"security_rate"`
}

func (c caseC) String() string {
	return fmt.Sprintf("multiplier=%s gas=%s community=%s security=%s", c.Mult, c.Gas, c.RC, c.RS)
}

var (
	cMults = []string{"0.000001", "0.5", "1", "1.000001", "2.5", "1000000"}
	cGas   = []string{"1", "21000", "4294967296", "9007199254740993", "18446744073709551615"}
	cRates = []string{"0.01", "0.3", "1", "2.5"}
	maxU64 = new(big.Int).SetUint64(^uint64(0))
)

func rat(s string) *big.Rat {
	r, ok := new(big.Rat).SetString(s)
	if !ok {
		panic("rat " + s)
	}
	return r
}

func ceilRat(r *big.Rat) *big.Int {
	q, m := new(big.Int).DivMod(r.Num(), r.Denom(), new(big.Int))
	if m.Sign() != 0 {
		q.Add(q, big.NewInt(1))
	}
	return q
}

func (e *env) evalC(c caseC) {
	w, r := e.w, e.r
	rec := replayRec{Part: "c", C: &c}
	ctx := world.Fork(w.Root)
	for _, v := range w.Vals {
		must(w.SetFee(ctx, v, target, c.Mult))
	}
	w.App.MetrixKeeper.OnSnapshotBuilt(ctx, e.baseSnap)
	must(w.App.TreasuryKeeper.SetCommunityFundFee(ctx, c.RC))
	must(w.App.TreasuryKeeper.SetSecurityFee(ctx, c.RS))
	r.Case("")
	r.DistinctN++
	if res := w.DeliverTx(ctx, []*world.Actor{e.s1}, &schedtypes.MsgExecuteJob{JobID: jobN, Metadata: world.Meta(e.s1)}); !res.OK() {
		r.Violate("harness:c:execute-job", fmt.Sprintf("%s: %v", c, res.Err), rec)
		return
	}
	msgs := w.Queue(ctx, e.queue)
	if len(msgs) != 1 {
		r.Violate("harness:c:queue", fmt.Sprintf("%s: %d messages queued", c, len(msgs)), rec)
		return
	}
	id := msgs[0].GetId()
	gas, _ := new(big.Int).SetString(c.Gas, 10)
	for _, v := range w.Vals {
		if res := w.DeliverTx(ctx, []*world.Actor{v.Actor}, world.Estimate(v, e.queue, id, gas.Uint64())); !res.OK() {
			r.Violate("harness:c:estimate", fmt.Sprintf("%s: estimate by %s: %v", c, v.Name, res.Err), rec)
			return
		}
	}
	d0 := w.StoreDigest(ctx, world.ConsensusStore)
	if err, panicked := world.Protect(func() error { return w.EndBlock(ctx) }); err != nil {
		sig := "fees:end-block-error"
		if panicked {
			sig = "fees:end-block-panic"
		}
		r.Violate(sig, fmt.Sprintf("%s: EndBlock: %v", c, err), rec)
		return
	}
	// reference
	relayer := ceilRat(new(big.Rat).Mul(rat(c.Mult), new(big.Rat).SetInt(gas)))
	community := ceilRat(new(big.Rat).Mul(rat(c.RC), new(big.Rat).SetInt(relayer)))
	security := ceilRat(new(big.Rat).Mul(rat(c.RS), new(big.Rat).SetInt(relayer)))
	fits := relayer.Cmp(maxU64) <= 0 && community.Cmp(maxU64) <= 0 && security.Cmp(maxU64) <= 0

	msgs = w.Queue(ctx, e.queue)
	if len(msgs) != 1 || msgs[0].GetId() != id {
		r.Violate("fees:message-lost", fmt.Sprintf("%s: queue after election has %d messages", c, len(msgs)), rec)
		return
	}
	cm, err := msgs[0].ConsensusMsg(w.App.AppCodec())
	em, _ := cm.(*evmtypes.Message)
	if err != nil || em == nil || em.GetSubmitLogicCall() == nil {
		r.Violate("fees:message-lost", fmt.Sprintf("%s: message unreadable after election: %v", c, err), rec)
		return
	}
	fees := em.GetSubmitLogicCall().Fees
	if !fits {
		e.count("c_out_of_range_refused")
		if msgs[0].GetGasEstimate() != 0 || fees != nil || w.StoreDigest(ctx, world.ConsensusStore) != d0 {
			r.Violate("fees:out-of-range-not-refused-cleanly", fmt.Sprintf("%s: reference fees (%s, %s, %s) do not fit uint64 but the message changed: elected=%d fees=%v", c, relayer, community, security, msgs[0].GetGasEstimate(), fees), rec)
		}
		return
	}
	e.count("c_elected")
	if msgs[0].GetGasEstimate() != gas.Uint64() {
		r.Violate("fees:election-missing", fmt.Sprintf("%s: elected estimate %d, want %s", c, msgs[0].GetGasEstimate(), gas), rec)
		return
	}
	if fees == nil {
		r.Violate("fees:not-attached", fmt.Sprintf("%s: estimate elected but no fees attached", c), rec)
		return
	}
	if fees.RelayerFee != relayer.Uint64() {
		r.Violate("fees:relayer-fee-not-ceil", fmt.Sprintf("%s: relayer fee %d, reference ceil(multiplier*gas)=%s", c, fees.RelayerFee, relayer), rec)
	}
	if fees.CommunityFee != community.Uint64() {
		r.Violate("fees:community-fee-not-ceil", fmt.Sprintf("%s: community fee %d, reference ceil(rate*relayer fee)=%s", c, fees.CommunityFee, community), rec)
	}
	if fees.SecurityFee != security.Uint64() {
		r.Violate("fees:security-fee-not-ceil", fmt.Sprintf("%s: security fee %d, reference ceil(rate*relayer fee)=%s", c, fees.SecurityFee, security), rec)
	}
	if c.RC == "0.3" && c.RS == "2.5" && (c.Mult == "1.000001" || c.Mult == "0.000001") && c.Gas != "1" {
		e.sample("c", map[string]interface{}{"part": "c", "case": c.String(), "fees": []uint64{fees.RelayerFee, fees.CommunityFee, fees.SecurityFee}})
	}
}

func (e *env) partC(shard, nshards int) {
	idx := 0
	for _, m := range cMults {
		for _, g := range cGas {
			for _, rc := range cRates {
				for _, rs := range cRates {
					idx++
					if idx%nshards != shard {
						continue
					}
					if e.expired("c") {
						return
					}
					e.evalC(caseC{Mult: m, Gas: g, RC: rc, RS: rs})
				}
			}
		}
	}
}

func (e *env) replayC(c caseC) { e.evalC(c) }

var _ sdk.Context
