package main

// Cross-type collision pass: the attestation key carries no claim-type tag and
// Attest does not compare the type of the stored claim with the submitted one,
// so a claim of one type can land on the attestation of a claim of another
// type when their hash paths coincide.
//
// Free-form string fields of every type draw from ONE shared pool: the valid
// values of all string fields of all claim types plus the decimal renderings of
// the numeric defaults. One free-form field at a time additionally takes the
// composites "x/y" (x raw and url.PathEscape'd) over the pool, so that one
// field of a type with fewer path elements can stand for two fields of a type
// with more. All tuples of all types go into one key -> tuples map (hashing
// only); the differential quorum oracle runs on pairs of every group.

import (
	"bytes"
	"fmt"
	"net/url"
	"sort"
	"strings"
	"time"

	sdkmath "cosmossdk.io/math"
	skywaytypes "github.com/palomachain/paloma/v2/x/skyway/types"
)

type member struct {
	P   int // index into the product list
	Idx int
}

type xgroup struct {
	Members []member
	Score   int
	Cross   bool
}

func isString(v interface{}) bool { _, ok := v.(string); return ok }

// crossProducts builds, per claim type, one product with pool tokens on every
// free-form field and one product per free-form field D in which D takes the
// composites only.
func (e *env) crossProducts(thorough bool) (prods []*prodT, tags []string, pool, composites []interface{}) {
	v0 := e.w.Vals[0]
	// shared pool
	var core []interface{}
	for _, t := range e.types {
		for _, f := range t.Fields {
			if isString(f.Dom[0]) {
				core = append(core, f.Dom[0])
				if thorough && len(f.Dom) > 1 {
					pool = append(pool, f.Dom[1])
				}
			} else {
				core = append(core, show(f.Dom[0]))
			}
		}
	}
	core = dedupe(core)
	pool = dedupe(append(append([]interface{}{}, core...), pool...))
	for _, x := range core {
		for _, y := range core {
			composites = append(composites, x.(string)+"/"+y.(string), url.PathEscape(x.(string))+"/"+y.(string))
		}
	}
	composites = dedupe(composites)

	for _, t := range e.types {
		def := e.build(t, nil, v0)
		defKey := attKey(def)
		defHash, _ := safeHash(def.(skywaytypes.EthereumClaim))
		type alpha struct {
			f    *fieldT
			toks []interface{}
			free bool
		}
		var as []alpha
		for i := range t.Fields {
			f := &t.Fields[i]
			blind, external := true, len(f.Dom) > 1
			for _, x := range f.Dom[1:] {
				m := e.build(t, map[string]interface{}{f.Name: x}, v0)
				if !bytes.Equal(attKey(m), defKey) {
					blind = false
				}
				if h, _ := safeHash(m.(skywaytypes.EthereumClaim)); !bytes.Equal(h, defHash) {
					external = false
				}
			}
			if blind {
				continue
			}
			second := f.Dom[0]
			if len(f.Dom) > 1 {
				second = f.Dom[1]
			}
			a := alpha{f: f, toks: []interface{}{f.Dom[0], second}}
			if n, ok := f.Dom[0].(sdkmath.Int); ok {
				a.toks = []interface{}{n, n.Neg(), sdkmath.ZeroInt()}
				if thorough {
					a.toks = dedupe(append([]interface{}{n}, intVariants(n)[:3]...)) // n, -n, 0, 2^256-1
				}
			}
			if isString(f.Dom[0]) && !external {
				if m, _ := e.build(t, map[string]interface{}{f.Name: "a/b"}, v0).(validator); m != nil && m.ValidateBasic() == nil {
					a.free = true
					// own default first, then the rest of the pool
					a.toks = dedupe(append([]interface{}{f.Dom[0]}, pool...))
				} else if thorough && len(f.Dom) > 2 {
					a.toks = append(a.toks, f.Dom[2])
				}
			}
			a.toks = dedupe(a.toks)
			as = append(as, a)
		}
		mk := func(d int) *prodT {
			p := &prodT{T: t, Size: 1}
			for i, a := range as {
				toks := a.toks
				if i == d {
					toks = composites
				}
				p.Fields = append(p.Fields, a.f)
				p.Toks = append(p.Toks, toks)
				p.Size *= len(toks)
			}
			return p
		}
		prods = append(prods, mk(-1))
		tags = append(tags, t.Name+"/pool")
		for i, a := range as {
			if a.free {
				prods = append(prods, mk(i))
				tags = append(tags, t.Name+"/composite:"+a.f.Name)
			}
		}
	}
	return
}

// nonValid counts the fields of the tuple that do not hold the type's own
// default value (in composite products position 0 is not the default).
func (e *env) nonValid(p *prodT, idx int) int {
	n := 0
	for i, d := range p.digits(idx) {
		if show(p.Toks[i][d]) != show(p.Fields[i].Dom[0]) {
			n++
		}
	}
	return n
}

func (e *env) xshow(p *prodT, idx int) (string, []string) {
	var parts, comp []string
	for i, d := range p.digits(idx) {
		tok := p.Toks[i][d]
		if show(tok) == show(p.Fields[i].Dom[0]) {
			continue
		}
		parts = append(parts, p.Fields[i].Name+"="+show(tok))
		if s, ok := tok.(string); ok && strings.Contains(s, "/") {
			comp = append(comp, p.Fields[i].Name)
		}
	}
	if len(parts) == 0 {
		return p.T.Name + "{the valid default claim}", comp
	}
	return p.T.Name + "{" + strings.Join(parts, " ") + "}", comp
}

func (e *env) xcase(prods []*prodT, tier string, bi int, a, b member) caseT {
	pa, pb := prods[a.P], prods[b.P]
	sa, ca := e.xshow(pa, a.Idx)
	sb, cb := e.xshow(pb, b.Idx)
	fields := append(ca, cb...)
	sort.Strings(fields)
	names := []string{pa.T.Name, pb.T.Name}
	sort.Strings(names)
	sig := "xtype-collision:" + strings.Join(names, "+") + ":" + strings.Join(fields, "+")
	if pa.T == pb.T {
		// same type: name the fields in which the two tuples differ
		fields = nil
		c1, c2 := pa.assignment(a.Idx), pb.assignment(b.Idx)
		for _, f := range pa.T.Fields {
			x, okx := c1[f.Name]
			y, oky := c2[f.Name]
			if okx && oky && show(x) != show(y) {
				fields = append(fields, f.Name)
			}
		}
		sort.Strings(fields)
		sig = "collision:" + pa.T.Name + "." + strings.Join(fields, "+")
	}
	return caseT{
		ID:   fmt.Sprintf("xcollision|%s|%s|%d|%d|%d|%d", tier, e.bases[bi].Name, a.P, a.Idx, b.P, b.Idx),
		Base: bi, T: pa.T, T2: pb.T, Sig: sig, Fields: strings.Join(fields, "+"),
		C1: pa.assignment(a.Idx), C2: pb.assignment(b.Idx), Show1: sa, Show2: sb,
	}
}

func (e *env) crossTypeSearch(shard, nshards int, deadline time.Time, want string) {
	r := e.r
	tier := "quick"
	if r.Thorough() {
		tier = "thorough"
	}
	if strings.HasPrefix(want, "xcollision|") {
		part := strings.Split(want, "|")
		if len(part) != 7 {
			panic("bad cross-type replay id " + want)
		}
		prods, _, _, _ := e.crossProducts(part[1] == "thorough")
		var a, b member
		fmt.Sscan(part[3], &a.P)
		fmt.Sscan(part[4], &a.Idx)
		fmt.Sscan(part[5], &b.P)
		fmt.Sscan(part[6], &b.Idx)
		for bi := range e.bases {
			if e.bases[bi].Name == part[2] {
				e.runCase(e.xcase(prods, part[1], bi, a, b))
			}
		}
		return
	}
	if want != "" {
		return
	}
	prods, tags, pool, composites := e.crossProducts(r.Thorough())
	total := 0
	sizes := map[string]interface{}{}
	for i, p := range prods {
		total += p.Size
		sizes[tags[i]] = float64(p.Size)
	}
	if total > 6_000_000 {
		r.Cap(fmt.Sprintf("cross-type collision search: %d tuples, skipped", total))
		return
	}
	// every worker hashes everything but keeps only its partition of the key space
	first := map[fp]uint64{}
	coll := map[fp][]member{}
	enc := func(m member) uint64 { return uint64(m.P)<<40 | uint64(m.Idx) }
	dec := func(u uint64) member { return member{int(u >> 40), int(u & (1<<40 - 1))} }
	// the keys of the fully valid claims go to worker 0, so that the collisions
	// with a valid claim are evaluated and reported first
	valid := map[fp]bool{}
	for _, t := range e.types {
		valid[fingerprint(attKey(e.build(t, nil, e.w.Vals[0])))] = true
	}
	for pi, p := range prods {
		pi := pi
		e.eachKey(p, func(idx int, key []byte) {
			k := fingerprint(key)
			if owner := int(k[0]) % nshards; valid[k] && shard != 0 || !valid[k] && owner != shard {
				return
			}
			if f, ok := first[k]; ok {
				if _, ok := coll[k]; !ok {
					coll[k] = []member{dec(f)}
				}
				coll[k] = append(coll[k], member{pi, idx})
			} else {
				first[k] = enc(member{pi, idx})
			}
		})
	}
	first = nil
	v0 := e.w.Vals[0]
	var groups []xgroup
	for _, ms := range coll {
		byKey := map[string][]member{}
		for _, m := range ms {
			p := prods[m.P]
			k := string(attKey(e.build(p.T, p.assignment(m.Idx), v0)))
			byKey[k] = append(byKey[k], m)
		}
		for _, g := range byKey {
			if len(g) < 2 {
				continue
			}
			sort.Slice(g, func(i, j int) bool {
				ni, nj := e.nonValid(prods[g[i].P], g[i].Idx), e.nonValid(prods[g[j].P], g[j].Idx)
				if ni != nj {
					return ni < nj
				}
				if g[i].P != g[j].P {
					return g[i].P < g[j].P
				}
				return g[i].Idx < g[j].Idx
			})
			xg := xgroup{Members: g, Score: e.nonValid(prods[g[0].P], g[0].Idx)}
			for _, m := range g[1:] {
				if prods[m.P].T != prods[g[0].P].T {
					xg.Cross = true
				}
			}
			groups = append(groups, xg)
		}
	}
	sort.Slice(groups, func(i, j int) bool {
		a, b := groups[i], groups[j]
		if a.Score != b.Score {
			return a.Score < b.Score
		}
		if a.Members[0].P != b.Members[0].P {
			return a.Members[0].P < b.Members[0].P
		}
		return a.Members[0].Idx < b.Members[0].Idx
	})
	ncross := 0
	for _, g := range groups {
		if g.Cross {
			ncross++
		}
	}
	maxGroups := 60 / nshards
	if r.Thorough() {
		maxGroups = 600 / nshards
	}
	if maxGroups < 4 {
		maxGroups = 4
	}
	if len(groups) > maxGroups {
		r.Cap(fmt.Sprintf("cross-type collision search: more key collision groups than the budget of %d per worker; those closest to the valid claims are evaluated", maxGroups))
	}
	var evaluated, executed, differing float64
	n := len(e.voters)
	for gi, g := range groups {
		if gi >= maxGroups {
			break
		}
		if time.Now().After(deadline) {
			r.Cap("deadline")
			break
		}
		ms := g.Members
		if len(ms) > membersPerGroup {
			r.Cap(fmt.Sprintf("cross-type collision search: a group has more than %d tuples; the %d closest to the valid claims are evaluated", membersPerGroup, membersPerGroup))
			ms = ms[:membersPerGroup]
		}
		evaluated++
		for bi := range e.bases {
			outs := make([]outcome, len(ms))
			for i, m := range ms {
				p := prods[m.P]
				outs[i], _, _ = e.quorum(e.bases[bi].Ctx, same(p.T, p.assignment(m.Idx), n))
				executed++
			}
			found := 0
			for i := 0; i < len(ms) && found < pairsPerGroupBase; i++ {
				for j := i + 1; j < len(ms) && found < pairsPerGroupBase; j++ {
					if outs[i].String() == outs[j].String() || !outs[i].submittable() || !outs[j].submittable() {
						continue
					}
					found++
					differing++
					e.runCase(e.xcase(prods, tier, bi, ms[i], ms[j]))
				}
			}
		}
	}
	if shard == 0 {
		r.Extra["xtype_product"] = sizes
		r.Extra["xtype_tuples_hashed"] = float64(total)
		r.Extra["xtype_pool_tokens"] = float64(len(pool))
		r.Extra["xtype_composite_tokens"] = float64(len(composites))
	}
	r.Extra["xtype_groups"] = float64(len(groups))
	r.Extra["xtype_groups_cross_type"] = float64(ncross)
	r.Extra["xtype_groups_evaluated"] = evaluated
	r.Extra["xtype_quorum_runs"] = executed
	r.Extra["xtype_pairs_outcome_differs"] = differing
}
