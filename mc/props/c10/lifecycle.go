package main

import (
	"fmt"
	"math/big"
	"sort"
	"strings"
	"time"

	sdk "github.com/cosmos/cosmos-sdk/types"
	slashingtypes "github.com/cosmos/cosmos-sdk/x/slashing/types"
	stakingtypes "github.com/cosmos/cosmos-sdk/x/staking/types"
	ethcrypto "github.com/ethereum/go-ethereum/crypto"
	"github.com/palomachain/paloma/v2/x/evm"
	evmtypes "github.com/palomachain/paloma/v2/x/evm/types"
	vtypes "github.com/palomachain/paloma/v2/x/valset/types"
	"github.com/palomachain/paloma/v2/zzverif/explore"
	"github.com/palomachain/paloma/v2/zzverif/world"
)

// Chain lifecycle scenario (L). Chains come and go through the governance
// proposal handler of x/evm (AddChainProposal / RemoveChainProposal — removal
// does not purge the validators' accounts), and validators replace their whole
// account list with real MsgAddExternalChainInfoForValidator transactions,
// including ids of removed chains and an id no chain ever had. The membership
// oracle is the same as everywhere (refMembers): listed <=> bonded, unjailed and
// an account on EVERY chain that is currently known and ACTIVE, by id equality,
// from the ghost's own record of accounts and chains.

// account lists a validator may switch to (always replacing the whole list)
var lifeMenus = [][]string{
	{c1, c2, cOld},
	{c1, c2, cNew},
	{c1, c2, cOld, cNew},
	{c1, c2},
	{c1, c2, cNever},
	{c1, cOld, cNever},
	// chain type spellings ("ref:TYPE"; plain = "evm"): the type is free text
	{c1 + ":EVM", c2, cOld},
	{c1 + ":Evm", c2 + ":EVM", cOld, cNew + ":EVM"},
	{c1 + ":solana", c2, cOld},
}

func splitAcct(x string) (ref, typ string) {
	if i := strings.Index(x, ":"); i >= 0 {
		return x[:i], x[i+1:]
	}
	return x, "evm"
}

func (e *env) govAddChain(ctx sdk.Context, ref string) error {
	h := evm.NewReferenceChainReferenceIDProposalHandler(e.w.App.EvmKeeper)
	id := chainIDs[ref]
	return atomically(ctx, func(c sdk.Context) error {
		return h(c, &evmtypes.AddChainProposal{Title: "t", Description: "d", ChainReferenceID: ref, ChainID: id,
			BlockHeight: 100, BlockHashAtHeight: "0x" + fmt.Sprintf("%064x", id), MinOnChainBalance: "0"})
	})
}

func (e *env) govRemoveChain(ctx sdk.Context, ref string) error {
	h := evm.NewReferenceChainReferenceIDProposalHandler(e.w.App.EvmKeeper)
	return atomically(ctx, func(c sdk.Context) error {
		return h(c, &evmtypes.RemoveChainProposal{Title: "t", Description: "d", ChainReferenceID: ref})
	})
}

// txSetAccounts: the validator's own MsgAddExternalChainInfoForValidator.
func (e *env) txSetAccounts(ctx sdk.Context, v int, chains []string) (bool, *explore.Fail) {
	a := e.w.Vals[v]
	var infos []*vtypes.ExternalChainInfo
	for _, x := range chains {
		ref, typ := splitAcct(x)
		infos = append(infos, &vtypes.ExternalChainInfo{ChainType: typ, ChainReferenceID: ref, Address: a.EthAddr(),
			Pubkey: ethcrypto.PubkeyToAddress(a.Eth.PublicKey).Bytes()})
	}
	res := e.w.DeliverTx(ctx, []*world.Actor{a.Actor}, &vtypes.MsgAddExternalChainInfoForValidator{ChainInfos: infos, Metadata: world.Meta(a.Actor)})
	if res.Stage == "ante" || res.Stage == "build" || res.Stage == "validate" {
		return false, explore.Failf("harness:tx", "account tx of v%d failed in %s: %v", v, res.Stage, res.Err)
	}
	return res.OK(), nil
}

func (g *ghost) accountsOf(v int) []string {
	var out []string
	pre := fmt.Sprintf("%d/", v)
	for k, on := range g.Acct {
		if on && strings.HasPrefix(k, pre) {
			x := k[len(pre):]
			if t := g.Typ[k]; t != "" {
				x += ":" + t
			}
			out = append(out, x)
		}
	}
	sort.Strings(out)
	return out
}

func sameSet(a, b []string) bool {
	a, b = append([]string(nil), a...), append([]string(nil), b...)
	sort.Strings(a)
	sort.Strings(b)
	return strings.Join(a, ",") == strings.Join(b, ",")
}

func (e *env) lifeOps(n *explore.Node) []explore.Op {
	w := e.w
	g0 := n.Ghost.(*ghost)
	var ops []explore.Op
	add := func(label string, do func(ctx *sdk.Context, g *ghost) (want []member, f *explore.Fail)) {
		ops = append(ops, explore.Op{Label: label, Do: func(ctx *sdk.Context, gg explore.Ghost) *explore.Fail {
			g := gg.(*ghost)
			want, f := do(ctx, g)
			if f != nil {
				return f
			}
			return e.observe(*ctx, g, want, false)
		}})
	}
	for _, c := range g0.chains() {
		c := c
		add(fmt.Sprintf("GovRemoveChain(%s)", c), func(ctx *sdk.Context, g *ghost) ([]member, *explore.Fail) {
			if err := e.govRemoveChain(*ctx, c); err != nil {
				return nil, explore.Failf("harness:remove-chain", "%v", err)
			}
			delete(g.Chain, c)
			e.count("n_chain_removed")
			return nil, nil
		})
		if g0.Chain[c] == chainInactive {
			add(fmt.Sprintf("ActivateChain(%s)", c), func(ctx *sdk.Context, g *ghost) ([]member, *explore.Fail) {
				if err := atomically(*ctx, func(cc sdk.Context) error { return e.activateChain(cc, c) }); err != nil {
					return nil, explore.Failf("harness:activate-chain", "%v", err)
				}
				g.Chain[c] = chainActive
				e.count("n_chain_activated")
				return nil, nil
			})
		}
	}
	for _, c := range []string{cOld, cNew} {
		if g0.Chain[c] != 0 {
			continue
		}
		c := c
		add(fmt.Sprintf("GovAddChain(%s)", c), func(ctx *sdk.Context, g *ghost) ([]member, *explore.Fail) {
			if err := e.govAddChain(*ctx, c); err != nil {
				return nil, explore.Failf("harness:add-chain", "%v", err)
			}
			g.Chain[c] = chainInactive
			e.count("n_chain_added")
			return nil, nil
		})
	}
	for v := 0; v < 3; v++ {
		cur := g0.accountsOf(v)
		for mi, menu := range lifeMenus {
			if v < 2 && mi >= 3 {
				continue // v0, v1: the three migration lists; v2: every list
			}
			if sameSet(cur, menu) {
				continue
			}
			v, menu := v, menu
			add(fmt.Sprintf("SetAccounts(v%d,{%s})", v, strings.Join(menu, ",")), func(ctx *sdk.Context, g *ghost) ([]member, *explore.Fail) {
				ok, f := e.txSetAccounts(*ctx, v, menu)
				if f != nil {
					return nil, f
				}
				if !ok {
					e.count("n_account_refused") // jailed / not bonded
					return nil, nil
				}
				for _, x := range g.accountsOf(v) {
					c, _ := splitAcct(x)
					delete(g.Acct, acctKey(v, c))
					delete(g.Typ, acctKey(v, c))
				}
				for _, x := range menu {
					c, t := splitAcct(x)
					g.Acct[acctKey(v, c)] = true
					if t != "evm" {
						if g.Typ == nil {
							g.Typ = map[string]string{}
						}
						g.Typ[acctKey(v, c)] = t
						e.count("n_accounts_registered_with_type_" + t)
					}
				}
				e.count("n_account_lists_replaced")
				return nil, nil
			})
		}
	}
	if x := e.val(n.Ctx, 2); x.Status != stakingtypes.Unspecified {
		if x.Jailed {
			add("Unjail(v2)", func(ctx *sdk.Context, g *ghost) ([]member, *explore.Fail) {
				res := w.DeliverTx(*ctx, []*world.Actor{w.Vals[2].Actor}, &slashingtypes.MsgUnjail{ValidatorAddr: w.Vals[2].ValAddr.String()})
				if res.OK() {
					if err := e.stakingEnd(*ctx); err != nil {
						return nil, explore.Failf("harness:staking-endblock", "%v", err)
					}
				}
				return nil, nil
			})
		} else {
			add("Jail(v2)", func(ctx *sdk.Context, g *ghost) ([]member, *explore.Fail) {
				if err := atomically(*ctx, func(c sdk.Context) error { return w.App.ValsetKeeper.Jail(c, w.Vals[2].ValAddr, "verif") }); err != nil {
					if err := atomically(*ctx, func(c sdk.Context) error { return w.App.SlashingKeeper.Jail(c, e.cons[2]) }); err != nil {
						return nil, explore.Failf("harness:jail", "Jail(v2): %v", err)
					}
				}
				return nil, nil
			})
		}
	}
	add("StakingEnd", func(ctx *sdk.Context, g *ghost) ([]member, *explore.Fail) {
		if err := e.stakingEnd(*ctx); err != nil {
			return nil, explore.Failf("harness:staking-endblock", "%v", err)
		}
		return nil, nil
	})
	add("Build", func(ctx *sdk.Context, g *ghost) ([]member, *explore.Fail) { return e.build(*ctx, g) })
	// on-chain activation of the latest snapshot on every known chain it is not
	// live on yet (three or four chains here, so a chains list grows past two entries)
	if sg := g0.Snaps[fmt.Sprint(g0.MaxID)]; sg != nil {
		for _, c := range g0.chains() {
			live := false
			for _, x := range sg.Chains {
				if x == c {
					live = true
				}
			}
			if live {
				continue
			}
			id, c := g0.MaxID, c
			add(fmt.Sprintf("Activate(%d,%s)", id, c), func(ctx *sdk.Context, g *ghost) ([]member, *explore.Fail) {
				if err := atomically(*ctx, func(cc sdk.Context) error { return w.App.ValsetKeeper.SetSnapshotOnChain(cc, id, c) }); err != nil {
					return nil, explore.Failf("harness:activate", "SetSnapshotOnChain(%d,%s): %v", id, c, err)
				}
				e.count("n_life_activate")
				return nil, nil
			})
		}
	}
	return ops
}

// lifeInit: chains c1, c2, old active (added through the governance handler),
// v0..v2 registered on all three, stakes raised, snapshot built. With migrated
// set: additionally old removed, new added and activated, v0 and v1
// re-registered on {c1,c2,new}; v2 still holds {c1,c2,old}.
func (e *env) lifeInit(root sdk.Context, j int, migrated bool) *explore.Node {
	ctx := world.Fork(root)
	g := &ghost{Vec: j, Snaps: map[string]*snapG{}, Acct: map[string]bool{}, Chain: map[string]int{c1: chainActive}}
	for v := 0; v < nV; v++ {
		g.Acct[acctKey(v, c1)] = true
	}
	if f := e.observe(ctx, g, nil, true); f != nil {
		panic("lifecycle init: " + f.Message)
	}
	for _, c := range []string{c2, cOld} {
		must(e.govAddChain(ctx, c))
		must(e.activateChain(ctx, c))
		g.Chain[c] = chainActive
	}
	st := make([]*big.Int, 3)
	for v := 0; v < nV; v++ {
		for _, c := range g.accountsOf(v) {
			delete(g.Acct, acctKey(v, c))
		}
		if v < 3 {
			st[v] = alpha[bfsVectors[j][v]]
			must(e.setAccounts(ctx, v, c1, c2, cOld))
			for _, c := range []string{c1, c2, cOld} {
				g.Acct[acctKey(v, c)] = true
			}
		} else {
			must(e.setAccounts(ctx, v))
		}
	}
	must(e.raiseTo(ctx, st))
	want, f := e.build(ctx, g)
	if f == nil {
		f = e.observe(ctx, g, want, false)
	}
	label := fmt.Sprintf("life(%s,%s,%s)", alphaName[bfsVectors[j][0]], alphaName[bfsVectors[j][1]], alphaName[bfsVectors[j][2]])
	if f == nil && migrated {
		// the snapshot built while c1, c2 and old were active goes live on all three, one at a time
		for _, c := range []string{c1, c2, cOld} {
			if f != nil {
				break
			}
			must(e.w.App.ValsetKeeper.SetSnapshotOnChain(ctx, g.MaxID, c))
			f = e.observe(ctx, g, nil, false)
		}
	}
	if f == nil && migrated {
		label += "+migrated"
		must(e.govRemoveChain(ctx, cOld))
		delete(g.Chain, cOld)
		must(e.govAddChain(ctx, cNew))
		must(e.activateChain(ctx, cNew))
		g.Chain[cNew] = chainActive
		for v := 0; v < 2; v++ {
			ok, ff := e.txSetAccounts(ctx, v, lifeMenus[1])
			if ff != nil || !ok {
				panic("lifecycle init: re-registration failed")
			}
			delete(g.Acct, acctKey(v, cOld))
			g.Acct[acctKey(v, cNew)] = true
		}
		f = e.observe(ctx, g, nil, false)
	}
	if f != nil {
		e.r.Violate(f.Signature, f.Message, map[string]interface{}{"scenario": "lifecycle", "path": []string{label}})
		return nil
	}
	return &explore.Node{Ctx: ctx, Ghost: g, Path: []string{label}}
}

func (e *env) lifeSpec(rootB sdk.Context, nvec, depth int, deadline time.Time, shard, nshards int) explore.Spec {
	var init []*explore.Node
	for j := 0; j < nvec; j++ {
		for _, m := range []bool{false, true} {
			if n := e.lifeInit(rootB, j, m); n != nil {
				init = append(init, n)
			}
		}
	}
	return explore.Spec{Name: "lifecycle", Init: init, Ops: e.lifeOps, Hash: e.hash, MaxDepth: depth, Deadline: deadline,
		ShardDepth: 2, Shard: shard, NShards: nshards}
}
