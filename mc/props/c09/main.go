// C09 — begin- and end-of-block processing never aborts.
// The scripted history (mc/hist: relay, bridge and valset lifecycles through the
// real ABCI surface, 362 blocks covering heights = 0 mod 10, 50, 100, 300, 303)
// is re-executed once per deviation; a deviation replaces ONE sender-controlled
// field of ONE message type by a hostile value (in every transaction of that
// type in the first block where it occurs — so quorum-based values come from
// all validators — or in every occurrence). The history then continues, so the
// hostile state meets every periodic begin/end-block job. Oracle: no panic and
// no error escapes FinalizeBlock; panics that module code recovers and only
// logs are reported under a separate signature.
package main

import (
	"encoding/json"
	"flag"
	"fmt"
	"os"
	"reflect"
	"sort"
	"strings"
	"time"

	sdkmath "cosmossdk.io/math"
	abci "github.com/cometbft/cometbft/abci/types"
	codectypes "github.com/cosmos/cosmos-sdk/codec/types"
	sdk "github.com/cosmos/cosmos-sdk/types"
	"github.com/cosmos/gogoproto/proto"
	ethcommon "github.com/ethereum/go-ethereum/common"
	ethtypes "github.com/ethereum/go-ethereum/core/types"
	"github.com/palomachain/paloma/v2/zzverif/hist"
	"github.com/palomachain/paloma/v2/zzverif/report"
	"github.com/palomachain/paloma/v2/zzverif/world"
)

type dev struct {
	// Gov != "": a governance-set value is hostile instead of a message field
	Gov     string `json:"gov,omitempty"`
	MsgType string `json:"msg_type"`
	Field   string `json:"field"`
	Kind    string `json:"kind"`
	Value   string `json:"value"` // label of the hostile value
	Mode    string `json:"mode"`  // first-block | all
}

func (d dev) String() string { b, _ := json.Marshal(d); return string(b) }

type leaf struct {
	MsgType, Field, Kind string
}

func main() {
	replay := flag.String("replay", "", "replay file")
	flag.Parse()
	report.Main("C09", "model_checking", report.Workers(), func(r *report.Run, shard, nshards int) { run(r, shard, nshards, *replay) })
}

var capLog = world.NewCapLogger(needles()...)

func needles() []string {
	if os.Getenv("ISO_DEBUG") != "" {
		return []string{"panic", "attest", "error"}
	}
	return []string{"panic"}
}

// blocksWithRecovered counts, for the last execution, the blocks in which module
// code recovered (and only logged) a panic during begin/end-block processing.
var blocksWithRecovered int

// quickHorizon bounds field-deviation executions of the quick tier (set in run).
var quickHorizon bool

func recoveredHits() []string {
	var hits []string
	for _, h := range *capLog.Hits {
		if !strings.Contains(h, "recovered in runTx") { // tx-level panics are turned into tx errors by baseapp: not block processing
			hits = append(hits, h)
		}
	}
	return hits
}

func execute(d *dev) (run *hist.Run, blocks int, applied int) {
	capLog.Reset()
	blocksWithRecovered = 0
	seen := 0
	first := -1
	// a recovered panic in the block in which a hostile value was delivered (or the one after) is the
	// one-off rejection of that value; only panics in other blocks count towards "again and again"
	hostileBlock := map[int]bool{}
	h := hist.Hooks{OnBlock: func(i int, height int64, resp *abci.ResponseFinalizeBlock) {
		if n := len(recoveredHits()); n > seen {
			seen = n
			if !hostileBlock[i] && !hostileBlock[i-1] {
				blocksWithRecovered++
			}
		}
	}}
	if d != nil && d.Gov == "fast-forward" {
		// bound-1 deviation of the history's length: 2000 further messages' worth of ids at one point
		at := map[string]int{"early": 12, "mid": 75, "late": 250}[d.Value]
		h.BeforeBlock = func(i int, r *hist.Run) {
			if i == at {
				r.FastForwardMessageIDs(2000)
				applied++
			}
		}
	} else if d != nil && d.Gov != "" {
		h.AfterSetup = func(r *hist.Run) {
			if applyGov(r, d.Gov, d.Value) {
				applied++
			}
		}
	} else if d != nil {
		h.Mutate = func(i int, txs []hist.Tx) []hist.Tx {
			for ti := range txs {
				for mi, m := range txs[ti].Msgs {
					if proto.MessageName(m) != d.MsgType {
						continue
					}
					if d.Mode == "first-block" && first >= 0 && first != i {
						continue
					}
					c := clone(m)
					if mutate(reflect.ValueOf(c), strings.Split(d.Field, "/"), d.Value) {
						txs[ti].Msgs[mi] = c
						first = i
						hostileBlock[i] = true
						applied++
					}
				}
			}
			return txs
		}
	}
	if d != nil && d.Gov == "" && d.Mode == "first-block" && quickHorizon {
		// quick tier: a bounded horizon after the hostile value entered the chain (the block classes
		// 10, 50 and 100 are always reached; the thorough tier runs every execution to the end)
		h.Stop = func(i int) bool { return first >= 0 && i > max(first+100, 125) }
	}
	out, run := hist.ExecuteWith(h, func(c *world.Config) { c.Logger = capLog })
	return run, len(out), applied
}

func run(r *report.Run, shard, nshards int, replayFile string) {
	r.Rule = "the 362-block scripted history (heights up to 363: classes 10, 50, 100, 300, 303, 350) re-executed once per (message type, field, hostile value, mode) through InitChain/FinalizeBlock/Commit; message types and fields are discovered by reflection over the transactions of the baseline run; a state = one (deviation, block) pair; quick tier: a field-deviation execution ends 100 blocks after the hostile value entered the chain (never before block 125, so the block classes 10, 50 and 100 are reached), the thorough tier runs every execution to the end of the history"
	r.Assumptions = []string{
		"deviation bound 1: one field of one message type is hostile per execution (all transactions of that type in the first block where it occurs, or all occurrences)",
		"only message types occurring in the scripted history are mutated; the version gate of CheckChainVersion is not in the alphabet",
		"part B (isolation): 8 kinds of unprocessable evidence x {one validator, all validators} x 5 placements (older/younger message of the same queue, other queue) next to a healthy message holding quorum evidence; the healthy message must be attested by the same end-block as without the poison",
		"part C (version gate): 13 running versions x 15 completed upgrade names through the real upgrade keeper and CheckChainVersion: a node on the same release line and not older must never be stopped, an older node must be stopped; a newer release line is left unconstrained (the code stops it too)",
		"history-length deviations: the global message id counter is advanced by 2000 at block 12 / 75 / 250 (what 2000 further queued messages would do), so id-keyed aging rules (metrix scoring window of 1000 messages) meet old records",
		"a panic that module code recovers and logs (skyway end-blocker, listed by the property as a protective mechanism) is a violation only when it recurs in >= 3 different blocks (the module's remaining end-block work is then skipped persistently); one-off recovered panics are listed in the evidence as transient",
	}
	if replayFile != "" {
		if shard != 0 {
			return
		}
		var v report.Violation
		b, err := os.ReadFile(replayFile)
		if err == nil {
			err = json.Unmarshal(b, &v)
		}
		if err != nil {
			fmt.Fprintln(os.Stderr, err)
			os.Exit(2)
		}
		if m, ok := v.Replay.(map[string]interface{}); ok && m["gate"] != nil {
			versionGate(r)
			return
		}
		if m, ok := v.Replay.(map[string]interface{}); ok && m["isolation"] != nil {
			isolation(r) // the isolation product is small: re-run it completely
			return
		}
		var d dev
		bb, _ := json.Marshal(v.Replay)
		_ = json.Unmarshal(bb, &d)
		run, blocks, _ := execute(&d)
		judge(r, d, run, blocks)
		r.States, r.Transitions = int64(blocks), int64(blocks)
		r.Sample(d)
		return
	}
	if shard == nshards-1 {
		isolation(r)
	}
	if shard == (nshards-1)/2 {
		versionGate(r)
	}
	// baseline: collect leaves, must itself be clean
	leaves := map[leaf]bool{}
	var order []leaf
	h := hist.Hooks{Mutate: func(i int, txs []hist.Tx) []hist.Tx {
		for _, t := range txs {
			for _, m := range t.Msgs {
				collect(reflect.ValueOf(m), proto.MessageName(m), "", func(l leaf) {
					if !leaves[l] {
						leaves[l] = true
						order = append(order, l)
					}
				})
			}
		}
		return txs
	}}
	capLog.Reset()
	out, base := hist.ExecuteWith(h, func(c *world.Config) { c.Logger = capLog })
	if base.Panic != nil {
		r.Violate("baseline-panic", fmt.Sprintf("the unmodified history panics at height %d: %v", base.PanicAt, base.Panic), dev{})
		return
	}
	baseRecovered := len(*capLog.Hits)
	if shard == 0 {
		r.States += int64(len(out))
		r.Transitions += int64(len(out))
		r.Extra["message_types_in_history"] = float64(countTypes(order))
		r.Extra["fields"] = float64(len(order))
		r.Extra["baseline_recovered_panics"] = float64(baseRecovered)
		if baseRecovered > 0 {
			r.Extra["baseline_recovered_panic_sample"] = (*capLog.Hits)[0]
		}
	}
	var devs []dev
	// history-level and governance-value deviations first: they are few, and a deadline cap must cut
	// the tail of the field product rather than these
	for _, at := range []string{"early", "mid", "late"} {
		devs = append(devs, dev{Gov: "fast-forward", Value: at, Kind: "history", Mode: "ids+2000"})
	}
	for _, g := range govMenu() {
		for _, v := range g.Values {
			devs = append(devs, dev{Gov: g.Name, Value: v, Kind: "gov", Mode: "setup"})
		}
	}
	// value-major order: every field gets its first hostile value before any field gets its second, so
	// that a deadline cap thins the value alphabet evenly instead of dropping the last fields altogether
	perLeaf := make([][]dev, len(order))
	rounds := 0
	for li, l := range order {
		vals := hostile(l.Kind, r.Thorough())
		if l.Kind == "bytes" && strings.HasSuffix(l.Field, "SerializedReceipt") {
			// well-formed but unusual receipts: the decoders accept them, the attesters must cope
			vals = append(vals, "rcpt:anon-log-first", "rcpt:no-logs", "rcpt:status-0", "rcpt:log-no-data")
		}
		for _, val := range vals {
			perLeaf[li] = append(perLeaf[li], dev{MsgType: l.MsgType, Field: l.Field, Kind: l.Kind, Value: val, Mode: "first-block"})
		}
		for _, val := range vals {
			// structured receipt variants mean different things for different message kinds (the first
			// block only has a logic call): they are also applied to every occurrence in the quick tier
			if r.Thorough() || strings.HasPrefix(val, "rcpt:") {
				perLeaf[li] = append(perLeaf[li], dev{MsgType: l.MsgType, Field: l.Field, Kind: l.Kind, Value: val, Mode: "all"})
			}
		}
		if len(perLeaf[li]) > rounds {
			rounds = len(perLeaf[li])
		}
	}
	for k := 0; k < rounds; k++ {
		for li := range perLeaf {
			if k < len(perLeaf[li]) {
				devs = append(devs, perLeaf[li][k])
			}
		}
	}
	if shard == 0 {
		r.Extra["deviations_total"] = float64(len(devs))
		r.Extra["governance_value_deviations"] = float64(len(govMenu()))
	}
	deadline := r.Deadline(170*time.Second, 27*time.Minute)
	quickHorizon = !r.Thorough()
	outcomes := map[string]int{}
	for i, d := range devs {
		if i%nshards != shard {
			continue
		}
		if time.Now().After(deadline) {
			r.Cap(fmt.Sprintf("deadline after %d of %d deviations (round-robin over %d shards)", i, len(devs), nshards))
			break
		}
		run, blocks, applied := execute(&d)
		r.States += int64(blocks)
		r.Transitions += int64(blocks)
		if applied == 0 {
			r.Evaluations++
			continue
		}
		r.Case(d.String())
		if i%61 == 0 {
			r.Sample(d)
		}
		outcomes[fmt.Sprintf("%d/%d", run.TxOK, run.TxCount)]++
		judge(r, d, run, blocks)
	}
	r.Extra["distinct_tx_outcomes_shard"+fmt.Sprint(shard)] = float64(len(outcomes))
	if len(transient) > 0 {
		r.Extra["transient_recovered_panics_shard"+fmt.Sprint(shard)] = transient
	}
}

func judge(r *report.Run, d dev, run *hist.Run, blocks int) {
	if d.Gov != "" {
		d.MsgType, d.Field = "gov", d.Gov
	}
	if run.Panic != nil && run.PanicStage == "script" {
		fmt.Fprintf(os.Stderr, "harness error: script panicked under %s at height %d: %v\n", d, run.PanicAt, run.Panic)
		os.Exit(2)
	}
	if run.Panic != nil {
		p := fmt.Sprint(run.Panic)
		if len(p) > 300 {
			p = p[:300]
		}
		r.Violate("abort:"+d.MsgType+"."+d.Field, fmt.Sprintf("hostile %s=%s (%s) makes block processing panic at height %d: %s", d.Field, d.Value, d.Mode, run.PanicAt, p), d)
		return
	}
	if blocks < run.Script.Blocks() && !run.Stopped {
		r.Violate("abort-error:"+d.MsgType+"."+d.Field, fmt.Sprintf("hostile %s=%s: FinalizeBlock returned an error after %d blocks", d.Field, d.Value, blocks), d)
		return
	}
	hits := recoveredHits()
	if blocksWithRecovered >= 3 {
		r.Violate("recovered-panic-persistent:"+d.MsgType+"."+d.Field, fmt.Sprintf("hostile %s=%s: module code recovered a panic in %d different blocks (its end-block work is aborted again and again), first: %s", d.Field, d.Value, blocksWithRecovered, hits[0]), d)
	} else if len(hits) > 0 {
		transient = append(transient, fmt.Sprintf("%s.%s=%s: %s", d.MsgType, d.Field, d.Value, hits[0]))
	}
}

var transient []string

// clone deep-copies a message through its wire encoding (proto.Clone cannot merge math.Int / LegacyDec).
func clone(m sdk.Msg) sdk.Msg {
	bz, err := proto.Marshal(m)
	if err != nil {
		panic(err)
	}
	c := reflect.New(reflect.TypeOf(m).Elem()).Interface().(sdk.Msg)
	if err := proto.Unmarshal(bz, c); err != nil {
		panic(err)
	}
	return c
}

func countTypes(ls []leaf) int {
	m := map[string]bool{}
	for _, l := range ls {
		m[l.MsgType] = true
	}
	return len(m)
}

// ---------------------------------------------------------------------------
// reflection over message fields

var (
	intType  = reflect.TypeOf(sdkmath.Int{})
	decType  = reflect.TypeOf(sdkmath.LegacyDec{})
	anyType  = reflect.TypeOf(codectypes.Any{})
	coinType = reflect.TypeOf(sdk.Coin{})
)

func collect(v reflect.Value, msgType, path string, emit func(leaf)) {
	for v.Kind() == reflect.Ptr {
		if v.IsNil() {
			return
		}
		v = v.Elem()
	}
	t := v.Type()
	switch {
	case t == intType:
		emit(leaf{msgType, path, "Int"})
		return
	case t == decType:
		emit(leaf{msgType, path, "Dec"})
		return
	case t == anyType:
		emit(leaf{msgType, path, "Any"})
		// descend into the packed value (the script packs with NewAnyWithValue, so it is cached)
		if a, ok := v.Addr().Interface().(*codectypes.Any); ok && a.GetCachedValue() != nil {
			collect(reflect.ValueOf(a.GetCachedValue()), msgType, path+"/@"+strings.TrimPrefix(a.TypeUrl, "/"), emit)
		}
		return
	}
	switch v.Kind() {
	case reflect.Struct:
		for i := 0; i < t.NumField(); i++ {
			f := t.Field(i)
			if f.PkgPath != "" || strings.HasPrefix(f.Name, "XXX_") {
				continue
			}
			if f.Name == "Metadata" {
				continue // creator / signers: authorisation is C03's subject
			}
			p := f.Name
			if path != "" {
				p = path + "/" + f.Name
			}
			collect(v.Field(i), msgType, p, emit)
		}
	case reflect.Slice:
		if t.Elem().Kind() == reflect.Uint8 {
			emit(leaf{msgType, path, "bytes"})
			return
		}
		emit(leaf{msgType, path, "list"})
		if v.Len() > 0 {
			collect(v.Index(0), msgType, path+"/0", emit)
		}
	case reflect.String:
		emit(leaf{msgType, path, "string"})
	case reflect.Uint64, reflect.Uint32:
		emit(leaf{msgType, path, "uint"})
	case reflect.Int64, reflect.Int32:
		emit(leaf{msgType, path, "int"})
	case reflect.Bool:
		emit(leaf{msgType, path, "bool"})
	case reflect.Interface:
		if !v.IsNil() {
			collect(v.Elem(), msgType, path, emit)
		}
	}
}

func hostile(kind string, thorough bool) []string {
	switch kind {
	case "uint":
		if thorough {
			return []string{"0", "1", "2^63-1", "2^63", "2^64-1"}
		}
		return []string{"0", "2^63", "2^64-1"}
	case "int":
		return []string{"-1", "0", "min", "max"}
	case "string":
		if thorough {
			return []string{"empty", "x", "64KiB", "0xZZ", "-1", "1e30", "2^256-1", "1e-18", "sep", "0x00..00"}
		}
		return []string{"empty", "-1", "2^256-1", "sep", "64KiB"}
	case "bytes":
		return []string{"nil", "1byte", "64KiB"}
	case "Int":
		return []string{"-1", "0", "2^255", "2^256-1"}
	case "Dec":
		if thorough {
			return []string{"-1", "0", "1e30", "1e-18", "2^240", "-1e30"}
		}
		return []string{"-1", "1e30", "2^240"}
	case "list":
		return []string{"empty", "dup", "300x"}
	case "Any":
		return []string{"nil", "wrongtype", "garbage"}
	case "bool":
		return []string{"flip"}
	}
	return nil
}

func pow2(n uint) sdkmath.Int { return sdkmath.NewIntFromBigInt(new(bigInt).Lsh(bigOne, n)) }

// mutate sets the field at path to the hostile value; false when the path does not exist.
func mutate(v reflect.Value, path []string, val string) (ok bool) {
	defer func() {
		if recover() != nil {
			ok = false
		}
	}()
	for v.Kind() == reflect.Ptr || v.Kind() == reflect.Interface {
		if v.IsNil() {
			return false
		}
		v = v.Elem()
	}
	if len(path) > 0 && strings.HasPrefix(path[0], "@") {
		// inside an Any: mutate a copy of the packed value and re-pack (only for the recorded type)
		if v.Type() != anyType || !v.CanAddr() {
			return false
		}
		a := v.Addr().Interface().(*codectypes.Any)
		name := strings.TrimPrefix(a.TypeUrl, "/")
		if name != strings.TrimPrefix(path[0], "@") {
			return false
		}
		// decode the packed value from its wire form (a cloned message has no cached value)
		mt := proto.MessageType(name)
		if mt == nil {
			return false
		}
		c := reflect.New(mt.Elem()).Interface().(proto.Message)
		if proto.Unmarshal(a.Value, c) != nil {
			return false
		}
		if !mutate(reflect.ValueOf(c), path[1:], val) {
			return false
		}
		na, err := codectypes.NewAnyWithValue(c)
		if err != nil {
			return false
		}
		v.Set(reflect.ValueOf(*na))
		return true
	}
	if len(path) > 0 {
		if v.Kind() == reflect.Slice && path[0] == "0" {
			if v.Len() == 0 {
				return false
			}
			okAny := false
			for i := 0; i < v.Len(); i++ { // same hostile value in every element
				if mutate(v.Index(i), path[1:], val) {
					okAny = true
				}
			}
			return okAny
		}
		if v.Kind() != reflect.Struct {
			return false
		}
		f := v.FieldByName(path[0])
		if !f.IsValid() {
			return false
		}
		return mutate(f, path[1:], val)
	}
	if !v.CanSet() {
		return false
	}
	t := v.Type()
	switch {
	case t == intType:
		var x sdkmath.Int
		switch val {
		case "-1":
			x = sdkmath.NewInt(-1)
		case "0":
			x = sdkmath.ZeroInt()
		case "2^255":
			x = pow2(255)
		default:
			x = pow2(256).SubRaw(1)
		}
		v.Set(reflect.ValueOf(x))
		return true
	case t == decType:
		var x sdkmath.LegacyDec
		switch val {
		case "-1":
			x = sdkmath.LegacyNewDec(-1)
		case "0":
			x = sdkmath.LegacyZeroDec()
		case "1e30":
			x = sdkmath.LegacyNewDecFromInt(sdkmath.NewIntWithDecimal(1, 30))
		case "-1e30":
			x = sdkmath.LegacyNewDecFromInt(sdkmath.NewIntWithDecimal(1, 30)).Neg()
		case "1e-18":
			x = sdkmath.LegacySmallestDec()
		default:
			x = sdkmath.LegacyNewDecFromInt(pow2(240))
		}
		v.Set(reflect.ValueOf(x))
		return true
	case t == anyType:
		switch val {
		case "nil":
			v.Set(reflect.Zero(t))
		case "wrongtype":
			a, _ := codectypes.NewAnyWithValue(&sdk.Coin{Denom: "x", Amount: sdkmath.OneInt()})
			v.Set(reflect.ValueOf(*a))
		default:
			v.Set(reflect.ValueOf(codectypes.Any{TypeUrl: v.FieldByName("TypeUrl").String(), Value: []byte{0xff, 0xff, 0xff}}))
		}
		return true
	}
	switch v.Kind() {
	case reflect.Uint64, reflect.Uint32:
		var x uint64
		switch val {
		case "0":
			x = 0
		case "1":
			x = 1
		case "2^63-1":
			x = 1<<63 - 1
		case "2^63":
			x = 1 << 63
		default:
			x = ^uint64(0)
		}
		v.SetUint(x & (1<<uint(t.Bits()) - 1 | 1<<uint(t.Bits()-1)))
		if t.Bits() == 64 {
			v.SetUint(x)
		}
		return true
	case reflect.Int64, reflect.Int32:
		switch val {
		case "-1":
			v.SetInt(-1)
		case "0":
			v.SetInt(0)
		case "min":
			v.SetInt(-1 << (uint(t.Bits()) - 1))
		default:
			v.SetInt(1<<(uint(t.Bits())-1) - 1)
		}
		return true
	case reflect.String:
		m := map[string]string{"empty": "", "x": "x", "64KiB": strings.Repeat("A", 65536), "0xZZ": "0xZZ", "-1": "-1", "1e30": "1000000000000000000000000000000",
			"2^256-1": "115792089237316195423570985008687907853269984665640564039457584007913129639935", "1e-18": "0.000000000000000001", "sep": "a,b/c\x00d", "0x00..00": "0x0000000000000000000000000000000000000000"}
		v.SetString(m[val])
		return true
	case reflect.Bool:
		v.SetBool(!v.Bool())
		return true
	case reflect.Slice:
		if t.Elem().Kind() == reflect.Uint8 {
			if strings.HasPrefix(val, "rcpt:") {
				b, ok := receiptVariant(v.Bytes(), val)
				if !ok {
					return false
				}
				v.SetBytes(b)
				return true
			}
			switch val {
			case "nil":
				v.Set(reflect.Zero(t))
			case "1byte":
				v.SetBytes([]byte{0})
			default:
				v.SetBytes(make([]byte, 65536))
			}
			return true
		}
		switch val {
		case "empty":
			v.Set(reflect.MakeSlice(t, 0, 0))
		case "dup":
			// the list with its first element listed twice
			if v.Len() == 0 {
				return false
			}
			n := reflect.MakeSlice(t, v.Len()+1, v.Len()+1)
			n.Index(0).Set(v.Index(0))
			for i := 0; i < v.Len(); i++ {
				n.Index(i + 1).Set(v.Index(i))
			}
			v.Set(n)
		default:
			if v.Len() == 0 {
				return false
			}
			n := reflect.MakeSlice(t, 300, 300)
			for i := 0; i < 300; i++ {
				n.Index(i).Set(v.Index(0))
			}
			v.Set(n)
		}
		return true
	}
	return false
}

// receiptVariant re-encodes a well-formed receipt with one structural peculiarity.
func receiptVariant(raw []byte, val string) ([]byte, bool) {
	rc := new(ethtypes.Receipt)
	if err := rc.UnmarshalBinary(raw); err != nil {
		return nil, false
	}
	switch val {
	case "rcpt:anon-log-first":
		// an anonymous event (LOG0: no topics) emitted before the others
		rc.Logs = append([]*ethtypes.Log{{Address: ethcommon.HexToAddress("0x00000000000000000000000000000000000000ee"), Topics: []ethcommon.Hash{}, Data: []byte{1, 2, 3}}}, rc.Logs...)
	case "rcpt:no-logs":
		rc.Logs = nil
	case "rcpt:status-0":
		rc.Status = ethtypes.ReceiptStatusFailed
	case "rcpt:log-no-data":
		for _, l := range rc.Logs {
			l.Data = nil
		}
	}
	rc.Bloom = ethtypes.CreateBloom(ethtypes.Receipts{rc})
	out, err := rc.MarshalBinary()
	if err != nil {
		return nil, false
	}
	return out, true
}

var _ = sort.Strings
