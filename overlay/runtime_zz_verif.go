package runtime

// Added by /verif (C08): lets the harness own the two sources of map-order
// randomness of the Go runtime. With a nil hook the runtime behaves as usual.

// VerifMapIterHook supplies the random word of mapiterinit (start bucket and
// in-bucket offset of a range statement); count is the number of entries of
// the map being ranged over.
var VerifMapIterHook func(count int) uint64

// VerifMapSeedHook supplies the per-map hash seed.
var VerifMapSeedHook func() uint32

func verifMapIterRand(count int) uint64 {
	if h := VerifMapIterHook; h != nil {
		return h(count)
	}
	return rand()
}

func verifMapSeed() uint32 {
	if h := VerifMapSeedHook; h != nil {
		return h()
	}
	return uint32(rand())
}
