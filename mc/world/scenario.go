package world

import (
	"fmt"
	"math/big"
	"os"
	"path/filepath"

	sdkmath "cosmossdk.io/math"
	sdk "github.com/cosmos/cosmos-sdk/types"
	ethcrypto "github.com/ethereum/go-ethereum/crypto"
	evmtypes "github.com/palomachain/paloma/v2/x/evm/types"
	skywaytypes "github.com/palomachain/paloma/v2/x/skyway/types"
	tftypes "github.com/palomachain/paloma/v2/x/tokenfactory/types"
	treasurytypes "github.com/palomachain/paloma/v2/x/treasury/types"
	vtypes "github.com/palomachain/paloma/v2/x/valset/types"
)

// Meta builds paloma message metadata (creator + sole signer).
func Meta(a *Actor) vtypes.MsgMetadata {
	return vtypes.MsgMetadata{Creator: a.Addr.String(), Signers: []string{a.Addr.String()}}
}

// MetaFor builds metadata with creator c signed by s (fee-grant style).
func MetaFor(creator string, signer *Actor) vtypes.MsgMetadata {
	return vtypes.MsgMetadata{Creator: creator, Signers: []string{signer.Addr.String()}}
}

// CompassABI returns the repository's own compass ABI fixture.
func CompassABI() string {
	repo := os.Getenv("REPO_DIR")
	if repo == "" {
		repo = "/repo"
	}
	b, err := os.ReadFile(filepath.Join(repo, "x/evm/keeper/testdata/sample-abi.json"))
	if err != nil {
		panic(err)
	}
	return string(b)
}

const (
	CompassAddr = "0x5A3E98aA540B2C3545120Ff8CA5C3B6a5D7Cf1e5"
	CompassID   = "verif-compass-1"
)

// AddChain adds an EVM chain and activates it with a compass contract.
func (w *World) AddChain(ctx sdk.Context, ref string, chainID uint64, contractID uint64) error {
	k := w.App.EvmKeeper
	if err := k.AddSupportForNewChain(ctx, ref, chainID, 100, "0x"+fmt.Sprintf("%064x", chainID), big.NewInt(0)); err != nil {
		return err
	}
	return k.ActivateChainReferenceID(ctx, ref, &evmtypes.SmartContract{Id: contractID, AbiJSON: CompassABI(), Bytecode: []byte{0x60, 0x80}}, CompassAddr, []byte(CompassID))
}

// RegisterAccounts registers v's eth account on the given chains (keeper API,
// same call the AddExternalChainInfoForValidator handler makes).
func (w *World) RegisterAccounts(ctx sdk.Context, v *Val, traits []string, refs ...string) error {
	var infos []*vtypes.ExternalChainInfo
	for _, ref := range refs {
		infos = append(infos, &vtypes.ExternalChainInfo{
			ChainType:        "evm",
			ChainReferenceID: ref,
			Address:          v.EthAddr(),
			Pubkey:           ethcrypto.PubkeyToAddress(v.Eth.PublicKey).Bytes(),
			Traits:           traits,
		})
	}
	return w.App.ValsetKeeper.AddExternalChainInfo(ctx, v.ValAddr, infos)
}

// SetFee records a relayer fee multiplier for v on ref (keeper API).
func (w *World) SetFee(ctx sdk.Context, v *Val, ref string, mult string) error {
	return w.App.TreasuryKeeper.SetRelayerFee(ctx, v.ValAddr, &treasurytypes.RelayerFeeSetting{
		ValAddress: v.ValAddr.String(),
		Fees: []treasurytypes.RelayerFeeSetting_FeeSetting{{
			Multiplicator:    sdkmath.LegacyMustNewDecFromStr(mult),
			ChainReferenceId: ref,
		}},
	})
}

// Snapshot triggers a snapshot build (as valset's end-blocker does every 50 blocks).
func (w *World) Snapshot(ctx sdk.Context) (*vtypes.Snapshot, error) {
	return w.App.ValsetKeeper.TriggerSnapshotBuild(ctx)
}

// StdChain sets up the standard single-chain scenario: chain ref active with
// compass, every validator registered with fee 1.0, snapshot built.
func (w *World) StdChain(ctx sdk.Context, ref string) error {
	if err := w.AddChain(ctx, ref, 1, 1); err != nil {
		return fmt.Errorf("add chain: %w", err)
	}
	for _, v := range w.Vals {
		if err := w.RegisterAccounts(ctx, v, nil, ref); err != nil {
			return fmt.Errorf("register %s: %w", v.Name, err)
		}
		if err := w.SetFee(ctx, v, ref, "1.0"); err != nil {
			return fmt.Errorf("fee %s: %w", v.Name, err)
		}
	}
	s, err := w.Snapshot(ctx)
	if err != nil {
		return fmt.Errorf("snapshot: %w", err)
	}
	if s == nil {
		return fmt.Errorf("snapshot not worthy")
	}
	// the snapshot is live on the chain (as after an attested UpdateValset / first deployment)
	if err := w.App.ValsetKeeper.SetSnapshotOnChain(ctx, s.Id, ref); err != nil {
		return fmt.Errorf("snapshot on chain: %w", err)
	}
	if f, _ := w.App.TreasuryKeeper.GetFees(ctx); f == nil || f.CommunityFundFee == "" {
		if err := w.App.TreasuryKeeper.SetCommunityFundFee(ctx, "0.01"); err != nil {
			return err
		}
		if err := w.App.TreasuryKeeper.SetSecurityFee(ctx, "0.01"); err != nil {
			return err
		}
	}
	return nil
}

// BridgeToken creates factory/<admin>/<sub>, mints amount to each holder and
// maps it to erc20 on ref through the real messages.
func (w *World) BridgeToken(ctx sdk.Context, admin *Actor, sub, ref, erc20 string, mint int64, holders ...*Actor) (string, error) {
	denom := "factory/" + admin.Addr.String() + "/" + sub
	if r := w.DeliverTx(ctx, []*Actor{admin}, &tftypes.MsgCreateDenom{Subdenom: sub, Metadata: Meta(admin)}); !r.OK() {
		return "", fmt.Errorf("create denom: %w", r.Err)
	}
	if r := w.DeliverTx(ctx, []*Actor{admin}, &skywaytypes.MsgSetERC20ToTokenDenom{Denom: denom, ChainReferenceId: ref, Erc20: erc20, Metadata: Meta(admin)}); !r.OK() {
		return "", fmt.Errorf("map erc20: %w", r.Err)
	}
	for _, h := range holders {
		if r := w.DeliverTx(ctx, []*Actor{admin}, &tftypes.MsgMint{Amount: sdk.NewInt64Coin(denom, mint), Metadata: Meta(admin)}); !r.OK() {
			return "", fmt.Errorf("mint: %w", r.Err)
		}
		if h.Addr.Equals(admin.Addr) {
			continue
		}
		if err := w.App.BankKeeper.SendCoins(ctx, admin.Addr, h.Addr, sdk.NewCoins(sdk.NewInt64Coin(denom, mint))); err != nil {
			return "", err
		}
	}
	return denom, nil
}

// SkywayModuleAddr is the bridge escrow account.
func (w *World) SkywayModuleAddr() sdk.AccAddress {
	return w.App.AccountKeeper.GetModuleAddress(skywaytypes.ModuleName)
}
