// C11 — votes are pooled only for claims identical in every effect-bearing field.
//
// Exhaustive differential enumeration on the real application. The claim types
// are the implementers of skyway's EthereumClaim interface found in the
// application's interface registry; their fields are found by reflection. For
// every field (except the voter identity `Orchestrator` and the transaction
// `Metadata`) and every ordered pair of values of a small domain, two claims
// c1, c2 equal in every other field are each voted to quorum by the three
// validators through really signed transactions and tallied by the real
// skyway end-blocker, in two forks of the same base state. When acceptance or
// the resulting state differ, the attestation key (chain store prefix +
// GetAttestationKey(skyway nonce, ClaimHash)) of c1 and c2 must differ.
// There is no hand-written list of "fields that matter": the handlers decide.
package main

import (
	"bytes"
	"crypto/sha256"
	"encoding/binary"
	"encoding/hex"
	"encoding/json"
	"flag"
	"fmt"
	"math/big"
	"os"
	"reflect"
	"regexp"
	"sort"
	"strings"
	"time"

	sdkmath "cosmossdk.io/math"
	sdk "github.com/cosmos/cosmos-sdk/types"
	ethcommon "github.com/ethereum/go-ethereum/common"
	skywaytypes "github.com/palomachain/paloma/v2/x/skyway/types"
	"github.com/palomachain/paloma/v2/zzverif/report"
	"github.com/palomachain/paloma/v2/zzverif/world"
)

const (
	ref      = "eth-main"
	ref2     = "bnb-main"
	ghostRef = "ghost-chain"
	ifaceURL = "palomachain.paloma.skyway.EthereumClaim"

	erc1  = "0xaaaa111111111111111111111111111111111111"
	erc2  = "0x2222222222222222222222222222222222222222"
	erc3  = "0x3333333333333333333333333333333333333333"
	sale1 = "0xAbCdEF0000000000000000000000000000000001"
	sale2 = "0xAbCdEF0000000000000000000000000000000002"
)

// two ids of more than 32 bytes that share their first 32 bytes
var (
	longA = ref + strings.Repeat("x", 24) + "a"
	longB = ref + strings.Repeat("x", 24) + "b"
)

var (
	claimIface = reflect.TypeOf((*skywaytypes.EthereumClaim)(nil)).Elem()
	intType    = reflect.TypeOf(sdkmath.Int{})
)

// ---------------------------------------------------------------------------
// claim types by reflection

type fieldT struct {
	Name    string
	Idx     int
	Dom     []interface{} // Dom[0] is the default value
	Generic bool          // domain chosen by kind only (field name unknown to this check)
}

type claimT struct {
	URL    string
	Name   string
	Typ    reflect.Type // struct type
	Fields []fieldT
	byName map[string]*fieldT
}

type env struct {
	voters  []*world.Val // the validators that vote in the pair stages (quorum); the last validator is kept as a late voter for the sequence pass
	w       *world.World
	r       *report.Run
	types   []*claimT
	bases   []baseT
	named   map[string][]interface{}
	denoms  []string
	effects map[string]int // type.field -> number of effect-bearing pairs
	frees   map[string]int // type.field -> number of effect-free pairs
	nohash  map[string]int // type.field -> number of pairs with equal attestation key
	unsub   map[string]int // equal key, different outcome, but one claim can not be voted for at all
}

type baseT struct {
	Name string
	Ctx  sdk.Context
}

func must(err error) {
	if err != nil {
		panic(err)
	}
}

func main() {
	replay := flag.String("replay", "", "replay file")
	flag.Parse()
	n := report.Workers()
	if n > 8 {
		n = 8
	}
	if *replay != "" {
		n = 1
	}
	report.Main("C11", "exploration", n, func(r *report.Run, shard, nshards int) { run(r, shard, nshards, *replay) })
}

func swapCase(s string) string {
	b := []byte(s)
	for i := 2; i < len(b); i++ {
		switch {
		case b[i] >= 'a' && b[i] <= 'f':
			b[i] -= 32
		case b[i] >= 'A' && b[i] <= 'F':
			b[i] += 32
		}
	}
	return string(b)
}

var hexAddr = regexp.MustCompile(`^0x[0-9a-fA-F]{40}$`)

// mixedCase toggles the case of the first letter only (for a bech32 address
// this gives a mixed-case, i.e. undecodable, spelling).
func mixedCase(v string) string {
	b := []byte(v)
	start := 0
	if hexAddr.MatchString(v) {
		start = 2
	}
	for i := start; i < len(b); i++ {
		switch {
		case b[i] >= 'a' && b[i] <= 'z':
			b[i] -= 32
			return string(b)
		case b[i] >= 'A' && b[i] <= 'Z':
			b[i] += 32
			return string(b)
		}
	}
	return v
}

// caseVariants: other spellings of a valid value that differ in letter case
// only. Whether they mean the same to the handlers is for the oracle to decide.
func caseVariants(v string) []string {
	if hexAddr.MatchString(v) {
		return []string{"0x" + strings.ToLower(v[2:]), "0x" + strings.ToUpper(v[2:]), ethcommon.HexToAddress(v).Hex(), mixedCase(v)}
	}
	return []string{strings.ToUpper(v), strings.ToLower(v), mixedCase(v)}
}

// intVariants: -N, 0, 2^256-1 (the largest value of a 32-byte word and of
// math.Int), -(2^256-1), and 2^256 when math.Int can represent it.
func intVariants(n sdkmath.Int) []interface{} {
	out := []interface{}{n.Neg(), sdkmath.ZeroInt()}
	max := new(big.Int).Sub(new(big.Int).Lsh(big.NewInt(1), 256), big.NewInt(1))
	func() {
		defer func() { _ = recover() }()
		m := sdkmath.NewIntFromBigInt(max)
		out = append(out, m, m.Neg())
	}()
	func() {
		defer func() { _ = recover() }()
		out = append(out, sdkmath.NewIntFromBigInt(new(big.Int).Lsh(big.NewInt(1), 256)))
	}()
	return out
}

func (e *env) discover() {
	reg := e.w.App.InterfaceRegistry()
	urls := reg.ListImplementations(ifaceURL)
	sort.Strings(urls)
	for _, u := range urls {
		m, err := reg.Resolve(u)
		must(err)
		pt := reflect.TypeOf(m)
		if pt.Kind() != reflect.Ptr || pt.Elem().Kind() != reflect.Struct || !pt.Implements(claimIface) {
			e.r.Cap(fmt.Sprintf("registered implementation %s is not a pointer-to-struct EthereumClaim", u))
			continue
		}
		ct := &claimT{URL: u, Typ: pt.Elem(), Name: pt.Elem().Name(), byName: map[string]*fieldT{}}
		for i := 0; i < ct.Typ.NumField(); i++ {
			f := ct.Typ.Field(i)
			if f.PkgPath != "" || strings.HasPrefix(f.Name, "XXX_") || f.Name == "Orchestrator" || f.Name == "Metadata" {
				continue
			}
			ft := fieldT{Name: f.Name, Idx: i}
			if d, ok := e.named[f.Name]; ok && reflect.TypeOf(d[0]) == f.Type {
				ft.Dom = d
			} else {
				ft.Generic = true
				switch {
				case f.Type.Kind() == reflect.Uint64:
					ft.Dom = []interface{}{uint64(1), uint64(2), uint64(3)}
				case f.Type.Kind() == reflect.String:
					ft.Dom = []interface{}{"a", "b", "a/b", "c"}
				case f.Type == intType:
					ft.Dom = []interface{}{sdkmath.NewInt(1), sdkmath.NewInt(2), sdkmath.NewInt(3)}
				case f.Type.Kind() == reflect.Bool:
					ft.Dom = []interface{}{false, true}
				default:
					e.r.Cap(fmt.Sprintf("field %s.%s of type %s has no value domain; not enumerated", ct.Name, f.Name, f.Type))
					continue
				}
			}
			if v, ok := ft.Dom[0].(sdkmath.Int); ok {
				// sign / width variants of a signed arbitrary-size integer
				ft.Dom = dedupe(append(append([]interface{}{}, ft.Dom...), intVariants(v)...))
			}
			if v, ok := ft.Dom[0].(string); ok {
				dom := append([]interface{}{}, ft.Dom...)
			variants:
				for _, cv := range caseVariants(v) {
					for _, have := range dom {
						if have.(string) == cv {
							continue variants
						}
					}
					dom = append(dom, cv)
				}
				ft.Dom = dom
			}
			ct.Fields = append(ct.Fields, ft)
		}
		for i := range ct.Fields {
			ct.byName[ct.Fields[i].Name] = &ct.Fields[i]
		}
		e.types = append(e.types, ct)
	}
}

// build makes validator v's vote for the claim of type t with the default
// value in every field except those in ov.
func (e *env) build(t *claimT, ov map[string]interface{}, v *world.Val) sdk.Msg {
	p := reflect.New(t.Typ)
	s := p.Elem()
	for _, f := range t.Fields {
		val := f.Dom[0]
		if o, ok := ov[f.Name]; ok {
			val = o
		}
		s.Field(f.Idx).Set(reflect.ValueOf(val))
	}
	if f := s.FieldByName("Orchestrator"); f.IsValid() {
		f.SetString(v.Addr.String())
	}
	if f := s.FieldByName("Metadata"); f.IsValid() {
		f.Set(reflect.ValueOf(world.Meta(v.Actor)))
	}
	return p.Interface().(sdk.Msg)
}

// chainPrefix is the prefix the keeper's per-chain store really puts in front
// of a key for the given chain reference id. It is not assumed: it is probed
// by writing a marker through keeper.GetStore on a fork and reading the raw
// skyway store back (memoised per id).
var chainPrefix func(chain string) []byte

func (e *env) probePrefix() func(string) []byte {
	memo := map[string][]byte{}
	marker := []byte("\xfeverif-c11-prefix-probe\xfe")
	return func(chain string) []byte {
		if p, ok := memo[chain]; ok {
			return p
		}
		ctx := world.Fork(e.w.Root)
		e.w.App.SkywayKeeper.GetStore(ctx, chain).Set(marker, []byte{1})
		var found [][]byte
		it := ctx.KVStore(e.w.App.GetKey(skywaytypes.StoreKey)).Iterator(nil, nil)
		for ; it.Valid(); it.Next() {
			if bytes.HasSuffix(it.Key(), marker) {
				found = append(found, append([]byte{}, it.Key()[:len(it.Key())-len(marker)]...))
			}
		}
		it.Close()
		if len(found) != 1 {
			panic(fmt.Sprintf("harness: probing the store prefix of chain %q found %d marker keys", chain, len(found)))
		}
		memo[chain] = found[0]
		return found[0]
	}
}

// attKey is the full store key under which votes for the claim are pooled:
// the (probed) prefix of keeper.GetStore(chain) followed by
// types.GetAttestationKey(claim.GetSkywayNonce(), ClaimHash())
// (x/skyway/keeper/attestation.go Attest / SetAttestation). It is cross-checked
// against the record the handler writes in every quorum run.
func attKey(m sdk.Msg) []byte {
	c := m.(skywaytypes.EthereumClaim)
	h, ok := safeHash(c)
	if !ok {
		// ClaimHash failed / panicked for this claim: it has no key of its own
		unhashable++
		b, _ := json.Marshal(m)
		return append([]byte("unhashable:"), b...)
	}
	return append(append([]byte{}, chainPrefix(c.GetChainReferenceId())...), skywaytypes.GetAttestationKey(c.GetSkywayNonce(), h)...)
}

var unhashable int

// safeHash calls ClaimHash and turns an error or a panic into ok == false.
func safeHash(c skywaytypes.EthereumClaim) (h []byte, ok bool) {
	defer func() {
		if r := recover(); r != nil {
			h, ok = nil, false
		}
	}()
	h, err := c.ClaimHash()
	return h, err == nil
}

// ---------------------------------------------------------------------------
// outcome of running a claim to quorum

type outcome struct {
	Votes  []string // per validator: ok | failing stage
	Digest string
	Stores map[string]string
	// Key is the full store key of the attestation record the first accepted vote
	// really created (observed); the computed key when no record was created.
	// Not part of the outcome comparison.
	Key string
}

var plainStores = []string{"bank", "acc", "feegrant", "paloma-store", "distribution"}

func differing(a, b outcome) []string {
	var out []string
	for k, v := range a.Stores {
		if b.Stores[k] != v {
			out = append(out, k)
		}
	}
	sort.Strings(out)
	return out
}

// submittable: at least one validator's vote for the claim was accepted.
func (o outcome) submittable() bool {
	for _, v := range o.Votes {
		if v == "ok" {
			return true
		}
	}
	return false
}

func (o outcome) String() string { return strings.Join(o.Votes, ",") + "|" + o.Digest }

func isAttestationRecord(key []byte) bool {
	return bytes.Contains(key, skywaytypes.OracleAttestationKey)
}

func (e *env) digest(ctx sdk.Context) (string, map[string]string) {
	w := e.w
	h := sha256.New()
	it := ctx.KVStore(w.App.GetKey(skywaytypes.StoreKey)).Iterator(nil, nil)
	for ; it.Valid(); it.Next() {
		if isAttestationRecord(it.Key()) {
			continue
		}
		var l [8]byte
		binary.BigEndian.PutUint32(l[:4], uint32(len(it.Key())))
		binary.BigEndian.PutUint32(l[4:], uint32(len(it.Value())))
		h.Write(l[:])
		h.Write(it.Key())
		h.Write(it.Value())
	}
	it.Close()
	st := map[string]string{"skyway (without attestation records)": hex.EncodeToString(h.Sum(nil)[:8])}
	for _, s := range plainStores {
		st[s] = w.StoreDigest(ctx, s)
	}
	return st["skyway (without attestation records)"] + ":" + w.StoreDigest(ctx, plainStores...), st
}

// records returns the attestation records of the skyway store by full store key.
func (e *env) records(ctx sdk.Context) map[string]skywaytypes.Attestation {
	out := map[string]skywaytypes.Attestation{}
	it := ctx.KVStore(e.w.App.GetKey(skywaytypes.StoreKey)).Iterator(nil, nil)
	defer it.Close()
	for ; it.Valid(); it.Next() {
		if isAttestationRecord(it.Key()) {
			var a skywaytypes.Attestation
			if err := e.w.App.AppCodec().Unmarshal(it.Value(), &a); err == nil {
				out[string(it.Key())] = a
			}
		}
	}
	return out
}

// checkStoredBodies: every attestation record must be stored under the key of
// the claim body it stores (recomputed from the persisted bytes). Otherwise the
// claim that will be executed is not the claim the votes were looked up by.
func (e *env) checkStoredBodies(recs map[string]skywaytypes.Attestation, during string) {
	var keys []string
	for k := range recs {
		keys = append(keys, k)
	}
	sort.Strings(keys)
	for _, k := range keys {
		a := recs[k]
		claim, err := e.w.App.SkywayKeeper.UnpackAttestationClaim(&a)
		if err != nil {
			continue
		}
		m, ok := claim.(sdk.Msg)
		if !ok {
			continue
		}
		if own := attKey(m); string(own) != k {
			name := reflect.TypeOf(claim).Elem().Name()
			b, _ := json.Marshal(claim)
			e.r.Violate("record:stored-claim-hashes-to-other-key:"+name, fmt.Sprintf("after a vote for a %s: the attestation record under store key %x (votes %v) stores the claim body %s, whose own attestation key is %x: votes are pooled under a key that is not the key of the claim that will be executed", during, k, a.Votes, b, own), map[string]interface{}{"case": "layout"})
		}
	}
}

func (e *env) attestations(ctx sdk.Context) (n int, votes []int) {
	it := ctx.KVStore(e.w.App.GetKey(skywaytypes.StoreKey)).Iterator(nil, nil)
	defer it.Close()
	for ; it.Valid(); it.Next() {
		if isAttestationRecord(it.Key()) {
			var a skywaytypes.Attestation
			if err := e.w.App.AppCodec().Unmarshal(it.Value(), &a); err == nil {
				n++
				votes = append(votes, len(a.Votes))
			}
		}
	}
	return
}

func stage(res world.TxResult) string {
	if res.OK() {
		return "ok"
	}
	return "rejected@" + res.Stage
}

// quorum: every validator votes for the claim (ov over defaults), then the
// skyway end-blocker tallies. bodies[i] overrides the claim of validator i.
// body is the claim one validator votes for.
type body struct {
	T  *claimT
	Ov map[string]interface{}
}

func (e *env) quorum(base sdk.Context, bodies []body) (outcome, sdk.Context, []string) {
	ctx := world.Fork(base)
	var o outcome
	var errs []string
	for i, v := range e.voters {
		msg := e.build(bodies[i].T, bodies[i].Ov, v)
		// computed before delivery: a handler may modify the message object
		want := string(attKey(msg))
		if i == 0 {
			o.Key = want
		}
		before := e.records(ctx)
		res := e.w.DeliverTx(ctx, []*world.Actor{v.Actor}, msg)
		o.Votes = append(o.Votes, stage(res))
		if res.Err != nil {
			errs = append(errs, res.Err.Error())
		}
		if res.Stage == "build" {
			panic(fmt.Sprintf("harness: vote tx %s: %v", res.Stage, res.Err))
		}
		// cross-check of the computed key against the full store key (chain
		// prefix included) of the record the handler really wrote. A mismatch is
		// reported as a verdict, not as a harness crash: the check's notion of
		// "pooled" would be blind otherwise.
		if res.OK() {
			after := e.records(ctx)
			e.checkStoredBodies(after, bodies[i].T.Name)
			if i == 0 && len(after) == len(before)+1 {
				var got string
				for k := range after {
					if _, old := before[k]; !old {
						got = k
					}
				}
				o.Key = got
				if got != want {
					e.r.Violate("oracle:attestation-key-layout", fmt.Sprintf("%s: the first vote created the attestation record under store key %x, the check computes %x (probed chain store prefix + GetAttestationKey(skyway nonce, ClaimHash)): votes are not pooled by (chain, nonce, claim hash) as the property assumes", bodies[i].T.Name, got, want), map[string]interface{}{"case": "layout"})
				}
			}
		}
	}
	e.w.SkywayEnd(ctx, nil)
	o.Digest, o.Stores = e.digest(ctx)
	return o, ctx, errs
}

func same(t *claimT, ov map[string]interface{}, n int) []body {
	out := make([]body, n)
	for i := range out {
		out[i] = body{t, ov}
	}
	return out
}

// ---------------------------------------------------------------------------
// base states

func (e *env) setup() {
	w := e.w
	root := w.Root
	must(w.AddChain(root, ref, 1, 1))
	must(w.AddChain(root, ref2, 56, 2))
	for _, v := range w.Vals {
		must(w.RegisterAccounts(root, v, nil, ref, ref2))
		must(w.SetFee(root, v, ref, "1.0"))
	}
	s, err := w.Snapshot(root)
	must(err)
	if s == nil {
		panic("snapshot not worthy")
	}
	if got := w.App.SkywayKeeper.GetLatestCompassID(root, ref); got != world.CompassID {
		panic(fmt.Sprintf("harness: latest compass id of %s is %q, expected %q", ref, got, world.CompassID))
	}
	root = world.At(root, 151, root.BlockTime())

	withToken := func(ctx sdk.Context) {
		for i, erc := range []string{erc1, erc2} {
			d, err := w.BridgeToken(ctx, w.User("adm"), fmt.Sprintf("t%d", i+1), ref, erc, 1000, w.User("U1"))
			must(err)
			if len(e.denoms) < 2 {
				e.denoms = append(e.denoms, d)
			}
		}
	}
	withBatch := func(ctx sdk.Context) sdk.Context {
		for _, d := range e.denoms {
			res := w.DeliverTx(ctx, []*world.Actor{w.User("U1")}, &skywaytypes.MsgSendToRemote{
				EthDest: "0x00000000000000000000000000000000000000aa", Amount: sdk.NewInt64Coin(d, 10), ChainReferenceId: ref, Metadata: world.Meta(w.User("U1"))})
			must(res.Err)
		}
		c := world.At(ctx, 200, ctx.BlockTime().Add(time.Second))
		w.SkywayEnd(c, nil)
		bs, err := w.App.SkywayKeeper.GetOutgoingTxBatches(c)
		must(err)
		if len(bs) != 2 {
			panic(fmt.Sprintf("harness: expected 2 open batches, have %d", len(bs)))
		}
		// default BatchNonce = the open batch of the default token contract
		for _, b := range bs {
			if strings.EqualFold(b.TokenContract.GetAddress().Hex(), erc1) {
				other := uint64(3) - b.BatchNonce
				e.named["BatchNonce"] = []interface{}{b.BatchNonce, other, uint64(3)}
			}
		}
		return world.At(c, 201, c.BlockTime().Add(time.Second))
	}
	withSale := func(ctx sdk.Context) {
		must(w.App.SkywayKeeper.SetAllLighNodeSaleContracts(ctx, []*skywaytypes.LightNodeSaleContract{{ChainReferenceId: ref, ContractAddress: sale1}}))
		must(w.App.PalomaKeeper.SetLightNodeClientFunders(ctx, []sdk.AccAddress{w.User("funder").Addr}))
		must(w.App.PalomaKeeper.SetLightNodeClientFeegranter(ctx, w.User("granter").Addr))
	}
	for _, b := range []struct{ tok, batch, sale bool }{
		{false, false, false}, {true, false, false}, {true, true, false},
		{false, false, true}, {true, false, true}, {true, true, true},
	} {
		ctx := world.Fork(root)
		name := []string{}
		if b.tok {
			withToken(ctx)
			name = append(name, "token")
		}
		if b.batch {
			ctx = withBatch(ctx)
			name = append(name, "batch")
		}
		if b.sale {
			withSale(ctx)
			name = append(name, "sale")
		}
		if len(name) == 0 {
			name = []string{"bare"}
		}
		e.bases = append(e.bases, baseT{Name: strings.Join(name, "+"), Ctx: ctx})
	}
}

func (e *env) domains() {
	w := e.w
	u := func(vs ...uint64) []interface{} {
		var out []interface{}
		for _, v := range vs {
			out = append(out, v)
		}
		return out
	}
	s := func(vs ...string) []interface{} {
		var out []interface{}
		for _, v := range vs {
			out = append(out, v)
		}
		return out
	}
	huge, _ := sdkmath.NewIntFromString("10000000000000")
	e.named = map[string][]interface{}{
		"EventNonce":     u(1, 2, 3),
		"SkywayNonce":    u(1, 2, 3),
		"EthBlockHeight": u(1, 2, 3, 4_000_000_000), // the last one lies after every batch timeout
		"BatchNonce":     u(1, 2, 3),
		"TokenContract":  s(erc1, erc2, erc3, swapCase(erc1)),
		"Amount":         {sdkmath.NewInt(7), sdkmath.NewInt(8), sdkmath.NewInt(100), huge},
		"EthereumSender": s("0x00000000000000000000000000000000000000bb", "0x00000000000000000000000000000000000000cc", "0x00000000000000000000000000000000000000dd"),
		"PalomaReceiver": s(w.User("U1").Addr.String(), w.User("U2").Addr.String(), "garbage", "a/b"),
		// spellings that a fixed-width / padded / truncated store prefix would merge
		"ChainReferenceId":     s(ref, ref2, ghostRef, ref+"\x00", ref+"\x00\x00\x00", longA, longB),
		"CompassId":            s(world.CompassID, "other-compass", "a/b", ""),
		"ClientAddress":        s(w.User("fresh1").Addr.String(), w.User("fresh2").Addr.String(), w.User("U1").Addr.String(), "a/b"),
		"SmartContractAddress": s(sale1, sale2, swapCase(sale1), "a/b"),
	}
}

// ---------------------------------------------------------------------------

type caseT struct {
	ID     string
	Base   int
	T      *claimT
	T2     *claimT // type of c2 when it differs from that of c1 (cross-type collision)
	Sig    string
	Fields string
	C1, C2 map[string]interface{}
	// display of the two claims (default: all overridden fields)
	Show1, Show2 string
}

func show(v interface{}) string {
	switch x := v.(type) {
	case string:
		return fmt.Sprintf("%q", x)
	case sdkmath.Int:
		return x.String()
	}
	return fmt.Sprint(v)
}

func showOv(ov map[string]interface{}) string {
	var ks []string
	for k := range ov {
		ks = append(ks, k)
	}
	sort.Strings(ks)
	var out []string
	for _, k := range ks {
		out = append(out, k+"="+show(ov[k]))
	}
	return strings.Join(out, " ")
}

func (e *env) cases(thorough bool) []caseT {
	var out []caseT
	for bi := range e.bases {
		for _, t := range e.types {
			for _, f := range t.Fields {
				for i, x := range f.Dom {
					for j, y := range f.Dom {
						if i == j {
							continue
						}
						out = append(out, caseT{
							ID: fmt.Sprintf("%s|%s|%s|%d>%d", e.bases[bi].Name, t.Name, f.Name, i, j), Base: bi, T: t,
							Sig: t.Name + "." + f.Name, Fields: f.Name,
							C1: map[string]interface{}{f.Name: x}, C2: map[string]interface{}{f.Name: y},
						})
					}
				}
			}
			if !thorough {
				continue
			}
			// separator shift: every ordered pair (A,B) of string fields, and every
			// triple (A, M, B) with a numeric field M between them. Whether the
			// fields are adjacent in the hash path is not assumed: non-adjacent
			// ones simply produce different keys.
			for _, a := range t.Fields {
				if reflect.TypeOf(a.Dom[0]).Kind() != reflect.String {
					continue
				}
				for _, b := range t.Fields {
					if b.Name == a.Name || reflect.TypeOf(b.Dom[0]).Kind() != reflect.String {
						continue
					}
					da, db := a.Dom[0].(string), b.Dom[0].(string)
					out = append(out, caseT{
						ID: fmt.Sprintf("%s|%s|sepshift|%s/%s", e.bases[bi].Name, t.Name, a.Name, b.Name), Base: bi, T: t,
						Sig: "sepshift:" + t.Name + "." + a.Name + "/" + b.Name, Fields: a.Name + "/" + b.Name,
						C1: map[string]interface{}{a.Name: da + "/y", b.Name: db},
						C2: map[string]interface{}{a.Name: da, b.Name: "y/" + db},
					})
					for _, m := range t.Fields {
						var v5, v7 interface{}
						switch m.Dom[0].(type) {
						case uint64:
							v5, v7 = uint64(5), uint64(7)
						case sdkmath.Int:
							v5, v7 = sdkmath.NewInt(5), sdkmath.NewInt(7)
						default:
							continue
						}
						out = append(out, caseT{
							ID: fmt.Sprintf("%s|%s|sepshift|%s/%s/%s", e.bases[bi].Name, t.Name, a.Name, m.Name, b.Name), Base: bi, T: t,
							Sig: "sepshift:" + t.Name + "." + a.Name + "/" + m.Name + "/" + b.Name, Fields: a.Name + "/" + m.Name + "/" + b.Name,
							C1: map[string]interface{}{a.Name: da + "/5", m.Name: v7, b.Name: db},
							C2: map[string]interface{}{a.Name: da, m.Name: v5, b.Name: "7/" + db},
						})
					}
				}
			}
		}
	}
	return out
}

func (e *env) runCase(c caseT) {
	r := e.r
	base := e.bases[c.Base]
	n := len(e.voters)
	if c.T2 == nil {
		c.T2 = c.T
	}
	o1, _, err1 := e.quorum(base.Ctx, same(c.T, c.C1, n))
	o2, _, err2 := e.quorum(base.Ctx, same(c.T2, c.C2, n))
	m1, m2 := e.build(c.T, c.C1, e.w.Vals[0]), e.build(c.T2, c.C2, e.w.Vals[0])
	if c.Show1 == "" {
		c.Show1, c.Show2 = showOv(c.C1), showOv(c.C2)
	}
	// keys as observed on the records the handlers wrote (computed where no record was written)
	k1, k2 := []byte(o1.Key), []byte(o2.Key)
	differs := o1.String() != o2.String()
	pooled := bytes.Equal(k1, k2)
	key := ""
	if differs {
		key = c.ID
		e.effects[c.Sig]++
	} else {
		e.frees[c.Sig]++
	}
	if pooled {
		e.nohash[c.Sig]++
	}
	r.Case(key)
	if differs && len(r.Samples) < 4 && c.Base > 0 {
		r.Sample(map[string]interface{}{"case": c.ID, "c1": c.Show1, "c2": c.Show2, "outcome1": o1.String(), "outcome2": o2.String(), "keys_differ": !pooled})
	}
	if differs && pooled && !(o1.submittable() && o2.submittable()) {
		// one of the two claims is refused before it reaches Attest (stateless
		// validation, ante, or the message handler): no vote for it exists that
		// could be pooled with votes for the other one.
		e.unsub[c.Sig]++
		return
	}
	if !(differs && pooled) {
		return
	}
	// confirmation on the real handlers: the first validator submits the body
	// c2, the others vote for c1.
	bodies := same(c.T, c.C1, n)
	bodies[0] = body{c.T2, c.C2}
	om, mctx, errm := e.quorum(base.Ctx, bodies)
	recs, votes := e.attestations(mctx)
	recs0, _ := e.attestations(base.Ctx)
	var what string
	switch om.String() {
	case o2.String():
		what = "the result equals that of a unanimous vote for c2 although only the first validator submitted c2"
	case o1.String():
		what = "the result equals that of a unanimous vote for c1"
	default:
		what = "the result equals neither unanimous run"
	}
	j1, _ := json.Marshal(m1)
	j2, _ := json.Marshal(m2)
	tn, rest := c.T.Name, "all other fields equal"
	if c.T2 != c.T {
		tn, rest = c.T.Name+" c1 / "+c.T2.Name+" c2", "fields not shown have the default (valid) value of their type; full claims in the replay file"
	}
	msg := fmt.Sprintf("base state %q, %s: c1 {%s} and c2 {%s} (%s) have the same attestation key %x but different effect:\n"+
		"unanimous c1: votes %v state %s %v\nunanimous c2: votes %v state %s %v\nstores that differ: %v\n"+
		"mixed run (v0 submits c2 first, the other voters vote c1): votes %v, %d new attestation record(s) with %v votes, state %s %v: %s",
		base.Name, tn, c.Show1, c.Show2, rest, k1,
		o1.Votes, o1.Digest, brief(err1), o2.Votes, o2.Digest, brief(err2), differing(o1, o2),
		om.Votes, recs-recs0, votes, om.Digest, brief(errm), what)
	r.Violate(c.Sig, msg, map[string]interface{}{"case": c.ID, "base": base.Name, "type": c.T.URL, "type2": c.T2.URL, "c1": json.RawMessage(j1), "c2": json.RawMessage(j2)})
}

func brief(errs []string) string {
	if len(errs) == 0 {
		return ""
	}
	s := errs[0]
	if len(s) > 160 {
		s = s[:160]
	}
	return "(" + s + ")"
}

// nonVacuous checks that the default claim of every known type really has its
// effect in the base state built for it.
func (e *env) nonVacuous() {
	w := e.w
	n := len(e.voters)
	full := e.bases[len(e.bases)-1]
	eff := map[string]interface{}{}
	unroutable := []string{}
	defer func() { e.r.Extra["claim_types_without_msg_route"] = unroutable }()
	for _, t := range e.types {
		_, ctx, errs := e.quorum(full.Ctx, same(t, nil, n))
		var ok bool
		var what string
		switch t.Name {
		case "MsgSendToPalomaClaim":
			d := w.Balance(ctx, w.User("U1").Addr, e.denoms[0]).Int64() - w.Balance(full.Ctx, w.User("U1").Addr, e.denoms[0]).Int64()
			ok, what = d == 7, fmt.Sprintf("receiver balance +%d", d)
		case "MsgBatchSendToRemoteClaim":
			d := w.Supply(full.Ctx, e.denoms[0]).Int64() - w.Supply(ctx, e.denoms[0]).Int64()
			ok, what = d == 10, fmt.Sprintf("supply -%d", d)
		case "MsgLightNodeSaleClaim":
			l, err := w.App.PalomaKeeper.GetLightNodeClientLicense(ctx, w.User("fresh1").Addr.String())
			ok, what = err == nil && l != nil, fmt.Sprintf("licence %v", l)
		default:
			if w.App.MsgServiceRouter().Handler(e.build(t, nil, w.Vals[0])) == nil {
				// registered implementer without a message route (legacy type): it
				// cannot be submitted; its pairs are still enumerated (all rejected)
				unroutable = append(unroutable, t.Name)
				continue
			}
			e.r.Cap("claim type " + t.Name + " is unknown to the check: no base state is known to make its default claim effective (fields enumerated with generic domains)")
			continue
		}
		if !ok {
			panic(fmt.Sprintf("harness: default %s has no effect in base %s: %s %v", t.Name, full.Name, what, errs))
		}
		eff[t.Name] = what
	}
	e.r.Extra["default_claim_effect"] = eff
}

func run(r *report.Run, shard, nshards int, replayFile string) {
	w := world.New(world.Config{Stakes: world.StakesOf(1_000_000, 1_000_000, 1_000_000, 1_000_000, 1_000_000),
		Users: []string{"adm", "U1", "U2", "funder", "granter"}, Unfunded: []string{"fresh1", "fresh2"}, Height: 101})
	e := &env{w: w, r: r, effects: map[string]int{}, frees: map[string]int{}, nohash: map[string]int{}, unsub: map[string]int{}}
	e.voters = w.Vals[:4]
	chainPrefix = e.probePrefix()
	e.domains()
	e.setup()
	e.discover()
	r.Rule = "for every EthereumClaim implementer in the interface registry, every exported field found by reflection except Orchestrator/Metadata, every ordered pair of distinct values of the field's domain (3-4 values, plus for strings the upper / lower / mixed-case and for hex addresses the lower / upper / EIP-55 spellings of the valid value), every base state (token registered, batches open, light-node sale configured: 6 combinations): c1 and c2 are voted to quorum by 4 of 5 equal validators (signed txs through ante + router) and tallied by skyway.EndBlocker in two forks; if votes accepted or resulting state differ the attestation store keys must differ; a case is non-trivial when the outcomes differ. Collision search: per claim type the attestation keys of the full product of a token alphabet over all fields simultaneously are computed (no execution) and grouped; members of every group of >= 2 distinct tuples go through the same differential oracle"
	r.Assumptions = []string{
		"outcome = (per-vote accepted / rejected stage, digest of skyway store without the attestation records, bank, acc, feegrant, paloma-store, distribution stores); error texts are not compared",
		"attestation key = store prefix of the chain id (probed through keeper.GetStore, not assumed) + GetAttestationKey(GetSkywayNonce(), ClaimHash()) as in keeper.Attest; cross-checked on every run against the full store key of the record the handler wrote (mismatch = verdict oracle:attestation-key-layout)",
		"weaker reading chosen: a pair counts only when each of the two claims has at least one vote accepted when voted on its own (a claim that stateless validation / ante / the handler refuses outright has no votes that could be pooled)",
		"a field for which no pair changes the outcome in any base state may be absent from the hash (EventNonce is never read by the module; SkywayNonce is the nonce used)",
		"value domains are keyed by field name (valid values incl. strings containing '/'); unknown fields get a generic domain by kind; a field of an unsupported kind or an unknown claim type makes the run non-exhaustive",
		"collision search alphabet: free-form string fields (those whose ValidateBasic accepts a '/') take {valid, 2nd valid, \"\", a/b, .., ../valid, ./valid, valid/.., %2F, a%2Fb, mixed-case valid} (thorough: 16 tokens), other strings and numeric fields 2 values (thorough: strings 3); fields to which the key does not react on single-field variation (EventNonce) are held at their default, their omission is judged by the single-field stage",
		"cross-type pass: free-form string fields of all types draw from one pool (valid values of all string fields of all claim types + decimal renderings of numeric defaults; thorough: + second valid values); one free-form field at a time takes the composites x/y (x raw and url.PathEscape'd) over that pool; fields that enter the key outside ClaimHash (ChainReferenceId), validated strings and numeric fields take 2 values; all tuples of all types share one key map; groups are evaluated closest-to-valid first within a budget (cap reported)",
		"sequence pass (5 equal validators, the pair stages vote with 4 of them): per routable claim type and field, A = the valid claim, B = A with the field's second value (thorough: every other value, all base states), schedules late-vote / nonce-reset (governance MsgNonceOverrideProposal to 0) / partial-then-quorum / interleaved; after every step a ghost of accepted votes is compared with the stored attestation records: a record holds only votes of validators whose accepted claim has that record's key, and every accepted vote is listed in the record under the key of the claim submitted. Whether B is observed after a reset is counted but is not an oracle (a stale observed attestation at the same nonce can stop the tally on the unchanged tree)",
		"ChainReferenceId is treated as key-relevant outside the hash (detected: key reacts, ClaimHash does not): its domain and collision alphabet add id+NUL, id+3 NUL, two ids > 32 bytes sharing the first 32 bytes, the upper-case spelling and the other real chain id",
		"after every accepted vote every attestation record must be stored under the key recomputed from the claim body it persists (record:stored-claim-hashes-to-other-key); the pooled/not-pooled decision of the pair oracle uses the store key of the record the first vote really created; keys are computed before delivery because a handler may modify the message object",
		"math.Int fields take sign / width variants: N, -N, 0, 2^256-1, -(2^256-1) (2^256 is not representable by math.Int) in the pair, collision and cross-type passes; a claim whose ClaimHash fails or panics is counted and gets no key",
		"the latest compass id of the scenario chains is recorded through the real activation path (EvmKeeper.ActivateChainReferenceID -> EVMActivatedChain event -> skyway keeper); asserted at start-up",
		"genesis round trip (per routable claim type, both chains in both roles, attestation list as exported and reversed): ExportGenesis -> JSON -> ValidateBasic -> InitGenesis into a fork whose skyway store was emptied (the other modules keep their state); imported records must sit under the key of the body they store and equal the exported ones (votes, observed flag, observed and per-validator nonces); finishing the votes to quorum must give the same acceptance, records, nonces and bank/acc/feegrant/paloma/distribution digests as without the import. The latest compass id is not part of the skyway genesis, so the full skyway digest is not compared",
		"thorough tier: separator-shift pairs over every ordered pair / triple of string (and numeric middle) fields, reported under signature prefix sepshift:",
	}
	if shard == 0 {
		e.nonVacuous()
		var ts []string
		generic := []string{}
		for _, t := range e.types {
			var fs []string
			for _, f := range t.Fields {
				fs = append(fs, f.Name)
				if f.Generic {
					generic = append(generic, t.Name+"."+f.Name)
				}
			}
			ts = append(ts, t.Name+"{"+strings.Join(fs, ",")+"}")
		}
		r.Extra["claim_types"] = ts
		r.Extra["fields_with_generic_domain"] = generic
		r.Extra["base_states"] = float64(len(e.bases))
	}
	cases := e.cases(r.Thorough())
	deadline := r.Deadline(100*time.Second, 25*time.Minute)
	want := ""
	if replayFile != "" {
		var v report.Violation
		b, err := os.ReadFile(replayFile)
		if err == nil {
			err = json.Unmarshal(b, &v)
		}
		if err != nil {
			fmt.Fprintln(os.Stderr, err)
			os.Exit(2)
		}
		want, _ = v.Replay.(map[string]interface{})["case"].(string)
		cases = e.cases(true)
	}
	for i, c := range cases {
		if strings.HasPrefix(want, "collision|") || strings.HasPrefix(want, "xcollision|") {
			break
		}
		if want != "" {
			if c.ID != want {
				continue
			}
		} else if i%nshards != shard {
			continue
		}
		if time.Now().After(deadline) {
			r.Cap("deadline")
			break
		}
		e.runCase(c)
	}
	e.collisionSearch(shard, nshards, deadline, want)
	e.crossTypeSearch(shard, nshards, deadline, want)
	e.sequencePass(shard, nshards, want)
	e.genesisPass(shard, want)
	r.Extra["claims_without_hash (ClaimHash error or panic)"] = float64(unhashable)
	var ne, nf, nk float64
	for k, v := range e.effects {
		ne += float64(v)
		if !strings.HasPrefix(k, "sepshift:") && !strings.Contains(k, "collision:") {
			r.Extra["pairs_outcome_differs."+k] = float64(v)
		}
	}
	for _, v := range e.frees {
		nf += float64(v)
	}
	for k, v := range e.nohash {
		nk += float64(v)
		r.Extra["pairs_key_equal."+k] = float64(v)
	}
	var nu float64
	for _, v := range e.unsub {
		nu += float64(v)
	}
	r.Extra["pairs_key_equal_but_one_claim_never_accepted"] = nu
	r.Extra["pairs_outcome_differs"] = ne
	r.Extra["pairs_outcome_equal"] = nf
	r.Extra["pairs_key_equal"] = nk
	r.Extra["quorum_runs"] = 2 * (ne + nf)
}
