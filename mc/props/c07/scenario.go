package main

import (
	"encoding/hex"
	"encoding/json"
	"fmt"
	"sort"
	"strings"
	"time"

	sdk "github.com/cosmos/cosmos-sdk/types"
	ethcommon "github.com/ethereum/go-ethereum/common"
	"github.com/palomachain/paloma/v2/x/consensus/keeper/consensus"
	ctypes "github.com/palomachain/paloma/v2/x/consensus/types"
	evmtypes "github.com/palomachain/paloma/v2/x/evm/types"
	schedtypes "github.com/palomachain/paloma/v2/x/scheduler/types"
	"github.com/palomachain/paloma/v2/zzverif/world"
)

const (
	ref        = "eth-main"
	erc20Addr  = "0x1111111111111111111111111111111111111111"
	deployerA  = "0x00000000000000000000000000000000000000dd"
	feeMgrA    = "0x00000000000000000000000000000000000000fe"
	logicAddr  = "0x00000000000000000000000000000000000000cc"
	slcPayload = "deadbeef0102030405060708090a0b0c0d0e0f101112131415161718191a1b1c"
	// bytecode of the second compass version (what the governance proposal carries)
	compass2Bytecode = "6080604052348015600e575f80fd5b50603e80601a5f395ff3fe60806040525f80fdfea2646970667358221220c0ffee"
	userBytecode     = "0x608060405260aa60bb60cc60dd60ee60ff"
	userCtorInput    = "0x000000000000000000000000000000000000000000000000000000000000002a"
)

// kinds of turnstone actions
const (
	kSLC      = "SubmitLogicCall"
	kValset   = "UpdateValset"
	kUpload   = "UploadSmartContract"
	kUSC      = "UploadUserSmartContract"
	kHandover = "CompassHandover"
)

var kinds = []string{kSLC, kValset, kUpload, kUSC, kHandover}

// target is one queued message the enumeration offers proofs for.
type target struct {
	Kind  string
	ID    uint64
	Twin  uint64 // content-identical (or, for SLC, identical up to the message id) second message; 0 = none
	Base  string // name of the base state it lives in
	Msg   *evmtypes.Message
	Sigs  []*ctypes.SignData // collected signatures in collection order
	Gas   uint64
	PubVS uint64 // valset id named in the public access data
}

type scenario struct {
	w     *world.World
	cap   *world.CapLogger
	queue string
	bases map[string]sdk.Context
	tg    map[string]*target // by kind
	tw    map[string]*target // the twin message of the kind's target, as a target of its own
	// the same messages with the signatures collected in another order
	// or with extreme numeric values (index into variants; 0 is the default and lives in tg / tw)
	alt   map[int]map[string]*target
	altTw map[int]map[string]*target
	// facts the reference encoder needs, read from chain state (not from the verifier)
	snapOnChain uint64 // snapshot id live on the chain in the base states
	snapNew     uint64 // id of the freshly built snapshot
	chainID     int64
	compassAddr ethcommon.Address
	newCompass  ethcommon.Address // address the second compass gets (CREATE of relayer, nonce)
	uploadNonce uint64
	userOwner   sdk.ValAddress
	userID      uint64
}

func must(err error) {
	if err != nil {
		panic(err)
	}
}

func mustOK(what string, r world.TxResult) {
	if !r.OK() {
		panic(fmt.Sprintf("%s: %s: %v", what, r.Stage, r.Err))
	}
}

func (s *scenario) evmMsg(m ctypes.QueuedSignedMessageI) *evmtypes.Message {
	cm, err := m.ConsensusMsg(s.w.App.AppCodec())
	must(err)
	em, ok := cm.(*evmtypes.Message)
	if !ok {
		panic(fmt.Sprintf("queue message %d is %T", m.GetId(), cm))
	}
	return em
}

func kindOf(em *evmtypes.Message) string {
	switch em.GetAction().(type) {
	case *evmtypes.Message_SubmitLogicCall:
		return kSLC
	case *evmtypes.Message_UpdateValset:
		return kValset
	case *evmtypes.Message_UploadSmartContract:
		return kUpload
	case *evmtypes.Message_UploadUserSmartContract:
		return kUSC
	case *evmtypes.Message_CompassHandover:
		return kHandover
	}
	return "?"
}

func (s *scenario) valByEth(addr string) *world.Val {
	for _, v := range s.w.Vals {
		if strings.EqualFold(v.EthAddr(), addr) {
			return v
		}
	}
	panic("no validator with eth address " + addr)
}

func (s *scenario) valByValAddr(addr string) *world.Val {
	for _, v := range s.w.Vals {
		if v.ValAddr.String() == addr {
			return v
		}
	}
	panic("no validator " + addr)
}

// variantT is one way of bringing the queued messages to the evidence stage.
type variantT struct {
	Name  string
	Order []int  // signature collection order (validator indices)
	Est   uint64 // gas estimate every validator reports (0 = ordinary, distinct estimates)
	Comm  string // community / security fee rates set by governance before the election ("" = unchanged)
	Sec   string
}

const numOrders = 6

// variants: the 6 signature collection orders (the first is the default and is
// also the valset order, shares 3:2:1), then extreme numeric values reached
// through the real paths: all validators report a gas estimate of 2^63-1, 2^63
// or 2^64-1 (elected as is; becomes the gas_estimate word of UpdateValset /
// CompassHandover and, times the relayer's multiplier 1.0 and the governance
// rates, the three fee words of SubmitLogicCall / UploadUserSmartContract).
var variants = []variantT{
	{Name: "", Order: []int{0, 1, 2}},
	{Name: "collected=v2,v1,v0", Order: []int{2, 1, 0}},
	{Name: "collected=v1,v2,v0", Order: []int{1, 2, 0}},
	{Name: "collected=v0,v2,v1", Order: []int{0, 2, 1}},
	{Name: "collected=v1,v0,v2", Order: []int{1, 0, 2}},
	{Name: "collected=v2,v0,v1", Order: []int{2, 0, 1}},
	{Name: "estimate=2^63-1,rates=1.0/1.0", Order: []int{0, 1, 2}, Est: 1<<63 - 1, Comm: "1.0", Sec: "1.0"},
	{Name: "estimate=2^63,rates=1.0/1.0", Order: []int{0, 1, 2}, Est: 1 << 63, Comm: "1.0", Sec: "1.0"},
	{Name: "estimate=2^64-1,rates=1.0/1.0", Order: []int{0, 1, 2}, Est: 1<<64 - 1, Comm: "1.0", Sec: "1.0"},
	{Name: "estimate=2^63,rates=1.9/0.5", Order: []int{0, 1, 2}, Est: 1 << 63, Comm: "1.9", Sec: "0.5"},
	{Name: "estimate=2^63,rates=0.5/0.5", Order: []int{0, 1, 2}, Est: 1 << 63, Comm: "0.5", Sec: "0.5"},
}

func (v variantT) group() string { return fmt.Sprintf("%d/%s/%s", v.Est, v.Comm, v.Sec) }

func baseName(stem string, oi int) string {
	if oi == 0 {
		return stem
	}
	return fmt.Sprintf("%s#%d", stem, oi)
}

// estimate: every validator estimates every message that needs it, then the
// end-block elects the estimate and attaches the fees.
func (s *scenario) estimate(ctx sdk.Context, est uint64) {
	w := s.w
	q := s.queue
	need := false
	for _, m := range w.Queue(ctx, q) {
		if m.GetRequireGasEstimation() && m.GetGasEstimate() == 0 {
			need = true
			for k, v := range w.Vals {
				have := false
				for _, ge := range m.GetGasEstimates() {
					have = have || sdk.ValAddress(ge.ValAddress).Equals(v.ValAddr)
				}
				if !have {
					mustOK("estimate", w.DeliverTx(ctx, []*world.Actor{v.Actor}, world.Estimate(v, q, m.GetId(), estimateOf(est, k))))
				}
			}
		}
	}
	if need {
		must(w.EndBlock(ctx))
	}
}

func estimateOf(est uint64, k int) uint64 {
	if est != 0 {
		return est
	}
	return uint64(210000 + 1000*k)
}

// groups builds, per variant group, the state after estimates + election on a
// fork of pre, then per variant the signed base on a fork of that.
func (s *scenario) groups(stem string, pre func(v variantT) (sdk.Context, error)) error {
	done := map[string]sdk.Context{}
	for vi, v := range variants {
		g, ok := done[v.group()]
		if !ok {
			var err error
			g, err = pre(v)
			if err != nil {
				return fmt.Errorf("variant %q: %w", v.Name, err)
			}
			if v.Comm != "" {
				must(s.w.App.TreasuryKeeper.SetCommunityFundFee(g, v.Comm))
				must(s.w.App.TreasuryKeeper.SetSecurityFee(g, v.Sec))
			}
			s.estimate(g, v.Est)
			done[v.group()] = g
		}
		c := world.Fork(g)
		s.sign(c, v.Order)
		s.bases[baseName(stem, vi)] = c
		s.collect(c, baseName(stem, vi), vi)
	}
	return nil
}

// sign: the validators sign every message that still lacks their signature, in
// the given collection order; then the assignee publishes the access data
// naming the valset live on the target chain.
func (s *scenario) sign(ctx sdk.Context, order []int) {
	w := s.w
	q := s.queue
	for _, m := range w.Queue(ctx, q) {
		if m.GetRequireGasEstimation() && m.GetGasEstimate() == 0 {
			panic(fmt.Sprintf("message %d: no gas estimate elected", m.GetId()))
		}
		for _, vi := range order {
			v := w.Vals[vi]
			have := false
			for _, sd := range m.GetSignData() {
				have = have || sdk.ValAddress(sd.ValAddress).Equals(v.ValAddr)
			}
			if !have {
				mustOK("sign", w.DeliverTx(ctx, []*world.Actor{v.Actor}, w.SignQueued(v, q, m)))
			}
		}
		if m.GetPublicAccessData() == nil {
			em := s.evmMsg(m)
			rel := s.valByValAddr(em.Assignee)
			mustOK("public access data", w.DeliverTx(ctx, []*world.Actor{rel.Actor}, &ctypes.MsgSetPublicAccessData{
				MessageID: m.GetId(), QueueTypeName: q, Data: []byte{0xab, 0xcd, byte(m.GetId())}, ValsetID: s.snapOnChain, Metadata: world.Meta(rel.Actor),
			}))
		}
	}
}

// clone puts a content-identical copy of queued message id into the queue with
// the same options the evm keeper uses for that action (exported keeper API).
func (s *scenario) clone(ctx sdk.Context, id uint64) uint64 {
	for _, m := range s.w.Queue(ctx, s.queue) {
		if m.GetId() != id {
			continue
		}
		em := s.evmMsg(m)
		var opts *consensus.PutOptions
		if m.GetRequireGasEstimation() {
			opts = &consensus.PutOptions{RequireGasEstimation: true, RequireSignatures: true}
		}
		nid, err := s.w.App.ConsensusKeeper.PutMessageInQueue(ctx, s.queue, em, opts)
		must(err)
		return nid
	}
	panic("clone: no message")
}

func (s *scenario) collect(ctx sdk.Context, base string, oi int) {
	tg, tw := s.tg, s.tw
	if oi > 0 {
		if s.alt[oi] == nil {
			s.alt[oi], s.altTw[oi] = map[string]*target{}, map[string]*target{}
		}
		tg, tw = s.alt[oi], s.altTw[oi]
	}
	for _, m := range s.w.Queue(ctx, s.queue) {
		em := s.evmMsg(m)
		k := kindOf(em)
		t := &target{Kind: k, ID: m.GetId(), Base: base, Msg: em, Sigs: m.GetSignData(), Gas: m.GetGasEstimate()}
		if pad := m.GetPublicAccessData(); pad != nil {
			t.PubVS = pad.GetValsetID()
		}
		if old, ok := tg[k]; ok && old.Base == base {
			if old.Twin == 0 {
				old.Twin = t.ID
				tw[k] = t
			}
			continue
		}
		if _, ok := tg[k]; ok {
			continue
		}
		tg[k] = t
	}
}

func newScenario() *scenario {
	cap := world.NewCapLogger("error while attesting", "recovered panic")
	w := world.New(world.Config{Stakes: world.StakesOf(3_000_000, 2_000_000, 1_000_000), Users: []string{"U1", "adm"}, Height: 101, Logger: cap})
	s := &scenario{w: w, cap: cap, queue: world.TurnstoneQueue(ref), bases: map[string]sdk.Context{}, tg: map[string]*target{}, tw: map[string]*target{}, alt: map[int]map[string]*target{}, altTw: map[int]map[string]*target{}, chainID: 1}
	ctx := w.Root
	must(w.StdChain(ctx, ref))
	must(w.App.EvmKeeper.SetSmartContractDeployer(ctx, ref, deployerA))
	must(w.App.EvmKeeper.SetFeeManagerAddress(ctx, ref, feeMgrA))
	u1, adm := w.User("U1"), w.User("adm")
	_, err := w.BridgeToken(ctx, adm, "t1", ref, erc20Addr, 1000, adm)
	must(err)
	s.compassAddr = ethcommon.HexToAddress(world.CompassAddr)
	on, err := w.App.ValsetKeeper.GetLatestSnapshotOnChain(ctx, ref)
	must(err)
	s.snapOnChain = on.GetId()

	// the compass record of the running version (governance message; the chain
	// already runs contract 1, so nothing is deployed)
	gov := func(bytecodeHex string) {
		must(w.GovExec(ctx, &evmtypes.MsgDeployNewSmartContractProposalV2{
			Authority: w.Gov, AbiJSON: world.CompassABI(), BytecodeHex: bytecodeHex,
			Metadata: vmeta(w.Gov),
		}))
	}
	gov("0x6080")
	if c, err := w.App.EvmKeeper.GetLastCompassContract(ctx); err != nil || c.GetId() != 1 {
		panic(fmt.Sprintf("compass record: %v %v", c, err))
	}
	if len(w.Queue(ctx, s.queue)) != 0 {
		panic("unexpected deployment")
	}

	// a new snapshot (v2 gains the MEV trait) that is not yet live on the chain
	must(w.RegisterAccounts(ctx, w.Vals[2], []string{"mev"}, ref))
	snap, err := w.Snapshot(ctx)
	must(err)
	if snap == nil {
		panic("second snapshot not built")
	}
	s.snapNew = snap.GetId()

	// SubmitLogicCall x2 (same job executed twice in one block => same content up
	// to the message id); the first execution publishes the valset just in time
	def, _ := json.Marshal(evmtypes.JobDefinition{Address: logicAddr, ABI: "[]"})
	pay, _ := json.Marshal(evmtypes.JobPayload{HexPayload: slcPayload})
	job := &schedtypes.Job{ID: "job1", Routing: schedtypes.Routing{ChainType: "evm", ChainReferenceID: ref}, Definition: def, Payload: pay}
	mustOK("create job", w.DeliverTx(ctx, []*world.Actor{u1}, &schedtypes.MsgCreateJob{Job: job, Metadata: world.Meta(u1)}))
	mustOK("execute job", w.DeliverTx(ctx, []*world.Actor{u1}, &schedtypes.MsgExecuteJob{JobID: "job1", Metadata: world.Meta(u1)}))
	mustOK("execute job", w.DeliverTx(ctx, []*world.Actor{u1}, &schedtypes.MsgExecuteJob{JobID: "job1", Metadata: world.Meta(u1)}))

	// user smart contract
	mustOK("upload user contract", w.DeliverTx(ctx, []*world.Actor{u1}, &evmtypes.MsgUploadUserSmartContractRequest{Metadata: world.Meta(u1), Title: "c1", AbiJson: "[]", Bytecode: userBytecode, ConstructorInput: userCtorInput}))
	mustOK("deploy user contract", w.DeliverTx(ctx, []*world.Actor{u1}, &evmtypes.MsgDeployUserSmartContractRequest{Metadata: world.Meta(u1), Id: 1, TargetChain: ref}))
	s.userOwner = sdk.ValAddress(u1.Addr.Bytes())
	s.userID = 1

	// content-identical second UpdateValset (keeper API; the just-in-time path
	// never queues two updates for one valset id)
	var vsID uint64
	for _, m := range w.Queue(ctx, s.queue) {
		if kindOf(s.evmMsg(m)) == kValset {
			vsID = m.GetId()
		}
	}
	if vsID == 0 {
		panic("no UpdateValset message was queued by the job execution")
	}
	s.clone(ctx, vsID)

	// new compass version => UploadSmartContract to the chain; plus a
	// content-identical copy (the path retries use)
	gov("0x" + compass2Bytecode)
	var up *evmtypes.UploadSmartContract
	for _, m := range w.Queue(ctx, s.queue) {
		if em := s.evmMsg(m); kindOf(em) == kUpload {
			up = em.GetUploadSmartContract()
		}
	}
	if up == nil {
		panic("no UploadSmartContract message was queued by the proposal")
	}
	_, err = w.App.EvmKeeper.AddUploadSmartContractToConsensus(ctx, ref, up)
	must(err)

	// ctx (the root) is not written any more from here on
	s.buildUserPairBase(ctx)
	must(s.groups("B", func(variantT) (sdk.Context, error) { return world.Fork(ctx), nil }))
	for _, k := range []string{kSLC, kValset, kUpload, kUSC} {
		if s.tg[k] == nil {
			panic("missing target " + k)
		}
	}
	if s.tg[kSLC].Twin == 0 || s.tg[kValset].Twin == 0 || s.tg[kUpload].Twin == 0 {
		panic("missing twin message")
	}
	return s
}

// buildHandoverBase accepts the valid UploadSmartContract proof on a fork of B
// (the real attestation schedules the CompassHandover), then brings the
// handover and a content-identical copy to the evidence stage.
func (s *scenario) buildHandoverBase(proof *evmtypes.TxExecutedProof) error {
	w := s.w
	first := map[string]int{}
	for vi, v := range variants {
		if _, ok := first[v.group()]; !ok {
			first[v.group()] = vi
		}
	}
	err := s.groups("H", func(v variantT) (sdk.Context, error) {
		ctx := world.Fork(s.bases[baseName("B", first[v.group()])])
		t := s.tg[kUpload]
		for _, v := range w.Vals {
			if r := w.DeliverTx(ctx, []*world.Actor{v.Actor}, world.Evidence(v, s.queue, t.ID, proof)); !r.OK() {
				return ctx, fmt.Errorf("evidence: %v", r.Err)
			}
		}
		s.cap.Reset()
		if err := w.EndBlock(ctx); err != nil {
			return ctx, err
		}
		if h := *s.cap.Hits; len(h) > 0 {
			return ctx, fmt.Errorf("valid UploadSmartContract proof refused: %s", h[0])
		}
		var hid uint64
		for _, m := range w.Queue(ctx, s.queue) {
			if kindOf(s.evmMsg(m)) == kHandover {
				hid = m.GetId()
			}
		}
		if hid == 0 {
			return ctx, fmt.Errorf("no CompassHandover scheduled after the UploadSmartContract attestation")
		}
		s.clone(ctx, hid)
		return world.Advance(ctx, 1, 2*time.Second), nil
	})
	if err != nil {
		return err
	}
	if s.tg[kHandover] == nil || s.tg[kHandover].Twin == 0 {
		return fmt.Errorf("handover target missing")
	}
	return nil
}

func (s *scenario) describe(ctx sdk.Context) string {
	var sb strings.Builder
	for _, m := range s.w.Queue(ctx, s.queue) {
		em := s.evmMsg(m)
		var signers []string
		for _, sd := range m.GetSignData() {
			signers = append(signers, s.valByEth(sd.ExternalAccountAddress).Name)
		}
		fmt.Fprintf(&sb, "  id=%d %s assignee=%s relayer=%s est=%d sigs=%v ev=%d pad=%v turnstone=%s\n", m.GetId(), kindOf(em), s.valByValAddr(em.Assignee).Name, em.AssigneeRemoteAddress, m.GetGasEstimate(), signers, len(m.GetEvidence()), m.GetPublicAccessData() != nil, hex.EncodeToString([]byte(em.TurnstoneID)))
	}
	return sb.String()
}

func sortedKeys(m map[string]int) []string {
	var ks []string
	for k := range m {
		ks = append(ks, k)
	}
	sort.Strings(ks)
	return ks
}
