#!/usr/bin/env python3
"""Splices the as-built section (file given as argv[1], optional) and the seeded-changes table into DESIGN.md."""
import os, re, subprocess, sys
root = os.path.dirname(os.path.dirname(os.path.abspath(__file__)))
p = os.path.join(root, 'DESIGN.md')
s = open(p).read()
if len(sys.argv) > 1:
    body = open(sys.argv[1]).read()
    marker = "\n---------------------------------------------------------------------------\n\n## 14. As built"
    if marker in s:
        s = s[:s.index(marker)]
    s = s.rstrip() + "\n" + body
table = subprocess.check_output([os.path.join(root, 'bin', 'seedtable.py')]).decode()
s = re.sub(r'<!-- SEEDTABLE:BEGIN -->.*<!-- SEEDTABLE:END -->', '<!-- SEEDTABLE:BEGIN -->\n' + table + '<!-- SEEDTABLE:END -->', s, flags=re.S)
open(p, 'w').write(s)
print('DESIGN.md updated,', len(s), 'bytes')
