// Package hist is the scripted + reactive (pigeon-like) block history shared by
// the C08 twin executor and the C09 hostile-value explorer.
package hist

import (
	"encoding/json"
	"fmt"
	"strings"
	"time"

	abci "github.com/cometbft/cometbft/abci/types"
	sdk "github.com/cosmos/cosmos-sdk/types"
	banktypes "github.com/cosmos/cosmos-sdk/x/bank/types"
	govv1 "github.com/cosmos/cosmos-sdk/x/gov/types/v1"
	stakingtypes "github.com/cosmos/cosmos-sdk/x/staking/types"
	gogoproto "github.com/cosmos/gogoproto/proto"
	ethcommon "github.com/ethereum/go-ethereum/common"
	ctypes "github.com/palomachain/paloma/v2/x/consensus/types"
	evmtypes "github.com/palomachain/paloma/v2/x/evm/types"
	palomatypes "github.com/palomachain/paloma/v2/x/paloma/types"
	schedtypes "github.com/palomachain/paloma/v2/x/scheduler/types"
	skywaytypes "github.com/palomachain/paloma/v2/x/skyway/types"
	tftypes "github.com/palomachain/paloma/v2/x/tokenfactory/types"
	treasurytypes "github.com/palomachain/paloma/v2/x/treasury/types"
	vtypes "github.com/palomachain/paloma/v2/x/valset/types"
	"github.com/palomachain/paloma/v2/zzverif/evmref"
	"github.com/palomachain/paloma/v2/zzverif/world"
	"google.golang.org/protobuf/proto"
	"google.golang.org/protobuf/reflect/protoreflect"
	"google.golang.org/protobuf/types/dynamicpb"

	sdkmath "cosmossdk.io/math"
)

const (
	Ref   = "eth-main"
	Ref2  = "bnb-main"
	Erc20 = "0x1111111111111111111111111111111111111111"
	NBlk  = 362
)

// Tx is an unsigned scripted transaction.
type Tx struct {
	Signer *world.Actor
	Msgs   []sdk.Msg
}

type Script struct {
	W     *world.World
	denom string
	// proofs caches the delivery proof the relayers present per (queue, message id): every validator
	// has to report byte-identical evidence, whatever block it reports in
	proofs map[string]*evmtypes.TxExecutedProof
}

func NewScript(w *world.World) *Script { return &Script{W: w} }

func (s *Script) Blocks() int { return NBlk }

func must(err error) {
	if err != nil {
		panic(err)
	}
}

// setup writes the scenario directly into the root store after block 1 (it is
// committed with block 2): active chain with compass, chain accounts, fees,
// first snapshot, one bridged token with tax.
func (s *Script) Setup() {
	w := s.W
	ctx := w.Root
	must(w.StdChain(ctx, Ref))
	// governance-set fee rates above and below 1 (fees derived from the relayer fee can exceed it)
	must(w.App.TreasuryKeeper.SetCommunityFundFee(ctx, "1.5"))
	must(w.App.TreasuryKeeper.SetSecurityFee(ctx, "0.3"))
	// a second, quiet chain (no contract calls are ever queued for it): the only valset updates it
	// receives come from the keep-warm decision when a new snapshot is built
	must(w.AddChain(ctx, Ref2, 56, 1))
	for _, v := range w.Vals {
		must(w.RegisterAccounts(ctx, v, nil, Ref, Ref2))
		fees := []treasurytypes.RelayerFeeSetting_FeeSetting{{Multiplicator: sdkmath.LegacyMustNewDecFromStr("1.0"), ChainReferenceId: Ref}, {Multiplicator: sdkmath.LegacyMustNewDecFromStr("1.0"), ChainReferenceId: Ref2}}
		must(w.App.TreasuryKeeper.SetRelayerFee(ctx, v.ValAddr, &treasurytypes.RelayerFeeSetting{ValAddress: v.ValAddr.String(), Fees: fees}))
	}
	sn, err := w.Snapshot(ctx)
	must(err)
	if sn == nil {
		panic("second snapshot not worthy")
	}
	must(w.App.ValsetKeeper.SetSnapshotOnChain(ctx, sn.Id, Ref))
	must(w.App.ValsetKeeper.SetSnapshotOnChain(ctx, sn.Id, Ref2))
	// differentiate fees a little so that scores are not all tied, but keep two tied
	must(w.App.TreasuryKeeper.SetRelayerFee(ctx, w.Vals[1].ValAddr, &treasurytypes.RelayerFeeSetting{ValAddress: w.Vals[1].ValAddr.String(), Fees: []treasurytypes.RelayerFeeSetting_FeeSetting{
		{Multiplicator: sdkmath.LegacyMustNewDecFromStr("1.5"), ChainReferenceId: Ref}, {Multiplicator: sdkmath.LegacyMustNewDecFromStr("1.0"), ChainReferenceId: Ref2}}}))
	must(w.App.EvmKeeper.SetSmartContractDeployer(ctx, Ref, "0x00000000000000000000000000000000000000dd"))
	must(w.App.EvmKeeper.SetFeeManagerAddress(ctx, Ref, "0x00000000000000000000000000000000000000fe"))
	// the record of the running compass version (id 1 = the active one: nothing is deployed); without
	// it no delivery proof can be attested
	must(w.GovExec(ctx, &evmtypes.MsgDeployNewSmartContractProposalV2{Authority: w.Gov, AbiJSON: world.CompassABI(), BytecodeHex: "0x6080",
		Metadata: vtypes.MsgMetadata{Creator: w.Gov, Signers: []string{w.Gov}}}))
	// governance that can decide within the history: half-minute periods, deposits in the bond denom
	gp, err := w.App.GovKeeper.Params.Get(ctx)
	must(err)
	half, tenth := 30*time.Second, 10*time.Second
	gp.VotingPeriod, gp.MaxDepositPeriod, gp.ExpeditedVotingPeriod = &half, &half, &tenth
	gp.MinDeposit = sdk.NewCoins(sdk.NewInt64Coin(world.BondDenom, 1000))
	gp.ExpeditedMinDeposit = sdk.NewCoins(sdk.NewInt64Coin(world.BondDenom, 5000))
	must(w.App.GovKeeper.Params.Set(ctx, gp))
	d, err := w.BridgeToken(ctx, w.User("adm"), "t1", Ref, Erc20, 100000, w.User("U1"), w.User("U2"))
	must(err)
	s.denom = d
	must(w.App.SkywayKeeper.SetBridgeTax(ctx, &skywaytypes.BridgeTax{Token: d, Rate: "1/3", ExemptAddresses: []sdk.AccAddress{w.User("U2").Addr}}))
	// partial configurations: one validator has no relayer fee for the second chain, another none for
	// the first (each will have metrics but no fee there when valsets are published and calls assigned)
	must(w.App.TreasuryKeeper.SetRelayerFee(ctx, w.Vals[2].ValAddr, &treasurytypes.RelayerFeeSetting{ValAddress: w.Vals[2].ValAddr.String(), Fees: []treasurytypes.RelayerFeeSetting_FeeSetting{
		{Multiplicator: sdkmath.LegacyMustNewDecFromStr("1.0"), ChainReferenceId: Ref}}}))
	must(w.App.TreasuryKeeper.SetRelayerFee(ctx, w.Vals[3].ValAddr, &treasurytypes.RelayerFeeSetting{ValAddress: w.Vals[3].ValAddr.String(), Fees: []treasurytypes.RelayerFeeSetting_FeeSetting{
		{Multiplicator: sdkmath.LegacyMustNewDecFromStr("1.0"), ChainReferenceId: Ref2}}}))
}

func (s *Script) denomName() string {
	return "factory/" + s.W.User("adm").Addr.String() + "/t1"
}

// Sign signs the scripted transactions of one block; several txs of one signer
// get consecutive sequence numbers.
func (s *Script) Sign(rctx sdk.Context, txs []Tx) []sdk.Tx {
	w := s.W
	seqs := map[string]uint64{}
	var out []sdk.Tx
	for _, t := range txs {
		acc := w.App.AccountKeeper.GetAccount(rctx, t.Signer.Addr)
		var num, seq uint64
		if acc != nil {
			num, seq = acc.GetAccountNumber(), acc.GetSequence()
		}
		seq += seqs[t.Signer.Name]
		seqs[t.Signer.Name]++
		tx, err := w.BuildTxWith(t.Signer, num, seq, t.Msgs...)
		must(err)
		out = append(out, tx)
	}
	return out
}

// txsFor is the scripted + reactive (pigeon-like) behaviour for block index i.
func (s *Script) TxsFor(i int, rctx sdk.Context) []Tx {
	w := s.W
	s.denom = s.denomName()
	var txs []Tx
	u1, u2 := w.User("U1"), w.User("U2")
	add := func(signer *world.Actor, msgs ...sdk.Msg) { txs = append(txs, Tx{Signer: signer, Msgs: msgs}) }

	switch i {
	case 0, 200:
		for _, v := range w.Vals {
			add(v.Actor, &vtypes.MsgKeepAlive{PigeonVersion: "v9.9.9", Metadata: world.Meta(v.Actor)})
		}
	case 1:
		def, _ := json.Marshal(evmtypes.JobDefinition{Address: "0x00000000000000000000000000000000000000cc", ABI: "[]"})
		pay, _ := json.Marshal(evmtypes.JobPayload{HexPayload: "deadbeef"})
		for _, id := range []string{"job1", "job2"} {
			add(u1, &schedtypes.MsgCreateJob{Job: &schedtypes.Job{ID: id, Routing: schedtypes.Routing{ChainType: "evm", ChainReferenceID: Ref}, Definition: def, Payload: pay, IsPayloadModifiable: id == "job2"}, Metadata: world.Meta(u1)})
		}
	case 61, 62, 63, 64:
		// one execution per block at four consecutive block times: every residue of the relayer pick
		add(u1, &schedtypes.MsgExecuteJob{JobID: "job1", Metadata: world.Meta(u1)})
	case 2, 60:
		// three executions in one block: relayer selection with score ties
		add(u1, &schedtypes.MsgExecuteJob{JobID: "job1", Metadata: world.Meta(u1)})
		add(u2, &schedtypes.MsgExecuteJob{JobID: "job2", Payload: []byte(`{"hexPayload":"c0ffee"}`), Metadata: world.Meta(u2)})
		add(u1, &schedtypes.MsgExecuteJob{JobID: "job2", Metadata: world.Meta(u1)})
	case 3:
		add(u1, &skywaytypes.MsgSendToRemote{EthDest: "0x00000000000000000000000000000000000000aa", Amount: sdk.NewInt64Coin(s.denom, 100), ChainReferenceId: Ref, Metadata: world.Meta(u1)})
		add(u2, &skywaytypes.MsgSendToRemote{EthDest: "0x00000000000000000000000000000000000000ab", Amount: sdk.NewInt64Coin(s.denom, 7), ChainReferenceId: Ref, Metadata: world.Meta(u2)})
		add(u1, &skywaytypes.MsgSendToRemote{EthDest: "0x00000000000000000000000000000000000000ac", Amount: sdk.NewInt64Coin(s.denom, 9), ChainReferenceId: Ref, Metadata: world.Meta(u1)})
	case 4:
		add(u1, &skywaytypes.MsgCancelSendToRemote{TransactionId: 3, Metadata: world.Meta(u1)})
		// status updates with every level, including an unknown one
		for lvl, v := range w.Vals {
			l := palomatypes.MsgAddStatusUpdate_Level(lvl)
			if lvl == 3 {
				l = 7
			}
			add(v.Actor, &palomatypes.MsgAddStatusUpdate{Status: "hello", Level: l, Metadata: world.Meta(v.Actor), Args: []palomatypes.MsgAddStatusUpdate_KeyValuePair{{Key: "k", Value: "v"}, {Key: "", Value: "no key"}, {Key: "k", Value: ""}}})
		}
	case 5:
		// deposits: three validators see event 1 as (U1, 50), one sees (U1, 51)
		for k, v := range w.Vals {
			amt := int64(50)
			if k == 3 {
				amt = 51
			}
			add(v.Actor, world.DepositClaim(v, Ref, 1, 10, Erc20, amt, "0x00000000000000000000000000000000000000bb", u1.Addr.String()))
		}
	case 6:
		add(w.Vals[1].Actor, &treasurytypes.MsgUpsertRelayerFee{Metadata: world.Meta(w.Vals[1].Actor), FeeSetting: &treasurytypes.RelayerFeeSetting{ValAddress: w.Vals[1].ValAddr.String(), Fees: []treasurytypes.RelayerFeeSetting_FeeSetting{{Multiplicator: sdkmath.LegacyMustNewDecFromStr("1.2"), ChainReferenceId: Ref}}}})
		add(u2, &tftypes.MsgCreateDenom{Subdenom: "zz", Metadata: world.Meta(u2)})
	case 7:
		v := w.Vals[2]
		add(v.Actor, &vtypes.MsgAddExternalChainInfoForValidator{Metadata: world.Meta(v.Actor), ChainInfos: []*vtypes.ExternalChainInfo{{
			ChainType: "evm", ChainReferenceID: Ref, Address: v.EthAddr(), Pubkey: ethAddrBytes(v), Traits: []string{vtypes.PIGEON_TRAIT_MEV}},
			{ChainType: "evm", ChainReferenceID: Ref2, Address: v.EthAddr(), Pubkey: ethAddrBytes(v)}}})
		zz := "factory/" + u2.Addr.String() + "/zz"
		add(u2, &tftypes.MsgMint{Amount: sdk.NewInt64Coin(zz, 500), Metadata: world.Meta(u2)})
		add(u2, &tftypes.MsgBurn{Amount: sdk.NewInt64Coin(zz, 5), Metadata: world.Meta(u2)})
		add(u2, &tftypes.MsgSetDenomMetadata{DenomMetadata: banktypes.Metadata{Base: zz, Display: zz, Name: "zz", Symbol: "ZZ", DenomUnits: []*banktypes.DenomUnit{{Denom: zz}}}, Metadata: world.Meta(u2)})
		add(u2, &skywaytypes.MsgSetERC20ToTokenDenom{Denom: zz, ChainReferenceId: Ref, Erc20: "0x2222222222222222222222222222222222222222", Metadata: world.Meta(u2)})
		add(u1, &evmtypes.MsgUploadUserSmartContractRequest{Metadata: world.Meta(u1), Title: "c1", AbiJson: "[]", Bytecode: "0x6080", ConstructorInput: "0x"})
		add(u1, &palomatypes.MsgAddLightNodeClientLicense{Metadata: world.Meta(u1), ClientAddress: world.NewActor("lightnode").Addr.String(), Amount: sdk.NewInt64Coin(world.BondDenom, 1000), VestingMonths: 1})
	case 8:
		zz := "factory/" + u2.Addr.String() + "/zz"
		add(u2, &tftypes.MsgChangeAdmin{Denom: zz, NewAdmin: u1.Addr.String(), Metadata: world.Meta(u2)})
		add(u1, &evmtypes.MsgDeployUserSmartContractRequest{Metadata: world.Meta(u1), Id: 1, TargetChain: Ref})
		add(u2, &palomatypes.MsgAuthLightNodeClient{Metadata: world.Meta(u2)})
		// rejected by the ante chain (reserved to governance): last of U2's txs in this block, a failed ante does not advance the sequence
		add(u2, &evmtypes.MsgRemoveSmartContractDeploymentRequest{SmartContractID: 1, ChainReferenceID: Ref, Metadata: world.Meta(u2)})
		// a light node sale reported by the bridge (no sale contract configured: observed, no effect)
		for _, v := range w.Vals {
			add(v.Actor, &skywaytypes.MsgLightNodeSaleClaim{Metadata: world.Meta(v.Actor), EventNonce: 2, EthBlockHeight: 11, Orchestrator: v.Addr.String(), ChainReferenceId: Ref, SkywayNonce: 2,
				ClientAddress: world.NewActor("lightnode2").Addr.String(), Amount: sdkmath.NewInt(77), SmartContractAddress: "0x00000000000000000000000000000000000000ee", CompassId: world.CompassID})
		}
	case 10:
		// the licensed light node activates its licence: a vesting account whose schedule is derived from block time
		ln := world.NewActor("lightnode")
		add(ln, &palomatypes.MsgRegisterLightNodeClient{Metadata: world.Meta(ln)})
	case 9:
		// a backlog: every validator reports two consecutive remote events in one block, so one
		// end-blocker has to observe two nonces (the tally order matters)
		last, _ := w.App.SkywayKeeper.GetLastObservedSkywayNonce(rctx, Ref)
		for _, v := range w.Vals {
			mine, _ := w.App.SkywayKeeper.GetLastSkywayNonceByValidator(rctx, v.ValAddr, Ref)
			if mine != last {
				continue
			}
			add(v.Actor, world.DepositClaim(v, Ref, last+1, 12, Erc20, 31, "0x00000000000000000000000000000000000000bb", u2.Addr.String()))
			add(v.Actor, world.DepositClaim(v, Ref, last+2, 13, Erc20, 32, "0x00000000000000000000000000000000000000bb", u1.Addr.String()))
		}
	case 20:
		// a stake change that reorders the validators: the snapshot built at height 50 is "worthy"
		// and goes through the publish-to-chains decision (keep-warm rule)
		add(u1, stakingtypes.NewMsgDelegate(u1.Addr.String(), w.Vals[3].ValAddr.String(), sdk.NewInt64Coin(world.BondDenom, 700_000)))
	case 180:
		// a bridge contract upgrade decided by governance: proposal, votes, execution by the gov
		// end-blocker, deployment on the chain that has a fee manager, handover
		prop, err := govv1.NewMsgSubmitProposal([]sdk.Msg{&evmtypes.MsgDeployNewSmartContractProposalV2{Authority: w.Gov, AbiJSON: world.CompassABI(), BytecodeHex: "0x608060",
			Metadata: vtypes.MsgMetadata{Creator: w.Gov, Signers: []string{w.Gov}}}}, sdk.NewCoins(sdk.NewInt64Coin(world.BondDenom, 1000)), u1.Addr.String(), "", "compass v2", "upgrade the bridge contract", false)
		must(err)
		add(u1, prop)
	case 181:
		for _, v := range w.Vals {
			add(v.Actor, govv1.NewMsgVote(v.Addr, 1, govv1.OptionYes, ""))
		}
	case 140:
		// late in the history the quiet chain gets its first contract call: by now one validator has no
		// relayer fee there (its upsert in block 6 named the first chain only) but does have metrics
		def, _ := json.Marshal(evmtypes.JobDefinition{Address: "0x00000000000000000000000000000000000000cd", ABI: "[]"})
		pay, _ := json.Marshal(evmtypes.JobPayload{HexPayload: "feedface"})
		add(u2, &schedtypes.MsgCreateJob{Job: &schedtypes.Job{ID: "job3", Routing: schedtypes.Routing{ChainType: "evm", ChainReferenceID: Ref2}, Definition: def, Payload: pay}, Metadata: world.Meta(u2)})
	case 141, 143:
		add(u2, &schedtypes.MsgExecuteJob{JobID: "job3", Metadata: world.Meta(u2)})
	case 100:
		add(u1, &evmtypes.MsgRemoveUserSmartContractRequest{Metadata: world.Meta(u1), Id: 1})
	case 120:
		add(u2, &skywaytypes.MsgSendToRemote{EthDest: "0x00000000000000000000000000000000000000ad", Amount: sdk.NewInt64Coin(s.denom, 11), ChainReferenceId: Ref, Metadata: world.Meta(u2)})
	}
	// reactive part: every validator answers what the chain asks of it
	if i >= 3 && i < 340 {
		txs = append(txs, s.react(i, rctx)...)
	}
	return txs
}

func ethAddrBytes(v *world.Val) []byte {
	return ethcommon.HexToAddress(v.EthAddr()).Bytes()
}

func (s *Script) react(i int, rctx sdk.Context) []Tx {
	w := s.W
	var txs []Tx
	add := func(signer *world.Actor, msgs ...sdk.Msg) { txs = append(txs, Tx{Signer: signer, Msgs: msgs}) }
	for _, ref := range []string{Ref, Ref2} {
		q := world.TurnstoneQueue(ref)
		onChain := uint64(1)
		if sn, err := w.App.ValsetKeeper.GetLatestSnapshotOnChain(rctx, ref); err == nil && sn != nil {
			onChain = sn.GetId()
		}
		for _, m := range w.Queue(rctx, q) {
			signed := map[string]bool{}
			for _, sd := range m.GetSignData() {
				signed[sdk.ValAddress(sd.ValAddress).String()] = true
			}
			estimated := map[string]bool{}
			for _, ge := range m.GetGasEstimates() {
				estimated[sdk.ValAddress(ge.ValAddress).String()] = true
			}
			evidenced := map[string]bool{}
			for _, ev := range m.GetEvidence() {
				evidenced[sdk.ValAddress(ev.ValAddress).String()] = true
			}
			cm, err := m.ConsensusMsg(w.App.AppCodec())
			if err != nil {
				continue
			}
			em, _ := cm.(*evmtypes.Message)
			needEst := m.GetRequireGasEstimation() && m.GetGasEstimate() == 0
			// contract calls with an even id revert on the remote chain; everything else is delivered
			fails := evmref.Kind(w, m) == evmref.KindLogicCall && m.GetId()%2 == 0
			for k, v := range w.Vals {
				va := v.ValAddr.String()
				switch {
				case needEst:
					if !estimated[va] {
						add(v.Actor, world.Estimate(v, q, m.GetId(), uint64(21000+100*k)))
					}
				case !signed[va]:
					add(v.Actor, w.SignQueued(v, q, m))
				case em != nil && em.Assignee == va && len(m.GetSignData()) >= 3 && m.GetPublicAccessData() == nil && m.GetErrorData() == nil:
					if fails {
						add(v.Actor, &ctypes.MsgSetErrorData{MessageID: m.GetId(), QueueTypeName: q, Data: []byte("reverted"), Metadata: world.Meta(v.Actor)})
					} else {
						// the relayer names the validator set that is live on the target chain
						add(v.Actor, &ctypes.MsgSetPublicAccessData{MessageID: m.GetId(), QueueTypeName: q, Data: []byte{0xab, 0xcd}, ValsetID: onChain, Metadata: world.Meta(v.Actor)})
					}
				case m.GetErrorData() != nil && !evidenced[va]:
					// the last validator disagrees about the error text
					text := "reverted"
					if k == 3 {
						text = "reverted!"
					}
					add(v.Actor, world.Evidence(v, q, m.GetId(), &evmtypes.SmartContractExecutionErrorProof{ErrorMessage: text}))
				case m.GetPublicAccessData() != nil && !evidenced[va]:
					if k == 3 {
						// the last validator did not see the transaction succeed
						add(v.Actor, world.Evidence(v, q, m.GetId(), &evmtypes.SmartContractExecutionErrorProof{ErrorMessage: "not found"}))
						continue
					}
					if m.GetId()%4 == 1 {
						// a correction: the validator first reports that it did not find the transaction and
						// then, in the same block, reports the delivery (its later evidence replaces the earlier)
						add(v.Actor, world.Evidence(v, q, m.GetId(), &evmtypes.SmartContractExecutionErrorProof{ErrorMessage: "not found yet"}))
					}
					key := fmt.Sprintf("%s/%d", q, m.GetId())
					p := s.proofs[key]
					if p == nil {
						if p, err = evmref.Proof(w, rctx, ref, m); err != nil {
							continue // not ready (signatures below quorum)
						}
						if s.proofs == nil {
							s.proofs = map[string]*evmtypes.TxExecutedProof{}
						}
						s.proofs[key] = p
					}
					add(v.Actor, world.Evidence(v, q, m.GetId(), p))
				}
			}
		}
	}
	// the chain's other attestation queues (validator balances, reference block): sign, then report
	for _, sub := range []string{"validators-balances", "reference-block"} {
		oq := "evm/" + Ref + "/" + sub
		for _, m := range w.Queue(rctx, oq) {
			signed := map[string]bool{}
			for _, sd := range m.GetSignData() {
				signed[sdk.ValAddress(sd.ValAddress).String()] = true
			}
			evidenced := map[string]bool{}
			for _, ev := range m.GetEvidence() {
				evidenced[sdk.ValAddress(ev.ValAddress).String()] = true
			}
			cm, err := m.ConsensusMsg(w.App.AppCodec())
			if err != nil {
				continue
			}
			for _, v := range w.Vals {
				va := v.ValAddr.String()
				switch {
				case !signed[va]:
					add(v.Actor, w.SignQueued(v, oq, m))
				case !evidenced[va]:
					switch req := cm.(type) {
					case *evmtypes.ValidatorBalancesAttestation:
						res := &evmtypes.ValidatorBalancesAttestationRes{BlockHeight: 1000}
						for range req.HexAddresses {
							res.Balances = append(res.Balances, "1000000000000000000")
						}
						add(v.Actor, world.Evidence(v, oq, m.GetId(), res))
					case *evmtypes.ReferenceBlockAttestation:
						add(v.Actor, world.Evidence(v, oq, m.GetId(), &evmtypes.ReferenceBlockAttestationRes{BlockHeight: 12345, BlockHash: "0x00000000000000000000000000000000000000000000000000000000000abcde"}))
					}
				}
			}
		}
	}
	// skyway batches
	batches, _ := w.App.SkywayKeeper.GetOutgoingTxBatches(rctx)
	for _, b := range batches {
		tc := b.TokenContract.GetAddress().Hex()
		for k, v := range w.Vals {
			if b.GasEstimate == 0 {
				if e, _ := w.App.SkywayKeeper.GetBatchGasEstimate(rctx, b.BatchNonce, b.TokenContract, v.ValAddr); e == nil {
					add(v.Actor, &skywaytypes.MsgEstimateBatchGas{Metadata: world.Meta(v.Actor), Nonce: b.BatchNonce, TokenContract: tc, EthSigner: v.EthAddr(), Estimate: uint64(30000 + 10*k)})
				}
				continue
			}
			if c, _ := w.App.SkywayKeeper.GetBatchConfirm(rctx, b.BatchNonce, b.TokenContract, v.Addr); c == nil {
				add(v.Actor, &skywaytypes.MsgConfirmBatch{Nonce: b.BatchNonce, TokenContract: tc, EthSigner: v.EthAddr(), Orchestrator: v.Addr.String(), Signature: world.SignCheckpoint(v, b.BytesToSign), Metadata: world.Meta(v.Actor)})
				continue
			}
			// all confirmed: report execution (first batch only; the second is left to time out)
			if b.BatchNonce <= 4 {
				last, _ := w.App.SkywayKeeper.GetLastSkywayNonceByValidator(rctx, v.ValAddr, Ref)
				lastObs, _ := w.App.SkywayKeeper.GetLastObservedSkywayNonce(rctx, Ref)
				if last == lastObs {
					add(v.Actor, world.BatchExecutedClaim(v, Ref, last+1, 20, b.BatchNonce, tc))
				}
			}
		}
	}
	_ = i
	return txs
}

// queries runs every registered palomachain.paloma.* gRPC query through the
// ABCI Query surface with default requests plus a small menu of arguments, and
// CheckTx of a transaction.
func (s *Script) Queries(height int64, t time.Time) { s.QueriesAt(0) }

// QueriesAt serves the whole read-only query menu once per given height (0 = latest committed
// state, otherwise a historical version) and returns how many queries were answered without error.
func (s *Script) QueriesAt(heights ...int64) (answered int) {
	w := s.W
	paths := queryMethods()
	menu := map[string][]string{}
	for _, v := range w.Vals {
		menu["valAddress"] = append(menu["valAddress"], v.ValAddr.String())
		menu["address"] = append(menu["address"], v.Addr.String())
	}
	menu["queueTypeName"] = []string{world.TurnstoneQueue(Ref)}
	menu["chainReferenceId"] = []string{Ref}
	menu["chainReferenceID"] = []string{Ref}
	for _, md := range paths {
		reqs := []proto.Message{dynamicpb.NewMessage(md.Input())}
		fields := md.Input().Fields()
		for fi := 0; fi < fields.Len(); fi++ {
			f := fields.Get(fi)
			for key, vals := range menu {
				if !strings.EqualFold(string(f.JSONName()), key) && !strings.EqualFold(string(f.Name()), key) {
					continue
				}
				for _, val := range vals {
					m := dynamicpb.NewMessage(md.Input())
					switch f.Kind() {
					case protoreflect.StringKind:
						m.Set(f, protoreflect.ValueOfString(val))
					case protoreflect.BytesKind:
						if key == "valAddress" {
							va, _ := sdk.ValAddressFromBech32(val)
							m.Set(f, protoreflect.ValueOfBytes(va))
						}
					}
					// also fill a queue name when the request has one
					if qf := md.Input().Fields().ByName("queueTypeName"); qf != nil && qf.Kind() == protoreflect.StringKind {
						m.Set(qf, protoreflect.ValueOfString(world.TurnstoneQueue(Ref)))
					}
					reqs = append(reqs, m)
				}
			}
		}
		for _, rq := range reqs {
			bz, err := proto.Marshal(rq)
			if err != nil {
				continue
			}
			path := fmt.Sprintf("/%s/%s", md.Parent().FullName(), md.Name())
			for _, qh := range heights {
				func() {
					defer func() { _ = recover() }()
					res, err := w.App.Query(nil, &abci.RequestQuery{Path: path, Data: bz, Height: qh})
					if err == nil && res != nil && res.Code == 0 {
						answered++
					}
				}()
			}
		}
	}
	// CheckTx / re-CheckTx of a harmless and of a failing transaction
	rctx := w.App.NewUncachedContext(false, w.Root.BlockHeader())
	_ = rctx
	return answered
}

var cachedMethods []protoreflect.MethodDescriptor

func queryMethods() []protoreflect.MethodDescriptor {
	if cachedMethods != nil {
		return cachedMethods
	}
	gogoproto.HybridResolver.RangeFiles(func(fd protoreflect.FileDescriptor) bool {
		if !strings.HasPrefix(string(fd.Package()), "palomachain.paloma.") {
			return true
		}
		svcs := fd.Services()
		for i := 0; i < svcs.Len(); i++ {
			svc := svcs.Get(i)
			if svc.Name() != "Query" {
				continue
			}
			ms := svc.Methods()
			for j := 0; j < ms.Len(); j++ {
				cachedMethods = append(cachedMethods, ms.Get(j))
			}
		}
		return true
	})
	return cachedMethods
}
