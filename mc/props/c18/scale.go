package main

// Scale + genesis pass of C18 (not part of the BFS): collections are exercised
// beyond the SDK's default page size (100). From a pristine configured state N
// pending licences are created through the real message path; then the
// licence listing (keeper and gRPC query) must return all N and cover the
// escrow, the paloma genesis export → JSON → import must reproduce the module
// store byte-identically and re-export identically, and licensees at the end
// of creation order and of key order can still activate afterwards.

import (
	"bytes"
	"fmt"

	sdk "github.com/cosmos/cosmos-sdk/types"
	vestingtypes "github.com/cosmos/cosmos-sdk/x/auth/vesting/types"
	palomamodule "github.com/palomachain/paloma/v2/x/paloma"
	palomatypes "github.com/palomachain/paloma/v2/x/paloma/types"
	"github.com/palomachain/paloma/v2/zzverif/explore"
	"github.com/palomachain/paloma/v2/zzverif/report"
	"github.com/palomachain/paloma/v2/zzverif/world"
	"google.golang.org/protobuf/types/known/emptypb"
)

var scaleSizes = []int{1, 99, 100, 101, 250}

const scaleScenario = "scale-genesis"

func (e *env) scalePass(r *report.Run, shard, nshards int) {
	for i, n := range scaleSizes {
		if nshards > 1 && i%nshards != shard {
			continue
		}
		if f := e.scaleOne(n); f != nil {
			r.Violate(f.Signature, f.Message, map[string]interface{}{"scenario": scaleScenario, "n": n})
		}
		e.cnt["scale_genesis_cases"]++
		e.cnt["scale_licences_created"] += float64(n)
	}
}

func (e *env) scaleOne(n int) (fail *explore.Fail) {
	defer func() {
		if r := recover(); r != nil {
			fail = explore.Failf("scale-panic", "N=%d: panic: %v", n, r)
		}
	}()
	w := e.w
	k := w.App.PalomaKeeper
	cdc := w.App.AppCodec()
	ctx := world.Fork(w.Root)
	must(e.setFunders(ctx, true))
	must(palomamodule.NewPalomaProposalHandler(k)(ctx, &palomatypes.SetLightNodeClientFeegranterProposal{
		Title: "fg", Description: "fg", FeegranterAccount: e.FG.Addr.String()}))

	// N pending licences of 1 ugrain / 1 month for distinct fresh addresses, through signed txs of F2
	clients := make([]*world.Actor, n)
	for i := range clients {
		clients[i] = world.NewActor(fmt.Sprintf("scale-%d", i))
		res := w.DeliverTx(ctx, []*world.Actor{e.F[1]}, &palomatypes.MsgAddLightNodeClientLicense{Metadata: world.Meta(e.F[1]),
			ClientAddress: clients[i].Addr.String(), Amount: coin(1, world.BondDenom), VestingMonths: 1})
		if !res.OK() {
			return explore.Failf("harness-scale", "N=%d: licence %d rejected in %s: %v", n, i, res.Stage, res.Err)
		}
	}
	stored := len(w.StoreDump(ctx, palomatypes.StoreKey, palomatypes.LightNodeClientLicenseKeyPrefix))
	if stored != n {
		return explore.Failf("harness-scale", "N=%d: %d keys under the licence prefix", n, stored)
	}

	// (a) the listing returns every pending licence and covers the escrow
	all, err := k.AllLightNodeClientLicenses(ctx)
	if err != nil || len(all) != n {
		return explore.Failf("scale-licence-listing", "N=%d pending licences stored, AllLightNodeClientLicenses returns %d (err=%v)", n, len(all), err)
	}
	q, err := k.GetLightNodeClientLicenses(ctx, &emptypb.Empty{})
	if err != nil || len(q.LightNodeClientLicenses) != n {
		return explore.Failf("scale-licence-listing", "N=%d pending licences stored, the licences query returns %d (err=%v)", n, len(q.GetLightNodeClientLicenses()), err)
	}
	sum := sdk.NewCoins()
	for _, l := range all {
		sum = sum.Add(l.Amount)
	}
	if esc := w.App.BankKeeper.GetAllBalances(ctx, e.module); !esc.Equal(sum) {
		return explore.Failf("scale-escrow-cover", "N=%d: escrow %q, listed pending licences total %q", n, esc, sum)
	}

	// (b) export → JSON → validate → import (module store wiped first; bank / auth carry over as in a full export)
	gs := palomamodule.ExportGenesis(ctx, k)
	bz := cdc.MustMarshalJSON(gs)
	var gs2 palomatypes.GenesisState
	if err := cdc.UnmarshalJSON(bz, &gs2); err != nil {
		return explore.Failf("genesis-roundtrip", "N=%d: exported genesis does not parse: %v", n, err)
	}
	if err := gs2.Validate(); err != nil {
		return explore.Failf("genesis-roundtrip", "N=%d: exported genesis invalid: %v", n, err)
	}
	if len(gs2.LightNodeClientLicenses) != n {
		return explore.Failf("genesis-export-licences", "N=%d pending licences stored, the exported genesis carries %d", n, len(gs2.LightNodeClientLicenses))
	}
	tgt := world.Fork(ctx)
	st := tgt.KVStore(w.App.GetKey(palomatypes.StoreKey))
	var keys [][]byte
	it := st.Iterator(nil, nil)
	for ; it.Valid(); it.Next() {
		keys = append(keys, append([]byte{}, it.Key()...))
	}
	it.Close()
	for _, key := range keys {
		st.Delete(key)
	}
	palomamodule.InitGenesis(tgt, k, gs2)
	if d := world.DiffDumps(w.StoreDump(ctx, palomatypes.StoreKey, nil), w.StoreDump(tgt, palomatypes.StoreKey, nil)); len(d) != 0 {
		return explore.Failf("genesis-roundtrip-store", "N=%d: paloma store after export/import differs in %d keys (first: %s)", n, len(d), d[0])
	}
	if bz2 := cdc.MustMarshalJSON(palomamodule.ExportGenesis(tgt, k)); !bytes.Equal(bz, bz2) {
		return explore.Failf("genesis-reexport", "N=%d: re-export after import differs from the first export (%d vs %d bytes)", n, len(bz2), len(bz))
	}

	// (c) licensees at the end of creation order and of key order still activate after the round trip
	last := clients[0]
	for _, c := range clients {
		if c.Addr.String() > last.Addr.String() {
			last = c
		}
	}
	for _, c := range []*world.Actor{clients[n-1], last} {
		cc := world.Fork(tgt)
		res := w.DeliverTx(cc, []*world.Actor{c}, &palomatypes.MsgRegisterLightNodeClient{Metadata: world.Meta(c)})
		if !res.OK() {
			return explore.Failf("genesis-roundtrip-activation", "N=%d: licensee %s cannot activate after export/import: %v", n, c.Name, res.Err)
		}
		_, isVesting := w.App.AccountKeeper.GetAccount(cc, c.Addr).(*vestingtypes.ContinuousVestingAccount)
		left, _ := k.AllLightNodeClientLicenses(cc)
		if !isVesting || e.bal(cc, c.Addr, world.BondDenom) != 1 || e.bal(cc, e.module, world.BondDenom) != int64(n-1) || len(left) != n-1 {
			return explore.Failf("genesis-roundtrip-activation", "N=%d: after activation of %s: vesting=%v balance=%d escrow=%d pending=%d", n, c.Name, isVesting,
				e.bal(cc, c.Addr, world.BondDenom), e.bal(cc, e.module, world.BondDenom), len(left))
		}
	}
	return nil
}
