package main

import (
	"bytes"
	"fmt"
	"time"

	sdk "github.com/cosmos/cosmos-sdk/types"
	ctypes "github.com/palomachain/paloma/v2/x/consensus/types"
	evmtypes "github.com/palomachain/paloma/v2/x/evm/types"
	"github.com/palomachain/paloma/v2/zzverif/world"
)

// ---------------------------------------------------------------------------
// (d) assignment on the retry path: a failed SubmitLogicCall is re-enqueued
// (up to two times) by the attestation of its error proof; the re-enqueued
// message is judged with the same oracle as a first assignment.

type caseD struct {
	Opts [3]int `json:"opts"`
	MEV  bool   `json:"mev_required"`
	T    int    `json:"t"`
}

func (c caseD) String() string {
	return fmt.Sprintf("table[v0=%s v1=%s v2=%s] mev_required=%v t=+%ds", decode(c.Opts[0]), decode(c.Opts[1]), decode(c.Opts[2]), c.MEV, c.T)
}

// rowsD: quick = the four fully eligible rows (MEV trait x fee 0.5/1.0) and one
// row per single missing condition; thorough = every row missing at most one of
// the four base conditions (18 rows).
func (e *env) rowsD() []int {
	if !e.r.Thorough() {
		return []int{23, 39, 31, 47, 46, 45, 43, 15}
	}
	var rows []int
	for o := 0; o < nOpt; o++ {
		if failing(o) <= 1 {
			rows = append(rows, o)
		}
	}
	return rows
}

type origCall struct {
	bz []byte
}

func normalisedCall(slc *evmtypes.SubmitLogicCall) []byte {
	cp := *slc
	cp.Retries = 0
	cp.Fees = nil
	bz, err := cp.Marshal()
	must(err)
	return bz
}

// judgeD applies the assignment oracle to the only message in the queue, which
// must be attempt k (0 = first assignment, 1, 2 = retries) of the job's call.
func (e *env) judgeD(ctx sdk.Context, c caseD, k int, orig *origCall, prevID uint64, rec replayRec) (uint64, string, bool) {
	w, r := e.w, e.r
	pfx := "assign:"
	if k > 0 {
		pfx = "retry:"
	}
	what := fmt.Sprintf("%s attempt %d", c, k)
	msgs := w.Queue(ctx, e.queue)
	if len(msgs) != 1 {
		r.Violate(pfx+"queue-shape", fmt.Sprintf("%s: %d messages in the queue (want exactly the attempt's message)", what, len(msgs)), rec)
		return 0, "", false
	}
	m := msgs[0]
	if m.GetId() == prevID {
		r.Violate(pfx+"failed-message-not-replaced", fmt.Sprintf("%s: message %d is still the failed one", what, prevID), rec)
		return 0, "", false
	}
	cm, err := m.ConsensusMsg(w.App.AppCodec())
	em, _ := cm.(*evmtypes.Message)
	if err != nil || em == nil || em.GetSubmitLogicCall() == nil {
		r.Violate(pfx+"queue-shape", fmt.Sprintf("%s: queued message is not a SubmitLogicCall: %v %T", what, err, cm), rec)
		return 0, "", false
	}
	slc := em.GetSubmitLogicCall()
	if !m.GetRequireGasEstimation() || !m.GetRequireSignatures() || m.GetGasEstimate() != 0 || slc.Fees != nil || len(m.GetSignData()) != 0 || m.GetErrorData() != nil || m.GetPublicAccessData() != nil {
		r.Violate(pfx+"message-not-fresh", fmt.Sprintf("%s: the enqueued message is not a fresh one (estimate %d, fees %v, %d signatures)", what, m.GetGasEstimate(), slc.Fees, len(m.GetSignData())), rec)
	}
	if slc.ExecutionRequirements.EnforceMEVRelay != c.MEV {
		r.Violate(pfx+"mev-requirement-not-carried", fmt.Sprintf("%s: the job's EnforceMEVRelay=%v, the enqueued call carries %v", what, c.MEV, slc.ExecutionRequirements.EnforceMEVRelay), rec)
	}
	if int(slc.Retries) != k {
		r.Violate(pfx+"retry-counter", fmt.Sprintf("%s: call carries retries=%d", what, slc.Retries), rec)
	}
	if k == 0 {
		orig.bz = normalisedCall(slc)
	} else if !bytes.Equal(normalisedCall(slc), orig.bz) {
		r.Violate(pfx+"call-altered", fmt.Sprintf("%s: apart from the retry counter the re-enqueued call is not byte-identical with the first one", what), rec)
	}
	set, why := eligible(c.Opts, c.MEV)
	ai := e.valIndex(em.Assignee)
	if ai < 0 {
		r.Violate(pfx+"assignee-unknown", fmt.Sprintf("%s: assignee %q is no validator", what, em.Assignee), rec)
		return 0, "", false
	}
	if set&(1<<ai) == 0 {
		r.Violate(pfx+"ineligible-assignee:"+why[ai], fmt.Sprintf("%s: assigned to v%d which is not eligible (%s); reference eligible set %03b", what, ai, why[ai], set), rec)
		return 0, "", false // the lifecycle below needs an operational assignee
	}
	if em.AssigneeRemoteAddress != e.snapA[ai] {
		r.Violate(pfx+"remote-address-not-from-snapshot", fmt.Sprintf("%s: assignee v%d remote address %s, the current snapshot records %s", what, ai, em.AssigneeRemoteAddress, e.snapA[ai]), rec)
	}
	e.count(fmt.Sprintf("d_attempt_%d_assigned", k))
	return m.GetId(), em.Assignee, true
}

// failOnce drives one complete failed relay of message id: estimates,
// end-block (election + fees), signatures, the assignee's error data, error
// proofs from every validator, end-block (attestation, which re-enqueues).
func (e *env) failOnce(ctx *sdk.Context, c caseD, id uint64, assignee string) error {
	w := e.w
	for _, v := range w.Vals {
		if res := w.DeliverTx(*ctx, []*world.Actor{v.Actor}, world.Estimate(v, e.queue, id, 21000)); !res.OK() {
			return fmt.Errorf("estimate by %s: %w", v.Name, res.Err)
		}
	}
	if err, _ := world.Protect(func() error { return w.EndBlock(*ctx) }); err != nil {
		return fmt.Errorf("end-block (election): %w", err)
	}
	*ctx = world.Advance(*ctx, 1, time.Second)
	var m ctypes.QueuedSignedMessageI
	for _, q := range w.Queue(*ctx, e.queue) {
		if q.GetId() == id {
			m = q
		}
	}
	if m == nil || m.GetGasEstimate() != 21000 {
		return fmt.Errorf("message %d not elected", id)
	}
	for i, v := range w.Vals {
		if o := decode(c.Opts[i]); o.InSnap && !o.Acct {
			continue // no account on the target chain registered: cannot sign
		}
		if res := w.DeliverTx(*ctx, []*world.Actor{v.Actor}, w.SignQueued(v, e.queue, m)); !res.OK() {
			return fmt.Errorf("signature by %s: %w", v.Name, res.Err)
		}
	}
	a := w.Vals[e.valIndex(assignee)]
	if res := w.DeliverTx(*ctx, []*world.Actor{a.Actor}, &ctypes.MsgSetErrorData{MessageID: id, QueueTypeName: e.queue, Data: []byte("reverted"), Metadata: world.Meta(a.Actor)}); !res.OK() {
		return fmt.Errorf("error data: %w", res.Err)
	}
	for _, v := range w.Vals {
		if res := w.DeliverTx(*ctx, []*world.Actor{v.Actor}, world.Evidence(v, e.queue, id, &evmtypes.SmartContractExecutionErrorProof{ErrorMessage: "reverted"})); !res.OK() {
			return fmt.Errorf("evidence by %s: %w", v.Name, res.Err)
		}
	}
	if err, _ := world.Protect(func() error { return w.EndBlock(*ctx) }); err != nil {
		return fmt.Errorf("end-block (attestation): %w", err)
	}
	*ctx = world.Advance(*ctx, 1, time.Second)
	return nil
}

func (e *env) evalD(txs aTxs, c caseD) {
	w, r := e.w, e.r
	rec := replayRec{Part: "d", D: &c}
	tctx := world.Fork(w.Root)
	e.applyTable(tctx, c.Opts, false)
	ctx := world.At(tctx, tctx.BlockHeight(), txs.t0.Add(time.Duration(c.T)*time.Second))
	tx := txs.n
	if c.MEV {
		tx = txs.m
	}
	set, _ := eligible(c.Opts, c.MEV)
	r.Case("")
	res := w.DeliverBuiltTx(ctx, tx)
	if res.Stage == "ante" || res.Stage == "build" || res.Stage == "validate" || res.Stage == "panic" {
		r.Violate("harness:d:tx-"+res.Stage, fmt.Sprintf("%s: execute-job tx failed in stage %s: %v", c, res.Stage, res.Err), rec)
		return
	}
	if !res.OK() {
		e.count("d_first_request_refused")
		if set != 0 {
			r.Violate("assign:request-failed-with-eligible-validator", fmt.Sprintf("%s: reference eligible set %03b is not empty but the request failed: %v", c, set, res.Err), rec)
		}
		return
	}
	r.DistinctN++
	var orig origCall
	id, assignee, ok := e.judgeD(ctx, c, 0, &orig, 0, rec)
	for k := 1; ok && k <= 3; k++ {
		if err := e.failOnce(&ctx, c, id, assignee); err != nil {
			r.Violate("harness:d:lifecycle", fmt.Sprintf("%s attempt %d: %v", c, k-1, err), rec)
			return
		}
		e.count("d_failed_relays_attested")
		if k == 3 {
			// the second retry failed as well: nothing more may be enqueued
			if msgs := w.Queue(ctx, e.queue); len(msgs) != 0 {
				r.Violate("retry:enqueued-after-last-retry", fmt.Sprintf("%s: %d messages in the queue after the second retry failed", c, len(msgs)), rec)
			}
			e.count("d_lifecycles_completed")
			break
		}
		id, assignee, ok = e.judgeD(ctx, c, k, &orig, id, rec)
	}
	if ok && c.MEV && set == 1<<1 && c.Opts[0] == 23 {
		e.sample("d", map[string]interface{}{"part": "d", "case": c.String(), "eligible": fmt.Sprintf("%03b", set), "outcome": "first assignment and both retries to v1, nothing enqueued after the third failure"})
	}
}

func (e *env) partD(shard, nshards int) {
	txs := e.buildATxs()
	rows := e.rowsD()
	times := 1
	if e.r.Thorough() {
		times = 3
	}
	e.r.Extra["d_product"] = fmt.Sprintf("%d rows per validator (%d tables) x MEV{no,yes} x %d start time(s); each successful request is failed three times (estimates, election, signatures, error data, error proofs, attestation); block time advances 1 s per block", len(rows), len(rows)*len(rows)*len(rows), times)
	idx := 0
	for _, o0 := range rows {
		for _, o1 := range rows {
			for _, o2 := range rows {
				for _, mev := range []bool{false, true} {
					for t := 0; t < times; t++ {
						idx++
						if idx%nshards != shard {
							continue
						}
						if e.expired("d") {
							return
						}
						e.evalD(txs, caseD{Opts: [3]int{o0, o1, o2}, MEV: mev, T: t})
					}
				}
			}
		}
	}
}

func (e *env) replayD(c caseD) { e.evalD(e.buildATxs(), c) }
