package world

import (
	"fmt"
	"strings"
	"sync"

	"cosmossdk.io/log"
)

// CapLogger records warn/error log lines whose text or key-values match one of
// the needles (used to observe panics that module code recovers and only logs).
type CapLogger struct {
	mu      *sync.Mutex
	Needles []string
	Hits    *[]string
	prefix  string
}

func NewCapLogger(needles ...string) *CapLogger {
	return &CapLogger{mu: &sync.Mutex{}, Needles: needles, Hits: &[]string{}}
}

func (c *CapLogger) rec(msg string, kv ...any) {
	line := msg + c.prefix
	for _, x := range kv {
		line += " " + fmt.Sprint(x)
	}
	for _, n := range c.Needles {
		if strings.Contains(strings.ToLower(line), n) {
			c.mu.Lock()
			if len(*c.Hits) < 50 {
				if len(line) > 400 {
					line = line[:400]
				}
				*c.Hits = append(*c.Hits, line)
			}
			c.mu.Unlock()
			return
		}
	}
}

func (c *CapLogger) Reset() { c.mu.Lock(); *c.Hits = nil; c.mu.Unlock() }

func (c *CapLogger) Info(msg string, kv ...any)  {}
func (c *CapLogger) Debug(msg string, kv ...any) {}
func (c *CapLogger) Warn(msg string, kv ...any)  { c.rec(msg, kv...) }
func (c *CapLogger) Error(msg string, kv ...any) { c.rec(msg, kv...) }
func (c *CapLogger) With(kv ...any) log.Logger {
	n := *c
	for _, x := range kv {
		s := fmt.Sprint(x)
		if len(s) > 200 {
			s = s[:200]
		}
		n.prefix += " " + s
	}
	if len(n.prefix) > 1000 {
		n.prefix = n.prefix[:1000]
	}
	return &n
}
func (c *CapLogger) Impl() any { return c }
